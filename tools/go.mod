module veriftools

go 1.23
