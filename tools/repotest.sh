#!/bin/sh
# Runs the repository's own tests (guard off) on a scratch copy of /repo's HEAD plus its
# uncommitted changes, so that the fixture-rewriting tests never touch /repo itself.
#   tools/repotest.sh [packages...]      default: ./...
set -e
WT=/tmp/wt-repotest
if [ ! -d "$WT" ]; then git -C /repo worktree add -q --detach "$WT" HEAD; fi
git -C "$WT" checkout -q -- . && git -C "$WT" clean -qfd && git -C "$WT" checkout -q --detach "$(git -C /repo rev-parse HEAD)"
git -C /repo diff HEAD > /tmp/wt-repotest.diff
if [ -s /tmp/wt-repotest.diff ]; then git -C "$WT" apply /tmp/wt-repotest.diff; fi
cd "$WT"
pk="${*:-./...}"
env -u GOFLAGS GOPROXY=off GOSUMDB=off GOTOOLCHAIN=local go test -p 1 -vet=off -count=1 $pk 2>&1 | grep -E "^(ok|FAIL|--- FAIL|panic)" | grep -v "no test files" || true
git -C "$WT" checkout -q -- . ; git -C "$WT" clean -qfd
