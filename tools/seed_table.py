#!/usr/bin/env python3
"""Prints the markdown table of DESIGN.md section 11 from seeded/*/meta.json."""
import json, glob, os
rows = []
for d in sorted(glob.glob('/verif/seeded/*')):
    m = json.load(open(d + '/meta.json'))
    rows.append((os.path.basename(d), m.get('summary', '').replace('|', '\\|').replace('\n', ' '), m.get('needs', '').replace('|', '\\|').replace('\n', ' '), m.get('result', '').replace('|', '\\|')))
print("| seed | what the change does | what it needs to manifest | result |")
print("|---|---|---|---|")
for r in rows:
    print("| %s | %s | %s | %s |" % (r[0], r[1][:400], r[2][:300], r[3]))
