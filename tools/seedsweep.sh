#!/bin/bash
# Runs the quick (or $TIER) check of every claimed property at several VERIF_SEED values on the unchanged tree
# and prints one line per run:  tools/seedsweep.sh "7 8 9" [parallelism]   (meant for `vp run`)
seeds=${1:-"7 8 9 10"}; par=${2:-4}
cd "$(dirname "$0")/.."
one() {
  id=$1; shift
  for s in $*; do
    t0=$(date +%s)
    out=$(VERIF_SEED=$s timeout 3000 bin/check $id ${TIER:-quick} 2>&1); rc=$?
    echo "$id seed=$s rc=$rc $(( $(date +%s)-t0 ))s $(echo "$out" | grep -E 'VIOLATION|INCONCL|KNOWN-FINDING' | head -3 | tr '\n' ' ' | cut -c1-400)"
    if [ $rc -ne 0 ]; then echo "$out" | tail -40 | sed "s/^/    [$id s=$s] /"; fi
  done
}
export -f one; export TIER
cat bin/claimed.txt | xargs -P $par -I{} bash -c "one {} $seeds"
echo sweep done
