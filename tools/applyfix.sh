#!/bin/bash
# tools/applyfix.sh <patch> "<subject>" "<body>" [test packages...]  — applies one proposed repair to /repo as a fix: commit
set -e
P=$1; SUBJ=$2; BODY=$3; shift 3
cd /repo
git apply "$P" || patch -p1 -F3 < "$P"
env -u GOFLAGS GOPROXY=off GOSUMDB=off GOTOOLCHAIN=local go build ./... 
out=$(/verif/tools/repotest.sh "${@:-./pkg/... ./cmd/ ./analysis/...}")
echo "$out" | grep -v "^ok" | grep -v "TestNewTodoApp\|application/todo\|^FAIL$" && { echo "REPO TESTS CHANGED"; exit 1; } || true
git commit -q -am "$SUBJ

$BODY"
git log --oneline -1
