#!/usr/bin/env python3
"""Replaces the generated tables of DESIGN.md (section 9 findings, section 11 seeds) in place."""
import subprocess, re
p = '/verif/DESIGN.md'
lines = open(p).read().split('\n')
def replace(header_prefix, tool):
    new = subprocess.check_output(['python3', tool], text=True).rstrip('\n').split('\n')
    i = next(k for k, l in enumerate(lines) if l.startswith(header_prefix))
    j = i
    while j < len(lines) and lines[j].startswith('|'):
        j += 1
    lines[i:j] = new
replace('| property | status | commit in /repo |', '/verif/tools/findings_table.py')
replace('| seed | what the change does |', '/verif/tools/seed_table.py')
replace('| ID | sub-checks (quick cases / thorough cases per shard', '/verif/tools/status_table.py')
open(p, 'w').write('\n'.join(lines))
