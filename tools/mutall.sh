#!/bin/bash
# tools/mutall.sh [N=40] [parallel properties=2] [workers per property=3] — mutation sweep over all claimed properties
cd "$(dirname "$0")/.."
N=${1:-40}; P=${2:-2}; W=${3:-3}
cat bin/claimed.txt | xargs -P $P -I{} python3 tools/mutsweep.py {} $N ${MUT_SEED:-1} $W
echo mutall done
