#!/bin/bash
# Evaluates one seeded change:  tools/seedeval.sh <ID> <dir-with-patch.diff+meta.json+demo> [checks...]
# 1. demo passes on the unchanged tree, 2. fails with the patch, 3. the listed checks (default: the
# property's own) are run against the patched tree. Uses a scratch worktree that is removed afterwards.
ID=$1; SRC=$2; shift 2
CHECKS=${*:-$ID}
WT=/tmp/wt-seedeval-$$
git -C /repo worktree add -q --detach $WT HEAD
trap "git -C /repo worktree remove --force $WT" EXIT
export GOPROXY=off GOSUMDB=off GOTOOLCHAIN=local; unset GOFLAGS
place=$(python3 -c "import json,sys;m=json.load(open('$SRC/meta.json'));print(m.get('demo_placement') or m.get('demo_path') or '')")
cmd=$(python3 -c "import json;print(json.load(open('$SRC/meta.json'))['demo_cmd'])")
echo "demo_cmd: $cmd"; echo "placement: $place"
for f in $SRC/*_test.go $SRC/*.go; do [ -f "$f" ] || continue; echo "demo file: $f"; done
if [ -n "$DEMO_DEST" ]; then for f in $SRC/*.go; do [ -f "$f" ] && cp "$f" "$WT/$DEMO_DEST/"; done; fi
( cd $WT && timeout 600 bash -c "$cmd" > /tmp/seedeval-clean.log 2>&1 ); echo "demo on unchanged tree: exit $?"
( cd $WT && git apply $SRC/patch.diff ) || { echo "PATCH DOES NOT APPLY"; exit 1; }
( cd $WT && timeout 600 bash -c "$cmd" > /tmp/seedeval-patched.log 2>&1 ); echo "demo on patched tree: exit $?"
( cd $WT && go build ./... ) && echo "patched tree builds"
for c in $CHECKS; do
  ( cd /verif && VERIF_REPO=$WT timeout 1800 bin/check $c ${TIER:-quick} 2>&1 | grep -E "^shard|VIOLATION|held on|INCONCL|BUILD|KNOWN" | cut -c1-300 | head -6 )
done
