#!/bin/bash
# Re-runs one kept seed against the current checks:  tools/seedrerun.sh <seed-dir-name>  (e.g. C07-2)
# Applies seeded/<name>/patch-rebased.diff if present, else patch.diff, to a scratch worktree of /repo HEAD,
# builds, runs the property's quick check (TIER=thorough for the other tier) and prints one line.
name=$1; id=${name%%-*}
SRC=/verif/seeded/$name
WT=/tmp/wt-seedrerun-$name
git -C /repo worktree add -q --detach $WT HEAD || exit 2
trap "git -C /repo worktree remove --force $WT; rm -rf /verif/harness/.build/alt-$(python3 -c "import hashlib;print(hashlib.sha1('$WT'.encode()).hexdigest()[:8])")" EXIT
export GOPROXY=off GOSUMDB=off GOTOOLCHAIN=local; unset GOFLAGS
p=$SRC/patch.diff; [ -f $SRC/patch-rebased.diff ] && p=$SRC/patch-rebased.diff
( cd $WT && git apply $p 2>/dev/null ) || ( cd $WT && git apply -3 $p 2>/dev/null ) || { echo "$name: PATCH-DOES-NOT-APPLY ($p)"; exit 0; }
( cd $WT && go build ./... 2>&1 | tail -3 ) | grep -q . && { echo "$name: PATCHED-TREE-DOES-NOT-BUILD"; exit 0; }
out=$(cd /verif && VERIF_REPO=$WT VERIF_SEED=${VERIF_SEED:-1} timeout 2400 bin/check $id ${TIER:-quick} 2>&1)
rc=$?
nr=$(echo "$out" | grep -c '^VIOLATION .*replay=/verif/replays/')
ns=$(echo "$out" | grep -c '^VIOLATION .*replay=/verif/harness/.build/')
echo "$name: rc=$rc saved-case-tier=$nr generated-search=$ns $(echo "$out" | grep -E 'held on|INCONCL|BUILD' | head -1 | cut -c1-160)"
