#!/bin/bash
# thorough tier of the anyjava sub-checks only, at one seed:  tools/anysoak.sh [seed]
cd "$(dirname "$0")/.."
for id in C01 C02 C06; do
  VERIF_SEED=${1:-1} VERIF_ONLY=anyjava bin/check $id thorough 2>&1 | grep -v "gitignore\|parse java" | tail -25 | cut -c1-600
done
echo soak done
