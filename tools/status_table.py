#!/usr/bin/env python3
"""Prints the markdown table of DESIGN.md section 8.3 from the check sources: sub-checks with their quick / thorough case counts,
saved cases, native fuzz targets."""
import re, glob, json, os
print("| ID | sub-checks (quick cases / thorough cases per shard; 16 shards) | saved cases | native fuzz (thorough) |")
print("|----|------|----|----|")
for d in sorted(glob.glob('/verif/harness/c[0-9][0-9]')):
    pid = os.path.basename(d).upper()
    subs = []
    for f in sorted(glob.glob(d + '/*_test.go')):
        for m in re.finditer(r'pbt\.Register(?:\[[^\]]+\])?\(\s*"([a-z_0-9]+)",\s*([0-9a-zA-Z_]+),\s*([0-9a-zA-Z_*]+)', open(f).read()):
            subs.append("%s (%s / %s)" % m.groups())
    st = {}
    if os.path.exists(d + '/settings.json'):
        st = json.load(open(d + '/settings.json'))
    fz = ", ".join("%s %s" % (t, s) for t, s in st.get('fuzz', [])) or "-"
    nrep = len(glob.glob('/verif/replays/%s/*.json' % pid))
    print("| %s | %s | %d | %s |" % (pid, ", ".join(subs), nrep, fz))
