#!/bin/bash
# Evaluates one delivered seed of the third batch:  tools/seedround3.sh <ID>   (reads ${SEEDOUT:-/tmp/seedout3}/<ID>/)
id=$1; d=${SEEDOUT:-/tmp/seedout3}/$id
[ -f $d/meta.json ] || { echo "=== $id: no meta.json yet"; exit 0; }
dest=$(python3 - "$d" <<'PY'
import json,re,sys
m=json.load(open(sys.argv[1]+'/meta.json'))
c=m.get('demo_cmd','')
pk=re.findall(r'\./[\w/]+',c)
print(pk[-1].strip('./') if pk else '')
PY
)
echo "=== $id (demo dir: $dest)"
DEMO_DEST=$dest /verif/tools/seedeval.sh $id $d 2>&1 | grep -v "^demo file\|^demo_cmd\|^placement" | cut -c1-300 | tee $d/result.txt
