#!/bin/bash
# Evaluates every /tmp/seedout2/<ID>/1 seed against the property's quick check; prints one block per seed.
for d in /tmp/seedout2/C*/1; do
  id=$(basename $(dirname $d))
  [ -f $d/meta.json ] || { echo "=== $id: no meta.json yet"; continue; }
  [ -f /tmp/seedout2/$id/result.txt ] && { echo "=== $id: already evaluated"; continue; }
  dest=$(python3 - "$d" <<'PY'
import json,re,sys
m=json.load(open(sys.argv[1]+'/meta.json'))
c=m.get('demo_cmd','')
pk=re.findall(r'\./[\w/]+',c)
print(pk[-1].strip('./') if pk else '')
PY
)
  echo "=== $id (demo dir: $dest)"
  DEMO_DEST=$dest /verif/tools/seedeval.sh $id $d 2>&1 | grep -v "^demo file\|^demo_cmd\|^placement" | cut -c1-260 | tee /tmp/seedout2/$id/result.txt
done
