#!/usr/bin/env python3
"""Prints the markdown table of DESIGN.md section 9 from known_findings.json."""
import json, re
kf = json.load(open('/verif/known_findings.json'))
print("| property | status | commit in /repo | what failed | replay input |")
print("|---|---|---|---|---|")
for f in sorted(kf['findings'], key=lambda f: (f['property'], f['status'] != 'known')):
    if f['status'] == 'known':
        what = f['what']; commit = '-'
    else:
        what = re.sub(r'^fixed: property=\S+ \S+ ', '', f['line']); commit = f['commit']
    reps = [f['replay']] + f.get('more_replays', [])
    print("| %s | %s | %s | %s | %s |" % (f['property'], f['status'], commit, what.replace('|', '\\|'), ", ".join(r.split('/')[-1] for r in reps)))
