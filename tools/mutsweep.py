#!/usr/bin/env python3
"""Mutation sweep: small syntactic changes of the code a property is anchored in, each applied alone to a
scratch copy of /repo, filtered by `go build` and by the repository's own tests of the touched package
(+ cmd), then judged by the property's quick check (VERIF_REPO=<copy> bin/check <ID> quick).

    tools/mutsweep.py <ID> [N=24] [seed=1] [workers=4]

Writes one JSON line per mutant to /tmp/mut/results-<ID>.jsonl and prints a summary:
  build-fail | suite-killed (the existing tests notice it: not a realistic change) | caught | SURVIVED | inconclusive
Survivors are what to read: each is either equivalent on the property's domain or a gap of the check.
Nothing is written to /repo; every scratch copy is removed when its mutant is done.
"""
import json, os, random, re, shutil, subprocess, sys, hashlib
from concurrent.futures import ThreadPoolExecutor

ROOT = os.path.dirname(os.path.dirname(os.path.abspath(__file__)))
pid = sys.argv[1]
N = int(sys.argv[2]) if len(sys.argv) > 2 else 24
seed = int(sys.argv[3]) if len(sys.argv) > 3 else 1
workers = int(sys.argv[4]) if len(sys.argv) > 4 else 4
ENV = dict(os.environ, GOPROXY="off", GOSUMDB="off", GOTOOLCHAIN="local")
ENV.pop("GOFLAGS", None)

props = {json.loads(l)["id"]: json.loads(l) for l in open(os.path.join(ROOT, "properties.jsonl")) if l.strip()}
files = [f for f in props[pid]["anchors"]["files"] if f.endswith(".go") and not f.endswith("_test.go") and not f.startswith("languages/") and os.path.isfile("/repo/" + f)]
extra = os.environ.get("MUT_FILES")
if extra:
    files = extra.split(",")

OPS = [
    (r" == ", " != "), (r" != ", " == "), (r" < ", " <= "), (r" <= ", " < "), (r" > ", " >= "), (r" >= ", " > "),
    (r" && ", " || "), (r" \|\| ", " && "),
    (r"\+ 1\b", "+ 2"), (r"- 1\b", "- 0"), (r"\+ 1\b", "+ 0"),
    (r"\btrue\b", "false"), (r"\bfalse\b", "true"),
    (r"strings\.HasSuffix\(", "strings.HasPrefix("), (r"strings\.HasPrefix\(", "strings.HasSuffix("),
    (r"strings\.Contains\(", "strings.HasPrefix("), (r"strings\.TrimSpace\(([^()]*)\)", r"\1"),
    (r"\bcontinue\b", "break"), (r"\bbreak\b", "continue"),
    (r"^(\s*)if (.+) \{$", r"\1if !(\2) {"),
    (r"\[0\]", "[1]"), (r"\[1\]", "[0]"), (r"\[1:\]", "[0:]"), (r"len\(([a-zA-Z_.]+)\)-1", r"len(\1)-2"),
    (r"\b([2-9]|[1-9][0-9])\b", lambda m: str(int(m.group(1)) + 1)),
    (r"\b([2-9]|[1-9][0-9])\b", lambda m: str(int(m.group(1)) - 1)),
    ("DELETE", None),
]

def candidates():
    out = []
    for f in files:
        lines = open("/repo/" + f).read().split("\n")
        in_block_comment = False
        depth_func = False
        for i, l in enumerate(lines):
            s = l.strip()
            if s.startswith("/*"):
                in_block_comment = True
            if in_block_comment:
                if "*/" in s:
                    in_block_comment = False
                continue
            if l.startswith("func "):
                depth_func = True
            if l.startswith("}"):
                depth_func = False
            if not depth_func or not s or s.startswith("//") or l.startswith("func "):
                continue
            code = l.split("//")[0] if '"' not in l else l
            for k, (pat, rep) in enumerate(OPS):
                if pat == "DELETE":
                    # a statement on its own line: assignment, append, call, continue/break/return without value
                    if re.match(r"^\s+[A-Za-z_][\w.\[\]\"]*(\(.*\)|\s*(=|\+=|:=)\s*.+|\+\+|--)$", l) and not s.endswith("{") and not s.endswith(","):
                        out.append((f, i, k, ""))
                    continue
                for m in list(re.finditer(pat, code))[:2]:
                    new = code[:m.start()] + (m.expand(rep) if isinstance(rep, str) else rep(m)) + code[m.end():]
                    if new != l:
                        out.append((f, i, k, new))
    return out

cands = candidates()
random.Random(seed * 7919 + int(hashlib.sha1(pid.encode()).hexdigest()[:6], 16)).shuffle(cands)
# spread over files and lines: at most one mutant per (file, line)
seen, chosen = set(), []
for c in cands:
    if (c[0], c[1]) in seen:
        continue
    seen.add((c[0], c[1]))
    chosen.append(c)
    if len(chosen) >= N:
        break
os.makedirs("/tmp/mut", exist_ok=True)
resfile = "/tmp/mut/results-%s.jsonl" % pid

def run(cmd, cwd, timeout, env=ENV):
    try:
        p = subprocess.run(cmd, cwd=cwd, env=env, stdout=subprocess.PIPE, stderr=subprocess.STDOUT, timeout=timeout, text=True, errors="replace")
        return p.returncode, p.stdout
    except subprocess.TimeoutExpired as e:
        return "timeout", (e.stdout or b"").decode(errors="replace") if isinstance(e.stdout, bytes) else (e.stdout or "")

def one(idx_c):
    idx, (f, i, k, new) = idx_c
    d = "/tmp/mut/%s-%d" % (pid, idx)
    subprocess.run(["git", "-C", "/repo", "worktree", "remove", "--force", d], stdout=subprocess.DEVNULL, stderr=subprocess.DEVNULL)
    shutil.rmtree(d, ignore_errors=True)
    for attempt in range(5):
        if subprocess.run(["git", "-C", "/repo", "worktree", "add", "-q", "--detach", d, "HEAD"], stdout=subprocess.DEVNULL, stderr=subprocess.DEVNULL).returncode == 0:
            break
        import time
        time.sleep(1 + attempt)
    else:
        raise SystemExit("cannot create worktree " + d)
    lines = open(d + "/" + f).read().split("\n")
    old = lines[i]
    if new == "":
        lines[i] = "\t_ = 0 // deleted: " + old.strip() if False else ""
    else:
        lines[i] = new
    open(d + "/" + f, "w").write("\n".join(lines))
    rec = {"property": pid, "file": f, "line": i + 1, "old": old.strip(), "new": new.strip() if new else "<deleted>"}
    alt = os.path.join(ROOT, "harness", ".build", "alt-" + hashlib.sha1(d.encode()).hexdigest()[:8])
    try:
        rc, out = run(["go", "build", "./..."], d, 600)
        if rc != 0:
            rec["verdict"] = "build-fail"
            return rec
        rc, out = run(["go", "vet", "./" + os.path.dirname(f)], d, 600)
        pk = ["./" + os.path.dirname(f) + "/...", "./cmd/"]
        rc, out = run(["go", "test", "-p", "1", "-vet=off", "-count=1"] + pk, d, 900)
        bad = [l for l in out.split("\n") if l.startswith("--- FAIL") or l.startswith("panic") or (l.startswith("FAIL") and "\t" in l)]
        bad = [l for l in bad if "TestNewTodoApp" not in l and "application/todo" not in l and "TestRenameMethodApp" not in l and "TestMoveClassApp" not in l]
        if rc == "timeout" or bad:
            rec["verdict"] = "suite-killed"
            rec["suite"] = bad[:3]
            return rec
        env = dict(ENV, VERIF_REPO=d, VERIF_SEED=os.environ.get("VERIF_SEED", "1"))
        rc, out = run([os.path.join(ROOT, "bin", "check"), pid, os.environ.get("TIER", "quick")], ROOT, 2400, env)
        if rc == 1 and "VIOLATION property=" in out:
            rec["verdict"] = "caught"
            v = [l for l in out.split("\n") if l.startswith("shard") or l.startswith("REPLAY-VIOLATION")]
            rec["how"] = (v[0] if v else "")[:200]
        elif rc == 0:
            rec["verdict"] = "SURVIVED"
        else:
            rec["verdict"] = "inconclusive"
            rec["tail"] = out[-400:]
        return rec
    finally:
        subprocess.run(["git", "-C", "/repo", "worktree", "remove", "--force", d], stdout=subprocess.DEVNULL, stderr=subprocess.DEVNULL)
        shutil.rmtree(d, ignore_errors=True)
        shutil.rmtree(alt, ignore_errors=True)

with ThreadPoolExecutor(workers) as ex, open(resfile, "a") as fh:
    tally = {}
    for rec in ex.map(one, enumerate(chosen)):
        fh.write(json.dumps(rec) + "\n")
        fh.flush()
        tally[rec["verdict"]] = tally.get(rec["verdict"], 0) + 1
        if rec["verdict"] in ("SURVIVED", "inconclusive"):
            print("%s %s:%d  %s  ->  %s" % (rec["verdict"], rec["file"], rec["line"], rec["old"][:90], rec["new"][:90]), flush=True)
print(pid, "mutants", len(chosen), tally, flush=True)
