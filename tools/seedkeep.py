#!/usr/bin/env python3
"""Keeps evaluated seeds of a batch:  tools/seedkeep.py <outdir> <suffix> <origin-text> ID...   (copies <outdir>/<ID> to seeded/<ID>-<suffix>)"""
import json,os,shutil,glob,sys
out,suffix,origin=sys.argv[1:4]
for pid in sys.argv[4:]:
    src=os.path.join(out,pid); dst='/verif/seeded/%s-%s'%(pid,suffix)
    os.makedirs(dst,exist_ok=True)
    for f in glob.glob(src+'/*'):
        b=os.path.basename(f)
        if b in('result.txt','eval.log') or os.path.isdir(f): continue
        if b.startswith('suite_'): continue
        shutil.copy(f,dst+'/'+b)
    m=json.load(open(src+'/meta.json'))
    res=open(src+'/result.txt').read()
    assert 'demo on unchanged tree: exit 0' in res and 'demo on patched tree: exit 1' in res and 'patched tree builds' in res,(pid,res)
    m['breaks_property']=pid
    m['origin']=origin
    m['confirmed']="tools/seedeval.sh: demonstration exits 0 on the unchanged tree and 1 with the patch; patched tree builds; the agent reported the existing suite's pass/fail set unchanged"
    m['what_i_ran']="tools/seedround3.sh %s (applies patch.diff to a scratch worktree of /repo HEAD, runs the demo with and without it, then VERIF_REPO=<worktree> bin/check %s quick), before any change to the check in response to this seed"%(pid,pid)
    viol=[l for l in res.splitlines() if l.startswith('shard') or l.startswith('REPLAY-VIOLATION')]
    if 'VIOLATION property=' in res:
        m['result']="caught untouched by %s quick: %s"%(pid,(viol[0] if viol else '')[:260])
    else:
        m['result']="NOT caught untouched by %s quick"%pid
    json.dump(m,open(dst+'/meta.json','w'),indent=1,ensure_ascii=False)
    print(pid,m['result'][:110])
