package zz.nb ;
import static to.T.* ;
strictfp @interface String {
abstract String value ( ) ;
Foo x = switch ( value >>> x % b ) {
case Object foo && i. new Foo( ) -> {
$.Object< ? extends Bar , Outer> [] value = value ;
abstract class Object {
@interface Object {
}
public void x ( ) [] {
}
void a ( Object i , final Object.Bar record , Bar< T>.Object i , Foo< A , Foo> a , Foo b , String b ) {
}
static final void a ( Object b ) [] {
}
public Foo setName ( Object this , @Ann final String x , T< Object , Bar> foo , @Ann final Object b ) {
}
class Object extends Foo< B , Object>.Bar< B> {
}
private void value ( T.Bar foo ) {
}
A< A> i ( String provides , Object ge , пакет.b.Object x , Foo.B a , A< T> b , B.Bar foo ) {
}
}
yield b ;
}
default -> {
// TO
a %= new Foo.Outer( ) ;
if ( a ) {
x.x( ) ;
i.a( ) ;
i.a( ) ;
value.bar( ) ;
}
final class Bar extends A {
static final Object a , getX [] [] = getX ;
public abstract class T {
}
}
new B.Object< Object< T>.Outer>( ) ;
Object< B , B> b [] = bar -> bar ;
Foo setName = a ;
}
}
;
}
class Bar {
void value ( ) {
b = value = b ;
;
try {
@Override @ example.a.Object T b , bar , foo [] = bar ;
b [ a -> value ] = bar ;
}
catch ( @Test @A ( true ) Foo value ) {
@Ünï ( "/p" ) String to = // FIXME
String.Foo:: new ;
$T< Object , boolean []>.A value [] ;
}
;
do {
;
}
while ( - setName ) ;
;
}
}
;
sealed class String {
static final String foo ( String b ) {
}
}
class A {
T open [] = i( ).bar( foo ) [ foo ].foo ;
@Ann ( name = switch ( setName ) { case 0 -> value ; case Bar bar -> a -> // FIXME: ſ ı
foo ; } , value = 1 , path = @Ann ) @interface B {
String [ ] i ( ) default {
}
;
class $T < @Foo ( path = B.class , with = true ) U , Ünï extends Object< example.test.Bar> & Foo > implements T , T< A.A> permits Foo , Foo.Object , Bar {
}
}
;
public void opaA ( ) {
}
private void opbA ( ) {
}
void opcA ( ) {
}
static void opdA ( ) {
}
public void opeA ( ) {
}
private void opfA ( ) {
}
void opgA ( ) {
}
static void ophA ( ) {
}
public void opiA ( ) {
}
private void opjA ( ) {
}
void opkA ( ) {
}
static void oplA ( ) {
}
public void opmA ( ) {
}
private void opnA ( ) {
}
void opoA ( ) {
}
static void oppA ( ) {
}
public void opqA ( ) {
}
private void oprA ( ) {
}
void opsA ( ) {
}
static void optA ( ) {
}
public void opuA ( ) {
}
private void opvA ( ) {
}
void opwA ( ) {
}
static void opxA ( ) {
}
public void opyA ( ) {
}
private void opzA ( ) {
}
void bar ( ) {
new R0 ( ) {
void run ( ) {
}
}
;
new R1 ( ) {
void run ( ) {
}
}
;
new R2 ( ) {
void run ( ) {
}
}
;
new R3 ( ) {
void run ( ) {
}
}
;
new R4 ( ) {
void run ( ) {
}
}
;
new R5 ( ) {
void run ( ) {
}
}
;
new R6 ( ) {
void run ( ) {
}
}
;
new R7 ( ) {
void run ( ) {
}
}
;
new R8 ( ) {
void run ( ) {
}
}
;
}
Object o0 = new Object ( ) {
String s ;
}
;
Object o1 = new Object ( ) {
String s ;
}
;
Object o2 = new Object ( ) {
String s ;
}
;
Object o3 = new Object ( ) {
String s ;
}
;
Object o4 = new Object ( ) {
String s ;
}
;
Object o5 = new Object ( ) {
String s ;
}
;
Object o6 = new Object ( ) {
String s ;
}
;
Object o7 = new Object ( ) {
String s ;
}
;
Object o8 = new Object ( ) {
String s ;
}
;
String after ;
void useAfter ( ) {
after.trim( ) ;
}
}
public class Foo implements Outer.String< ? extends test.a.Object< ? extends short [] , A>> , String , Outer {
public static T value ( ) {
{
;
new T<>( i ) ;
}
}
class N0 {
String before0 ;
class N1 {
String before1 ;
interface N2 {
String before2 = "" ;
default void innermost ( ) {
before2.trim( ) ;
new Object ( ) {
String inAnonymous ;
}
;
}
String after2 = null ;
default void useAfter2 ( ) {
after2.m( ) ;
}
}
private String after1 ;
void useAfter1 ( ) {
after1.m( ) ;
before1.k( ) ;
}
}
private Foo after0 ;
void useAfter0 ( ) {
after0.m( ) ;
before0.k( ) ;
}
}
}
@Foo ( ) final @interface Bar {
}
class T extends пакет.b.Bar implements Outer< ? , ? extends List> , T {
}
class Foo {
void a ( ) {
( a.foo( a , x ) ).b( ) ;
Outer< ? extends float [] , Bar< ? extends Outer>> it ;
value.a( b.x , it | a , foo.open( ).foo. new < T , T< A>> Object( ) - x instanceof B ) ;
}
}
final class Bar implements Bar.Foo {
}
public enum T {
B , RED ;
static final void b ( String main , Foo< Bar , @Test ?>.A value , a.example.B ... open ) throws B {
new float [ b ] ;
String b , foo = b ;
}
}
interface _K extends lang.Object , A< zz.B , B.Object> , B< @Deprecated ? , A>.String {
String i ( ) ;
< T > void bar ( @Deprecated ( method = 0 ) @ with.open.Élan byte getName [] ) ;
@ пакет.Foo @A void i ( Object a ) ;
Foo x = xsuper. new B( ) ;
// заметка TODO 漢字
void b ( ) ;
}
class String {
void value ( ) {
}
void x ( @Ann ( value = 0 , value = { } , value = true ) A< A.X< long [] , ? extends Bar>> ... bar ) {
A< ? extends byte []> b , value = ( boolean ) b , x ;
//
@Override @Override пакет.A i ;
x.x( x. < Object> open( ) [ a ] ) ;
try {
class Foo {
void value ( Foo p ) {
a.b.T<X> v2 = null ;
run ( new Outer.Inner ( ) { Foo f1 ; class In1 { java.util.List<String> f0 ; Object g0 = b.open( ) ; Foo after0 ; } Foo after1 ; } ) ;
v2.m( ) ;
p.m( ) ;
}
Map.Entry<K, V> afterCombo ;
void useAfterCombo ( ) {
afterCombo.m( ) ;
}
private void x ( String a ) {
}
}
B.String foo = x <<= new B( ) ;
final Object b ;
return x ;
i = b ? a : value ? b : foo ;
while ( i ) {
bar.b( ) ;
bar.foo( ) ;
value.bar( ) ;
foo.bar( ) ;
bar.i( ) ;
a.a( ) ;
}
}
catch ( A x ) {
return i ;
a.ſ( b ) ;
// TODO(a.b+c@d): y
value( ) ;
}
value.a( switch ( a ) { case - 1 -> a ; } % i -- ) ;
}
void a ( String.A value ) {
}
void a ( String this ) {
// TODO: fix this
getName = i. < T< Foo> , Outer.B> value( bar ) ;
new Foo [ A::x ] [ x + a.open( ) ] ;
}
private Object [] @ with.lang.Object ( ) [] foo ;
}
public class Outer < K > {
void x ( ) throws B {
try {
{
}
if ( this.i ^= new long [ setName ] ) {
}
else {
}
-- b.foo ;
value = setName instanceof B && b ;
}
catch ( @Deprecated Outer | A g ) {
bar = a::value ;
throw a ;
}
foo.bar( foo. new Object( foo ) ) ;
//TODO(a)b
while ( value ) value.value( ) ;
while ( i ) {
foo.b( ) ;
try {
foo.x( ) ;
bar.i( ) ;
value.bar( ) ;
foo.b( ) ;
x.a( ) ;
b.a( ) ;
}
finally {
foo.a( ) ;
}
b = value ;
}
}
void b ( ) {
}
example.a.Object bar ( ) {
int x = foo ;
return ;
}
}
@Override ( 1 ) @Ann public enum A {
@Ann ( method = @Foo , with = 1 ) RED {
private @Override static void bar ( ) {
}
{
a -- ;
bar [ bar instanceof lang.b.Ω ] /= b ;
b.a( ) ;
class T {
@interface Bar {
}
public class Bar < Ünï extends @Ann ( 0 ) Foo > implements Foo.A , A , A {
void x ( ) {
}
void b ( ) {
}
}
public B.B b ;
static {
a.bar( ) ;
i.value( ) ;
}
@ b.String ( value = 0 , path = 42 ) float x ;
void i ( ) {
}
}
}
}
, }
class A {
}
class Object {
}
class Foo {
}
