package c12

import (
	"fmt"
	"os"
	"testing"
)

func TestProbe(t *testing.T) {
	dir := os.Getenv("PROBE_DIR")
	if dir == "" {
		t.Skip()
	}
	got, msg := scanInProcess(dir)
	fmt.Println("MSG:", msg)
	for _, e := range sorted(got) {
		fmt.Println("API:", e)
	}
}
