// C12 — extracted HTTP APIs are exactly the annotated Spring handler methods.
package c12

import (
	"encoding/json"
	"fmt"
	"os"
	"path/filepath"
	"regexp"
	"sort"
	"strings"
	"testing"

	"github.com/antlr/antlr4/runtime/Go/antlr/v4"
	parser "github.com/modernizing/coca/languages/java"
	"github.com/modernizing/coca/pkg/application/analysis/javaapp"
	"github.com/modernizing/coca/pkg/application/api"
	"github.com/modernizing/coca/pkg/domain/api_domain"
	"github.com/modernizing/coca/pkg/domain/core_domain"
	"github.com/modernizing/coca/pkg/infrastructure/ast/ast_java"
	"github.com/modernizing/coca/pkg/infrastructure/ast/ast_java/ast_api_java"
	"github.com/modernizing/coca/pkg/infrastructure/ast/ast_java/java_identify"
	"pgregory.net/rapid"

	"verif/internal/cli"
	"verif/internal/pbt"
)

// ---------------------------------------------------------------------------------------
// abstract description of a project

type Param struct {
	// Kind: plain | body | validBody | bodyValid | path | valid, and (added later, see paramPrefix)
	// bodyRequired | bodyThenFinal | finalThenBody | pathMarker | requestParam | header
	Kind string `json:"kind"`
	Type string `json:"type"`
	Name string `json:"name"`
}

type Method struct {
	Name string `json:"name"`
	// Form: "" plain method | "override" plain method with @Override |
	// "shorthand" @XMapping("/p") | "nopath" @XMapping | "shorthandValuePair" @XMapping(value = "/p") |
	// "requestValueFirst" @RequestMapping(value = "/p", method = RequestMethod.X) | "requestMethodFirst"
	Form   string  `json:"form"`
	Verb   string  `json:"verb,omitempty"` // GET POST PUT DELETE
	Path   string  `json:"path,omitempty"`
	Ret    string  `json:"ret"`
	Params []Param `json:"params,omitempty"`
	// optional variations added later (zero value = the plain variant of the older cases)
	Before      []string `json:"before,omitempty"`      // further annotations written before the mapping annotation
	After       []string `json:"after,omitempty"`       // ... and after it
	Pair        string   `json:"pair,omitempty"`        // one more element-value pair, e.g. produces = "text/plain" (forms with pairs; nopath: the only pair)
	PairPos     int      `json:"pairPos,omitempty"`     // 0 last, 1 first, 2 in the middle
	Parens      bool     `json:"parens,omitempty"`      // nopath written @GetMapping()
	VerbForm    string   `json:"verbForm,omitempty"`    // "" RequestMethod.X | static: X (static import) | array: {RequestMethod.X}
	Mods        string   `json:"mods,omitempty"`        // "" public | package | protected | public final | public synchronized
	Throws      bool     `json:"throws,omitempty"`      // throws IOException
	Body        string   `json:"body,omitempty"`        // "" | calls | lambda | anonymous | locals
	SameLine    bool     `json:"sameLine,omitempty"`    // annotations and signature on one line
	FieldBefore string   `json:"fieldBefore,omitempty"` // a field declaration (with its annotations) written before this method
}

type Class struct {
	Pkg        string   `json:"pkg"`
	Name       string   `json:"name"`
	Controller string   `json:"controller,omitempty"` // "" | RestController | Controller
	BaseForm   string   `json:"baseForm,omitempty"`   // "" | shorthand | valuePair
	Base       string   `json:"base,omitempty"`
	Field      bool     `json:"field,omitempty"`
	Ctor       bool     `json:"ctor,omitempty"`
	Tabs       bool     `json:"tabs,omitempty"`
	Tight      bool     `json:"tight,omitempty"` // value="/p" without blanks
	Comments   bool     `json:"comments,omitempty"`
	Methods    []Method `json:"methods"`
	// optional variations added later
	Kind       string   `json:"kind,omitempty"`       // "" class | interface (never a controller)
	Stereotype string   `json:"stereotype,omitempty"` // annotation of a class that is not a controller: @Service, @ControllerAdvice ...
	CtlArg     string   `json:"ctlArg,omitempty"`     // argument of the controller annotation: ("orderCtl") | (value = "orderCtl")
	Pre        []string `json:"pre,omitempty"`        // type annotations before the controller annotation / stereotype
	Mid        []string `json:"mid,omitempty"`        // between controller annotation and class-level mapping
	Post       []string `json:"post,omitempty"`       // after the class-level mapping
	BasePair   string   `json:"basePair,omitempty"`   // one more pair in the class-level mapping (baseForm valuePair; pairOnly: the only pair)
	BasePairFirst bool  `json:"basePairFirst,omitempty"`
	ClassMods  string   `json:"classMods,omitempty"`  // "" public | package | public final | public abstract
	Extends    string   `json:"extends,omitempty"`
	Implements string   `json:"implements,omitempty"`
	Imports    []string `json:"imports,omitempty"`    // further single-type imports
	Dto        string   `json:"dto,omitempty"`        // "" | before | after: a second, package-private class in the same file
}

type Case struct {
	Classes []Class `json:"classes"`
	Order   []int   `json:"order"` // file order of the whole project (a permutation)
	Subs    [][]int `json:"subs"`  // sub-projects: sequences of distinct class indexes
	// optional, added later
	Maven    bool     `json:"maven,omitempty"`    // mNN/src/main/java/<package>/<Class>.java instead of a flat directory
	Prefixes []string `json:"prefixes,omitempty"` // prefixes for FilterApiByPrefix (api) / the first one for `coca api -a` (cli)
	Flags    []string `json:"flags,omitempty"`    // further options of `coca api` (cli)
	Seq      []int    `json:"seq,omitempty"`      // sub-check seq: projects scanned one after the other in one process (0 = whole project, k = Subs[k-1])
}

func (m Method) isHandler() bool {
	return m.Form != "" && m.Form != "override" && m.Form != "otherAnnotation"
}

// annotations that are not HTTP mappings, some of them named ...Mapping
var otherAnnotations = []string{"@MessageMapping(\"/chat\")", "@SubscribeMapping(\"/init\")", "@QueryMapping", "@SchemaMapping(typeName = \"Book\")",
	"@ExceptionHandler(IllegalStateException.class)", "@Scheduled(fixedRate = 5000)", "@Transactional", "@ModelAttribute(\"user\")"}

// ---------------------------------------------------------------------------------------
// generator

var (
	pkgs       = []string{"com.acme.web", "com.acme.api", "org.shop"}
	classStems = []string{"Order", "User", "Book", "Cart", "Item", "Blog", "Stock", "Mail"}
	pathWords  = []string{"/orders", "/users", "/a", "/list", "/{id}", "/items/{id}", "/x/y", "/", "/v1/books"}
	bodyTypes  = []string{"OrderDto", "User", "List<Item>", "Map<String, Item>", "BookRequest", "int[]"}
	plainTypes = []string{"String", "Long", "int", "HttpServletRequest", "Pageable"}
	retTypes   = []string{"String", "void", "ResponseEntity<String>", "List<Item>", "int"}
	verbs      = []string{"GET", "POST", "PUT", "DELETE"}
	verbAnn    = map[string]string{"GET": "GetMapping", "POST": "PostMapping", "PUT": "PutMapping", "DELETE": "DeleteMapping"}
)

func genMethod(t *rapid.T, name string, inController bool) Method {
	m := Method{Name: name, Ret: rapid.SampledFrom(retTypes).Draw(t, "ret")}
	switch rapid.IntRange(0, 12).Draw(t, "form") {
	case 12:
		// a non-handler method carrying some other annotation (messaging, GraphQL, scheduling ...)
		m.Form = "otherAnnotation"
		m.Path = rapid.SampledFrom(otherAnnotations).Draw(t, "otherAnnotation")
	case 0, 1:
		m.Form = ""
	case 2:
		m.Form = "override"
	case 3, 4, 5:
		m.Form = "shorthand"
	case 6, 7:
		m.Form = "nopath"
	case 8:
		m.Form = "requestValueFirst"
	case 9:
		m.Form = "requestMethodFirst"
	case 10:
		m.Form = "shorthandValuePair"
	case 11:
		m.Form = "shorthand"
	}
	if m.isHandler() {
		m.Verb = rapid.SampledFrom(verbs).Draw(t, "verb")
		if m.Form != "nopath" {
			m.Path = rapid.SampledFrom(pathWords).Draw(t, "path")
		}
	}
	n := rapid.IntRange(0, 4).Draw(t, "nParams")
	hasBody := false
	for i := 0; i < n; i++ {
		p := Param{Name: fmt.Sprintf("p%d", i)}
		k := rapid.IntRange(0, 6).Draw(t, "paramKind")
		if !m.isHandler() {
			k = 0
		}
		switch k {
		case 0, 1:
			p.Kind = "plain"
			p.Type = rapid.SampledFrom(plainTypes).Draw(t, "ptype")
		case 2:
			p.Kind = "path"
			p.Type = "Long"
		case 3:
			p.Kind = "valid"
			p.Type = rapid.SampledFrom(bodyTypes[:2]).Draw(t, "vtype")
		default:
			if hasBody {
				p.Kind = "plain"
				p.Type = "String"
			} else {
				hasBody = true
				p.Kind = []string{"body", "validBody", "bodyValid"}[k-4]
				p.Type = rapid.SampledFrom(bodyTypes).Draw(t, "btype")
			}
		}
		m.Params = append(m.Params, p)
	}
	return m
}

func genCase(t *rapid.T) Case {
	n := rapid.IntRange(1, 6).Draw(t, "nClasses")
	var c Case
	used := map[string]bool{}
	for i := 0; i < n; i++ {
		cl := Class{Pkg: rapid.SampledFrom(pkgs).Draw(t, "pkg")}
		stem := rapid.SampledFrom(classStems).Draw(t, "stem")
		kind := rapid.IntRange(0, 5).Draw(t, "classKind")
		switch {
		case kind <= 2:
			cl.Controller = "RestController"
			cl.Name = stem + "Controller"
		case kind == 3:
			cl.Controller = "Controller"
			cl.Name = stem + "Resource"
		default:
			cl.Name = stem + "Service"
		}
		for used[cl.Pkg+"."+cl.Name] {
			cl.Name += "X"
		}
		used[cl.Pkg+"."+cl.Name] = true
		if cl.Controller != "" {
			switch rapid.IntRange(0, 3).Draw(t, "baseForm") {
			case 1, 3:
				cl.BaseForm = "shorthand"
			case 2:
				cl.BaseForm = "valuePair"
			}
			if cl.BaseForm != "" {
				cl.Base = rapid.SampledFrom(pathWords[:4]).Draw(t, "base")
			}
		}
		cl.Field = rapid.Bool().Draw(t, "field")
		cl.Ctor = cl.Field && rapid.Bool().Draw(t, "ctor")
		cl.Tabs = rapid.Bool().Draw(t, "tabs")
		cl.Tight = rapid.IntRange(0, 3).Draw(t, "tight") == 3
		cl.Comments = rapid.IntRange(0, 3).Draw(t, "comments") == 3
		nm := rapid.IntRange(0, 5).Draw(t, "nMethods")
		for j := 0; j < nm; j++ {
			cl.Methods = append(cl.Methods, genMethod(t, fmt.Sprintf("%s%d", []string{"find", "save", "remove", "list", "helper", "update"}[j], j), cl.Controller != ""))
		}
		c.Classes = append(c.Classes, cl)
	}
	c.Order = rapid.Permutation(indexes(n)).Draw(t, "order")
	nSubs := rapid.IntRange(0, 2).Draw(t, "nSubs")
	for i := 0; i < nSubs; i++ {
		perm := rapid.Permutation(indexes(n)).Draw(t, "subPerm")
		k := rapid.IntRange(1, n).Draw(t, "subLen")
		c.Subs = append(c.Subs, perm[:k])
	}
	return c
}

func indexes(n int) []int {
	out := make([]int, n)
	for i := range out {
		out[i] = i
	}
	return out
}

// ---------------------------------------------------------------------------------------
// Java text builder

func render(cl Class) string {
	var sb strings.Builder
	ind := "    "
	if cl.Tabs {
		ind = "\t"
	}
	eq := " = "
	if cl.Tight {
		eq = "="
	}
	sb.WriteString("package " + cl.Pkg + ";\n\n")
	sb.WriteString("import java.util.List;\nimport java.util.Map;\nimport org.springframework.web.bind.annotation.*;\n\n")
	if cl.Comments {
		sb.WriteString("/**\n * " + cl.Name + " with \"quotes\" and @RequestMapping(\"/not/real\") in a comment.\n */\n")
	}
	if cl.Controller != "" {
		sb.WriteString("@" + cl.Controller + "\n")
		switch cl.BaseForm {
		case "shorthand":
			sb.WriteString("@RequestMapping(\"" + cl.Base + "\")\n")
		case "valuePair":
			sb.WriteString("@RequestMapping(value" + eq + "\"" + cl.Base + "\")\n")
		}
	}
	sb.WriteString("public class " + cl.Name + " {\n")
	if cl.Field {
		sb.WriteString(ind + "private final Helper helper;\n\n")
	}
	if cl.Ctor {
		sb.WriteString(ind + "public " + cl.Name + "(Helper helper) {\n" + ind + ind + "this.helper = helper;\n" + ind + "}\n\n")
	}
	for _, m := range cl.Methods {
		if cl.Comments {
			sb.WriteString(ind + "// " + m.Name + "\n")
		}
		ann := verbAnn[m.Verb]
		switch m.Form {
		case "override":
			sb.WriteString(ind + "@Override\n")
		case "otherAnnotation":
			sb.WriteString(ind + m.Path + "\n")
		case "shorthand":
			sb.WriteString(ind + "@" + ann + "(\"" + m.Path + "\")\n")
		case "nopath":
			sb.WriteString(ind + "@" + ann + "\n")
		case "shorthandValuePair":
			sb.WriteString(ind + "@" + ann + "(value" + eq + "\"" + m.Path + "\")\n")
		case "requestValueFirst":
			sb.WriteString(ind + "@RequestMapping(value" + eq + "\"" + m.Path + "\", method" + eq + "RequestMethod." + m.Verb + ")\n")
		case "requestMethodFirst":
			sb.WriteString(ind + "@RequestMapping(method" + eq + "RequestMethod." + m.Verb + ", value" + eq + "\"" + m.Path + "\")\n")
		}
		var ps []string
		for _, p := range m.Params {
			prefix := ""
			switch p.Kind {
			case "body":
				prefix = "@RequestBody "
			case "validBody":
				prefix = "@Valid @RequestBody "
			case "bodyValid":
				prefix = "@RequestBody @Valid "
			case "path":
				prefix = "@PathVariable(\"" + p.Name + "\") "
			case "valid":
				prefix = "@Valid "
			}
			ps = append(ps, prefix+p.Type+" "+p.Name)
		}
		sb.WriteString(ind + "public " + m.Ret + " " + m.Name + "(" + strings.Join(ps, ", ") + ") {\n")
		switch m.Ret {
		case "void":
			sb.WriteString(ind + ind + "log(\"" + m.Name + "\");\n")
		case "int":
			sb.WriteString(ind + ind + "return 0;\n")
		default:
			sb.WriteString(ind + ind + "return null;\n")
		}
		sb.WriteString(ind + "}\n\n")
	}
	sb.WriteString("}\n")
	return sb.String()
}

type errCounter struct {
	*antlr.DefaultErrorListener
	n     int
	first string
}

func (e *errCounter) SyntaxError(_ antlr.Recognizer, _ interface{}, line, column int, msg string, _ antlr.RecognitionException) {
	if e.n == 0 {
		e.first = fmt.Sprintf("%d:%d %s", line, column, msg)
	}
	e.n++
}

// mustParse: a generated file the shipped parser rejects is a generator bug, never a finding.
func mustParse(text string) {
	ec := &errCounter{DefaultErrorListener: antlr.NewDefaultErrorListener()}
	lexer := parser.NewJavaLexer(antlr.NewInputStream(text))
	lexer.RemoveErrorListeners()
	lexer.AddErrorListener(ec)
	p := parser.NewJavaParser(antlr.NewCommonTokenStream(lexer, 0))
	p.RemoveErrorListeners()
	p.AddErrorListener(ec)
	p.CompilationUnit()
	if ec.n > 0 {
		panic(fmt.Sprintf("c12 HARNESS BUG: generated Java rejected by the shipped parser (%s):\n%s", ec.first, text))
	}
}

// ---------------------------------------------------------------------------------------
// expectation and observation

type Entry struct {
	Verb, Uri, Body, Pkg, Class, Method string
}

func (e Entry) String() string {
	return fmt.Sprintf("%s %s body=%q %s.%s.%s", e.Verb, e.Uri, e.Body, e.Pkg, e.Class, e.Method)
}

func noSpace(s string) string { return strings.Join(strings.Fields(s), "") }

func expected(cl Class) []Entry {
	var out []Entry
	if cl.Controller == "" {
		return nil
	}
	for _, m := range cl.Methods {
		if !m.isHandler() {
			continue
		}
		e := Entry{Verb: m.Verb, Uri: cl.Base + m.Path, Pkg: cl.Pkg, Class: cl.Name, Method: m.Name}
		for _, p := range m.Params {
			if p.Kind == "body" || p.Kind == "validBody" || p.Kind == "bodyValid" {
				e.Body = noSpace(p.Type)
			}
		}
		out = append(out, e)
	}
	return out
}

func sorted(list []Entry) []string {
	var out []string
	for _, e := range list {
		out = append(out, e.String())
	}
	sort.Strings(out)
	return out
}

func toEntries(apis []api_domain.RestAPI) []Entry {
	var out []Entry
	for _, a := range apis {
		out = append(out, Entry{Verb: a.HttpMethod, Uri: a.Uri, Body: noSpace(a.RequestBodyClass), Pkg: a.PackageName, Class: a.ClassName, Method: a.MethodName})
	}
	return out
}

func fileTree(c Case, seq []int) map[string]string {
	files := map[string]string{}
	for pos, idx := range seq {
		cl := c.Classes[idx]
		files[fmt.Sprintf("f%02d_%s.java", pos, cl.Name)] = render(cl)
	}
	return files
}

func resetAll() {
	ast_java.VerifResetAstJava()
	java_identify.VerifResetJavaIdentify()
	ast_api_java.VerifResetAstApiJava()
	api.VerifResetApi()
}

// scanInProcess runs the pipeline of `coca analysis` + `coca api -f` through the packages.
func scanInProcess(dir string) ([]Entry, string) {
	resetAll()
	var apis []api_domain.RestAPI
	if p := pbt.Call(func() {
		identApp := javaapp.NewJavaIdentifierApp()
		identifiers := identApp.AnalysisPath(dir)
		identMap := core_domain.BuildIdentifierMap(identifiers)
		diMap := core_domain.BuildDIMap(identifiers, identMap)
		fullApp := javaapp.NewJavaFullApp()
		deps := fullApp.AnalysisPath(dir, identifiers)
		app := new(api.JavaApiApp)
		apis = app.AnalysisPath(dir, deps, identMap, diMap)
	}); p != "" {
		return nil, "API scan panicked: " + p
	}
	return toEntries(apis), ""
}

func scanCLI(dir string) ([]Entry, string) {
	cwd := filepath.Join(dir, "_work")
	_ = os.MkdirAll(cwd, 0755)
	src := filepath.Join(dir, "src")
	if r, err := cli.Run("coca", cwd, nil, "analysis", "-p", src); err != nil || r.ExitCode != 0 || r.TimedOut {
		return nil, fmt.Sprintf("`coca analysis -p DIR` failed: %v exit=%d\n%s%s", err, r.ExitCode, tail(r.Stdout), tail(r.Stderr))
	}
	if r, err := cli.Run("coca", cwd, nil, "api", "-f", "-p", src); err != nil || r.ExitCode != 0 || r.TimedOut {
		return nil, fmt.Sprintf("`coca api -f -p DIR` failed: %v exit=%d\n%s%s", err, r.ExitCode, tail(r.Stdout), tail(r.Stderr))
	}
	raw, err := os.ReadFile(filepath.Join(cwd, "coca_reporter", "apis.json"))
	if err != nil {
		return nil, "coca api wrote no coca_reporter/apis.json: " + err.Error()
	}
	var apis []api_domain.RestAPI
	if err := json.Unmarshal(raw, &apis); err != nil {
		return nil, "coca_reporter/apis.json is not a JSON list of APIs: " + err.Error()
	}
	return toEntries(apis), ""
}

func tail(s string) string {
	if len(s) > 1200 {
		return "…" + s[len(s)-1200:]
	}
	return s
}

func diff(want, got []string) string {
	count := map[string]int{}
	for _, w := range want {
		count[w]++
	}
	for _, g := range got {
		count[g]--
	}
	var missing, extra []string
	for k, v := range count {
		for ; v > 0; v-- {
			missing = append(missing, k)
		}
		for ; v < 0; v++ {
			extra = append(extra, k)
		}
	}
	sort.Strings(missing)
	sort.Strings(extra)
	if len(missing) == 0 && len(extra) == 0 {
		return ""
	}
	return fmt.Sprintf("missing %q, unexpected %q", missing, extra)
}

func describe(c Case, seq []int) string {
	var sb strings.Builder
	for pos, idx := range seq {
		cl := c.Classes[idx]
		sb.WriteString(fmt.Sprintf("--- f%02d_%s.java ---\n%s", pos, cl.Name, render(cl)))
	}
	return sb.String()
}

func ofClass(list []Entry, cl Class) []Entry {
	var out []Entry
	for _, e := range list {
		if e.Pkg == cl.Pkg && e.Class == cl.Name {
			out = append(out, e)
		}
	}
	return out
}

// judge runs one (sub-)project and compares with the expectation by construction.
func judge(c Case, seq []int, scan func(dir string) ([]Entry, string)) ([]Entry, string) {
	dir := cli.Scratch("c12-")
	defer os.RemoveAll(dir)
	files := fileTree(c, seq)
	for _, text := range files {
		mustParse(text)
	}
	cli.WriteTree(filepath.Join(dir, "src"), files)
	got, msg := scan(filepath.Join(dir, "src"))
	if msg != "" {
		// run-dependent parts removed: rapid shrinks only when a failure repeats verbatim
		msg = reHex.ReplaceAllString(strings.ReplaceAll(msg, dir, "<scratch>"), "0x_")
		return nil, msg + "\n" + describe(c, seq)
	}
	return got, ""
}

var reHex = regexp.MustCompile(`\+?0x[0-9a-f]+\??`)

func scanDirInProcess(dir string) ([]Entry, string) { return scanInProcess(dir) }

func check(c Case, viaCLI bool) pbt.Verdict {
	scan := scanDirInProcess
	what := "JavaApiApp.AnalysisPath"
	if viaCLI {
		what = "coca api -f (apis.json)"
		scan = func(src string) ([]Entry, string) { return scanCLI(filepath.Dir(src)) }
	}
	// 1. the whole project against the expectation by construction
	var want []Entry
	for _, idx := range c.Order {
		want = append(want, expected(c.Classes[idx])...)
	}
	got, msg := judge(c, c.Order, scan)
	if msg != "" {
		return pbt.Fail("%s", msg)
	}
	if d := diff(sorted(want), sorted(got)); d != "" {
		return pbt.Fail("%s: API list differs from the handler methods of the project: %s\nexpected %q\ngot      %q\n%s", what, d, sorted(want), sorted(got), describe(c, c.Order))
	}
	// 2. metamorphic: a controller's entries are the same in every sub-project containing it
	subs := append([][]int{}, c.Subs...)
	if !viaCLI {
		for idx, cl := range c.Classes {
			if cl.Controller != "" && len(c.Classes) > 1 {
				subs = append(subs, []int{idx})
			}
		}
	}
	for _, seq := range subs {
		subGot, msg := judge(c, seq, scan)
		if msg != "" {
			return pbt.Fail("sub-project %v: %s", seq, msg)
		}
		for _, idx := range seq {
			cl := c.Classes[idx]
			inFull, inSub := sorted(ofClass(got, cl)), sorted(ofClass(subGot, cl))
			if d := diff(inFull, inSub); d != "" {
				return pbt.Fail("%s: entries of %s.%s differ between the whole project (file order %v) and the sub-project with file order %v: %s\n%s", what, cl.Pkg, cl.Name, c.Order, seq, d, describe(c, seq))
			}
		}
		var subWant []Entry
		for _, idx := range seq {
			subWant = append(subWant, expected(c.Classes[idx])...)
		}
		if d := diff(sorted(subWant), sorted(subGot)); d != "" {
			return pbt.Fail("%s: sub-project with file order %v: API list differs from its handler methods: %s\n%s", what, seq, d, describe(c, seq))
		}
	}
	return classify(c)
}

func classify(c Case) pbt.Verdict {
	v := pbt.Verdict{}
	withBase, withoutBase, nonCtl := 0, 0, 0
	labels := map[string]bool{}
	for _, cl := range c.Classes {
		handlers := 0
		for i, m := range cl.Methods {
			if m.isHandler() {
				handlers++
				if cl.Controller != "" {
					labels["form_"+m.Form] = true
					for _, p := range m.Params {
						if strings.Contains(strings.ToLower(p.Kind), "body") {
							labels["request_body_param"] = true
						}
					}
					if len(m.Params) == 0 {
						labels["handler_without_params"] = true
					}
				}
			} else if cl.Controller != "" {
				labels["non_handler_method_in_controller"] = true
				if i == 0 && cl.BaseForm != "" {
					labels["first_method_plain_after_class_mapping"] = true
				}
			}
		}
		switch {
		case cl.Controller == "":
			nonCtl++
			if handlers > 0 {
				labels["non_controller_with_mapping_annotations"] = true
			}
		case cl.BaseForm == "":
			withoutBase++
		default:
			withBase++
			labels["base_"+cl.BaseForm] = true
		}
		if cl.Controller != "" && len(cl.Methods) == 0 {
			labels["controller_without_methods"] = true
		}
		if cl.Controller == "Controller" {
			labels["@Controller"] = true
		}
	}
	v.NonTrivial = withBase >= 1 && withoutBase >= 1
	if v.NonTrivial {
		labels["controllers_with_and_without_base"] = true
	}
	if withBase+withoutBase >= 2 {
		labels["controllers>=2"] = true
	}
	if len(c.Classes) == 1 {
		labels["single_class"] = true
	}
	if len(c.Subs) > 0 {
		labels["random_sub_projects"] = true
	}
	for l := range labels {
		v.Classes = append(v.Classes, l)
	}
	sort.Strings(v.Classes)
	return v
}

func init() {
	pbt.SetProperty("C12")
	pbt.Describe("rapid-generated Spring-style projects of 1-6 classes, one class per file, any file order: controllers (@RestController / @Controller first, then optionally @RequestMapping(\"/b\") or @RequestMapping(value = \"/b\")), classes without controller annotation whose methods nevertheless carry mapping annotations, handlers with @Get/@Post/@Put/@DeleteMapping with path, without path and with value = \"/p\", @RequestMapping(value = \"/p\", method = RequestMethod.X) with the pairs in either order, 0-4 parameters (plain, @PathVariable(\"id\"), @Valid, @RequestBody with and without @Valid in both orders), non-handler methods (plain, @Override) interleaved, optional field and constructor, two layouts. Every file is validated with the shipped parser (a rejection aborts the run as a harness bug). Oracle: list of (verb, base+path, body type without blanks, package, class, method) by construction, compared as a multiset with JavaApiApp.AnalysisPath fed by the identifier and full passes as cmd/api.go does (sub-check api) and with coca_reporter/apis.json of `coca analysis` + `coca api -f` (sub-check cli); metamorphic clause: the entries of every controller are identical in the whole project, alone, and in random sub-projects with other file orders. Non-trivial = at least one controller with and one without class-level base path in the project; distinct = hash of the description.",
		"not generated (ambiguous expected value): bare class-level @RequestMapping, method-level @RequestMapping without method=, controller annotation after the class-level mapping, nested classes, interface handlers, several @RequestBody parameters",
		"body type and nothing else is compared modulo white space",
		"package state is reset with the verif hooks before every project scan, so that a scan corresponds to a fresh process")
	pbt.Register("api", 300, 2000, genCase, func(c Case) pbt.Verdict { return check(c, false) })
	pbt.Register("cli", 25, 60, genCase, func(c Case) pbt.Verdict { return check(c, true) })
}

func TestProp(t *testing.T)   { pbt.Main(t) }
func TestReplay(t *testing.T) { pbt.Replay(t) }
