// C12 — extracted HTTP APIs are exactly the annotated Spring handler methods.
package c12

import (
	"encoding/json"
	"fmt"
	"os"
	"path/filepath"
	"regexp"
	"sort"
	"strings"
	"testing"

	"github.com/antlr/antlr4/runtime/Go/antlr/v4"
	parser "github.com/modernizing/coca/languages/java"
	"github.com/modernizing/coca/pkg/application/analysis/javaapp"
	"github.com/modernizing/coca/pkg/application/api"
	"github.com/modernizing/coca/pkg/domain/api_domain"
	"github.com/modernizing/coca/pkg/domain/core_domain"
	"github.com/modernizing/coca/pkg/infrastructure/ast/ast_java"
	"github.com/modernizing/coca/pkg/infrastructure/ast/ast_java/ast_api_java"
	"github.com/modernizing/coca/pkg/infrastructure/ast/ast_java/java_identify"
	"pgregory.net/rapid"

	"verif/internal/cli"
	"verif/internal/pbt"
)

// ---------------------------------------------------------------------------------------
// abstract description of a project

type Param struct {
	// Kind: plain | body | validBody | bodyValid | path | valid, and (added later, see paramPrefix)
	// bodyRequired | bodyThenFinal | finalThenBody | pathMarker | requestParam | header
	// ... and (checklist audit) part | attribute | cookie | model: further Spring parameter annotations, none a body
	Kind string `json:"kind"`
	Type string `json:"type"`
	Name string `json:"name"`
}

type Method struct {
	Name string `json:"name"`
	// Form: "" plain method | "override" plain method with @Override |
	// "shorthand" @XMapping("/p") | "nopath" @XMapping | "shorthandValuePair" @XMapping(value = "/p") |
	// "requestValueFirst" @RequestMapping(value = "/p", method = RequestMethod.X) | "requestMethodFirst"
	Form   string  `json:"form"`
	Verb   string  `json:"verb,omitempty"` // GET POST PUT DELETE
	Path   string  `json:"path,omitempty"`
	Ret    string  `json:"ret"`
	Params []Param `json:"params,omitempty"`
	// optional variations added later (zero value = the plain variant of the older cases)
	Before      []string `json:"before,omitempty"`      // further annotations written before the mapping annotation
	After       []string `json:"after,omitempty"`       // ... and after it
	Pair        string   `json:"pair,omitempty"`        // one more element-value pair, e.g. produces = "text/plain" (forms with pairs; nopath: the only pair)
	PairPos     int      `json:"pairPos,omitempty"`     // 0 last, 1 first, 2 in the middle
	Parens      bool     `json:"parens,omitempty"`      // nopath written @GetMapping()
	VerbForm    string   `json:"verbForm,omitempty"`    // "" RequestMethod.X | static: X (static import) | array: {RequestMethod.X}
	Mods        string   `json:"mods,omitempty"`        // "" public | package | protected | public final | public synchronized
	Throws      bool     `json:"throws,omitempty"`      // throws IOException
	Body        string   `json:"body,omitempty"`        // "" | calls | lambda | anonymous | locals
	SameLine    bool     `json:"sameLine,omitempty"`    // annotations and signature on one line
	FieldBefore string   `json:"fieldBefore,omitempty"` // a field declaration (with its annotations) written before this method
	// checklist audit (zero value = the plain variant)
	Varargs     string `json:"varargs,omitempty"`     // a variable-arity last parameter, never a body: plain `String... tags` | requestParam `@RequestParam String... tags`
	TypeParams  string `json:"typeParams,omitempty"`  // generic method: <T> | <T extends Comparable<T>> written before the return type
	AnnLayout   string `json:"annLayout,omitempty"`   // layout of the mapping annotation: spaced | multiline | comments
	ParamLayout string `json:"paramLayout,omitempty"` // multiline: one parameter per line | blank: blanks inside the parentheses
	Doc         bool   `json:"doc,omitempty"`         // Javadoc with annotation-like text before, block comment after the annotations
}

type Class struct {
	Pkg        string   `json:"pkg"`
	Name       string   `json:"name"`
	Controller string   `json:"controller,omitempty"` // "" | RestController | Controller
	BaseForm   string   `json:"baseForm,omitempty"`   // "" | shorthand | valuePair
	Base       string   `json:"base,omitempty"`
	Field      bool     `json:"field,omitempty"`
	Ctor       bool     `json:"ctor,omitempty"`
	Tabs       bool     `json:"tabs,omitempty"`
	Tight      bool     `json:"tight,omitempty"` // value="/p" without blanks
	Comments   bool     `json:"comments,omitempty"`
	Methods    []Method `json:"methods"`
	// optional variations added later
	Kind          string   `json:"kind,omitempty"`       // "" class | interface (never a controller)
	Stereotype    string   `json:"stereotype,omitempty"` // annotation of a class that is not a controller: @Service, @ControllerAdvice ...
	CtlArg        string   `json:"ctlArg,omitempty"`     // argument of the controller annotation: ("orderCtl") | (value = "orderCtl")
	Pre           []string `json:"pre,omitempty"`        // type annotations before the controller annotation / stereotype
	Mid           []string `json:"mid,omitempty"`        // between controller annotation and class-level mapping
	Post          []string `json:"post,omitempty"`       // after the class-level mapping
	BasePair      string   `json:"basePair,omitempty"`   // one more pair in the class-level mapping (baseForm valuePair; pairOnly: the only pair)
	BasePairFirst bool     `json:"basePairFirst,omitempty"`
	ClassMods     string   `json:"classMods,omitempty"` // "" public | package | public final | public abstract
	Extends       string   `json:"extends,omitempty"`
	Implements    string   `json:"implements,omitempty"`
	Imports       []string `json:"imports,omitempty"` // further single-type imports
	Dto           string   `json:"dto,omitempty"`     // "" | before | after: a second, package-private class in the same file
	// checklist audit (zero value = the plain variant); Kind also takes enum | annotation (never controllers)
	CRLF        bool   `json:"crlf,omitempty"`        // lines end in \r\n
	Edge        string `json:"edge,omitempty"`        // noFinalNewline | leadingBlankLines | trailingBlanks
	LongLine    int    `json:"longLine,omitempty"`    // a comment line of this many bytes in the class body
	ImportStyle string `json:"importStyle,omitempty"` // explicit | none | duplicate (default: the wildcard import)
	BaseLayout  string `json:"baseLayout,omitempty"`  // layout of the class-level mapping: spaced | multiline | comments
}

type Case struct {
	Classes []Class `json:"classes"`
	Order   []int   `json:"order"` // file order of the whole project (a permutation)
	Subs    [][]int `json:"subs"`  // sub-projects: sequences of distinct class indexes
	// optional, added later
	Maven    bool     `json:"maven,omitempty"`    // mNN/src/main/java/<package>/<Class>.java instead of a flat directory
	Prefixes []string `json:"prefixes,omitempty"` // prefixes for FilterApiByPrefix (api) / the first one for `coca api -a` (cli)
	Flags    []string `json:"flags,omitempty"`    // further options of `coca api` (cli)
	Seq      []int    `json:"seq,omitempty"`      // sub-check seq: projects scanned one after the other in one process (0 = whole project, k = Subs[k-1])
	// checklist audit
	Extras      []string `json:"extras,omitempty"`      // further files of the project that hold no class: keys of extraFiles
	DirSlash    bool     `json:"dirSlash,omitempty"`    // the directory is passed with a trailing slash
	CliSpelling string   `json:"cliSpelling,omitempty"` // long: --path DIR | longEq: --path=DIR (default: -p DIR)
	CliRel      bool     `json:"cliRel,omitempty"`      // the directory is passed relative to the working directory
	CliDep      bool     `json:"cliDep,omitempty"`      // the dependence file is named explicitly (its default path)
	// the working directory is not fresh (sub-check cli; zero value = a fresh working directory and -f)
	History []HistStep `json:"history,omitempty"` // what happened in the working directory before the judged commands
	NoForce bool       `json:"noForce,omitempty"` // `coca api` without -f; honoured only when the history leaves no coca_reporter/apis.json
}

// HistStep: one thing that happened earlier in the working directory of the judged `coca analysis` + `coca api -f`
type HistStep struct {
	// Kind: run = `coca analysis -p A` + `coca api [-f] [options] -p A` of a project A | file = a file left in coca_reporter
	Kind string `json:"kind"`
	// run: Of = whole (the whole project) | sub (Subs[Sub]) | noHandlers (the classes of the project that are no
	// controllers; an empty directory when there are none) | foreign (a fixed project of another code base)
	Of       string   `json:"of,omitempty"`
	Sub      int      `json:"sub,omitempty"`
	Force    bool     `json:"force,omitempty"`    // the earlier `coca api` was given -f
	Flags    []string `json:"flags,omitempty"`    // -c -s -a -r of the earlier `coca api`
	SamePath bool     `json:"samePath,omitempty"` // A lay at the path of the judged project (an older state of it) and was replaced
	// file: File = apis.json | api.csv | api.dot, Content = foreign (what a run on the foreign project writes) and, for
	// apis.json, null | emptyList | truncated (the first half of foreign) | empty (zero bytes)
	File    string `json:"file,omitempty"`
	Content string `json:"content,omitempty"`
}

// leavesApis: after these steps coca_reporter/apis.json exists
func leavesApis(h []HistStep) bool {
	for _, s := range h {
		if s.Kind == "run" || s.File == "apis.json" {
			return true
		}
	}
	return false
}

func (m Method) isHandler() bool {
	return m.Form != "" && m.Form != "override" && m.Form != "otherAnnotation"
}

// annotations that are not HTTP mappings, some of them named ...Mapping
var otherAnnotations = []string{"@MessageMapping(\"/chat\")", "@SubscribeMapping(\"/init\")", "@QueryMapping", "@SchemaMapping(typeName = \"Book\")",
	"@ExceptionHandler(IllegalStateException.class)", "@Scheduled(fixedRate = 5000)", "@Transactional", "@ModelAttribute(\"user\")"}

// ---------------------------------------------------------------------------------------
// generator

var (
	pkgs       = []string{"com.acme.web", "com.acme.api", "org.shop"}
	classStems = []string{"Order", "User", "Book", "Cart", "Item", "Blog", "Stock", "Mail"}
	// the first nine are the original pool; "" and a path without leading slash are concatenated like any other
	pathWords  = []string{"/orders", "/users", "/a", "/list", "/{id}", "/items/{id}", "/x/y", "/", "/v1/books", "", "/items/{id}/sub", "/a-b_c.json", "all", "/getUser/{userId}", "/files/{name:.+}", "/*", "/caf\u00e9/\u5730\u5740"}
	baseWords  = []string{"/orders", "/users", "/a", "/list", "/api/v1", "/", "/api/", "v2"}
	bodyTypes  = []string{"OrderDto", "User", "List<Item>", "Map<String, Item>", "BookRequest", "int[]", "List<? extends Item>", "Map<String, List<Item>>", "Item[][]", "Optional<OrderDto>", "long"}
	plainTypes = []string{"String", "Long", "int", "HttpServletRequest", "Pageable"}
	retTypes   = []string{"String", "void", "ResponseEntity<String>", "List<Item>", "int"}
	verbs      = []string{"GET", "POST", "PUT", "DELETE"}
	verbAnn    = map[string]string{"GET": "GetMapping", "POST": "PostMapping", "PUT": "PutMapping", "DELETE": "DeleteMapping"}
	annLayouts = []string{"spaced", "multiline", "comments"}

	// paths of the URI-template family: template variables, patterns and property placeholders at the beginning,
	// at the end or as the whole of a path, with and without leading / trailing slash, and paths that begin and
	// end with other bracket characters; all of them are concatenated as written like any other path
	templateWords = []string{"{id}", "{id}/lines/{line}", "{id}/edit", "items/{id}", "/{id}/", "{id}/", "/{tenant}/{id}", "{name}.json", "{id:[0-9]+}",
		"/{name:[a-z]+}/{id:[0-9]+}", "${api.orders}", "${api.root}/items", "/{*rest}", "{*rest}", "/**", "*.do", "/Orders({id})", "(all)", "[x]", "/value", "path", "/orders/"}
	// ... with a comma inside (quantified patterns, matrix-like lists); not drawn for the sub-check cli, see genCaseOpt
	commaWords        = []string{"{id:[0-9]{1,3}}", "/{id:[0-9]{2,}}", "/in/{a},{b}", "{a},{b}", "/list,all", "{id:[0-9]{1,3}}/lines"}
	baseTemplateWords = []string{"/tenants/{tenant}", "{tenant}", "{tenant}/", "/api/{version}/", "/{a}/{b}", "${api.base}", "${api.base}/v1", "{region}/shops/{shop}", "/api/*", "(internal)", "/{tenant:[a-z]+}"}
	baseCommaWords    = []string{"{tenant:[a-z]{2,8}}", "/{tenant:[a-z]{2,8}}/", "/eu,us"}
	segLiterals       = []string{"orders", "lines", "edit", "v1", "a-b_c.json", "value", "path", "caf\u00e9"}
	segVarNames       = []string{"id", "name", "line", "key", "part", "rest"}
	segSuffixes       = []string{".json", "-raw", "_v2", ":sync", "*"}

	// annotations a handler (or any method) carries next to its mapping annotation; none of them is a mapping
	methodExtras = []string{"@ResponseBody", "@ResponseStatus(HttpStatus.CREATED)", "@PreAuthorize(\"hasRole('ADMIN')\")",
		"@ApiOperation(value = \"/doc/path\", httpMethod = \"PATCH\")", "@Transactional", "@Override", "@Deprecated", "@CrossOrigin(\"/origin\")",
		"@Validated", "@SuppressWarnings({\"unchecked\", \"rawtypes\"})", "@Cacheable(value = \"/cache\", key = \"#id\")", "@Timed(\"/metrics\")"}
	// further pairs of a mapping annotation
	extraPairs = []string{"produces = \"application/json\"", "consumes = MediaType.APPLICATION_JSON_VALUE", "params = \"/v=1\"", "headers = \"X-Api=/2\"", "name = \"/named\"", "produces = {\"text/plain\", \"/x\"}"}
	// annotations of a type declaration that are neither a controller annotation nor a mapping
	typeExtras = []string{"@Slf4j", "@Validated", "@Api(tags = \"/tagged\")", "@CrossOrigin(origins = \"*\")", "@CrossOrigin(\"/origin\")", "@Api(\"/docs\")", "@Scope(\"request\")", "@SuppressWarnings(\"unused\")", "@RequiredArgsConstructor"}
	// what a class that is not a controller may be annotated with
	stereotypes = []string{"@Service", "@Component", "@ControllerAdvice", "@RestControllerAdvice", "@Repository", "@Configuration", "@FeignClient(\"/orders\")", "@ControllerAdvice(annotations = RestController.class)"}
	fieldDecls  = []string{"@Autowired\nprivate OrderService svc%d;", "@Value(\"${app.path:/configured}\")\nprivate String conf%d;", "private static final String PATH%d = \"/constant\";", "@Resource(name = \"/res\") private Object res%d;"}
	methodMods  = []string{"package", "protected", "public final", "public synchronized"}

	// ---- checklist audit: pools of the shapes behind their own draws
	// packages: one segment, a prefix and a longer variant of a pool package, segments with _ $ digits and
	// non-ASCII letters, segments that resemble the directory names coca's file filter treats specially
	// (src/test/java, testData), a segment equal to an annotation name, a very long package
	extraPkgs = []string{"web", "com.acme", "com.acme.webx", "com.acme.web.v2", "com.acme.test.java.web", "com.acme.testdata", "org.shop.tests",
		"com.acme_corp.$gen.v1_2", "com.acme.café", "org.shop.Controller", "a.b", strings.TrimSuffix(strings.Repeat("segment.", 24), ".")}
	// class names: the words Test / Tests at the beginning, in the middle and in lower case at the end (the file
	// filter drops *Test.java and *Tests.java: those stay out), $ _ digits, non-ASCII, one letter, very long
	extraClassNames = []string{"Test%s", "Tests%s", "%sTestApi", "%sContest", "%sAttests", "Latest%s", "$%s", "%s$Proxy", "%s_2", "_%s", "%s2V10",
		"Café%s", "注文%s", "%.1s", "%s" + strings.Repeat("OfTheVeryLongNamedKind", 5)}
	// method names: one letter, $ _ digits, non-ASCII, words the listener treats specially elsewhere
	extraMethodNames = []string{"x", "get", "value", "method", "path", "$find", "_save", "find_all", "trouvé", "検索", "RequestMapping", "GET", "requestBody", "main",
		"find" + strings.Repeat("ByNameAndKind", 8)}
	extraParamNames = []string{"value", "method", "body", "requestBody", "$p", "__", "élément", "this_", "p" + strings.Repeat("0", 60)}
	// further body / parameter types: qualified, inner, annotated type arguments
	extraBodyTypes = []string{"com.acme.dto.OrderDto", "Order.Dto", "java.util.List<com.acme.Item>", "List<@Valid OrderDto>", "byte[]", "Map.Entry<String, Item>", "T", "$Dto_1", "Café"}
	extraRetTypes  = []string{"byte[]", "Map<String, List<Item>>", "ResponseEntity<?>", "com.acme.dto.OrderDto", "Mono<ResponseEntity<Void>>", "List<Item>[]"}
	testLikePkgs   = []string{"com.acme.test.java.web", "com.acme.testdata", "org.shop.tests", "com.acme.src.test.javax", "com.acme.mytestDat", "test.java"}
	// annotations whose names contain, begin or end with the names of the HTTP mapping annotations
	lookalikeAnnotations = []string{"@PatchMapping(\"/patch\")", "@GetMappings(\"/plural\")", "@MyGetMapping(\"/custom\")", "@GetMappingDoc(\"/doc\")", "@RequestMappingInfo(value = \"/info\")",
		"@Mapping(target = \"/m\", source = \"/s\")", "@XRequestMapping(value = \"/x\", method = RequestMethod.GET)", "@Getmapping(\"/case\")", "@PostMappingAudit", "@ApiResponses({@ApiResponse(code = 200, message = \"/ok\"), @ApiResponse(code = 404, message = \"/none\")})"}
	lookalikeStereotypes = []string{"@RestControllerEndpoint(id = \"/ops\")", "@ControllerEndpoint(id = \"ops\")", "@Controllers", "@NotAController(\"/x\")", "@RestControllerAdvice(\"/adv\")"}
	// parameters with other Spring annotations (names that share words with RequestBody)
	otherParamKinds = map[string]string{"part": "@RequestPart(\"file\") ", "attribute": "@RequestAttribute(\"x\") ", "cookie": "@CookieValue(value = \"sid\", required = false) ", "model": "@ModelAttribute "}
	// verbs that only @RequestMapping(method = ...) can express
	otherVerbs = []string{"PATCH", "HEAD", "OPTIONS", "TRACE"}
	// plain content that resembles the listener's own patterns
	resemblingPaths = []string{"/users/@me", "/search?method=GET&value={v}", "/a//b", "/o'neil", "/RequestMethod.GET", "/value=/x", "/@GetMapping", "http://host:8080/abs", "/#frag", "/a;v=1/b", "/{a}{b}", "/ü"}
	pairLikePaths   = []string{"/search?method=GET&value={v}", "/rpc;method=PUT", "/x?value=/y&method=DELETE", "/value=/x", "/method=POST", "/m?method={RequestMethod.GET}"}
	blankPaths      = []string{"/a b", "/with  two", "/tab\tbed"}
	// files of a project that hold no class
	extraFiles = map[string]string{
		".gitignore":                    "# build output\ntarget/\nbuild/\nout/\n*.class\n*.log\n!important.log\n.idea/\n*.iml\n*~\n/bin/\n\n*.java.orig\n",
		"README.md":                     "# Shop\n\n```java\n@RestController\n@RequestMapping(\"/readme\")\npublic class Readme {\n    @GetMapping(\"/fake\")\n    public String fake() { return null; }\n}\n```\n",
		"pom.xml":                       "<project><modelVersion>4.0.0</modelVersion><groupId>com.acme</groupId><artifactId>shop</artifactId><version>1</version></project>\n",
		"docs/OrderController.java.txt": "@RestController\npublic class OrderController {\n    @GetMapping(\"/doc\")\n    public String doc() { return null; }\n}\n",
		"backup/OldController.java.bak": "@RestController\npublic class OldController {\n    @GetMapping(\"/old\")\n    public String old() { return null; }\n}\n",
		"src/main/resources/application.properties": "server.servlet.context-path=/ctx\napi.orders=/orders\n",
		"package-info.java":                         "/** web layer, see @RestController */\n@NonNullApi\npackage com.acme.web;\n\nimport org.springframework.lang.NonNullApi;\n",
		"aaa/package-info.java":                     "@RequestMapping(\"/of/the/package\")\npackage aaa;\n",
		"java/notes.javax":                          "@RestController class Notes { @GetMapping(\"/n\") void n() {} }\n",
		"ControllerTesting.kt":                      "@RestController\nclass K {\n    @GetMapping(\"/kt\")\n    fun k() = 1\n}\n",
	}
	extraFileNames = sortedKeys(extraFiles)
)

func sortedKeys(m map[string]string) []string {
	var out []string
	for k := range m {
		out = append(out, k)
	}
	sort.Strings(out)
	return out
}

// rarely draws true with probability 1/(k+1); shrinks to false
func rarely(t *rapid.T, k int, label string) bool {
	return rapid.IntRange(0, k).Draw(t, label) == k
}

func someOf(t *rapid.T, pool []string, max int, label string) []string {
	var out []string
	// 0 most of the time
	n := rapid.IntRange(0, 2*max+1).Draw(t, label+"N") - (max + 1)
	for i := 0; i < n; i++ {
		out = append(out, rapid.SampledFrom(pool).Draw(t, label))
	}
	return out
}

// composedPath builds a path of 1-3 segments, each a literal, a template variable (plain, with a pattern, a
// property placeholder) or a mix of both; with or without leading and trailing slash. Every draw shrinks to
// the plain variant: one literal segment behind a slash.
func composedPath(t *rapid.T, commas bool, label string) string {
	nVars := 0
	variable := func() string {
		name := segVarNames[nVars%len(segVarNames)]
		nVars++
		max := 5
		if commas {
			max = 6
		}
		switch rapid.IntRange(0, max).Draw(t, label+"VarForm") {
		case 2:
			return "{" + name + ":[0-9]+}"
		case 3:
			return "{" + name + ":.+}"
		case 4:
			return "${app." + name + "}"
		case 5:
			return "{*" + name + "}"
		case 6:
			return "{" + name + ":[a-z]{1,3}}"
		}
		return "{" + name + "}"
	}
	var segs []string
	for i, n := 0, rapid.IntRange(1, 3).Draw(t, label+"Segs"); i < n; i++ {
		switch rapid.IntRange(0, 7).Draw(t, label+"SegKind") {
		case 0, 1:
			segs = append(segs, rapid.SampledFrom(segLiterals).Draw(t, label+"Literal"))
		case 2, 3, 4:
			segs = append(segs, variable())
		case 5:
			segs = append(segs, variable()+rapid.SampledFrom(segSuffixes).Draw(t, label+"Suffix"))
		case 6:
			segs = append(segs, rapid.SampledFrom(segLiterals).Draw(t, label+"Literal")+"-"+variable())
		case 7:
			seps := []string{"-", ".", "_", ";"}
			if commas {
				seps = append(seps, ",")
			}
			first := variable()
			segs = append(segs, first+rapid.SampledFrom(seps).Draw(t, label+"Sep")+variable())
		}
	}
	p := strings.Join(segs, "/")
	if rapid.IntRange(0, 2).Draw(t, label+"NoLeadingSlash") < 2 {
		p = "/" + p
	}
	if rapid.IntRange(0, 3).Draw(t, label+"TrailingSlash") == 3 {
		p += "/"
	}
	return p
}

// genPath draws a method-level path: from the plain pool, from the spellings of the template family, or composed
func genPath(t *rapid.T, commas bool) string {
	switch rapid.IntRange(0, 6).Draw(t, "pathFamily") {
	case 3, 4:
		pool := templateWords
		if commas {
			pool = append(append([]string{}, templateWords...), commaWords...)
		}
		return rapid.SampledFrom(pool).Draw(t, "templatePath")
	case 5, 6:
		return composedPath(t, commas, "path")
	}
	return rapid.SampledFrom(pathWords).Draw(t, "path")
}

// genBase draws a class-level base path the same way
func genBase(t *rapid.T, commas bool) string {
	switch rapid.IntRange(0, 5).Draw(t, "baseFamily") {
	case 4:
		pool := baseTemplateWords
		if commas {
			pool = append(append([]string{}, baseTemplateWords...), baseCommaWords...)
		}
		return rapid.SampledFrom(pool).Draw(t, "templateBase")
	case 5:
		return composedPath(t, commas, "base")
	}
	return rapid.SampledFrom(baseWords).Draw(t, "base")
}

func isOtherVerb(v string) bool {
	for _, o := range otherVerbs {
		if v == o {
			return true
		}
	}
	return false
}

func isBodyKind(k string) bool {
	switch k {
	case "body", "validBody", "bodyValid", "bodyRequired", "bodyThenFinal", "finalThenBody":
		return true
	}
	return false
}

func genMethod(t *rapid.T, name string, inController bool, commas bool) Method {
	m := Method{Name: name, Ret: rapid.SampledFrom(retTypes).Draw(t, "ret")}
	switch rapid.IntRange(0, 12).Draw(t, "form") {
	case 12:
		// a non-handler method carrying some other annotation (messaging, GraphQL, scheduling ...)
		m.Form = "otherAnnotation"
		m.Path = rapid.SampledFrom(otherAnnotations).Draw(t, "otherAnnotation")
		if rarely(t, 2, "lookalikeAnnotation") {
			// an annotation whose name contains, begins or ends with the name of an HTTP mapping annotation
			m.Path = rapid.SampledFrom(lookalikeAnnotations).Draw(t, "lookalike")
		}
	case 0, 1:
		m.Form = ""
	case 2:
		m.Form = "override"
	case 3, 4, 5:
		m.Form = "shorthand"
	case 6, 7:
		m.Form = "nopath"
	case 8:
		m.Form = "requestValueFirst"
	case 9:
		m.Form = "requestMethodFirst"
	case 10:
		m.Form = "shorthandValuePair"
	case 11:
		m.Form = "shorthand"
	}
	if m.isHandler() {
		m.Verb = rapid.SampledFrom(verbs).Draw(t, "verb")
		if m.Form != "nopath" {
			m.Path = genPath(t, commas)
			if rarely(t, 9, "resemblingPath") {
				// plain content that looks like syntax of the annotation or of a URI
				pool := resemblingPaths
				if commas {
					pool = append(append([]string{}, resemblingPaths...), blankPaths...)
				}
				m.Path = rapid.SampledFrom(pool).Draw(t, "resembling")
			}
			if m.Form != "shorthand" && rarely(t, 4, "pairLikePath") {
				// in the forms with named attributes: a path that holds text like `method=X` or `value=/y`
				m.Path = rapid.SampledFrom(pairLikePaths).Draw(t, "pairLike")
			}
		}
		switch m.Form {
		case "requestValueFirst", "requestMethodFirst":
			switch rapid.IntRange(0, 5).Draw(t, "verbForm") {
			case 4:
				m.VerbForm = "static"
			case 5:
				if !pbt.Excluded("method_array") {
					m.VerbForm = "array"
				}
			}
			if rarely(t, 2, "hasPair") {
				m.Pair = rapid.SampledFrom(extraPairs).Draw(t, "pair")
				m.PairPos = rapid.IntRange(0, 2).Draw(t, "pairPos")
			}
			if rarely(t, 5, "otherVerb") && !pbt.Excluded("request_method_other_verb") {
				// a verb only @RequestMapping(method = ...) can express
				m.Verb = rapid.SampledFrom(otherVerbs).Draw(t, "whichOtherVerb")
			}
		case "shorthandValuePair":
			if rarely(t, 1, "hasPair") {
				m.Pair = rapid.SampledFrom(extraPairs).Draw(t, "pair")
				m.PairPos = rapid.IntRange(0, 1).Draw(t, "pairPos")
			}
		case "nopath":
			switch rapid.IntRange(0, 4).Draw(t, "nopathForm") {
			case 3:
				m.Parens = true
			case 4:
				m.Pair = rapid.SampledFrom(extraPairs).Draw(t, "pair")
			}
		}
	}
	n := rapid.IntRange(0, 4).Draw(t, "nParams")
	hasBody := false
	for i := 0; i < n; i++ {
		p := Param{Name: fmt.Sprintf("p%d", i)}
		k := rapid.IntRange(0, 12).Draw(t, "paramKind")
		if !m.isHandler() {
			// a method that is no handler takes plain parameters, now and then a @RequestBody one
			if k == 12 && rarely(t, 1, "bodyOfNonHandler") {
				k = 4
			} else {
				k = 0
			}
		}
		switch k {
		case 0, 1:
			p.Kind = "plain"
			p.Type = rapid.SampledFrom(plainTypes).Draw(t, "ptype")
		case 2:
			p.Kind = "path"
			p.Type = "Long"
		case 3:
			p.Kind = "valid"
			p.Type = rapid.SampledFrom(bodyTypes[:2]).Draw(t, "vtype")
		case 10:
			p.Kind = "pathMarker"
			p.Type = "Long"
		case 11:
			p.Kind = "requestParam"
			p.Type = "String"
		case 12:
			p.Kind = "header"
			p.Type = "String"
		default: // 4..9
			if hasBody {
				p.Kind = "plain"
				p.Type = "String"
			} else {
				hasBody = true
				p.Kind = []string{"body", "validBody", "bodyValid", "bodyRequired", "bodyThenFinal", "finalThenBody"}[k-4]
				p.Type = rapid.SampledFrom(bodyTypes).Draw(t, "btype")
				if rarely(t, 6, "exoticBodyType") {
					p.Type = rapid.SampledFrom(extraBodyTypes).Draw(t, "xbtype")
				}
			}
		}
		if p.Kind == "plain" && m.isHandler() && rarely(t, 7, "otherParamKind") {
			// a parameter with another Spring annotation; none of them marks a body
			p.Kind = rapid.SampledFrom([]string{"attribute", "cookie", "model", "part"}).Draw(t, "whichParamKind")
			p.Type = map[string]string{"attribute": "String", "cookie": "String", "model": "OrderDto", "part": "MultipartFile"}[p.Kind]
		}
		if rarely(t, 9, "paramName") {
			p.Name = rapid.SampledFrom(extraParamNames).Draw(t, "pname")
			for _, q := range m.Params {
				if q.Name == p.Name {
					p.Name += fmt.Sprint(i)
				}
			}
		}
		m.Params = append(m.Params, p)
	}
	if rarely(t, 9, "varargs") {
		m.Varargs = rapid.SampledFrom([]string{"plain", "requestParam"}).Draw(t, "varargsKind")
	}
	if rarely(t, 9, "exoticRet") {
		m.Ret = rapid.SampledFrom(extraRetTypes).Draw(t, "xret")
	}
	if rarely(t, 11, "typeParams") {
		m.TypeParams = rapid.SampledFrom([]string{"<T>", "<T extends Comparable<T>>", "<K, V>"}).Draw(t, "whichTypeParams")
	}
	if m.isHandler() && rarely(t, 4, "annLayout") {
		m.AnnLayout = rapid.SampledFrom(annLayouts).Draw(t, "whichAnnLayout")
	}
	if rarely(t, 7, "paramLayout") {
		m.ParamLayout = rapid.SampledFrom([]string{"multiline", "blank"}).Draw(t, "whichParamLayout")
	}
	m.Doc = rarely(t, 7, "doc")
	// variations around the declaration; every draw shrinks to the plain variant
	m.Before = someOf(t, methodExtras, 2, "before")
	if m.Form != "" {
		m.After = someOf(t, methodExtras, 2, "after")
	}
	if m.isHandler() && rarely(t, 11, "nestedAnnotationAfter") {
		// an annotation that holds annotations
		m.After = append(m.After, lookalikeAnnotations[len(lookalikeAnnotations)-1])
	}
	if rarely(t, 4, "hasMods") {
		m.Mods = rapid.SampledFrom(methodMods).Draw(t, "mods")
	}
	m.Throws = rarely(t, 5, "throws")
	if rarely(t, 3, "hasBody") {
		m.Body = rapid.SampledFrom([]string{"calls", "lambda", "anonymous", "locals", "annotationText"}).Draw(t, "body")
	}
	m.SameLine = rarely(t, 6, "sameLine")
	if rarely(t, 5, "fieldBefore") {
		m.FieldBefore = rapid.SampledFrom(fieldDecls).Draw(t, "fieldDecl")
	}
	return m
}

func signature(m Method) string {
	var ts []string
	for _, p := range m.Params {
		ts = append(ts, noSpace(p.Type))
	}
	if m.Varargs != "" {
		ts = append(ts, "String...")
	}
	return m.Name + "(" + strings.Join(ts, ",") + ")"
}

func genCase(t *rapid.T) Case { return genCaseOpt(t, true) }

// genCaseOpt: commas = paths may contain a comma. The sub-check cli draws none: it also reads api.csv, which
// coca writes as a table with "," as column separator and without quoting, so a URI with a comma has no
// defined row there (and api.csv is not part of the property statement).
func genCaseOpt(t *rapid.T, commas bool) Case {
	n := rapid.IntRange(1, 6).Draw(t, "nClasses")
	many := false
	if rarely(t, 29, "manyClasses") {
		// past the sizes at which the lists of files and of entries grow
		n = rapid.IntRange(7, 14).Draw(t, "nManyClasses")
		many = true
	}
	bigClass := -1
	if !many && rarely(t, 24, "manyMethods") {
		// one class with many methods
		bigClass = rapid.IntRange(0, n-1).Draw(t, "classOfManyMethods")
	}
	var c Case
	used := map[string]bool{}
	for i := 0; i < n; i++ {
		cl := Class{Pkg: rapid.SampledFrom(pkgs).Draw(t, "pkg")}
		if rarely(t, 11, "defaultPackage") {
			cl.Pkg = "" // a class of the unnamed package: no package declaration
		}
		if rarely(t, 7, "extraPkg") {
			cl.Pkg = rapid.SampledFrom(extraPkgs).Draw(t, "xpkg")
		}
		if rarely(t, 11, "testLikePkg") {
			// a package whose directory resembles the directories the file filter treats as test code
			cl.Pkg = rapid.SampledFrom(testLikePkgs).Draw(t, "tpkg")
		}
		stem := rapid.SampledFrom(classStems).Draw(t, "stem")
		kind := rapid.IntRange(0, 6).Draw(t, "classKind")
		switch {
		case kind <= 2:
			cl.Controller = "RestController"
			cl.Name = stem + "Controller"
		case kind == 3:
			cl.Controller = "Controller"
			cl.Name = stem + "Resource"
		case kind == 6:
			cl.Kind = "interface"
			cl.Name = stem + "Operations"
		default:
			cl.Name = stem + "Service"
			if rarely(t, 5, "otherTypeKind") {
				// a type that is neither class nor interface
				cl.Kind = rapid.SampledFrom([]string{"enum", "annotation"}).Draw(t, "whichTypeKind")
				cl.Name = stem + map[string]string{"enum": "Status", "annotation": "Audited"}[cl.Kind]
			}
		}
		if rarely(t, 7, "classNameShape") {
			cl.Name = fmt.Sprintf(rapid.SampledFrom(extraClassNames).Draw(t, "nameShape"), cl.Name)
		}
		for used[cl.Pkg+"."+cl.Name] {
			cl.Name += "X"
		}
		used[cl.Pkg+"."+cl.Name] = true
		if cl.Controller != "" {
			switch rapid.IntRange(0, 4).Draw(t, "baseForm") {
			case 1, 3:
				cl.BaseForm = "shorthand"
			case 2:
				cl.BaseForm = "valuePair"
			case 4:
				// a class-level mapping that gives no path: the base path is empty
				cl.BaseForm = "pairOnly"
				cl.BasePair = rapid.SampledFrom(extraPairs).Draw(t, "basePair")
			}
			if cl.BaseForm == "shorthand" || cl.BaseForm == "valuePair" {
				cl.Base = genBase(t, commas)
			}
			if cl.BaseForm == "valuePair" && rarely(t, 1, "hasBasePair") {
				cl.BasePair = rapid.SampledFrom(extraPairs).Draw(t, "basePair")
				cl.BasePairFirst = rapid.Bool().Draw(t, "basePairFirst")
			}
			switch rapid.IntRange(0, 7).Draw(t, "ctlArg") {
			case 6:
				cl.CtlArg = "(\"" + strings.ToLower(stem) + "Ctl\")"
			case 7:
				cl.CtlArg = "(value = \"/" + strings.ToLower(stem) + "Ctl\")"
			}
			cl.Mid = someOf(t, typeExtras, 1, "mid")
		} else {
			// a class that is not a controller: a stereotype of its own, now and then a class-level mapping
			if rarely(t, 1, "hasStereotype") {
				cl.Stereotype = rapid.SampledFrom(stereotypes).Draw(t, "stereotype")
				if rarely(t, 3, "lookalikeStereotype") {
					// an annotation whose name contains the name of a controller annotation
					cl.Stereotype = rapid.SampledFrom(lookalikeStereotypes).Draw(t, "lookalikeStereotypeWhich")
				}
			}
			if rarely(t, 3, "baseOfNonController") {
				cl.BaseForm = rapid.SampledFrom([]string{"shorthand", "valuePair"}).Draw(t, "baseFormNC")
				cl.Base = genBase(t, commas)
			}
		}
		cl.Pre = someOf(t, typeExtras, 1, "pre")
		cl.Post = someOf(t, typeExtras, 1, "post")
		if cl.Kind == "" {
			switch rapid.IntRange(0, 9).Draw(t, "classMods") {
			case 7:
				cl.ClassMods = "package"
			case 8:
				cl.ClassMods = "public final"
			case 9:
				if cl.Controller == "" {
					cl.ClassMods = "public abstract"
				}
			}
			if rarely(t, 5, "extends") {
				cl.Extends = rapid.SampledFrom([]string{"BaseController", "AbstractResource<OrderDto, Long>"}).Draw(t, "extendsWhat")
			}
			if rarely(t, 5, "implements") {
				cl.Implements = rapid.SampledFrom([]string{"Serializable", "OrderOperations", "java.io.Serializable, Auditable<User>"}).Draw(t, "implementsWhat")
			}
			switch rapid.IntRange(0, 9).Draw(t, "dto") {
			case 8:
				cl.Dto = "before"
			case 9:
				cl.Dto = "after"
			}
		}
		cl.Field = rapid.Bool().Draw(t, "field") && cl.Kind == ""
		cl.Ctor = cl.Field && rapid.Bool().Draw(t, "ctor")
		cl.Tabs = rapid.Bool().Draw(t, "tabs")
		cl.Tight = rapid.IntRange(0, 3).Draw(t, "tight") == 3
		cl.Comments = rapid.IntRange(0, 3).Draw(t, "comments") == 3
		// text layout of the file
		cl.CRLF = rarely(t, 7, "crlf")
		if rarely(t, 7, "edge") {
			cl.Edge = rapid.SampledFrom([]string{"noFinalNewline", "leadingBlankLines", "trailingBlanks"}).Draw(t, "whichEdge")
		}
		if rarely(t, 14, "longLine") {
			cl.LongLine = rapid.SampledFrom([]int{5000, 5000, 70000}).Draw(t, "longLineBytes")
		}
		if rarely(t, 5, "importStyle") {
			cl.ImportStyle = rapid.SampledFrom([]string{"explicit", "none", "duplicate"}).Draw(t, "whichImportStyle")
		}
		if cl.BaseForm != "" && rarely(t, 4, "baseLayout") {
			cl.BaseLayout = rapid.SampledFrom(annLayouts).Draw(t, "whichBaseLayout")
		}
		nm := rapid.IntRange(0, 5).Draw(t, "nMethods")
		if many {
			nm = rapid.IntRange(0, 2).Draw(t, "nMethodsOfMany")
		} else if i == bigClass {
			nm = rapid.IntRange(6, 40).Draw(t, "nManyMethods")
		}
		if cl.Kind == "annotation" {
			nm = 0
		}
		sigs := map[string]bool{}
		for j := 0; j < nm; j++ {
			m := genMethod(t, fmt.Sprintf("%s%d", []string{"find", "save", "remove", "list", "helper", "update"}[j%6], j), cl.Controller != "", commas)
			if rarely(t, 9, "methodName") {
				m.Name = rapid.SampledFrom(extraMethodNames).Draw(t, "mname")
			}
			if j > 0 && rarely(t, 4, "overload") {
				// an overload of an earlier method of the class (another parameter list)
				m.Name = cl.Methods[rapid.IntRange(0, j-1).Draw(t, "overloadOf")].Name
			}
			if j > 0 && m.isHandler() && rarely(t, 5, "twin") {
				// same verb and path as an earlier handler of the class (or same path under another verb)
				if o := cl.Methods[rapid.IntRange(0, j-1).Draw(t, "twinOf")]; o.isHandler() {
					m.Path = o.Path
					if m.Form == "nopath" {
						m.Path = ""
					}
					if rapid.Bool().Draw(t, "twinVerb") && (!isOtherVerb(o.Verb) || strings.HasPrefix(m.Form, "request")) {
						m.Verb = o.Verb
					}
				}
			}
			for k := 0; sigs[signature(m)]; k++ {
				m.Params = append(m.Params, Param{Kind: "plain", Type: "Long", Name: fmt.Sprintf("ov%d", k)})
			}
			sigs[signature(m)] = true
			if cl.Kind == "interface" {
				m.Body, m.FieldBefore, m.Mods = "", "", ""
			}
			cl.Methods = append(cl.Methods, m)
		}
		c.Classes = append(c.Classes, cl)
	}
	// a controller may implement an interface of the project (imported by name when it lives in another package)
	for i := range c.Classes {
		cl := &c.Classes[i]
		if cl.Controller == "" || cl.Kind != "" {
			continue
		}
		for j, other := range c.Classes {
			if other.Kind == "interface" && rarely(t, 1, fmt.Sprintf("implements%d_%d", i, j)) {
				cl.Implements = other.Name
				if other.Pkg != cl.Pkg && other.Pkg != "" {
					cl.Imports = []string{other.Pkg + "." + other.Name}
				}
				break
			}
		}
	}
	c.Order = rapid.Permutation(indexes(n)).Draw(t, "order")
	nSubs := rapid.IntRange(0, 2).Draw(t, "nSubs")
	for i := 0; i < nSubs; i++ {
		perm := rapid.Permutation(indexes(n)).Draw(t, "subPerm")
		k := rapid.IntRange(1, n).Draw(t, "subLen")
		c.Subs = append(c.Subs, perm[:k])
	}
	c.Maven = rarely(t, 3, "maven")
	// further files that hold no class, and the spelling of the directory
	for i, nx := 0, rapid.IntRange(0, 7).Draw(t, "nExtras")-4; i < nx; i++ {
		x := rapid.SampledFrom(extraFileNames).Draw(t, "extra")
		dup := false
		for _, y := range c.Extras {
			dup = dup || x == y
		}
		if !dup {
			c.Extras = append(c.Extras, x)
		}
	}
	c.DirSlash = rarely(t, 5, "dirSlash")
	// prefixes for the aggregate filter: mostly beginnings of URIs that exist in the project
	var pool []string
	for _, cl := range c.Classes {
		for _, e := range expected(cl) {
			pool = append(pool, e.Uri)
			if len(e.Uri) > 2 {
				pool = append(pool, e.Uri[:len(e.Uri)/2])
			}
		}
	}
	pool = append(pool, "/", "/a", "/nothing/here", "")
	for i, np := 0, rapid.IntRange(0, 2).Draw(t, "nPrefixes"); i < np; i++ {
		c.Prefixes = append(c.Prefixes, rapid.SampledFrom(pool).Draw(t, "prefix"))
	}
	return c
}

func genCliCase(t *rapid.T) Case {
	c := genCaseOpt(t, false)
	for _, f := range []string{"-c", "-s", "-a", "-r", "again"} {
		if rarely(t, 2, "flag"+f) {
			c.Flags = append(c.Flags, f)
		}
	}
	if rarely(t, 2, "cliSpelling") {
		c.CliSpelling = rapid.SampledFrom([]string{"long", "longEq"}).Draw(t, "whichCliSpelling")
	}
	c.CliRel = rarely(t, 3, "cliRel")
	c.CliDep = rarely(t, 3, "cliDep")
	// the working directory has a past: no step in 4 of 7 cases, one in 2, two in 1
	for i, n := 0, []int{0, 0, 0, 0, 1, 1, 2}[rapid.IntRange(0, 6).Draw(t, "nHistory")]; i < n; i++ {
		c.History = append(c.History, genHistStep(t, len(c.Subs)))
	}
	if !leavesApis(c.History) {
		// nothing to read back: without -f the list is extracted all the same
		c.NoForce = rarely(t, 3, "noForce")
	}
	return c
}

// genHistStep draws one earlier event of the working directory; every draw shrinks towards an earlier plain
// `coca analysis` + `coca api` of the whole project
func genHistStep(t *rapid.T, nSubs int) HistStep {
	if rapid.IntRange(0, 9).Draw(t, "histKind") >= 6 {
		h := HistStep{Kind: "file", Content: "foreign"}
		h.File = rapid.SampledFrom([]string{"apis.json", "apis.json", "apis.json", "api.csv", "api.dot"}).Draw(t, "histFile")
		if h.File == "apis.json" {
			h.Content = rapid.SampledFrom([]string{"foreign", "null", "emptyList", "truncated", "empty"}).Draw(t, "histContent")
		}
		return h
	}
	h := HistStep{Kind: "run", Of: "whole"}
	switch rapid.IntRange(0, 5).Draw(t, "histOf") {
	case 2, 3:
		if nSubs > 0 {
			h.Of = "sub"
			h.Sub = rapid.IntRange(0, nSubs-1).Draw(t, "histSub")
		} else {
			h.Of = "noHandlers"
		}
	case 4:
		h.Of = "noHandlers"
	case 5:
		h.Of = "foreign"
	}
	h.Force = rapid.Bool().Draw(t, "histForce")
	for _, f := range []string{"-c", "-s", "-a", "-r"} {
		if rarely(t, 3, "histFlag"+f) {
			h.Flags = append(h.Flags, f)
		}
	}
	h.SamePath = rarely(t, 2, "histSamePath")
	return h
}

func genSeqCase(t *rapid.T) Case {
	c := genCase(t)
	if len(c.Subs) == 0 {
		n := len(c.Classes)
		perm := rapid.Permutation(indexes(n)).Draw(t, "seqSubPerm")
		c.Subs = append(c.Subs, perm[:rapid.IntRange(1, n).Draw(t, "seqSubLen")])
	}
	c.Seq = rapid.SliceOfN(rapid.IntRange(0, len(c.Subs)), 2, 4).Draw(t, "seq")
	return c
}

func indexes(n int) []int {
	out := make([]int, n)
	for i := range out {
		out[i] = i
	}
	return out
}

// ---------------------------------------------------------------------------------------
// Java text builder

func paramPrefix(p Param) string {
	switch p.Kind {
	case "body":
		return "@RequestBody "
	case "validBody":
		return "@Valid @RequestBody "
	case "bodyValid":
		return "@RequestBody @Valid "
	case "bodyRequired":
		return "@RequestBody(required = false) "
	case "bodyThenFinal":
		return "@RequestBody final "
	case "finalThenBody":
		return "final @RequestBody "
	case "path":
		return "@PathVariable(\"" + p.Name + "\") "
	case "pathMarker":
		return "@PathVariable "
	case "requestParam":
		return "@RequestParam(value = \"" + p.Name + "\", required = false, defaultValue = \"/none\") "
	case "header":
		return "@RequestHeader(\"X-" + p.Name + "\") "
	case "valid":
		return "@Valid "
	}
	return otherParamKinds[p.Kind]
}

// layoutAnnotation writes @name(parts...) in one of the layouts: "" plain, spaced (blanks inside the
// parentheses and around the commas), multiline (one element per line, a line comment behind the first),
// comments (block comments between the tokens). ind is the indentation of the line the annotation starts on.
func layoutAnnotation(name string, parts []string, layout, ind string) string {
	switch layout {
	case "spaced":
		if len(parts) == 0 {
			return "@" + name + "( )"
		}
		return "@" + name + "(  " + strings.Join(parts, " ,  ") + " )"
	case "multiline":
		if len(parts) == 0 {
			return "@" + name + "(\n" + ind + ")"
		}
		var sb strings.Builder
		sb.WriteString("@" + name + "(\n")
		for i, p := range parts {
			sb.WriteString(ind + "        " + p)
			if i < len(parts)-1 {
				sb.WriteString(",")
			}
			if i == 0 {
				sb.WriteString(" // @PostMapping(\"/in/a/comment\")")
			}
			sb.WriteString("\n")
		}
		sb.WriteString(ind + ")")
		return sb.String()
	case "comments":
		if len(parts) == 0 {
			return "@" + name + "(/* no path */)"
		}
		return "@" + name + " /* mapping */ (/* value = \"/commented\" */ " + strings.Join(parts, " /* , */ , ") + " /* ) */)"
	}
	return "@" + name + "(" + strings.Join(parts, ", ") + ")"
}

// mappingAnnotation prints the mapping annotation of a handler method.
func mappingAnnotation(m Method, eq, ind string) string {
	ann := verbAnn[m.Verb]
	val := "value" + eq + "\"" + m.Path + "\""
	verb := "RequestMethod." + m.Verb
	switch m.VerbForm {
	case "static":
		verb = m.Verb
	case "array":
		verb = "{RequestMethod." + m.Verb + "}"
	}
	met := "method" + eq + verb
	var parts []string
	switch m.Form {
	case "shorthand":
		return layoutAnnotation(ann, []string{"\"" + m.Path + "\""}, m.AnnLayout, ind)
	case "nopath":
		if m.Pair == "" {
			if m.Parens {
				return layoutAnnotation(ann, nil, m.AnnLayout, ind)
			}
			return "@" + ann
		}
	case "shorthandValuePair":
		parts = []string{val}
	case "requestValueFirst":
		ann = "RequestMapping"
		parts = []string{val, met}
	case "requestMethodFirst":
		ann = "RequestMapping"
		parts = []string{met, val}
	}
	if m.Pair != "" {
		switch {
		case m.PairPos == 1:
			parts = append([]string{m.Pair}, parts...)
		case m.PairPos == 2 && len(parts) == 2:
			parts = []string{parts[0], m.Pair, parts[1]}
		default:
			parts = append(parts, m.Pair)
		}
	}
	return layoutAnnotation(ann, parts, m.AnnLayout, ind)
}

func bodyLines(m Method) []string {
	switch m.Body {
	case "calls":
		return []string{"helper.audit(\"" + m.Name + "\", \"/audit/path\");", "service.load(1L).getItems().size();"}
	case "lambda":
		return []string{"items.stream().filter(i -> i != null).map(Item::getName).forEach(n -> log(n));"}
	case "anonymous":
		return []string{"Runnable task = new Runnable() {", "    @Override", "    public void run() {", "        log(\"/run\");", "    }", "};", "task.run();"}
	case "locals":
		return []string{"@SuppressWarnings(\"unchecked\") final List<Item> found = (List<Item>) cache.get(\"/key\");", "if (found == null) {", "    throw new IllegalStateException(\"/missing\");", "}"}
	case "annotationText":
		// annotation-like text as plain content: in a string literal, in a char-free comment, as a label
		return []string{"String doc = \"@RestController @RequestMapping(\\\"/fake\\\") @GetMapping(\\\"/text\\\")\";", "// @PostMapping(\"/in/a/line/comment\")", "/* @RequestMapping(value = \"/in/a/block\", method = RequestMethod.PUT)", "   public void fake(@RequestBody Fake fake) { } */", "log(doc + '\"' + \"value = \\\"/v\\\"\");"}
	}
	return nil
}

var springAnnotationImports = []string{"DeleteMapping", "GetMapping", "PathVariable", "PostMapping", "PutMapping", "RequestBody", "RequestHeader", "RequestMapping", "RequestMethod", "RequestParam", "RestController"}

func render(cl Class) string {
	var sb strings.Builder
	ind := "    "
	if cl.Tabs {
		ind = "\t"
	}
	eq := " = "
	if cl.Tight {
		eq = "="
	}
	if cl.Edge == "leadingBlankLines" {
		sb.WriteString("\n\n   \n")
	}
	if cl.Pkg != "" {
		sb.WriteString("package " + cl.Pkg + ";\n\n")
	}
	wildcard := "import org.springframework.web.bind.annotation.*;\n"
	explicit := "import org.springframework.stereotype.Controller;\n"
	for _, a := range springAnnotationImports {
		explicit += "import org.springframework.web.bind.annotation." + a + ";\n"
	}
	sb.WriteString("import java.util.List;\nimport java.util.Map;\n")
	switch cl.ImportStyle {
	case "explicit":
		sb.WriteString(explicit)
	case "none":
	case "duplicate":
		sb.WriteString(wildcard + explicit + "import java.util.List;\n" + wildcard)
	default:
		sb.WriteString(wildcard)
	}
	for _, imp := range cl.Imports {
		sb.WriteString("import " + imp + ";\n")
	}
	for _, m := range cl.Methods {
		if m.VerbForm == "static" {
			if cl.ImportStyle == "explicit" {
				sb.WriteString("import static org.springframework.web.bind.annotation.RequestMethod." + m.Verb + ";\n")
				continue
			}
			sb.WriteString("import static org.springframework.web.bind.annotation.RequestMethod.*;\n")
			break
		}
	}
	sb.WriteString("\n")
	dto := "@Data\nclass " + cl.Name + "Dto {\n" + ind + "@JsonProperty(\"/id\")\n" + ind + "private String id;\n\n" + ind + "public String getId() {\n" + ind + ind + "return id;\n" + ind + "}\n}\n"
	if cl.Dto == "before" {
		sb.WriteString(dto + "\n")
	}
	if cl.Comments {
		sb.WriteString("/**\n * " + cl.Name + " with \"quotes\" and @RequestMapping(\"/not/real\") in a comment.\n */\n")
	}
	for _, a := range cl.Pre {
		sb.WriteString(a + "\n")
	}
	if cl.Controller != "" {
		sb.WriteString("@" + cl.Controller + cl.CtlArg + "\n")
	} else if cl.Stereotype != "" {
		sb.WriteString(cl.Stereotype + "\n")
	}
	for _, a := range cl.Mid {
		sb.WriteString(a + "\n")
	}
	switch cl.BaseForm {
	case "shorthand":
		sb.WriteString(layoutAnnotation("RequestMapping", []string{"\"" + cl.Base + "\""}, cl.BaseLayout, "") + "\n")
	case "valuePair":
		parts := []string{"value" + eq + "\"" + cl.Base + "\""}
		if cl.BasePair != "" {
			if cl.BasePairFirst {
				parts = append([]string{cl.BasePair}, parts...)
			} else {
				parts = append(parts, cl.BasePair)
			}
		}
		sb.WriteString(layoutAnnotation("RequestMapping", parts, cl.BaseLayout, "") + "\n")
	case "pairOnly":
		sb.WriteString(layoutAnnotation("RequestMapping", []string{cl.BasePair}, cl.BaseLayout, "") + "\n")
	}
	for _, a := range cl.Post {
		sb.WriteString(a + "\n")
	}
	mods := "public "
	switch cl.ClassMods {
	case "package":
		mods = ""
	case "":
	default:
		mods = cl.ClassMods + " "
	}
	isInterface := cl.Kind == "interface"
	switch cl.Kind {
	case "interface":
		sb.WriteString("public interface " + cl.Name)
	case "enum":
		sb.WriteString("public enum " + cl.Name)
	case "annotation":
		// an annotation type of the project: its elements are named like the attributes of the mapping annotations
		sb.WriteString("public @interface " + cl.Name + " {\n" + ind + "String value() default \"/audited\";\n\n" + ind + "String[] path() default {};\n\n" + ind + "RequestMethod[] method() default {RequestMethod.GET};\n}\n")
		return finishText(cl, sb.String())
	default:
		sb.WriteString(mods + "class " + cl.Name)
	}
	if cl.Extends != "" {
		sb.WriteString(" extends " + cl.Extends)
	}
	if cl.Implements != "" {
		sb.WriteString(" implements " + cl.Implements)
	}
	sb.WriteString(" {\n")
	if cl.Kind == "enum" {
		sb.WriteString(ind + "NEW, PAID(\"/paid\"), @Deprecated GONE;\n\n")
	}
	if cl.LongLine > 0 {
		sb.WriteString(ind + "// " + strings.Repeat("long ", cl.LongLine/5) + "\n")
	}
	if cl.Field {
		sb.WriteString(ind + "private final Helper helper;\n\n")
	}
	if cl.Ctor {
		sb.WriteString(ind + "public " + cl.Name + "(Helper helper) {\n" + ind + ind + "this.helper = helper;\n" + ind + "}\n\n")
	}
	for i, m := range cl.Methods {
		if m.FieldBefore != "" && !isInterface {
			for _, line := range strings.Split(fmt.Sprintf(m.FieldBefore, i), "\n") {
				sb.WriteString(ind + line + "\n")
			}
			sb.WriteString("\n")
		}
		if cl.Comments {
			sb.WriteString(ind + "// " + m.Name + "\n")
		}
		if m.Doc {
			sb.WriteString(ind + "/**\n" + ind + " * Not a mapping: @GetMapping(\"/in/javadoc\") {@link RequestMapping}, \"quoted\".\n" + ind + " * @RequestMapping(value = \"/doc\", method = RequestMethod.POST)\n" + ind + " * @return nothing\n" + ind + " */\n")
		}
		var anns []string
		anns = append(anns, m.Before...)
		switch m.Form {
		case "":
		case "override":
			anns = append(anns, "@Override")
		case "otherAnnotation":
			anns = append(anns, m.Path)
		default:
			anns = append(anns, mappingAnnotation(m, eq, ind))
		}
		anns = append(anns, m.After...)
		if m.Doc {
			// a block comment between the annotations and the signature
			anns = append(anns, "/* @PostMapping(\"/between\") */")
		}
		var ps []string
		for _, p := range m.Params {
			ps = append(ps, paramPrefix(p)+p.Type+" "+p.Name)
		}
		switch m.Varargs {
		case "plain":
			ps = append(ps, "String... tags")
		case "requestParam":
			ps = append(ps, "@RequestParam(\"tags\") String... tags")
		}
		mmods := "public "
		switch m.Mods {
		case "package":
			mmods = ""
		case "":
		default:
			mmods = m.Mods + " "
		}
		if isInterface {
			mmods = ""
		}
		if m.TypeParams != "" {
			mmods += m.TypeParams + " "
		}
		params := strings.Join(ps, ", ")
		switch m.ParamLayout {
		case "multiline":
			if len(ps) > 0 {
				params = "\n" + ind + ind + ind + strings.Join(ps, ",\n"+ind+ind+ind) + "\n" + ind
			} else {
				params = "\n" + ind
			}
		case "blank":
			params = " " + strings.Join(ps, " , ") + " "
		}
		sig := mmods + m.Ret + " " + m.Name + "(" + params + ")"
		if m.Throws {
			sig += " throws java.io.IOException, IllegalStateException"
		}
		if m.SameLine {
			sb.WriteString(ind + strings.Join(append(anns, sig), " "))
		} else {
			for _, a := range anns {
				sb.WriteString(ind + a + "\n")
			}
			sb.WriteString(ind + sig)
		}
		if isInterface {
			sb.WriteString(";\n\n")
			continue
		}
		sb.WriteString(" {\n")
		for _, line := range bodyLines(m) {
			sb.WriteString(ind + ind + line + "\n")
		}
		switch m.Ret {
		case "void":
			sb.WriteString(ind + ind + "log(\"" + m.Name + "\");\n")
		case "int":
			sb.WriteString(ind + ind + "return 0;\n")
		default:
			sb.WriteString(ind + ind + "return null;\n")
		}
		sb.WriteString(ind + "}\n\n")
	}
	sb.WriteString("}\n")
	if cl.Dto == "after" {
		sb.WriteString("\n" + dto)
	}
	return finishText(cl, sb.String())
}

// finishText applies the layout of the file as a whole: how it ends, how its lines end
func finishText(cl Class, text string) string {
	switch cl.Edge {
	case "noFinalNewline":
		text = strings.TrimRight(text, "\n")
	case "trailingBlanks":
		text += "\n   \n\t\n\n"
	}
	if cl.CRLF {
		text = strings.ReplaceAll(text, "\n", "\r\n")
	}
	return text
}

type errCounter struct {
	*antlr.DefaultErrorListener
	n     int
	first string
}

func (e *errCounter) SyntaxError(_ antlr.Recognizer, _ interface{}, line, column int, msg string, _ antlr.RecognitionException) {
	if e.n == 0 {
		e.first = fmt.Sprintf("%d:%d %s", line, column, msg)
	}
	e.n++
}

// mustParse: a generated file the shipped parser rejects is a generator bug, never a finding.
func mustParse(text string) {
	ec := &errCounter{DefaultErrorListener: antlr.NewDefaultErrorListener()}
	lexer := parser.NewJavaLexer(antlr.NewInputStream(text))
	lexer.RemoveErrorListeners()
	lexer.AddErrorListener(ec)
	p := parser.NewJavaParser(antlr.NewCommonTokenStream(lexer, 0))
	p.RemoveErrorListeners()
	p.AddErrorListener(ec)
	p.CompilationUnit()
	if ec.n > 0 {
		panic(fmt.Sprintf("c12 HARNESS BUG: generated Java rejected by the shipped parser (%s):\n%s", ec.first, text))
	}
}

// ---------------------------------------------------------------------------------------
// expectation and observation

type Entry struct {
	Verb, Uri, Body, Pkg, Class, Method string
}

func (e Entry) String() string {
	return fmt.Sprintf("%s %s body=%q %s.%s.%s", e.Verb, e.Uri, e.Body, e.Pkg, e.Class, e.Method)
}

func noSpace(s string) string { return strings.Join(strings.Fields(s), "") }

func expected(cl Class) []Entry {
	var out []Entry
	if cl.Controller == "" {
		return nil
	}
	for _, m := range cl.Methods {
		if !m.isHandler() {
			continue
		}
		e := Entry{Verb: m.Verb, Uri: cl.Base + m.Path, Pkg: cl.Pkg, Class: cl.Name, Method: m.Name}
		for _, p := range m.Params {
			if isBodyKind(p.Kind) {
				e.Body = noSpace(p.Type)
			}
		}
		out = append(out, e)
	}
	return out
}

func sorted(list []Entry) []string {
	var out []string
	for _, e := range list {
		out = append(out, e.String())
	}
	sort.Strings(out)
	return out
}

func toEntries(apis []api_domain.RestAPI) []Entry {
	var out []Entry
	for _, a := range apis {
		out = append(out, Entry{Verb: a.HttpMethod, Uri: a.Uri, Body: noSpace(a.RequestBodyClass), Pkg: a.PackageName, Class: a.ClassName, Method: a.MethodName})
	}
	return out
}

func fileTree(c Case, seq []int) map[string]string {
	files := map[string]string{}
	for pos, idx := range seq {
		files[fileName(c, pos, idx)] = render(c.Classes[idx])
	}
	for _, x := range c.Extras {
		files[x] = extraFiles[x]
		if x == ".gitignore" {
			// ... and files it ignores (none of them Java source)
			files["debug.log"] = "GET /logged\n"
			files["target/classes/com/acme/Old.class"] = "\xca\xfe\xba\xbe"
			files["zz.iml"] = "<module/>\n"
		}
	}
	return files
}

// fileName: the position in the sequence leads the name, so that the walk order is the sequence
func fileName(c Case, pos, idx int) string {
	cl := c.Classes[idx]
	if c.Maven {
		return filepath.ToSlash(filepath.Join(fmt.Sprintf("m%02d/src/main/java", pos), strings.ReplaceAll(cl.Pkg, ".", "/"), cl.Name+".java"))
	}
	if inPool(cl.Pkg, extraPkgs) || inPool(cl.Pkg, testLikePkgs) {
		// the packages of the checklist audit are laid out as directories in the flat layout too
		return filepath.ToSlash(filepath.Join(fmt.Sprintf("f%02d", pos), strings.ReplaceAll(cl.Pkg, ".", "/"), cl.Name+".java"))
	}
	return fmt.Sprintf("f%02d_%s.java", pos, cl.Name)
}

func resetAll() {
	ast_java.VerifResetAstJava()
	java_identify.VerifResetJavaIdentify()
	ast_api_java.VerifResetAstApiJava()
	api.VerifResetApi()
}

// scanInProcess runs the pipeline of `coca analysis` + `coca api -f` through the packages.
func scanInProcess(dir string) ([]Entry, string) {
	resetAll()
	apis, msg := pipeline(dir)
	return toEntries(apis), msg
}

// pipeline: identifier pass, full pass, API scan - without touching the package state first
func pipeline(dir string) ([]api_domain.RestAPI, string) {
	var apis []api_domain.RestAPI
	if p := pbt.Call(func() {
		identApp := javaapp.NewJavaIdentifierApp()
		identifiers := identApp.AnalysisPath(dir)
		identMap := core_domain.BuildIdentifierMap(identifiers)
		diMap := core_domain.BuildDIMap(identifiers, identMap)
		fullApp := javaapp.NewJavaFullApp()
		deps := fullApp.AnalysisPath(dir, identifiers)
		app := new(api.JavaApiApp)
		apis = app.AnalysisPath(dir, deps, identMap, diMap)
	}); p != "" {
		return nil, "API scan panicked: " + p
	}
	return apis, ""
}

// scanCLI: `coca analysis` + `coca api -f` (plus the drawn options) in a fresh working directory; the API
// list is coca_reporter/apis.json, and coca_reporter/api.csv must show that list row by row.
// cliTimeout: a sub-process that did not end within the time limit of cli.Run says nothing about the API list
// (the statement does not speak of running time): the case is counted as skipped, never judged
const cliTimeout = "CLI-TIMEOUT"

func scanCLI(dir string, c Case, prefix string) ([]Entry, string) {
	flags := c.Flags
	cwd := filepath.Join(dir, "_work")
	_ = os.MkdirAll(cwd, 0755)
	src := filepath.Join(dir, "src")
	if c.CliRel {
		src = filepath.Join("..", "src") // relative to the working directory
	}
	if c.DirSlash {
		src += "/"
	}
	// one option in the drawn spelling: -p DIR | --path DIR | --path=DIR
	opt := func(short, long, val string) []string {
		name := "-" + short
		if c.CliSpelling != "" {
			name = "--" + long
		}
		switch {
		case val == "":
			return []string{name}
		case c.CliSpelling == "longEq":
			return []string{name + "=" + val}
		}
		return []string{name, val}
	}
	show := func(args []string) string {
		return "`coca " + strings.ReplaceAll(strings.Join(args, " "), src, "DIR") + "`"
	}
	// apiOptions: the options of `coca api` behind -f, for the directory as it is passed
	apiOptions := func(srcArg string, flags []string) (rest []string, aggregate string, removed bool) {
		rest = opt("p", "path", srcArg)
		for _, f := range flags {
			switch f {
			case "-a":
				aggregate = prefix
				if aggregate == "" {
					aggregate = "/a"
				}
				rest = append(rest, opt("a", "aggregate", aggregate)...)
			case "-r":
				removed = true
				rest = append(rest, opt("r", "remove", "com.acme")...)
			case "-c":
				rest = append(rest, opt("c", "count", "")...)
			case "-s":
				rest = append(rest, opt("s", "sort", "")...)
			}
		}
		if c.CliDep {
			rest = append(rest, opt("d", "dependence", filepath.Join("coca_reporter", "deps.json"))...)
		}
		return
	}
	// the past of the working directory: earlier runs on other projects (or on an older state of this one) and
	// files left in coca_reporter. What these steps print or return is not judged (their projects are judged
	// when they are the project of the case): they only leave their files behind.
	for i, h := range c.History {
		switch h.Kind {
		case "file":
			cli.WriteTree(filepath.Join(cwd, "coca_reporter"), map[string]string{h.File: staleContent(h.File, h.Content)})
		case "run":
			files := historyProject(c, h)
			hdir, harg := filepath.Join(dir, fmt.Sprintf("hist%d", i)), filepath.Join("..", fmt.Sprintf("hist%d", i))
			if h.SamePath {
				// an older state of the judged project: same path, other content; put back afterwards
				hdir, harg = filepath.Join(dir, "src"), filepath.Join("..", "src")
				if err := os.Rename(hdir, filepath.Join(dir, "src_judged")); err != nil {
					panic("c12 harness: " + err.Error())
				}
			}
			if !c.CliRel {
				harg = hdir
			}
			if c.DirSlash {
				harg += "/"
			}
			_ = os.MkdirAll(hdir, 0755)
			cli.WriteTree(hdir, files)
			timedOut, failed := false, false
			hrest, _, _ := apiOptions(harg, h.Flags)
			hargs := []string{"api"}
			if h.Force {
				hargs = append(hargs, opt("f", "force", "")...)
			}
			for _, args := range [][]string{append([]string{"analysis"}, opt("p", "path", harg)...), append(hargs, hrest...)} {
				r, err := cli.Run("coca", cwd, nil, args...)
				timedOut = timedOut || (err == nil && r.TimedOut)
				failed = failed || err != nil || r.ExitCode != 0
			}
			if h.SamePath {
				_ = os.RemoveAll(hdir)
				if err := os.Rename(filepath.Join(dir, "src_judged"), hdir); err != nil {
					panic("c12 harness: " + err.Error())
				}
			}
			if timedOut {
				return nil, cliTimeout
			}
			if failed {
				pbt.Count("cli_history_run_failed", 1)
			}
		}
	}
	past := historyText(c.History)
	analysis := append([]string{"analysis"}, opt("p", "path", src)...)
	if r, err := cli.Run("coca", cwd, nil, analysis...); err == nil && r.TimedOut {
		return nil, cliTimeout
	} else if err != nil || r.ExitCode != 0 {
		return nil, fmt.Sprintf("%s%s failed: %v exit=%d\n%s%s", past, show(analysis), err, r.ExitCode, tail(r.Stdout), tail(r.Stderr))
	}
	rest, aggregate, removed := apiOptions(src, flags)
	args := []string{"api"}
	if !(c.NoForce && !leavesApis(c.History)) {
		args = append(args, opt("f", "force", "")...)
	}
	args = append(args, rest...)
	shown := past + show(args)
	if r, err := cli.Run("coca", cwd, nil, args...); err == nil && r.TimedOut {
		return nil, cliTimeout
	} else if err != nil || r.ExitCode != 0 {
		return nil, fmt.Sprintf("%s failed: %v exit=%d\n%s%s", shown, err, r.ExitCode, tail(r.Stdout), tail(r.Stderr))
	}
	raw, err := os.ReadFile(filepath.Join(cwd, "coca_reporter", "apis.json"))
	if err != nil {
		return nil, "coca api wrote no coca_reporter/apis.json: " + err.Error()
	}
	var apis []api_domain.RestAPI
	if err := json.Unmarshal(raw, &apis); err != nil {
		return nil, "coca_reporter/apis.json is not a JSON list of APIs: " + err.Error()
	}
	// api.csv: one row (size, verb, URI, caller) per entry of the list (per entry under the prefix with -a)
	csv, err := os.ReadFile(filepath.Join(cwd, "coca_reporter", "api.csv"))
	if err != nil {
		return nil, shown + " wrote no coca_reporter/api.csv: " + err.Error()
	}
	var rows, wantRows []string
	for i, line := range strings.Split(strings.TrimSpace(string(csv)), "\n") {
		if i == 0 || strings.TrimSpace(line) == "" {
			continue // header
		}
		f := strings.Split(line, ",")
		if len(f) != 4 {
			return nil, fmt.Sprintf("%s: api.csv has a row that is not size,verb,URI,caller: %q", shown, line)
		}
		row := strings.TrimSpace(f[1]) + " " + strings.TrimSpace(f[2])
		if !removed {
			row += " " + strings.TrimSpace(f[3])
		}
		rows = append(rows, row)
	}
	for _, a := range apis {
		if !strings.HasPrefix(a.Uri, aggregate) {
			continue
		}
		row := a.HttpMethod + " " + a.Uri
		if !removed {
			row += " " + a.PackageName + "." + a.ClassName + "." + a.MethodName
		}
		wantRows = append(wantRows, row)
	}
	sort.Strings(rows)
	sort.Strings(wantRows)
	if d := diff(wantRows, rows); d != "" {
		return nil, fmt.Sprintf("%s: the rows of api.csv are not the entries of apis.json%s: %s", shown, map[bool]string{true: " under the prefix " + aggregate, false: ""}[aggregate != ""], d)
	}
	first := sorted(toEntries(apis))
	for _, f := range flags {
		if f != "again" {
			continue
		}
		// the same command once more in the same working directory, now without -f: the list is read back
		// from coca_reporter/apis.json and must come out as it went in
		again := append([]string{"api"}, rest...)
		if r, err := cli.Run("coca", cwd, nil, again...); err == nil && r.TimedOut {
			return nil, cliTimeout
		} else if err != nil || r.ExitCode != 0 {
			return nil, fmt.Sprintf("%s, then the same without -f: failed: %v exit=%d\n%s%s", shown, err, r.ExitCode, tail(r.Stdout), tail(r.Stderr))
		}
		var second []api_domain.RestAPI
		raw, err := os.ReadFile(filepath.Join(cwd, "coca_reporter", "apis.json"))
		if err != nil || json.Unmarshal(raw, &second) != nil {
			return nil, shown + ", then the same without -f: coca_reporter/apis.json is gone or unreadable"
		}
		if d := diff(first, sorted(toEntries(second))); d != "" {
			return nil, fmt.Sprintf("%s, then the same without -f: apis.json changed: %s", shown, d)
		}
		csv2, _ := os.ReadFile(filepath.Join(cwd, "coca_reporter", "api.csv"))
		if sortedLines(string(csv2)) != sortedLines(string(csv)) {
			return nil, fmt.Sprintf("%s, then the same without -f: api.csv changed:\nfirst\n%s\nsecond\n%s", shown, csv, csv2)
		}
	}
	return toEntries(apis), ""
}

// the foreign project: a controller of another code base; what a run on it writes is known by construction
const foreignSource = "package org.legacy.billing;\n\nimport org.springframework.web.bind.annotation.*;\n\n@RestController\n@RequestMapping(\"/legacy\")\npublic class InvoiceController {\n" +
	"    @GetMapping(\"/invoices\")\n    public String invoices() {\n        return null;\n    }\n\n" +
	"    @PostMapping(\"/invoices\")\n    public String create(@RequestBody InvoiceDto dto) {\n        return null;\n    }\n}\n"

var foreignApis = []api_domain.RestAPI{
	{Uri: "/legacy/invoices", HttpMethod: "GET", MethodName: "invoices", PackageName: "org.legacy.billing", ClassName: "InvoiceController"},
	{Uri: "/legacy/invoices", HttpMethod: "POST", MethodName: "create", RequestBodyClass: "InvoiceDto", MethodParams: map[string]string{"dto": "InvoiceDto"}, PackageName: "org.legacy.billing", ClassName: "InvoiceController"},
}

// historyProject: the files of the project an earlier run of the working directory was given
func historyProject(c Case, h HistStep) map[string]string {
	switch h.Of {
	case "foreign":
		mustParse(foreignSource)
		return map[string]string{"org/legacy/billing/InvoiceController.java": foreignSource}
	case "sub":
		if h.Sub >= 0 && h.Sub < len(c.Subs) {
			return fileTree(c, c.Subs[h.Sub])
		}
	case "noHandlers":
		var seq []int
		for _, idx := range c.Order {
			if len(expected(c.Classes[idx])) == 0 {
				seq = append(seq, idx)
			}
		}
		return fileTree(c, seq)
	}
	return fileTree(c, c.Order)
}

// staleContent: a file of coca_reporter as an earlier run (on the foreign project, on a project without
// handlers, or interrupted while writing) left it
func staleContent(file, content string) string {
	list, _ := json.MarshalIndent(foreignApis, "", "\t")
	switch file {
	case "api.csv":
		return "  SIZE , METHOD , URI , CALLER  \n  1 , GET , /legacy/invoices , org.legacy.billing.InvoiceController.invoices  \n  1 , POST , /legacy/invoices , org.legacy.billing.InvoiceController.create  \n"
	case "api.dot":
		return "digraph G { \n\"GET /legacy/invoices\" -> \"org.legacy.billing.InvoiceController.invoices\";\n}\n"
	}
	switch content {
	case "null":
		return "null"
	case "emptyList":
		return "[]"
	case "truncated":
		return string(list[:len(list)/2])
	case "empty":
		return ""
	}
	return string(list)
}

// historyText names the past of the working directory in failure messages (a pure function of the case)
func historyText(h []HistStep) string {
	if len(h) == 0 {
		return ""
	}
	var parts []string
	for _, s := range h {
		if s.Kind == "file" {
			parts = append(parts, fmt.Sprintf("coca_reporter/%s left behind (%s)", s.File, s.Content))
			continue
		}
		what := map[string]string{"whole": "the whole project", "sub": fmt.Sprintf("sub-project %d", s.Sub), "noHandlers": "the classes without handlers", "foreign": "a foreign project"}[s.Of]
		cmd := "`coca analysis` + `coca api"
		if s.Force {
			cmd += " -f"
		}
		if len(s.Flags) > 0 {
			cmd += " " + strings.Join(s.Flags, " ")
		}
		cmd += "` on " + what
		if s.SamePath {
			cmd += " at the path of the judged project (then replaced)"
		}
		parts = append(parts, cmd)
	}
	return "in a working directory with a past [" + strings.Join(parts, "; ") + "]: "
}

func sortedLines(s string) string {
	lines := strings.Split(s, "\n")
	sort.Strings(lines)
	return strings.Join(lines, "\n")
}

// filterClauses: the aggregate filter keeps exactly the entries under the prefix, keeps everything for the
// empty prefix, and leaves the list it was given as it was - also when the same list is filtered again.
func filterClauses(apis []api_domain.RestAPI, prefixes []string) string {
	before := sorted(toEntries(apis))
	inOrder := fmt.Sprint(toEntries(apis))
	for _, prefix := range append(append([]string{}, prefixes...), "") {
		var out []api_domain.RestAPI
		if p := pbt.Call(func() { out = api_domain.FilterApiByPrefix(prefix, apis) }); p != "" {
			return fmt.Sprintf("FilterApiByPrefix(%q) panicked: %s", prefix, p)
		}
		var want []Entry
		for _, e := range toEntries(apis) {
			if strings.HasPrefix(e.Uri, prefix) {
				want = append(want, e)
			}
		}
		got := sorted(toEntries(out))
		if after := fmt.Sprint(toEntries(apis)); after != inOrder {
			return fmt.Sprintf("FilterApiByPrefix(%q) changed the API list it was given (prefixes tried in this order: %q):\nbefore %q\nafter  %q", prefix, prefixes, before, sorted(toEntries(apis)))
		}
		if d := diff(sorted(want), got); d != "" {
			return fmt.Sprintf("FilterApiByPrefix(%q) does not keep exactly the entries whose URI starts with the prefix (prefixes tried in this order: %q): %s\nlist %q", prefix, prefixes, d, before)
		}
	}
	return ""
}

func tail(s string) string {
	if len(s) > 1200 {
		return "…" + s[len(s)-1200:]
	}
	return s
}

func diff(want, got []string) string {
	count := map[string]int{}
	for _, w := range want {
		count[w]++
	}
	for _, g := range got {
		count[g]--
	}
	var missing, extra []string
	for k, v := range count {
		for ; v > 0; v-- {
			missing = append(missing, k)
		}
		for ; v < 0; v++ {
			extra = append(extra, k)
		}
	}
	sort.Strings(missing)
	sort.Strings(extra)
	if len(missing) == 0 && len(extra) == 0 {
		return ""
	}
	return fmt.Sprintf("missing %q, unexpected %q", missing, extra)
}

func describe(c Case, seq []int) string {
	var sb strings.Builder
	for pos, idx := range seq {
		sb.WriteString(fmt.Sprintf("--- %s ---\n%s", fileName(c, pos, idx), reLong.ReplaceAllString(render(c.Classes[idx]), "long ...(the word repeated)... ")))
	}
	if len(c.Extras) > 0 {
		sb.WriteString(fmt.Sprintf("--- further files: %q ---\n", c.Extras))
	}
	return sb.String()
}

func ofClass(list []Entry, cl Class) []Entry {
	var out []Entry
	for _, e := range list {
		if e.Pkg == cl.Pkg && e.Class == cl.Name {
			out = append(out, e)
		}
	}
	return out
}

// judge runs one (sub-)project and compares with the expectation by construction.
func judge(c Case, seq []int, scan func(dir string) ([]Entry, string)) ([]Entry, string) {
	dir := cli.Scratch("c12-")
	defer os.RemoveAll(dir)
	files := fileTree(c, seq)
	for name, text := range files {
		if strings.HasSuffix(name, ".java") {
			mustParse(text)
		}
	}
	cli.WriteTree(filepath.Join(dir, "src"), files)
	src := filepath.Join(dir, "src")
	if c.DirSlash {
		src += "/"
	}
	got, msg := scan(src)
	if msg != "" {
		// run-dependent parts removed: rapid shrinks only when a failure repeats verbatim
		msg = reHex.ReplaceAllString(strings.ReplaceAll(msg, dir, "<scratch>"), "0x_")
		return nil, msg + "\n" + describe(c, seq)
	}
	return got, ""
}

var reLong = regexp.MustCompile(`(long ){20,}`)
var reHex = regexp.MustCompile(`\+?0x[0-9a-f]+\??`)

func expectedOf(c Case, seq []int) []Entry {
	var want []Entry
	for _, idx := range seq {
		want = append(want, expected(c.Classes[idx])...)
	}
	return want
}

func check(c Case, viaCLI bool) pbt.Verdict {
	what := "JavaApiApp.AnalysisPath"
	scan := func(src string) ([]Entry, string) {
		resetAll()
		apis, msg := pipeline(src)
		if msg == "" {
			msg = filterClauses(apis, c.Prefixes)
		}
		return toEntries(apis), msg
	}
	if viaCLI {
		what = "coca api -f (apis.json)"
		prefix := ""
		if len(c.Prefixes) > 0 {
			prefix = c.Prefixes[0]
		}
		scan = func(src string) ([]Entry, string) { return scanCLI(filepath.Dir(filepath.Clean(src)), c, prefix) }
	}
	// 1. the whole project against the expectation by construction
	want := expectedOf(c, c.Order)
	got, msg := judge(c, c.Order, scan)
	if strings.HasPrefix(msg, cliTimeout) {
		pbt.Count("cli_timeout", 1)
		return pbt.Verdict{Skip: true}
	}
	if msg != "" {
		return pbt.Fail("%s", msg)
	}
	if d := diff(sorted(want), sorted(got)); d != "" {
		return pbt.Fail("%s: API list differs from the handler methods of the project: %s\nexpected %q\ngot      %q\n%s", what, d, sorted(want), sorted(got), describe(c, c.Order))
	}
	// 2. metamorphic: a controller's entries are the same in every sub-project containing it
	subs := append([][]int{}, c.Subs...)
	if !viaCLI {
		for idx, cl := range c.Classes {
			if cl.Controller != "" && len(c.Classes) > 1 {
				subs = append(subs, []int{idx})
			}
		}
	}
	for _, seq := range subs {
		subGot, msg := judge(c, seq, scan)
		if strings.HasPrefix(msg, cliTimeout) {
			pbt.Count("cli_timeout", 1)
			return pbt.Verdict{Skip: true}
		}
		if msg != "" {
			return pbt.Fail("sub-project %v: %s", seq, msg)
		}
		for _, idx := range seq {
			cl := c.Classes[idx]
			inFull, inSub := sorted(ofClass(got, cl)), sorted(ofClass(subGot, cl))
			if d := diff(inFull, inSub); d != "" {
				return pbt.Fail("%s: entries of %s.%s differ between the whole project (file order %v) and the sub-project with file order %v: %s\n%s", what, cl.Pkg, cl.Name, c.Order, seq, d, describe(c, seq))
			}
		}
		if d := diff(sorted(expectedOf(c, seq)), sorted(subGot)); d != "" {
			return pbt.Fail("%s: sub-project with file order %v: API list differs from its handler methods: %s\n%s", what, seq, d, describe(c, seq))
		}
	}
	return classify(c)
}

// checkSeq: several projects scanned one after the other in ONE process without resetting any package
// state in between (what a long-running caller of the packages, or the repository's own test binary,
// does): every scan must return the API list of the project it was given, and a list returned earlier
// must not change when a later scan runs.
func checkSeq(c Case) pbt.Verdict {
	projects := append([][]int{c.Order}, c.Subs...)
	root := cli.Scratch("c12-seq-")
	defer os.RemoveAll(root)
	var dirs []string
	for k, seq := range projects {
		files := fileTree(c, seq)
		for name, text := range files {
			if strings.HasSuffix(name, ".java") {
				mustParse(text)
			}
		}
		dir := filepath.Join(root, fmt.Sprintf("p%d", k), "src")
		cli.WriteTree(dir, files)
		if c.DirSlash {
			dir += "/"
		}
		dirs = append(dirs, dir)
	}
	type run struct {
		project int
		apis    []api_domain.RestAPI
		snap    []string
	}
	var runs []run
	resetAll()
	for step, k := range c.Seq {
		if k < 0 || k >= len(projects) {
			k = 0
		}
		apis, msg := pipeline(dirs[k])
		if msg != "" {
			msg = reHex.ReplaceAllString(strings.ReplaceAll(msg, root, "<scratch>"), "0x_")
			return pbt.Fail("scan %d of the sequence %v: %s\n%s", step, c.Seq, msg, describe(c, projects[k]))
		}
		got := sorted(toEntries(apis))
		if d := diff(sorted(expectedOf(c, projects[k])), got); d != "" {
			return pbt.Fail("scan %d of the sequence %v (projects %v, scanned in one process): API list differs from the handler methods of the project scanned: %s\ngot %q\n%s", step, c.Seq, projects, d, got, describe(c, projects[k]))
		}
		for i, r := range runs {
			if d := diff(r.snap, sorted(toEntries(r.apis))); d != "" {
				return pbt.Fail("the API list returned by scan %d changed while scan %d ran (sequence %v, projects %v): %s", i, step, c.Seq, projects, d)
			}
		}
		runs = append(runs, run{k, apis, got})
	}
	v := classify(c)
	v.Classes = append(v.Classes, "seq_len_"+fmt.Sprint(len(c.Seq)))
	for i := 1; i < len(c.Seq); i++ {
		if c.Seq[i] == c.Seq[i-1] {
			v.Classes = append(v.Classes, "seq_same_project_twice_in_a_row")
			break
		}
	}
	return v
}

func inPool(s string, pool []string) bool {
	for _, p := range pool {
		if s == p {
			return true
		}
	}
	return false
}

// isPlainName: ASCII letters only
func isPlainName(s string) bool {
	for _, r := range s {
		if !(r >= 'a' && r <= 'z' || r >= 'A' && r <= 'Z') {
			return false
		}
	}
	return true
}

func mark(labels map[string]bool, cond bool, label string) {
	if cond {
		labels[label] = true
	}
}

// pathLabels names the shapes of the URI-template family a path (or base path) shows
func pathLabels(p string) []string {
	var out []string
	add := func(cond bool, l string) {
		if cond {
			out = append(out, l)
		}
	}
	open, shut := strings.HasPrefix(p, "{"), strings.HasSuffix(p, "}")
	add(strings.Contains(p, "{") && !strings.Contains(p, "${"), "with_template_variable")
	add(open && shut, "wrapped_in_braces")
	add(open && shut && strings.Count(p, "{") == 1 && !strings.Contains(p, ":"), "is_one_template_variable")
	add(open && !shut, "begins_with_brace_only")
	add(!open && shut && !strings.HasPrefix(p, "/") && !strings.HasPrefix(p, "$"), "ends_with_brace_no_leading_slash")
	add(strings.HasPrefix(p, "/") && shut, "leading_slash_ends_with_brace")
	add(strings.Contains(p, ":"), "variable_with_pattern")
	add(strings.Contains(p, ","), "with_comma")
	add(strings.Contains(p, "${"), "property_placeholder")
	add(strings.Contains(p, "{*") || strings.Contains(p, "*"), "wildcard")
	add(len(p) > 1 && strings.HasSuffix(p, "/"), "trailing_slash")
	add(strings.HasPrefix(p, "(") || strings.HasPrefix(p, "["), "begins_with_other_bracket")
	add(p != "" && !strings.HasPrefix(p, "/"), "no_leading_slash")
	return out
}

func classify(c Case) pbt.Verdict {
	v := pbt.Verdict{}
	withBase, withoutBase, nonCtl := 0, 0, 0
	labels := map[string]bool{}
	for _, cl := range c.Classes {
		handlers := 0
		for i, m := range cl.Methods {
			if m.isHandler() {
				handlers++
				if cl.Controller != "" {
					labels["form_"+m.Form] = true
					for _, p := range m.Params {
						if strings.Contains(strings.ToLower(p.Kind), "body") {
							labels["request_body_param"] = true
						}
					}
					if len(m.Params) == 0 {
						labels["handler_without_params"] = true
					}
				}
			} else if cl.Controller != "" {
				labels["non_handler_method_in_controller"] = true
				if i == 0 && cl.BaseForm != "" {
					labels["first_method_plain_after_class_mapping"] = true
				}
			}
		}
		switch {
		case cl.Controller == "":
			nonCtl++
			if handlers > 0 {
				labels["non_controller_with_mapping_annotations"] = true
			}
		case cl.BaseForm == "":
			withoutBase++
		default:
			withBase++
			labels["base_"+cl.BaseForm] = true
		}
		if cl.Controller != "" && len(cl.Methods) == 0 {
			labels["controller_without_methods"] = true
		}
		if cl.Controller == "Controller" {
			labels["@Controller"] = true
		}
		// the later variations
		names := map[string]int{}
		uris := map[string]int{}
		for i, m := range cl.Methods {
			names[m.Name]++
			if cl.Controller == "" {
				continue
			}
			if m.isHandler() {
				uris[m.Verb+" "+m.Path]++
				mark(labels, len(m.Before) > 0, "handler_annotation_before_mapping")
				mark(labels, len(m.After) > 0, "handler_annotation_after_mapping")
				mark(labels, m.Pair != "", "mapping_with_further_pair")
				mark(labels, m.Pair != "" && m.PairPos == 1, "mapping_with_further_pair_first")
				mark(labels, m.VerbForm != "", "verb_"+m.VerbForm)
				mark(labels, m.Parens, "mapping_empty_parens")
				mark(labels, m.Path == "" && m.Form != "nopath", "empty_path_string")
				for _, l := range pathLabels(m.Path) {
					labels["path_"+l] = true
					if l == "wrapped_in_braces" {
						labels["path_wrapped_in_braces_"+m.Form] = true
					}
				}
				mark(labels, m.Mods != "", "handler_not_plain_public")
				mark(labels, m.Body != "", "handler_body_"+m.Body)
				mark(labels, m.SameLine, "annotations_and_signature_on_one_line")
				for j, p := range m.Params {
					mark(labels, p.Kind == "bodyRequired" || p.Kind == "bodyThenFinal" || p.Kind == "finalThenBody", "request_body_"+p.Kind)
					mark(labels, isBodyKind(p.Kind) && j < len(m.Params)-1, "request_body_not_last")
				}
				if i > 0 {
					for _, p := range cl.Methods[i-1].Params {
						mark(labels, isBodyKind(p.Kind) && !cl.Methods[i-1].isHandler(), "handler_after_non_handler_with_request_body")
					}
				}
			} else {
				mark(labels, m.Form == "otherAnnotation", "non_handler_with_other_annotation")
			}
			mark(labels, m.FieldBefore != "", "field_between_methods")
			// checklist audit
			if m.isHandler() {
				mark(labels, isOtherVerb(m.Verb), "request_mapping_verb_"+m.Verb)
				mark(labels, m.AnnLayout != "", "mapping_layout_"+m.AnnLayout)
				mark(labels, m.Varargs != "", "handler_with_varargs_parameter")
				mark(labels, m.Varargs != "" && len(m.Params) == 0, "handler_with_only_a_varargs_parameter")
				mark(labels, m.TypeParams != "", "generic_handler_method")
				mark(labels, m.ParamLayout != "", "parameter_layout_"+m.ParamLayout)
				mark(labels, m.Doc, "handler_javadoc_and_comment_with_annotation_text")
				mark(labels, inPool(m.Path, resemblingPaths), "path_resembling_syntax")
				mark(labels, inPool(m.Path, pairLikePaths), "path_with_attribute_like_text_"+m.Form)
				mark(labels, inPool(m.Path, blankPaths), "path_with_blank")
				mark(labels, inPool(m.Name, extraMethodNames), "handler_name_unusual")
				mark(labels, inPool(m.Ret, extraRetTypes), "handler_return_type_unusual")
				for _, a := range m.After {
					mark(labels, strings.Contains(a, "({@"), "annotation_holding_annotations_after_mapping")
				}
				for _, p := range m.Params {
					mark(labels, otherParamKinds[p.Kind] != "", "parameter_"+p.Kind)
					mark(labels, !strings.HasPrefix(p.Name, "p") || len(p.Name) > 3, "parameter_name_unusual")
					mark(labels, isBodyKind(p.Kind) && inPool(p.Type, extraBodyTypes), "body_type_unusual")
				}
			} else {
				mark(labels, m.Form == "otherAnnotation" && inPool(m.Path, lookalikeAnnotations), "non_handler_with_lookalike_annotation")
			}
		}
		for _, n := range names {
			mark(labels, n > 1 && cl.Controller != "", "overloaded_methods_in_controller")
		}
		for _, n := range uris {
			mark(labels, n > 1, "two_handlers_same_verb_and_path")
		}
		if cl.Controller != "" {
			for _, l := range pathLabels(cl.Base) {
				labels["base_path_"+l] = true
			}
		}
		mark(labels, cl.Kind == "interface", "interface_with_mapping_annotations")
		mark(labels, cl.Controller == "" && cl.Stereotype != "" && handlers > 0, "stereotyped_non_controller_with_mappings")
		mark(labels, cl.Controller == "" && strings.Contains(cl.Stereotype, "Controller") && handlers > 0, "controller_advice_with_mappings")
		mark(labels, cl.Controller == "" && cl.BaseForm != "", "non_controller_with_class_level_mapping")
		mark(labels, cl.Controller != "" && cl.CtlArg != "", "controller_annotation_with_argument")
		mark(labels, cl.Controller != "" && len(cl.Pre) > 0, "type_annotation_before_controller_annotation")
		mark(labels, cl.Controller != "" && len(cl.Mid) > 0, "type_annotation_between_controller_and_mapping")
		mark(labels, cl.Controller != "" && len(cl.Post) > 0, "type_annotation_after_mapping")
		mark(labels, cl.Controller != "" && cl.BasePair != "", "class_mapping_with_further_pair")
		mark(labels, cl.Controller != "" && (cl.Extends != "" || cl.Implements != ""), "controller_extends_or_implements")
		mark(labels, cl.Controller != "" && len(cl.Imports) > 0, "controller_implements_project_interface")
		mark(labels, cl.Controller != "" && cl.Dto != "", "second_class_in_controller_file_"+cl.Dto)
		mark(labels, cl.ClassMods != "", "class_not_plain_public")
		mark(labels, cl.Pkg == "" && cl.Controller != "", "controller_in_unnamed_package")
		// checklist audit
		mark(labels, cl.Kind == "enum" || cl.Kind == "annotation", "type_kind_"+cl.Kind)
		mark(labels, inPool(cl.Stereotype, lookalikeStereotypes), "non_controller_with_lookalike_annotation")
		if cl.Controller != "" {
			mark(labels, inPool(cl.Pkg, extraPkgs), "controller_package_unusual")
			mark(labels, strings.Contains(cl.Pkg, "test"), "controller_package_resembles_test_directory")
			mark(labels, strings.Contains(cl.Pkg, "test.java"), "controller_package_test.java")
			mark(labels, !strings.HasSuffix(strings.TrimRight(cl.Name, "X"), "Controller") && !strings.HasSuffix(strings.TrimRight(cl.Name, "X"), "Resource") || !isPlainName(cl.Name), "controller_name_unusual")
			mark(labels, strings.Contains(strings.ToLower(cl.Name), "test"), "controller_name_with_the_word_test")
			mark(labels, cl.CRLF, "controller_file_crlf")
			mark(labels, cl.Edge != "", "controller_file_"+cl.Edge)
			mark(labels, cl.LongLine > 0, fmt.Sprintf("controller_file_line_of_%d_bytes", cl.LongLine))
			mark(labels, cl.ImportStyle != "", "controller_imports_"+cl.ImportStyle)
			mark(labels, cl.BaseLayout != "", "class_mapping_layout_"+cl.BaseLayout)
			mark(labels, handlers > 5, "handlers_in_one_controller>5")
			mark(labels, handlers > 16, "handlers_in_one_controller>16")
			mark(labels, handlers > 32, "handlers_in_one_controller>32")
		}
	}
	mark(labels, c.Maven, "maven_layout")
	mark(labels, len(c.Classes) > 6, "classes>6")
	mark(labels, len(c.Classes) > 8, "classes>8")
	entries := 0
	for _, cl := range c.Classes {
		entries += len(expected(cl))
	}
	mark(labels, entries > 8, "entries>8")
	mark(labels, entries > 16, "entries>16")
	mark(labels, entries > 32, "entries>32")
	mark(labels, len(c.Extras) > 0, "further_files_without_class")
	for _, x := range c.Extras {
		mark(labels, x == ".gitignore", "further_file_gitignore")
		mark(labels, strings.HasSuffix(x, "package-info.java"), "further_file_package_info")
	}
	mark(labels, c.DirSlash, "directory_with_trailing_slash")
	mark(labels, c.CliSpelling != "", "cli_options_"+c.CliSpelling)
	mark(labels, c.CliRel, "cli_relative_directory")
	mark(labels, c.CliDep, "cli_explicit_dependence_file")
	// the past of the working directory (sub-check cli)
	mark(labels, len(c.History) > 0, "workdir_with_a_past")
	mark(labels, len(c.History) > 1, "workdir_past_of_several_steps")
	mark(labels, leavesApis(c.History), "workdir_holds_an_earlier_apis.json")
	mark(labels, c.NoForce && !leavesApis(c.History), "cli_without_force_nothing_to_read_back")
	for _, h := range c.History {
		if h.Kind == "file" {
			labels["workdir_stale_"+h.File+"_"+h.Content] = true
			continue
		}
		of := h.Of
		if of == "sub" && (h.Sub < 0 || h.Sub >= len(c.Subs)) || of == "" {
			of = "whole"
		}
		labels["workdir_earlier_run_on_"+of] = true
		mark(labels, h.Force, "workdir_earlier_run_with_force")
		mark(labels, !h.Force, "workdir_earlier_run_without_force")
		mark(labels, len(h.Flags) > 0, "workdir_earlier_run_with_options")
		mark(labels, h.SamePath, "workdir_earlier_run_at_the_same_path")
		if of == "noHandlers" {
			empty := true
			for _, cl := range c.Classes {
				empty = empty && len(expected(cl)) > 0
			}
			mark(labels, empty, "workdir_earlier_run_on_an_empty_directory")
		}
	}
	mark(labels, len(c.Prefixes) > 0, "aggregate_prefixes")
	for _, f := range c.Flags {
		labels["cli_flag_"+f] = true
	}
	v.NonTrivial = withBase >= 1 && withoutBase >= 1
	if v.NonTrivial {
		labels["controllers_with_and_without_base"] = true
	}
	if withBase+withoutBase >= 2 {
		labels["controllers>=2"] = true
	}
	if len(c.Classes) == 1 {
		labels["single_class"] = true
	}
	if len(c.Subs) > 0 {
		labels["random_sub_projects"] = true
	}
	for l := range labels {
		v.Classes = append(v.Classes, l)
	}
	sort.Strings(v.Classes)
	return v
}

func init() {
	pbt.SetProperty("C12")
	pbt.Describe("rapid-generated Spring-style projects of 1-6 types, one public type per file (flat directory or mNN/src/main/java/<package>/ layout), any file order, now and then a class of the unnamed package: controllers (@RestController / @Controller, bare or with a bean name argument, then optionally @RequestMapping(\"/b\"), @RequestMapping(value = \"/b\" [, produces = ...]) or a class-level mapping that gives no path), classes without controller annotation (none, @Service, @Component, @ControllerAdvice, @RestControllerAdvice, @FeignClient ..., now and then with a class-level @RequestMapping) and interfaces whose methods nevertheless carry mapping annotations, handlers with @Get/@Post/@Put/@DeleteMapping with path (also \"\" and a path without leading slash; paths and base paths drawn from a plain pool, from spellings of the URI-template family - \"{id}\", \"{id}/lines/{line}\", \"{id}/edit\", \"items/{id}\", \"{id:[0-9]+}\", \"{id:[0-9]{1,3}}\", \"{a},{b}\", \"${api.orders}\", \"{*rest}\", \"/**\", \"/Orders({id})\", \"(all)\", \"[x]\", trailing slash - or composed of 1-3 segments, each a literal, a template variable (plain, with pattern, catch-all, ${property} placeholder) or a mix of both, with or without leading and trailing slash, in every mapping form and at class level), without path (bare, (), or only produces=/consumes=... pairs) and with value = \"/p\", @RequestMapping(value = \"/p\", method = RequestMethod.X | X by static import | {RequestMethod.X}) with the pairs in either order and a further pair first, in the middle or last, 0-4 parameters (plain, @PathVariable with and without name, @RequestParam(...), @RequestHeader, @Valid, @RequestBody with and without @Valid / final / (required = false) in both orders, at any position), further annotations before and after the mapping annotation (@ResponseBody, @ResponseStatus(..), @PreAuthorize(..), @ApiOperation(value = ..) ...), further type annotations before, between and after controller annotation and class-level mapping, non-handler methods (plain, @Override, @MessageMapping & co., now and then with a @RequestBody parameter) and annotated fields interleaved, overloaded handler names, two handlers with the same verb and path, handler bodies with calls, lambdas, an anonymous class or annotated locals, extends/implements clauses (also of an interface of the project), a second package-private class before or after the controller in its file, optional field and constructor, modifiers other than public, annotations and signature on one line, two layouts. Checklist audit, each shape behind its own draw: @RequestMapping(method = RequestMethod.PATCH | HEAD | OPTIONS | TRACE) in the forms with method=; packages of one segment, with _ $ digits and non-ASCII letters, very long, a prefix or longer variant of another package, with segments that resemble the directories coca's file filter treats specially (test.java, testdata, tests) or equal an annotation name; class names with the words Test / Tests at the beginning, in the middle and in lower case at the end (Contest, Attests; names ending in Test or Tests stay out: the file filter drops *Test.java), with $ _ digits, non-ASCII letters, one letter, very long; method and parameter names of one letter, with $ _ non-ASCII, very long, equal to value / method / path / RequestMapping / GET / requestBody; qualified, inner and annotated body types (com.acme.dto.OrderDto, Order.Dto, List<@Valid OrderDto>), further return types, generic methods (<T>, <T extends Comparable<T>>), a variable-arity last parameter that is no body (plain or @RequestParam, also as the only parameter), parameters with @RequestPart / @RequestAttribute / @CookieValue / @ModelAttribute; non-handler methods with annotations whose names contain, begin or end with the name of a mapping annotation (@PatchMapping, @GetMappings, @MyGetMapping, @GetMappingDoc, @RequestMappingInfo, @XRequestMapping, @Mapping, @Getmapping) and classes without controller annotation that carry @RestControllerEndpoint, @ControllerEndpoint, @Controllers, @NotAController; an annotation that holds annotations after the mapping; enums (with annotated methods) and annotation types (elements value / path / method) as further types; mapping annotations at method and class level with blanks inside the parentheses and around commas, over several lines with a line comment, with block comments between the tokens; one parameter per line, blanks inside empty parentheses; Javadoc and comments with annotation-like text before and between annotations and signature, in handler bodies (string literal, line and block comment); paths that resemble syntax (/users/@me, /search?method=GET&value={v}, /a//b, /value=/x, http://host:8080/abs, /RequestMethod.GET) and, for api and seq, paths with blanks and a tab; files with CRLF line ends, without final newline, with leading blank lines, with trailing blank lines, with a comment line of 5000 or 70000 bytes; the Spring imports as wildcard, one by one, both and repeated, or absent; 7-14 classes in a project and 6-40 methods in one class now and then; further files that hold no class (.gitignore with the usual patterns plus files it ignores, README.md with a controller in a code fence, pom.xml, *.java.txt, *.java.bak, *.javax, *.kt, application.properties, package-info.java with a package annotation); the directory passed with a trailing slash; sub-check cli: options as -p DIR, --path DIR or --path=DIR, the directory relative to the working directory, -d with the default dependence file; the working directory fresh or, in 3 of 7 cases, with a past of 1-2 steps: an earlier `coca analysis` + `coca api` (with or without -f, with or without -c -s -a -r) on the whole project, on a sub-project, on the classes of the project that have no handlers (an empty directory when there are none) or on a fixed project of another code base, that project lying in a directory of its own or at the path of the judged project (an older state of it, replaced before the judged commands), and files left in coca_reporter (apis.json holding the list of the other code base, null, [], the first half of a list or nothing; a stale api.csv; a stale api.dot); now and then `coca api` without -f where the working directory holds no apis.json to read back. Every file is validated with the shipped parser (a rejection aborts the run as a harness bug). Oracle: list of (verb, base+path, body type without blanks, package, class, method) by construction, compared as a multiset with JavaApiApp.AnalysisPath fed by the identifier and full passes as cmd/api.go does (sub-check api) and with coca_reporter/apis.json of `coca analysis` + `coca api -f [-c] [-s] [-a PREFIX] [-r PKG]` (sub-check cli; api.csv must show the entries of apis.json row by row, those under PREFIX with -a; both whatever the working directory held before); metamorphic clause: the entries of every controller are identical in the whole project, alone, and in random sub-projects with other file orders; sub-check seq: 2-4 scans of the whole project and of sub-projects one after the other in one process without resetting package state: every scan returns the list of the project scanned and no list returned earlier changes; FilterApiByPrefix on the returned list keeps exactly the entries under the prefix, everything for the empty prefix, and does not change the list it is given. Non-trivial = at least one controller with and one without class-level base path in the project; distinct = hash of the description.",
		"not generated (ambiguous expected value or outside the quantifier): bare class-level @RequestMapping, method-level @RequestMapping without method=, controller annotation after the class-level mapping, nested and local classes, handlers inherited from interfaces, several @RequestBody parameters, path= instead of value=, array-valued paths, several verbs in method={..}, path constants and concatenations, fully qualified annotation names, paths whose Java literal needs an escape (quote, backslash: the expected text would depend on reading the literal or its source text), a @RequestBody on a variable-arity parameter, several top-level types with mapping annotations in one file, classes named *Test / *Tests and directories src/test/java and testData (coca's file filter treats them as test code; the statement does not say), source files matched by .gitignore, files with a byte order mark (the shipped parser rejects them)",
		"a method annotated with an annotation that is not one of Get/Post/Put/Delete/RequestMapping contributes nothing, whatever its name resembles (@PatchMapping included: the statement lists the five annotations); a class annotated with anything but @RestController / @Controller contributes nothing",
		"the HTTP verb of @RequestMapping(method = RequestMethod.X) is X for every constant of RequestMethod (GET, HEAD, POST, PUT, PATCH, DELETE, OPTIONS, TRACE)",
		"paths with a comma are generated for the sub-checks api and seq only: the sub-check cli also reads api.csv, which coca writes with ',' as column separator and without quoting, and api.csv is not part of the statement",
		"body type and nothing else is compared modulo white space",
		"base path and method path are concatenated as written (no slash normalisation): the statement says 'base path followed by the method's path'",
		"FilterApiByPrefix / `coca api -a PREFIX` (named in the property's anchors) is taken to keep exactly the entries whose URI starts with PREFIX",
		"a `coca` sub-process that does not end within the time limit of the harness (120 s) is counted (cli_timeout) and the case skipped: the statement does not speak of running time",
		"`coca api -f` extracts the list anew, so nothing an earlier run left in coca_reporter may show in its apis.json or api.csv; without -f the same holds when coca_reporter holds no apis.json (cmd/api.go then extracts as with -f). What the earlier commands of a generated past print or return is not judged (counter cli_history_run_failed counts those that ended with an error); with an apis.json present and no -f the command reports the cached list by design: not generated",
		"package state is reset with the verif hooks before every project scan of the sub-checks api and cli, so that a scan corresponds to a fresh process; sub-check seq resets once per case")
	pbt.Register("api", 300, 2000, genCase, func(c Case) pbt.Verdict { return check(c, false) })
	pbt.Register("seq", 100, 600, genSeqCase, checkSeq)
	pbt.Register("cli", 25, 60, genCliCase, func(c Case) pbt.Verdict { return check(c, true) })
}

func TestProp(t *testing.T)   { pbt.Main(t) }
func TestReplay(t *testing.T) { pbt.Replay(t) }
