// C11 — test-smell findings are exactly those evidenced in the test sources.
//
// A case is a tree of JUnit-style test classes mixed with production classes, in a flat or a
// Maven layout. Test methods are assembled from evidence atoms (prints, sleeps, two-argument
// calls with identical / different arguments, k-fold assertions, helper calls, neutral calls,
// creations, plain statements). The printer tracks the line of every declaration and call
// while printing; the expected findings are computed from that record with the rules of the
// property statement, never from the tool.
package c11

import (
	"encoding/json"
	"fmt"
	"os"
	"path/filepath"
	"regexp"
	"sort"
	"strings"
	"testing"

	"github.com/antlr/antlr4/runtime/Go/antlr/v4"
	parser "github.com/modernizing/coca/languages/java"
	"github.com/modernizing/coca/pkg/adapter/cocafile"
	"github.com/modernizing/coca/pkg/application/analysis/javaapp"
	"github.com/modernizing/coca/pkg/application/tbs"
	"github.com/modernizing/coca/pkg/domain/core_domain"
	"github.com/modernizing/coca/pkg/infrastructure/ast/ast_java"
	"github.com/modernizing/coca/pkg/infrastructure/ast/ast_java/java_identify"
	"pgregory.net/rapid"

	"verif/internal/cli"
	"verif/internal/pbt"
)

const oneCallFeature = "test_method_with_exactly_one_call"

// ---------------------------------------------------------------------------------------
// abstract description

// Atom is one evidence pattern, written K times (one call statement per line).
//
//	print    System.out.println / print / printf (Variant)
//	sleep    Thread.sleep
//	same2    two-argument call, both arguments textually identical (Name: callee; assertion or not)
//	diff2    two-argument call with different argument texts
//	assert   one-argument assertion Name, or the chains assertThat(x).isEqualTo(y) / verify(m).run()
//	helper   call of the same-class helper method Name
//	neutral  a call that is none of the above (Variant picks the shape)
//	pair2    two-argument call whose arguments are lambdas / structured expressions (Variant: pairShapes), different or identical (SameArgs)
//	create   `T v = new T();`
//	fill     statements without any call
type Atom struct {
	Kind    string `json:"kind"`
	K       int    `json:"k"`
	Name    string `json:"name,omitempty"`
	Variant int    `json:"variant,omitempty"`
	Wrap    string `json:"wrap,omitempty"`  // "", "try", "if", "for": the K lines sit inside such a block; widening w4: "while", "catch", "finally", "else", "sync", "switch", "lambda"
	Split   bool   `json:"split,omitempty"` // widening w4: the argument list continues on the next line (the call starts on the first)
	// audit widening
	OneLine  bool `json:"oneLine,omitempty"`  // the K statements stand on one source line
	Spaced   int  `json:"spaced,omitempty"`   // 1: blanks around . ( ) , ; of the call statement; 2: also a comment after every dot
	Args     int  `json:"args,omitempty"`     // helper / peer: number of arguments passed (= parameters of the called helper)
	SameArgs bool `json:"sameArgs,omitempty"` // helper with two arguments: both argument texts identical; pair2: the second argument is a copy of the first
	// widening w5 (kind "pair2": a two-argument call whose arguments are lambdas or other structured expressions, Variant = index into pairShapes)
	Third  bool `json:"third,omitempty"`  // pair2: a third argument (a copy of the first) follows, so the call has three arguments
	Nested bool `json:"nested,omitempty"` // pair2: the call is itself the argument of assertTrue(..)
}

// Method kinds: "test" (annotated), "helper" (un-annotated, called by tests of the class),
// "plain" (un-annotated, not called).
type Method struct {
	Kind      string `json:"kind"`
	Name      string `json:"name"`
	Annot     string `json:"annot,omitempty"`     // tests: "T", "I", "TI" (@Test @Ignore), "IT" (@Ignore @Test); plain methods: "", "B" (@Before), "A" (@After), "BC" (@BeforeClass)
	AnnotArgs int    `json:"annotArgs,omitempty"` // 0 plain markers, 1 @Test(timeout = ..), 2 @Ignore("..."), 3 both
	SameLine  bool   `json:"sameLine,omitempty"`  // annotations on the declaration line
	Mods      string `json:"mods,omitempty"`      // "public", "", "protected", "private"
	Throws    bool   `json:"throws,omitempty"`
	Atoms     []Atom `json:"atoms"`
	// widening w4: one more annotation that is neither @Test nor @Ignore (index into
	// extraAnnotations, 0 = none), written before annotation number ExtraPos of the method
	Extra    int `json:"extra,omitempty"`
	ExtraPos int `json:"extraPos,omitempty"`
	// audit widening
	Params    int  `json:"params,omitempty"`    // helpers: 0..2 int parameters; tests: 1 = (TestInfo info)
	AnnotForm int  `json:"annotForm,omitempty"` // 1 @Test(); 2 @Test(expected = X.class); 3 @Ignore(value = ".."); 4 a blank after the @
	Qualified int  `json:"qualified,omitempty"` // bit 1: @org.junit.Test; bit 2: @org.junit.Ignore
	ModsFirst bool `json:"modsFirst,omitempty"` // the modifiers stand before the annotations: public @Test void f()
	BraceNext bool `json:"braceNext,omitempty"` // the opening brace of the body on its own line
	Compact   bool `json:"compact,omitempty"`   // declaration, body and closing brace on one line
	Doc       int  `json:"doc,omitempty"`       // 1 javadoc quoting the patterns before the annotations; 2 block comment, 3 line comment between annotations and declaration
}

// File roles: "test" or "prod". Where a file lands follows from the layout of the case.
type File struct {
	Role        string   `json:"role"`
	Name        string   `json:"name"`
	Package     string   `json:"package,omitempty"`
	SubDir      string   `json:"subDir,omitempty"`      // flat layout: directory below the root
	ImportStyle int      `json:"importStyle,omitempty"` // 0 wildcard static import, 1 explicit static imports, 2 qualified calls
	Indent      int      `json:"indent,omitempty"`
	Header      int      `json:"header,omitempty"`
	Field       bool     `json:"field,omitempty"`       // a field initialised with `new`
	Constructor bool     `json:"constructor,omitempty"` // a constructor that prints and sleeps
	BlankLines  int      `json:"blankLines,omitempty"`
	Methods     []Method `json:"methods"`
	// widening w4
	ClassAnnot int  `json:"classAnnot,omitempty"` // 0 none; 1 @RunWith(..); 2 @Ignore on the class; 3 @Category(..) @Ignore("later") on the class
	Extends    bool `json:"extends,omitempty"`    // extends BaseTestCase
	CRLF       bool `json:"crlf,omitempty"`
	// audit widening
	NoFinalNewline bool   `json:"noFinalNewline,omitempty"`
	LeadingBlank   int    `json:"leadingBlank,omitempty"` // blank lines before anything else
	Imports        int    `json:"imports,omitempty"`      // 1 every import twice; 2 unused imports (java.lang.Thread, java.io.PrintStream, java.util.*, static java.lang.Math.*)
	LongLine       int    `json:"longLine,omitempty"`     // 1 a comment line of 5000 characters; 2 a string literal of 70000 characters
	Peer           string `json:"peer,omitempty"`         // name of another test class of the tree: field `private <Peer> peer;`
}

// ExtraFile is a file of the tree that is no Java class: a copy of a test file's text under a
// name that is no Java source name (kind "copy"), a .gitignore whose patterns match none of
// the tree's files ("gitignore"), a package-info.java ("pkginfo": a test file without a class).
type ExtraFile struct {
	Kind string `json:"kind"`
	Rel  string `json:"rel"`
	Copy int    `json:"copy,omitempty"` // index into Files
}

type Case struct {
	Layout string `json:"layout"`           // "flat" or "maven"
	Module string `json:"module,omitempty"` // maven: optional module directory
	Files  []File `json:"files"`
	RelDir bool   `json:"relDir,omitempty"` // CLI only: -p relative to the working directory
	// widening w4
	DirStyle int  `json:"dirStyle,omitempty"` // CLI only: 0 as RelDir says; 1 "./proj"; 2 "proj/"; 3 run inside proj without -p (the default ".")
	Sort     bool `json:"sort,omitempty"`     // CLI only: -s (the report grouped by type)
	Repeat   bool `json:"repeat,omitempty"`   // API only: the whole pipeline runs a second time in the same process without any reset
	// audit widening
	Extras   []ExtraFile `json:"extras,omitempty"`
	Prior    []File      `json:"prior,omitempty"`    // another tree (same layout), analysed first: in the same process without reset (API), by a first `coca tbs` run in the same working directory (CLI)
	ArgStyle int         `json:"argStyle,omitempty"` // CLI only: 0 -p DIR / -s; 1 --path DIR / --sort; 2 --path=DIR / --sort=true; 3 -p=DIR / -s=true
	Twice    bool        `json:"twice,omitempty"`    // CLI only: the same tree is analysed first with the other setting of -s, in the same working directory
}

// ---------------------------------------------------------------------------------------
// printer with line tracking

type callRec struct {
	Name      string
	Line      int
	Assertion bool
	Print     bool
	Sleep     bool
	Same2     bool
	Creation  bool
	Helper    string
}

type methodTruth struct {
	Spec      Method
	FirstLine int       // line of the first annotation (or of the declaration)
	DeclLine  int       // line of the declaration (return type)
	LastLine  int       // line of the closing brace
	Calls     []callRec // as written, in order
}

type fileTruth struct {
	Rel     string
	Role    string
	Class   string
	Methods []methodTruth
	Text    string
}

type jw struct {
	sb    strings.Builder
	next  int
	unit  string
	v     int
	class string // name of the class being printed
	// audit widening: while joining > 0 the pieces handed to ln are appended to one source
	// line (number w.next), separated by one blank
	joining int
	started bool
}

// begin starts a joined line, end finishes it; the pairs nest.
func (w *jw) begin() {
	if w.joining == 0 {
		w.started = false
	}
	w.joining++
}

func (w *jw) end() {
	w.joining--
	if w.joining == 0 {
		w.sb.WriteString("\n")
		w.next++
	}
}

func (w *jw) ln(depth int, s string) int {
	if w.joining > 0 {
		if s != "" {
			if w.started {
				w.sb.WriteString(" ")
			} else {
				w.sb.WriteString(strings.Repeat(w.unit, depth))
				w.started = true
			}
			w.sb.WriteString(s)
		}
		return w.next
	}
	n := w.next
	if s != "" {
		w.sb.WriteString(strings.Repeat(w.unit, depth))
		w.sb.WriteString(s)
	}
	w.sb.WriteString("\n")
	w.next++
	return n
}

func (w *jw) fresh() int { w.v++; return w.v }

var assertionNames = map[string]bool{
	"assertEquals": true, "assertSame": true, "assertTrue": true, "assertFalse": true, "assertNotNull": true,
	"assertNull": true, "assertArrayEquals": true, "assertThat": true, "isEqualTo": true, "verify": true,
	// one name for every other prefix of the tool's assertion list (constants.ASSERTION_LIST:
	// should, check, maynotbe, is, spec)
	"shouldBeOpen": true, "checkState": true, "mayNotBeAccessedByAnyLayer": true, "isConsistent": true, "specifiedBy": true,
	// widening w4
	"assertThrows": true, "assertNotEquals": true, "assertIterableEquals": true, "verifyNoMoreInteractions": true, "assertNotSame": true,
	// widening w5
	"assertAll": true,
}

// pairShape is one pair of argument texts for a two-argument call (atom kind pair2). The two
// texts always differ, and they are chosen so that they agree in a part of the text: the
// parameter list of a lambda, the callee of a call, the created type, the operands, the tail.
// `#` stands for the atom's running number, `#+` for the next number, `{name}` for the
// assertion name spelled as the file's import style asks. CallsA / CallsB name the calls
// written inside the texts ("new T" is a creation).
type pairShape struct {
	Family string // "lambda" or "expr"
	Label  string
	A, B   string
	CallsA []string
	CallsB []string
}

var pairShapes = []pairShape{
	// both arguments are lambdas
	{"lambda", "same_parameter_other_body", "e -> e.getName()", "e -> e.getSize()", []string{"getName"}, []string{"getSize"}},
	{"lambda", "same_parameter_other_body", "() -> service.load(#)", "() -> service.total()", []string{"load"}, []string{"total"}},
	{"lambda", "same_parameters_no_call", "(a, b) -> a", "(a, b) -> b", nil, nil},
	{"lambda", "typed_parameter_other_body", "(Item e) -> e.getName()", "(Item e) -> e.getSize()", []string{"getName"}, []string{"getSize"}},
	{"lambda", "body_prefix_of_the_other", "e -> e.getSize()", "e -> e.getSize() + 1", []string{"getSize"}, []string{"getSize"}},
	{"lambda", "block_bodies", "() -> { service.load(#); }", "() -> { service.load(#+); }", []string{"load"}, []string{"load"}},
	{"lambda", "nested_lambdas", "a -> b -> a", "a -> b -> b", nil, nil},
	{"lambda", "other_parameter_name_same_call", "a -> a.getName()", "b -> b.getName()", []string{"getName"}, []string{"getName"}},
	{"lambda", "parameter_with_and_without_parentheses", "e -> e.getName()", "(e) -> e.getName()", []string{"getName"}, []string{"getName"}},
	{"lambda", "assertions_in_the_bodies", "() -> {assertFalse}(actual#)", "() -> {assertNull}(actual#)", []string{"assertFalse"}, []string{"assertNull"}},
	{"lambda", "plain_argument_and_lambda", "key", "k -> service.load(#)", nil, []string{"load"}},
	// other structured expressions that agree in a part of their text
	{"expr", "same_callee_other_argument", "service.load(#)", "service.load(#+)", []string{"load"}, []string{"load"}},
	{"expr", "creations_of_one_type", "new Order(#)", "new Order(#+)", []string{"new Order"}, []string{"new Order"}},
	{"expr", "casts", "(int) limit", "(long) limit", nil, nil},
	{"expr", "array_elements", "names[0]", "names[1]", nil, nil},
	{"expr", "conditionals", "limit > 1 ? expected : actual", "limit > 2 ? expected : actual", nil, nil},
	{"expr", "same_operands_other_operator", "limit + 1", "limit - 1", nil, nil},
	{"expr", "swapped_operands", "limit + 1", "1 + limit", nil, nil},
	{"expr", "same_tail", "\"a\" + key", "\"b\" + key", nil, nil},
	{"expr", "field_with_and_without_this", "this.limit", "limit", nil, nil},
	{"expr", "with_and_without_parentheses", "(expected)", "expected", nil, nil},
	{"expr", "class_literals", "Order.class", "Invoice.class", nil, nil},
	{"expr", "call_chains", "expected.trim().length()", "expected.trim().hashCode()", []string{"trim", "length"}, []string{"trim", "hashCode"}},
	{"expr", "string_and_number", "\"1\"", "1", nil, nil},
}

func shapeOf(a Atom) pairShape {
	n := a.Variant % len(pairShapes)
	if n < 0 {
		n += len(pairShapes)
	}
	return pairShapes[n]
}

// pairInner lists the calls written inside the arguments of one pair2 statement.
func pairInner(a Atom) []string {
	sh := shapeOf(a)
	out := append([]string{}, sh.CallsA...)
	if a.SameArgs {
		out = append(out, sh.CallsA...)
	} else {
		out = append(out, sh.CallsB...)
	}
	if a.Third {
		out = append(out, sh.CallsA...)
	}
	return out
}

// pairAssertions lists the assertion names one pair2 statement calls (callee, wrapper, bodies).
func pairAssertions(a Atom) []string {
	var out []string
	if assertionNames[a.Name] {
		out = append(out, a.Name)
	}
	if a.Nested {
		out = append(out, "assertTrue")
	}
	for _, n := range pairInner(a) {
		if assertionNames[n] {
			out = append(out, n)
		}
	}
	return out
}

var bracedName = regexp.MustCompile(`\{(\w+)\}`)

// pairText renders the argument list of a pair2 statement.
func pairText(a Atom, k int, q func(string) string) string {
	sh := shapeOf(a)
	args := []string{sh.A, sh.B}
	if a.SameArgs {
		args[1] = sh.A
	}
	if a.Third {
		args = append(args, sh.A)
	}
	text := strings.Join(args, ", ")
	text = strings.ReplaceAll(text, "#+", fmt.Sprint(k+1))
	text = strings.ReplaceAll(text, "#", fmt.Sprint(k))
	return bracedName.ReplaceAllStringFunc(text, func(m string) string { return q(m[1 : len(m)-1]) })
}

// annotations that are neither @Test nor @Ignore. The first four go with anything; the others
// look like the two (prefix, suffix, other case) and are put on un-annotated methods only:
// the statement counts a method as a test by @Test/@Ignore alone.
var extraAnnotations = []string{"", "@Deprecated", "@SuppressWarnings(\"unchecked\")", "@Category(Slow.class)", "@DisplayName(\"ignore this test\")",
	"@ParameterizedTest", "@TestFactory", "@RepeatedTest(3)", "@IgnoreIf(Nightly.class)", "@Ignored", "@TestOnly", "@VisibleForTesting", "@Testable", "@NotIgnore"}

const plainExtraFrom = 5 // extraAnnotations[plainExtraFrom:] only on methods without @Test/@Ignore

// qualifier of an assertion under import style 2
func owner(name string) string {
	switch name {
	case "assertThat":
		return "Assertions."
	case "verify":
		return "Mockito."
	}
	return "Assert."
}

func (w *jw) atom(depth int, a Atom, style int, t *methodTruth) {
	d := depth
	switch a.Wrap {
	case "try":
		w.ln(depth, "try {")
		d++
	case "if":
		w.ln(depth, fmt.Sprintf("if (limit > %d) {", w.fresh()))
		d++
	case "for":
		k := w.fresh()
		w.ln(depth, fmt.Sprintf("for (int i%d = 0; i%d < 3; i%d++) {", k, k, k))
		d++
	case "while":
		w.ln(depth, fmt.Sprintf("while (limit > %d) {", w.fresh()))
		d++
	case "catch":
		w.ln(depth, "try {")
		w.ln(depth+1, "limit++;")
		w.ln(depth, fmt.Sprintf("} catch (RuntimeException e%d) {", w.fresh()))
		d++
	case "finally":
		w.ln(depth, "try {")
		w.ln(depth+1, "limit++;")
		w.ln(depth, "} finally {")
		d++
	case "else":
		w.ln(depth, fmt.Sprintf("if (limit > %d) {", w.fresh()))
		w.ln(depth+1, "limit++;")
		w.ln(depth, "} else {")
		d++
	case "sync":
		w.ln(depth, "synchronized (this) {")
		d++
	case "switch":
		w.ln(depth, "switch (limit) {")
		w.ln(depth, "case 1:")
		d++
	case "lambda":
		w.ln(depth, fmt.Sprintf("Runnable task%d = () -> {", w.fresh()))
		d++
	}
	q := func(name string) string {
		if style == 2 && assertionNames[name] {
			return owner(name) + name
		}
		return name
	}
	// emit writes one call statement; with Split the argument list continues on a second
	// line. The call starts on the returned line either way.
	// every call statement goes through sp (blanks / comments between its tokens) and, unless
	// it is a chain, through emit
	sp := func(text string) string { return spaceOut(text, a.Spaced) }
	emit := func(text string) int {
		text = sp(text)
		if i := strings.Index(text, "("); a.Split && i > 0 {
			n := w.ln(d, text[:i+1])
			w.ln(d+2, text[i+1:])
			return n
		}
		return w.ln(d, text)
	}
	if a.OneLine {
		w.begin()
	}
	for i := 0; i < a.K; i++ {
		k := w.fresh()
		switch a.Kind {
		case "print":
			var text string
			extra := false
			rec := callRec{Name: "System.out.print*", Print: true}
			switch a.Variant % 6 {
			case 0:
				text = fmt.Sprintf("System.out.println(\"value %d\");", k)
			case 1:
				text = fmt.Sprintf("System.out.print(limit + %d);", k)
			case 2:
				text = fmt.Sprintf("System.out.printf(\"%%d%%n\", %d);", k)
			case 3:
				text = "System.out.println();"
			case 4:
				// a print that is also a two-argument call with identical argument texts
				text = "System.out.printf(\"%s\", \"%s\");"
				rec.Same2 = true
			default:
				text, extra = "System.out.print(service.total());", true
			}
			rec.Line = emit(text)
			t.Calls = append(t.Calls, rec)
			if extra {
				t.Calls = append(t.Calls, callRec{Name: "total", Line: rec.Line})
			}
		case "sleep":
			rec := callRec{Name: "Thread.sleep", Sleep: true}
			extra := false
			text := fmt.Sprintf("Thread.sleep(%d);", 10*k)
			switch a.Variant % 4 {
			case 1:
				text = fmt.Sprintf("Thread.sleep(%d, 500000);", k) // the overload with nanoseconds
			case 2:
				text = "Thread.sleep(5, 5);" // also two identical argument texts
				rec.Same2 = true
			case 3:
				text, extra = "Thread.sleep(TimeUnit.SECONDS.toMillis(1));", true
			}
			rec.Line = emit(text)
			t.Calls = append(t.Calls, rec)
			if extra {
				t.Calls = append(t.Calls, callRec{Name: "toMillis", Line: rec.Line})
			}
		case "same2":
			arg := []string{"expected", fmt.Sprint(k), "\"text\"", "limit", "names[0]", "limit + 1", "service.total()",
				"\"a, b\"", "Arrays.asList(1, 2)"}[a.Variant%9]
			n := emit(fmt.Sprintf("%s(%s, %s);", callee(a.Name, q), arg, arg))
			t.Calls = append(t.Calls, callRec{Name: a.Name, Line: n, Assertion: assertionNames[a.Name], Same2: true})
			if a.Variant%9 == 6 {
				t.Calls = append(t.Calls, callRec{Name: "total", Line: n}, callRec{Name: "total", Line: n})
			}
			if a.Variant%9 == 8 {
				t.Calls = append(t.Calls, callRec{Name: "asList", Line: n}, callRec{Name: "asList", Line: n})
			}
		case "diff2":
			pair := [][2]string{{"expected", "actual"}, {fmt.Sprint(k), fmt.Sprint(k + 1)}, {"\"text\"", "\"text \""},
				{"limit", "limit1"}, {"1", "1L"}, {"expected", "Expected"}, {fmt.Sprint(k), "service.total()"},
				{"service.total()", "service.total(1)"}, {"limit1", "limit"}, {"\"a, b\"", "\"a,b\""}}[a.Variant%10]
			n := emit(fmt.Sprintf("%s(%s, %s);", callee(a.Name, q), pair[0], pair[1]))
			t.Calls = append(t.Calls, callRec{Name: a.Name, Line: n, Assertion: assertionNames[a.Name]})
			for _, arg := range pair {
				if strings.HasPrefix(arg, "service.total(") {
					t.Calls = append(t.Calls, callRec{Name: "total", Line: n})
				}
			}
		case "assert":
			switch a.Name {
			case "assertThat":
				if a.Variant%2 == 1 {
					// the hamcrest form: a two-argument assertion whose second argument is the call is(..)
					n := emit(fmt.Sprintf("%s(actual, is(%d));", q("assertThat"), k))
					t.Calls = append(t.Calls, callRec{Name: "assertThat", Line: n, Assertion: true},
						callRec{Name: "is", Line: n, Assertion: true})
					break
				}
				n := w.ln(d, sp(fmt.Sprintf("%s(actual).isEqualTo(%d);", q("assertThat"), k)))
				t.Calls = append(t.Calls, callRec{Name: "assertThat", Line: n, Assertion: true},
					callRec{Name: "isEqualTo", Line: n, Assertion: true})
			case "verify":
				n := w.ln(d, sp(fmt.Sprintf("%s(listener).run();", q("verify"))))
				t.Calls = append(t.Calls, callRec{Name: "verify", Line: n, Assertion: true},
					callRec{Name: "run", Line: n})
			case "assertThrows":
				// a two-argument assertion (different arguments) around a lambda that makes a call
				n := w.ln(d, sp(fmt.Sprintf("%s(IllegalStateException.class, () -> service.load(%d));", q("assertThrows"), k)))
				t.Calls = append(t.Calls, callRec{Name: "assertThrows", Line: n, Assertion: true},
					callRec{Name: "load", Line: n})
			default:
				n := emit(fmt.Sprintf("%s(actual%d);", q(a.Name), k))
				t.Calls = append(t.Calls, callRec{Name: a.Name, Line: n, Assertion: true})
			}
		case "helper":
			text := a.Name + "(" + helperArgs(a, k) + ");"
			switch a.Variant % 3 {
			case 1:
				text = "this." + text
			case 2:
				text = w.class + "." + text // a static helper named through its own class
			}
			n := w.ln(d, sp(text))
			t.Calls = append(t.Calls, callRec{Name: a.Name, Line: n, Helper: a.Name, Same2: a.Args == 2 && a.SameArgs})
		case "peer":
			// the helper of ANOTHER test class of the tree, called on a field of that type: no
			// helper of the same class, whatever its body holds
			n := emit("peer." + a.Name + "(" + helperArgs(a, k) + ");")
			t.Calls = append(t.Calls, callRec{Name: "peer." + a.Name, Line: n, Same2: a.Args == 2 && a.SameArgs})
		case "mock":
			// an assertion method called on a field: orderMock and orderMock2 are OrderMocks,
			// ledgerMock is a LedgerMock (another class, hence another method of the same name)
			n := emit(a.Name + ".verifyAll();")
			t.Calls = append(t.Calls, callRec{Name: mockType(a.Name) + ".verifyAll", Line: n, Assertion: true})
		case "neutral":
			var text, name string
			switch a.Variant % 20 {
			case 0:
				text, name = fmt.Sprintf("service.load(%d);", k), "load"
			case 1:
				text, name = fmt.Sprintf("repository.store(key, key, %d);", k), "store"
			case 2:
				text, name = fmt.Sprintf("System.err.println(\"value %d\");", k), "println"
			case 3:
				text, name = "TimeUnit.SECONDS.sleep(1);", "sleep"
			case 4:
				text, name = "System.out.flush();", "flush"
			case 5:
				text, name = fmt.Sprintf("logger.print(\"value %d\");", k), "print"
			case 6:
				text, name = fmt.Sprintf("actual = compute(%d);", k), "compute"
			case 7:
				text, name = "Thread.currentThread();", "currentThread"
			// widening w4: more look-alikes
			case 8:
				text, name = fmt.Sprintf("service.dispatch(%d);", k), "dispatch" // "is" inside the name
			case 9:
				text, name = fmt.Sprintf("service.inspect(%d);", k), "inspect" // "spec" inside the name
			case 10:
				text, name = fmt.Sprintf("WorkerThread.sleep(%d);", k), "sleep" // not java.lang.Thread
			case 11:
				text, name = fmt.Sprintf("System.out.format(\"%%d\", %d);", k), "format" // no print/println/printf
			case 12:
				text, name = fmt.Sprintf("repository.store(%d, key, key);", k), "store" // three arguments
			case 13:
				text, name = "service.prepareFixture();", "prepareFixture" // named like a helper, on another object
			// audit widening
			case 14:
				text, name = fmt.Sprintf("out.println(\"value %d\");", k), "println" // a field named out
			case 15:
				text, name = fmt.Sprintf("this.out.printf(\"%%d\", %d);", k), "printf"
			case 16:
				text, name = fmt.Sprintf("writer.print(%d);", k), "print"
			case 17:
				text, name = "Thread.yield();", "yield"
			case 18:
				text, name = fmt.Sprintf("service.reassert(%d);", k), "reassert" // an assertion prefix inside the name
			default:
				text, name = "service.unverified();", "unverified"
			}
			n := emit(text)
			t.Calls = append(t.Calls, callRec{Name: name, Line: n})
		case "pair2":
			text := fmt.Sprintf("%s(%s)", callee(a.Name, q), pairText(a, k, q))
			if a.Nested {
				text = q("assertTrue") + "(" + text + ")"
				t.Calls = append(t.Calls, callRec{Name: "assertTrue", Assertion: true})
			}
			n := emit(text + ";")
			if a.Nested {
				t.Calls[len(t.Calls)-1].Line = n
			}
			// a call with three arguments is no two-argument call, whatever its arguments are
			t.Calls = append(t.Calls, callRec{Name: a.Name, Line: n, Assertion: assertionNames[a.Name], Same2: a.SameArgs && !a.Third})
			for _, inner := range pairInner(a) {
				t.Calls = append(t.Calls, callRec{Name: inner, Line: n, Assertion: assertionNames[inner], Creation: strings.HasPrefix(inner, "new ")})
			}
		case "create":
			n := w.ln(d, fmt.Sprintf("Order order%d = new Order();", k))
			t.Calls = append(t.Calls, callRec{Name: "new Order", Line: n, Creation: true})
		case "fill":
			switch k % 4 {
			case 0:
				w.ln(d, fmt.Sprintf("int local%d = %d;", k, k))
			case 1:
				if w.joining > 0 {
					w.ln(d, fmt.Sprintf("/* System.out.println(\"%d\"); Thread.sleep(1); assertEquals(1, 1); */", k))
				} else {
					w.ln(d, fmt.Sprintf("// System.out.println(\"%d\"); Thread.sleep(1); assertEquals(1, 1);", k))
				}
			case 2:
				w.ln(d, fmt.Sprintf("String note%d = \"Thread.sleep(1); System.out.println(1); assertEquals(a, a)\";", k))
			default:
				w.ln(d, fmt.Sprintf("limit = limit + %d;", k))
			}
		default:
			panic("GENERATOR BUG: unknown atom kind " + a.Kind)
		}
	}
	if a.OneLine {
		w.end()
	}
	switch a.Wrap {
	case "try":
		w.ln(depth, fmt.Sprintf("} catch (Exception e%d) {", w.fresh()))
		w.ln(depth+1, "limit = 0;")
		w.ln(depth, "}")
	case "if", "for", "while", "catch", "finally", "else", "sync":
		w.ln(depth, "}")
	case "switch":
		w.ln(depth+1, "break;")
		w.ln(depth, "default:")
		w.ln(depth+1, "break;")
		w.ln(depth, "}")
	case "lambda":
		w.ln(depth, "};")
	}
}

// helperArgs renders the arguments of a helper call: int expressions, the two of a
// two-parameter helper textually identical or not.
func helperArgs(a Atom, k int) string {
	switch a.Args {
	case 1:
		return "limit"
	case 2:
		if a.SameArgs {
			return "limit, limit"
		}
		return fmt.Sprintf("limit, %d", k)
	}
	return ""
}

func mockType(field string) string {
	if field == "ledgerMock" {
		return "LedgerMock"
	}
	return "OrderMock"
}

// spaceOut puts blanks around the punctuation of a call statement (mode 1) and a comment after
// every dot as well (mode 2); string literals stay as they are.
func spaceOut(text string, mode int) string {
	if mode == 0 {
		return text
	}
	var sb strings.Builder
	inString := false
	for _, r := range text {
		if r == '"' {
			inString = !inString
		}
		if inString || !strings.ContainsRune(".(),;", r) {
			sb.WriteRune(r)
			continue
		}
		sb.WriteString(" ")
		sb.WriteRune(r)
		if r == '.' && mode == 2 {
			sb.WriteString(" /* Thread.sleep; System.out.println */")
		}
		if r != ';' {
			sb.WriteString(" ")
		}
	}
	return strings.TrimLeft(sb.String(), " ")
}

// callee renders the callee of a two-argument call: assertion names follow the file's
// import style, other names carry their own receiver.
func callee(name string, q func(string) string) string {
	if assertionNames[name] {
		return q(name)
	}
	switch name {
	case "put":
		return "registry.put"
	case "max":
		return "Math.max"
	case "equals":
		return "Objects.equals"
	case "toMap":
		return "Collectors.toMap"
	}
	return "service." + name
}

func annotationTexts(m Method) []string {
	at := "@"
	if m.AnnotForm == 4 {
		at = "@ "
	}
	test, ignore := at+"Test", at+"Ignore"
	if m.Qualified&1 != 0 {
		test = at + "org.junit.Test"
	}
	if m.Qualified&2 != 0 {
		ignore = at + "org.junit.Ignore"
	}
	if m.AnnotArgs&1 != 0 {
		test += "(timeout = 1000)"
	}
	if m.AnnotArgs&2 != 0 {
		ignore += "(\"not now\")"
	}
	switch m.AnnotForm {
	case 1:
		if m.AnnotArgs&1 == 0 {
			test += "()"
		}
	case 2:
		if m.AnnotArgs&1 == 0 {
			test += "(expected = IllegalStateException.class)"
		}
	case 3:
		if m.AnnotArgs&2 == 0 {
			ignore += "(value = \"not now\")"
		}
	}
	var out []string
	switch m.Annot {
	case "T":
		out = []string{test}
	case "I":
		out = []string{ignore}
	case "TI":
		out = []string{test, ignore}
	case "IT":
		out = []string{ignore, test}
	case "B":
		out = []string{"@Before"}
	case "A":
		out = []string{"@After"}
	case "BC":
		out = []string{"@BeforeClass"}
	}
	if m.Extra > 0 && m.Extra < len(extraAnnotations) {
		pos := m.ExtraPos
		if pos < 0 || pos > len(out) {
			pos = len(out)
		}
		out = append(out[:pos], append([]string{extraAnnotations[m.Extra]}, out[pos:]...)...)
	}
	return out
}

func (w *jw) method(m Method, style int) methodTruth {
	t := methodTruth{Spec: m}
	params := ""
	switch {
	case m.Kind == "test" && m.Params > 0:
		params = "TestInfo info"
	case m.Params == 1:
		params = "int first"
	case m.Params >= 2:
		params = "int first, int second"
	}
	head := "void " + m.Name + "(" + params + ")"
	if m.Throws {
		head += " throws Exception"
	}
	ann := annotationTexts(m)
	if m.Doc == 1 {
		// a documentation comment quoting the patterns; the method starts at its first annotation
		w.ln(1, "/**")
		w.ln(1, " * @Test @Ignore {@code Thread.sleep(10); System.out.println(1); assertEquals(a, a);}")
		w.ln(1, " */")
	}
	t.FirstLine = w.next
	if m.Compact {
		w.begin()
	}
	switch {
	case m.ModsFirst && m.Mods != "" && len(ann) > 0:
		// public @Test void f(): the annotations follow the modifiers
		head = m.Mods + " " + strings.Join(ann, " ") + " " + head
	case m.SameLine && len(ann) > 0:
		head = strings.Join(ann, " ") + " " + strings.TrimLeft(m.Mods+" ", " ") + head
	default:
		for _, a := range ann {
			w.ln(1, a)
		}
		if len(ann) > 0 {
			switch m.Doc {
			case 2:
				w.ln(1, "/* @Ignore @Test System.out.println(1); */")
			case 3:
				if w.joining == 0 {
					w.ln(1, "// @Ignore @Test Thread.sleep(1);")
				}
			}
		}
		if m.Mods != "" {
			head = m.Mods + " " + head
		}
	}
	if m.BraceNext {
		t.DeclLine = w.ln(1, head)
		w.ln(1, "{")
	} else {
		t.DeclLine = w.ln(1, head+" {")
	}
	for _, a := range m.Atoms {
		w.atom(2, a, style, &t)
	}
	t.LastLine = w.ln(1, "}")
	if m.Compact {
		w.end()
	}
	return t
}

var indentUnits = []string{"    ", "  ", "\t"}

func relPath(c Case, f File) string {
	pkgDir := strings.ReplaceAll(f.Package, ".", "/")
	var parts []string
	if c.Layout == "maven" {
		if c.Module != "" {
			parts = append(parts, c.Module)
		}
		if f.Role == "test" {
			parts = append(parts, "src/test/java")
		} else {
			parts = append(parts, "src/main/java")
		}
		if pkgDir != "" {
			parts = append(parts, pkgDir)
		}
	} else if f.SubDir != "" {
		parts = append(parts, f.SubDir)
	}
	parts = append(parts, f.Name+".java")
	return strings.Join(parts, "/")
}

func render(c Case, f File) fileTruth {
	w := &jw{next: 1, unit: indentUnits[f.Indent%len(indentUnits)], class: f.Name}
	t := fileTruth{Rel: relPath(c, f), Role: f.Role, Class: f.Name}
	for i := 0; i < f.LeadingBlank; i++ {
		w.ln(0, "")
	}
	for i := 0; i < f.Header; i++ {
		w.ln(0, fmt.Sprintf("// header %d: @Test @Ignore System.out.println(\"x\");", i))
	}
	if f.Package != "" {
		w.ln(0, "package "+f.Package+";")
		w.ln(0, "")
	}
	if f.Imports == 2 {
		w.ln(0, "import java.lang.Thread;")
		w.ln(0, "import java.io.PrintStream;")
		w.ln(0, "import java.util.*;")
		w.ln(0, "import static java.lang.Math.*;")
	}
	if f.Role == "test" {
		w.ln(0, "import org.junit.Test;")
		w.ln(0, "import org.junit.Ignore;")
		if f.Imports == 1 {
			w.ln(0, "import org.junit.Test;")
			w.ln(0, "import org.junit.Ignore;")
		}
		w.ln(0, "import org.junit.Before;")
		w.ln(0, "import org.junit.After;")
		switch f.ImportStyle {
		case 0:
			w.ln(0, "import static org.junit.Assert.*;")
			w.ln(0, "import static org.assertj.core.api.Assertions.*;")
			w.ln(0, "import static org.mockito.Mockito.*;")
		case 1:
			used := map[string]bool{}
			for _, m := range f.Methods {
				for _, a := range m.Atoms {
					if assertionNames[a.Name] {
						used[a.Name] = true
					}
					if a.Kind == "pair2" {
						for _, n := range pairAssertions(a) {
							used[n] = true
						}
					}
				}
			}
			var names []string
			for n := range used {
				names = append(names, n)
			}
			sort.Strings(names)
			for _, n := range names {
				switch n {
				case "assertThat":
					w.ln(0, "import static org.assertj.core.api.Assertions.assertThat;")
				case "verify":
					w.ln(0, "import static org.mockito.Mockito.verify;")
				default:
					w.ln(0, "import static org.junit.Assert."+n+";")
				}
			}
		default:
			w.ln(0, "import org.junit.Assert;")
			w.ln(0, "import org.assertj.core.api.Assertions;")
			w.ln(0, "import org.mockito.Mockito;")
		}
	}
	w.ln(0, "import java.util.concurrent.TimeUnit;")
	if f.Imports == 1 {
		w.ln(0, "import java.util.concurrent.TimeUnit;")
	}
	w.ln(0, "")
	switch f.ClassAnnot {
	case 1:
		w.ln(0, "@RunWith(SpringRunner.class)")
	case 2:
		// an annotation of the class is not an annotation of its methods
		w.ln(0, "@Ignore")
	case 3:
		w.ln(0, "@Category(Slow.class) @Ignore(\"later\")")
	}
	if f.Extends {
		w.ln(0, "public class "+f.Name+" extends BaseTestCase {")
	} else {
		w.ln(0, "public class "+f.Name+" {")
	}
	w.ln(1, "private int limit = 3;")
	w.ln(1, "private String expected, actual, key;")
	if f.Field {
		w.ln(1, "private OrderService service = new OrderService();")
	} else {
		w.ln(1, "private OrderService service;")
	}
	w.ln(1, "private OrderMock orderMock, orderMock2;")
	w.ln(1, "private LedgerMock ledgerMock;")
	w.ln(1, "private PrintStream out;")
	w.ln(1, "private PrintWriter writer;")
	if f.Peer != "" {
		w.ln(1, "private "+f.Peer+" peer;")
	}
	switch f.LongLine {
	case 1:
		w.ln(1, "// "+strings.Repeat("Thread.sleep(1); ", 300))
	case 2:
		w.ln(1, "private String blob = \""+strings.Repeat("System.out.println(1); ", 3100)+"\";")
	case 3:
		// eighth seed batch: a payload constant of more than a mebibyte on one line
		w.ln(1, "private String payload = \""+strings.Repeat("Thread.sleep(1); ", 66000)+"\";")
	}
	if f.Constructor {
		w.ln(1, "public "+f.Name+"() throws Exception {")
		w.ln(2, "System.out.println(\"constructing\");")
		w.ln(2, "Thread.sleep(5);")
		w.ln(2, "assertEquals(limit, limit);")
		w.ln(1, "}")
	}
	for _, m := range f.Methods {
		for i := 0; i < f.BlankLines; i++ {
			w.ln(0, "")
		}
		t.Methods = append(t.Methods, w.method(m, f.ImportStyle))
	}
	w.ln(0, "}")
	t.Text = w.sb.String()
	if f.NoFinalNewline {
		t.Text = strings.TrimSuffix(t.Text, "\n")
	}
	if f.CRLF {
		t.Text = strings.ReplaceAll(t.Text, "\n", "\r\n")
	}
	return t
}

// ---------------------------------------------------------------------------------------
// expected findings (the statement's rules applied to the printer's record)

// finding is what the statement says about one reported finding: its type and file; for
// prints and sleeps the line of the call; for the other call-based types the test method they
// belong to (the statement lists them "per test method" without promising a particular line,
// so a reported line anywhere between the method's first annotation and its closing brace
// attributes the finding to that method); for IgnoreTest nothing more (the tool reports line 0).
type finding struct {
	Type   string
	File   string
	Line   int    // RedundantPrintTest, SleepyTest
	Method string // EmptyTest, RedundantAssertionTest, UnknownTest, DuplicateAssertTest
}

func (f finding) String() string {
	switch f.Type {
	case "RedundantPrintTest", "SleepyTest":
		return fmt.Sprintf("%s %s:%d", f.Type, f.File, f.Line)
	case "IgnoreTest":
		return fmt.Sprintf("%s %s", f.Type, f.File)
	}
	return fmt.Sprintf("%s %s in %s", f.Type, f.File, f.Method)
}

// reported turns one reported (type, file, line) into a finding, attributing method-level
// types to the test method whose text spans the line.
func reported(root string, truths []fileTruth, typ, file string, line int) finding {
	f := finding{Type: typ, File: file}
	switch typ {
	case "RedundantPrintTest", "SleepyTest":
		f.Line = line
		return f
	case "IgnoreTest":
		return f
	}
	f.Method = fmt.Sprintf("<no test method at line %d>", line)
	for _, t := range truths {
		if filepath.Join(root, filepath.FromSlash(t.Rel)) != file {
			continue
		}
		for _, m := range t.Methods {
			if m.Spec.Kind == "test" && line >= m.FirstLine && line <= m.LastLine {
				f.Method = fmt.Sprintf("%s (lines %d-%d)", m.Spec.Name, m.FirstLine, m.LastLine)
			}
		}
	}
	return f
}

// helperCalls returns the calls written in the body of a same-class helper; "directly or
// through a helper" looks one level deep.
func helperCalls(t fileTruth, name string) []callRec {
	for _, m := range t.Methods {
		if m.Spec.Kind == "helper" && m.Spec.Name == name {
			return m.Calls
		}
	}
	panic("GENERATOR BUG: helper " + name + " not declared in " + t.Class)
}

func totalCalls(t fileTruth, m methodTruth) int {
	n := len(m.Calls)
	for _, c := range m.Calls {
		if c.Helper != "" {
			n += len(helperCalls(t, c.Helper))
		}
	}
	return n
}

func expectedOf(root string, t fileTruth) []finding {
	if t.Role != "test" {
		return nil
	}
	file := filepath.Join(root, filepath.FromSlash(t.Rel))
	var out []finding
	for _, m := range t.Methods {
		if m.Spec.Kind != "test" {
			continue
		}
		hasTest := strings.Contains(m.Spec.Annot, "T")
		hasIgnore := strings.Contains(m.Spec.Annot, "I")
		name := fmt.Sprintf("%s (lines %d-%d)", m.Spec.Name, m.FirstLine, m.LastLine)
		if hasIgnore {
			out = append(out, finding{Type: "IgnoreTest", File: file})
		}
		if hasTest && len(m.Calls) == 0 {
			out = append(out, finding{Type: "EmptyTest", File: file, Method: name})
		}
		assertion := false
		perName := map[string]int{}
		for _, c := range m.Calls {
			if c.Print {
				out = append(out, finding{Type: "RedundantPrintTest", File: file, Line: c.Line})
			}
			if c.Sleep {
				out = append(out, finding{Type: "SleepyTest", File: file, Line: c.Line})
			}
			if c.Same2 {
				out = append(out, finding{Type: "RedundantAssertionTest", File: file, Method: name})
			}
			if c.Assertion {
				assertion = true
				perName[c.Name]++
			}
			if c.Helper != "" {
				for _, hc := range helperCalls(t, c.Helper) {
					if hc.Assertion {
						assertion = true
					}
				}
			}
		}
		if len(m.Calls) > 0 && !assertion {
			out = append(out, finding{Type: "UnknownTest", File: file, Method: name})
		}
		for _, n := range perName {
			if n >= 5 {
				out = append(out, finding{Type: "DuplicateAssertTest", File: file, Method: name})
				break
			}
		}
	}
	return out
}

func keys(fs []finding) []string {
	var out []string
	for _, f := range fs {
		out = append(out, f.String())
	}
	sort.Strings(out)
	return out
}

func diff(want, got []string) string {
	count := map[string]int{}
	for _, w := range want {
		count[w]++
	}
	for _, g := range got {
		count[g]--
	}
	var names []string
	for k := range count {
		names = append(names, k)
	}
	sort.Strings(names)
	var sb strings.Builder
	for _, k := range names {
		switch n := count[k]; {
		case n > 0:
			fmt.Fprintf(&sb, "  missing (x%d): %s\n", n, k)
		case n < 0:
			fmt.Fprintf(&sb, "  unexpected (x%d): %s\n", -n, k)
		}
	}
	return sb.String()
}

// ---------------------------------------------------------------------------------------
// validation with the shipped parser (two-stage: SLL, then full LL if SLL complains)

type errListener struct {
	*antlr.DefaultErrorListener
	errs []string
}

func (e *errListener) SyntaxError(_ antlr.Recognizer, _ interface{}, line, column int, msg string, _ antlr.RecognitionException) {
	e.errs = append(e.errs, fmt.Sprintf("%d:%d %s", line, column, msg))
}

func parseWith(text string, sll bool) []string {
	l := &errListener{DefaultErrorListener: antlr.NewDefaultErrorListener()}
	lexer := parser.NewJavaLexer(antlr.NewInputStream(text))
	lexer.RemoveErrorListeners()
	lexer.AddErrorListener(l)
	p := parser.NewJavaParser(antlr.NewCommonTokenStream(lexer, 0))
	p.RemoveErrorListeners()
	p.AddErrorListener(l)
	if sll {
		p.GetInterpreter().SetPredictionMode(antlr.PredictionModeSLL)
	}
	p.CompilationUnit()
	return l.errs
}

func mustParse(t fileTruth) {
	if errs := parseWith(t.Text, true); len(errs) == 0 {
		return
	}
	if errs := parseWith(t.Text, false); len(errs) > 0 {
		panic(fmt.Sprintf("GENERATOR BUG (not a violation): the shipped Java parser rejects generated file %s: %v\n%s", t.Rel, errs, t.Text))
	}
}

// ---------------------------------------------------------------------------------------
// running the tool

var devNull *os.File

func quiet(f func()) {
	if devNull == nil {
		devNull, _ = os.OpenFile(os.DevNull, os.O_WRONLY, 0)
	}
	old := os.Stdout
	if devNull != nil {
		os.Stdout = devNull
	}
	defer func() { os.Stdout = old }()
	f()
}

func resetState() {
	ast_java.VerifResetAstJava()
	java_identify.VerifResetJavaIdentify()
}

func renderAll(c Case) []fileTruth {
	var truths []fileTruth
	seen := map[string]bool{}
	for _, f := range c.Files {
		t := render(c, f)
		if seen[t.Rel] {
			panic("GENERATOR BUG: two files named " + t.Rel)
		}
		seen[t.Rel] = true
		mustParse(t)
		truths = append(truths, t)
	}
	return truths
}

func writeTree(root string, truths []fileTruth, extras []ExtraFile) {
	files := map[string]string{}
	for _, t := range truths {
		files[t.Rel] = t.Text
	}
	for _, e := range extras {
		if _, taken := files[e.Rel]; taken {
			panic("GENERATOR BUG: extra file " + e.Rel + " collides with another file of the tree")
		}
		switch e.Kind {
		case "copy":
			// the text of a test file, evidence and all, under a name that is no Java source name
			if isTestFileName(e.Rel) || e.Copy < 0 || e.Copy >= len(truths) {
				panic("GENERATOR BUG: extra file " + e.Rel)
			}
			files[e.Rel] = truths[e.Copy].Text
		case "gitignore":
			// none of these patterns matches a file of the tree (the tree lies in a directory
			// named proj; patterns are relative to the directory of the .gitignore)
			files[e.Rel] = "# build output\nbuildout/\n*.class\n/proj/\nproj/\n/scratch/\n*Test.jav\n!*.keep\n"
		case "pkginfo":
			i := strings.Index(e.Rel, "src/test/java/")
			if i < 0 || !strings.HasSuffix(e.Rel, "/package-info.java") {
				panic("GENERATOR BUG: extra file " + e.Rel)
			}
			dir := strings.TrimSuffix(e.Rel[i+len("src/test/java/"):], "/package-info.java")
			files[e.Rel] = "/** @Test @Ignore Thread.sleep(1); */\npackage " + strings.ReplaceAll(dir, "/", ".") + ";\n"
		default:
			panic("GENERATOR BUG: extra file kind " + e.Kind)
		}
	}
	cli.WriteTree(root, files)
}

// isTestFileName is the statement's notion of a test file, applied to a path of the tree.
func isTestFileName(rel string) bool {
	return strings.HasSuffix(rel, ".java") && (strings.HasSuffix(rel, "Test.java") || strings.HasSuffix(rel, "Tests.java") || strings.Contains("/"+rel, "/src/test/java/"))
}

func texts(truths []fileTruth) string {
	var sb strings.Builder
	for _, t := range truths {
		fmt.Fprintf(&sb, "----- %s (%s) -----\n", t.Rel, t.Role)
		lines := strings.Split(strings.TrimSuffix(t.Text, "\n"), "\n")
		for i, l := range lines {
			if r := []rune(l); len(r) > 240 {
				l = fmt.Sprintf("%s … (%d characters)", string(r[:200]), len(r))
			}
			fmt.Fprintf(&sb, "%3d| %s\n", i+1, l)
		}
	}
	return sb.String()
}

func judge(root string, truths []fileTruth, got []finding) string {
	var want []finding
	testFile := map[string]bool{}
	for _, t := range truths {
		want = append(want, expectedOf(root, t)...)
		if t.Role == "test" {
			testFile[filepath.Join(root, filepath.FromSlash(t.Rel))] = true
		}
	}
	for _, g := range got {
		if !testFile[g.File] {
			return fmt.Sprintf("finding %s names %q, which is not a test file of the tree", g.Type, g.File)
		}
	}
	if d := diff(keys(want), keys(got)); d != "" {
		return "the report differs from the findings evidenced in the test sources:\n" + d
	}
	return ""
}

// pipeline is the sequence of cmd/tbs.go; it also returns the class nodes, so that the last
// step can be repeated on the same data.
func pipeline(src string) (result []tbs.TestBadSmell, classNodes []core_domain.CodeDataStruct, identifiersMap map[string]core_domain.CodeDataStruct) {
	files := cocafile.GetJavaTestFiles(src)
	identifierApp := javaapp.NewJavaIdentifierApp()
	identifiers := identifierApp.AnalysisFiles(files)
	identifiersMap = core_domain.BuildIdentifierMap(identifiers)
	app := javaapp.NewJavaFullApp()
	classNodes = app.AnalysisFiles(identifiers, files)
	result = tbs.NewTbsApp().AnalysisPath(classNodes, identifiersMap)
	return
}

func checkAPI(c Case) pbt.Verdict {
	truths := renderAll(c)
	root := cli.Scratch("c11-")
	defer os.RemoveAll(root)
	src := filepath.Join(root, "proj")
	writeTree(src, truths, c.Extras)
	priorSrc := filepath.Join(root, "earlier")
	if len(c.Prior) > 0 {
		writeTree(priorSrc, renderAll(priorCase(c)), nil)
	}
	resetState()
	var result, again, second []tbs.TestBadSmell
	if p := pbt.Call(func() {
		quiet(func() {
			if len(c.Prior) > 0 {
				// another tree first, in this process and without any reset in between
				pipeline(priorSrc)
			}
			var classNodes []core_domain.CodeDataStruct
			var identifiersMap map[string]core_domain.CodeDataStruct
			result, classNodes, identifiersMap = pipeline(src)
			// the same call once more on the same data
			again = tbs.NewTbsApp().AnalysisPath(classNodes, identifiersMap)
			if c.Repeat {
				// and the whole pipeline a second time in this process, without any reset
				second, _, _ = pipeline(src)
			}
		})
	}); p != "" {
		return pbt.Fail("the test-smell pipeline (GetJavaTestFiles -> identifiers -> AnalysisFiles -> TbsApp.AnalysisPath) panicked: %s\n%s",
			stable(strings.ReplaceAll(p, root, "<TMP>")), texts(truths))
	}
	runs := []struct {
		what   string
		result []tbs.TestBadSmell
	}{{"", result}, {"TbsApp.AnalysisPath called a second time on the same class nodes: ", again}}
	if c.Repeat {
		runs = append(runs, struct {
			what   string
			result []tbs.TestBadSmell
		}{"the pipeline run a second time in the same process: ", second})
	}
	for _, run := range runs {
		var got []finding
		for _, r := range run.result {
			got = append(got, reported(src, truths, r.Type, r.FileName, r.Line))
		}
		if msg := judge(src, truths, got); msg != "" {
			return pbt.Fail("%s%s\n%s", run.what, strings.ReplaceAll(msg, src, "<DIR>"), texts(truths))
		}
	}
	return classify(c, truths, src, "api")
}

// priorCase is the tree analysed before the judged one.
func priorCase(c Case) Case {
	return Case{Layout: c.Layout, Module: c.Module, Files: c.Prior}
}

// stable reduces a panic trace to its first line and the frames (function names only): rapid
// compares failure messages while shrinking, so they must not vary between two runs of the
// same case (addresses, goroutine numbers).
func stable(trace string) string {
	lines := strings.Split(trace, "\n")
	out := []string{lines[0]}
	for _, l := range lines[1:] {
		if l == "" || strings.HasPrefix(l, "\t") || strings.HasPrefix(l, "panic(") || strings.HasPrefix(l, "goroutine ") {
			continue
		}
		if i := strings.LastIndex(l, "("); i > 0 && strings.HasSuffix(l, ")") {
			l = l[:i]
		}
		out = append(out, "  at "+l)
	}
	if len(out) > 14 {
		out = out[:14]
	}
	return strings.Join(out, "\n")
}

func tail(s string, n int) string {
	if len(s) > n {
		return "…" + s[len(s)-n:]
	}
	return s
}

var numsLine = regexp.MustCompile(`Test Bad Smell nums:\s*(\d+)`)

// tableRows reads the rows `| Type | FileName | Line |` of the table `coca tbs` prints.
func tableRows(stdout string) (rows []string, header bool) {
	for _, line := range strings.Split(stdout, "\n") {
		line = strings.TrimSpace(line)
		if !strings.HasPrefix(line, "|") || strings.HasPrefix(line, "|-") {
			continue
		}
		cells := strings.Split(strings.Trim(line, "|"), "|")
		if len(cells) != 3 {
			continue
		}
		for i := range cells {
			cells[i] = strings.TrimSpace(cells[i])
		}
		if strings.EqualFold(cells[0], "type") && strings.EqualFold(cells[1], "filename") {
			header = true
			continue
		}
		rows = append(rows, cells[0]+" "+cells[1]+":"+cells[2])
	}
	sort.Strings(rows)
	return rows, header
}

func checkCLI(c Case) pbt.Verdict {
	truths := renderAll(c)
	root := cli.Scratch("c11-")
	defer os.RemoveAll(root)
	src := filepath.Join(root, "proj")
	writeTree(src, truths, c.Extras)
	// how the directory is named on the command line; the report names files below it
	cwd, dirArg, nameRoot := root, src, src
	if c.RelDir {
		dirArg, nameRoot = "proj", "proj"
	}
	switch c.DirStyle {
	case 1:
		dirArg, nameRoot = "./proj", "proj"
	case 2:
		dirArg, nameRoot = "proj/", "proj"
	case 3:
		cwd, dirArg, nameRoot = src, "", "."
	}
	// the spellings of the two options
	build := func(dir string, sorted bool) []string {
		args := []string{"tbs"}
		if dir != "" {
			switch c.ArgStyle {
			case 1:
				args = append(args, "--path", dir)
			case 2:
				args = append(args, "--path="+dir)
			case 3:
				args = append(args, "-p="+dir)
			default:
				args = append(args, "-p", dir)
			}
		}
		if sorted {
			args = append(args, []string{"-s", "--sort", "--sort=true", "-s=true"}[c.ArgStyle%4])
		}
		return args
	}
	args := build(dirArg, c.Sort)
	what := ""
	fail := func(msg string) pbt.Verdict {
		return pbt.Fail("%scoca %s (dirStyle %d): %s\n%s", what, strings.ReplaceAll(strings.Join(args, " "), root, "<CWD>"), c.DirStyle, strings.ReplaceAll(msg, root, "<CWD>"), texts(truths))
	}
	// earlier runs in the same working directory (they leave their coca_reporter behind):
	// another tree, and / or the same tree with the other setting of -s
	var earlier [][]string
	if len(c.Prior) > 0 {
		writeTree(filepath.Join(root, "earlier"), renderAll(priorCase(c)), nil)
		earlier = append(earlier, build(filepath.Join(root, "earlier"), false))
	}
	if c.Twice {
		earlier = append(earlier, build(dirArg, !c.Sort))
	}
	for _, first := range earlier {
		r, err := cli.Run("coca", cwd, nil, first...)
		if err != nil {
			panic("HARNESS: cannot run coca: " + err.Error())
		}
		if r.TimedOut || r.ExitCode != 0 {
			args = first
			return fail(fmt.Sprintf("timed out or exit status %d\n%s", r.ExitCode, tail(r.Stderr, 1500)))
		}
		what = "after `coca " + strings.ReplaceAll(strings.Join(first, " "), root, "<CWD>") + "` in the same working directory: "
	}
	res, err := cli.Run("coca", cwd, nil, args...)
	if err != nil {
		panic("HARNESS: cannot run coca: " + err.Error())
	}
	if res.TimedOut {
		return fail("timed out")
	}
	if res.ExitCode != 0 {
		return fail(fmt.Sprintf("exit status %d\n%s", res.ExitCode, tail(res.Stderr, 1500)))
	}
	data, err := os.ReadFile(filepath.Join(cwd, "coca_reporter", "tbs.json"))
	if err != nil {
		return fail("no coca_reporter/tbs.json was written: " + err.Error())
	}
	var result []tbs.TestBadSmell
	if c.Sort {
		// the grouped report holds the same findings (the statement does not speak about the
		// grouping itself, so the keys are not judged)
		var grouped map[string][]tbs.TestBadSmell
		if err := json.Unmarshal(data, &grouped); err != nil {
			return fail(fmt.Sprintf("tbs.json (-s) is not a map of type to findings: %v\n%s", err, tail(string(data), 600)))
		}
		var types []string
		for typ := range grouped {
			types = append(types, typ)
		}
		sort.Strings(types)
		for _, typ := range types {
			result = append(result, grouped[typ]...)
		}
	} else if err := json.Unmarshal(data, &result); err != nil {
		return fail(fmt.Sprintf("tbs.json is not a list of findings: %v\n%s", err, tail(string(data), 600)))
	}
	var got []finding
	for _, r := range result {
		got = append(got, reported(nameRoot, truths, r.Type, r.FileName, r.Line))
	}
	if msg := judge(nameRoot, truths, got); msg != "" {
		return fail(msg)
	}
	// the printed summary shows the same report: where the output states the number of
	// findings it must be that of tbs.json, and where a table is printed (the tool prints it
	// for small reports) its rows must be the findings of tbs.json. Their absence is not judged.
	if m := numsLine.FindStringSubmatch(res.Stdout); m != nil && m[1] != fmt.Sprint(len(result)) {
		return fail(fmt.Sprintf("tbs.json holds %d findings, but the output says %q", len(result), m[0]))
	}
	if rows, header := tableRows(res.Stdout); header {
		var fromJSON []string
		for _, r := range result {
			fromJSON = append(fromJSON, fmt.Sprintf("%s %s:%d", r.Type, r.FileName, r.Line))
		}
		sort.Strings(fromJSON)
		if d := diff(fromJSON, rows); d != "" {
			return fail("the printed table differs from tbs.json (type file:line):\n" + d)
		}
	}
	return classify(c, truths, nameRoot, "cli")
}

// ---------------------------------------------------------------------------------------
// classification

func classify(c Case, truths []fileTruth, root string, mode string) pbt.Verdict {
	v := pbt.Verdict{}
	labels := map[string]bool{"layout_" + c.Layout: true}
	if c.Module != "" {
		labels["maven_module_dir"] = true
	}
	var canon []string
	for _, t := range truths {
		for _, f := range expectedOf(root, t) {
			labels["expect_"+f.Type] = true
		}
		var ms []string
		for _, m := range t.Methods {
			var seq []string
			kinds := map[string]bool{}
			for _, a := range m.Spec.Atoms {
				seq = append(seq, fmt.Sprintf("%s%d%s%d%s", a.Kind, a.K, a.Name, a.Variant, a.Wrap))
				if a.Kind != "fill" {
					kinds[a.Kind] = true
				}
			}
			ms = append(ms, fmt.Sprintf("%s/%s/%v/%d.%d[%s]", m.Spec.Kind, m.Spec.Annot, m.Spec.SameLine, m.Spec.Extra, m.Spec.ExtraPos, strings.Join(seq, ",")))
			if t.Role == "prod" {
				if len(kinds) > 0 {
					labels["production_class_with_atoms"] = true
				}
				if m.Spec.Kind == "test" && len(kinds) > 0 {
					labels["production_class_with_annotated_method"] = true
				}
				continue
			}
			if m.Spec.Kind != "test" {
				if len(kinds) > 0 {
					labels["unannotated_method_with_atoms"] = true
				}
				if m.Spec.Kind == "plain" && strings.Contains(m.Spec.Name, "_") && len(kinds) > 0 {
					labels["unannotated_method_named_like_a_test"] = true
				}
				if m.Spec.Kind == "helper" {
					for _, a := range m.Spec.Atoms {
						if a.Kind == "pair2" {
							labels["structured_arguments_"+shapeOf(a).Family+"_inside_helper"] = true
						}
					}
					if m.Spec.Params > 0 {
						labels["helper_with_parameters"] = true
					}
					if m.Spec.Compact || m.Spec.BraceNext {
						labels["helper_layout_variant"] = true
					}
					known := false
					for _, n := range helperNames {
						known = known || n == m.Spec.Name
					}
					if !known {
						labels["helper_name_variant"] = true
					}
				}
				if m.Spec.Annot != "" && len(kinds) > 0 {
					labels["lifecycle_method_with_atoms"] = true
				}
				if m.Spec.Extra >= plainExtraFrom && len(kinds) > 0 {
					labels["look_alike_annotation_on_plain_method"] = true
				}
				continue
			}
			if m.Spec.Extra > 0 {
				labels["test_with_third_annotation"] = true
			}
			// audit widening
			if !strings.HasPrefix(m.Spec.Name, "scenario") {
				labels["test_name_from_word_list"] = true
			}
			if m.Spec.AnnotForm > 0 {
				labels[fmt.Sprintf("annotation_form_%d", m.Spec.AnnotForm)] = true
			}
			if m.Spec.Qualified > 0 {
				labels["annotation_with_package_name"] = true
			}
			if m.Spec.ModsFirst && m.Spec.Mods != "" {
				labels["modifiers_before_annotations"] = true
			}
			if strings.Contains(m.Spec.Mods, " ") {
				labels["test_with_two_modifiers"] = true
			}
			if m.Spec.BraceNext {
				labels["brace_on_next_line"] = true
			}
			if m.Spec.Compact && len(m.Calls) > 0 {
				labels["test_method_on_one_line"] = true
			}
			if m.Spec.Doc > 0 {
				labels[fmt.Sprintf("comment_quoting_patterns_%d", m.Spec.Doc)] = true
			}
			if m.Spec.Params > 0 {
				labels["test_with_parameter"] = true
			}
			for _, n := range []int{8, 16, 32, 64} {
				if len(m.Calls) > n {
					labels[fmt.Sprintf("test_with_more_than_%d_calls", n)] = true
				}
			}
			mockTypes, mockFieldsUsed, mockTotal := map[string]int{}, map[string]bool{}, 0
			for _, a := range m.Spec.Atoms {
				if a.OneLine && a.K >= 2 && a.Kind != "fill" {
					labels["statements_on_one_line"] = true
					if a.Kind == "print" || a.Kind == "sleep" {
						labels["prints_or_sleeps_on_one_line"] = true
					}
				}
				if a.Spaced > 0 && a.Kind != "fill" && a.Kind != "create" {
					labels[fmt.Sprintf("blanks_between_tokens_%d", a.Spaced)] = true
				}
				switch {
				case a.Kind == "print" && a.Variant%6 == 4, a.Kind == "sleep" && a.Variant%4 == 2:
					labels["print_or_sleep_with_identical_arguments"] = true
				case a.Kind == "print" && a.Variant%6 == 5, a.Kind == "sleep" && a.Variant%4 == 3:
					labels["call_as_argument_of_print_or_sleep"] = true
				case a.Kind == "sleep" && a.Variant%4 == 1:
					labels["sleep_with_two_arguments"] = true
				case a.Kind == "same2" && a.Variant%9 >= 7, a.Kind == "diff2" && a.Variant%10 == 9:
					labels["comma_inside_an_argument"] = true
				case a.Kind == "diff2" && a.Variant%10 == 8:
					labels["second_argument_prefix_of_first"] = true
				case a.Kind == "assert" && a.Name == "assertThat" && a.Variant%2 == 1:
					labels["assertThat_with_is_matcher"] = true
				case a.Kind == "neutral" && a.Variant%20 >= 14:
					labels["neutral_look_alike_audit"] = true
				case a.Kind == "peer":
					labels["helper_of_another_test_class_called"] = true
				case a.Kind == "helper" && a.Args > 0:
					labels[fmt.Sprintf("helper_called_with_%d_arguments", a.Args)] = true
					if a.Args == 2 && a.SameArgs {
						labels["helper_called_with_identical_arguments"] = true
					}
				case a.Kind == "pair2":
					sh := shapeOf(a)
					relation := "different"
					if a.SameArgs {
						relation = "identical"
					}
					if sh.Family == "lambda" {
						labels["two_lambda_arguments_"+relation] = true
						if !a.SameArgs {
							labels["lambdas_"+sh.Label] = true
						}
					} else {
						labels["two_structured_arguments_"+relation] = true
						if !a.SameArgs {
							labels["arguments_"+sh.Label] = true
						}
					}
					if a.Third {
						labels["three_arguments_first_two_structured"] = true
					}
					if a.Nested {
						labels["two_argument_call_as_argument_of_assertTrue"] = true
					}
					if a.K >= 5 && assertionNames[a.Name] {
						labels["structured_two_argument_assertion_5+_times"] = true
					}
				case a.Kind == "mock":
					mockTypes[mockType(a.Name)] += a.K
					mockFieldsUsed[a.Name] = true
					mockTotal += a.K
				}
			}
			if len(mockTypes) == 2 && mockTotal >= 5 && mockTypes["OrderMock"] < 5 && mockTypes["LedgerMock"] < 5 {
				labels["assertion_name_5+_times_on_two_classes"] = true
			}
			if len(mockTypes) == 1 && len(mockFieldsUsed) == 2 && mockTotal >= 5 {
				labels["assertion_method_5+_times_through_two_fields"] = true
			}
			byName := map[string]int{}
			for _, a := range m.Spec.Atoms {
				if isAssertAtom(a) {
					byName[a.Name]++
				}
				if a.Split && a.Kind != "fill" && a.Kind != "create" && a.Kind != "helper" {
					labels["call_over_two_lines"] = true
				}
				switch a.Wrap {
				case "while", "catch", "finally", "else", "sync", "switch", "lambda":
					if a.Kind != "fill" {
						labels["atom_inside_"+a.Wrap] = true
					}
				}
				if a.Kind == "neutral" && a.Variant%20 >= 8 {
					labels["neutral_look_alike_w4"] = true
				}
				if a.Kind == "helper" && a.Variant%3 == 2 {
					labels["helper_called_via_class_name"] = true
				}
			}
			for _, n := range byName {
				if n >= 2 {
					labels["same_assertion_in_two_places"] = true
				}
			}
			directAssert := false
			for _, cl := range m.Calls {
				directAssert = directAssert || cl.Assertion
			}
			if !directAssert {
				// which of the called helpers assert (in call order)
				var pattern []bool
				for _, cl := range m.Calls {
					if cl.Helper != "" {
						asserts := false
						for _, hc := range helperCalls(t, cl.Helper) {
							asserts = asserts || hc.Assertion
						}
						pattern = append(pattern, asserts)
					}
				}
				if len(pattern) >= 2 && !pattern[0] && pattern[len(pattern)-1] {
					labels["assertion_only_in_a_later_helper"] = true
				}
				if len(pattern) >= 2 && pattern[0] && !pattern[len(pattern)-1] {
					labels["assertion_only_in_an_earlier_helper"] = true
				}
			}
			distinctAsserts, totalAsserts, maxAsserts := 0, 0, 0
			perAssert := map[string]int{}
			for _, cl := range m.Calls {
				if cl.Assertion {
					perAssert[cl.Name]++
				}
			}
			for _, n := range perAssert {
				distinctAsserts++
				totalAsserts += n
				if n > maxAsserts {
					maxAsserts = n
				}
			}
			if distinctAsserts >= 2 && totalAsserts >= 5 && maxAsserts < 5 {
				labels["five_assertions_none_five_times"] = true
			}
			perOther := map[string]int{}
			for _, cl := range m.Calls {
				if !cl.Assertion && !cl.Creation {
					perOther[cl.Name]++
				}
			}
			for _, n := range perOther {
				if n >= 5 && maxAsserts < 5 {
					labels["non_assertion_five_times"] = true
				}
			}
			if len(kinds) >= 2 {
				v.NonTrivial = true
				labels["test_with_2+_atom_kinds"] = true
			}
			if len(m.Spec.Annot) == 2 {
				v.NonTrivial = true
				labels["both_annotations_"+m.Spec.Annot] = true
			}
			if m.Spec.Annot == "I" {
				labels["ignore_alone"] = true
			}
			if m.Spec.SameLine {
				labels["annotation_on_declaration_line"] = true
			}
			if len(m.Calls) == 0 {
				labels["test_without_calls"] = true
			}
			if totalCalls(t, m) == 1 {
				labels["test_with_exactly_one_call"] = true
			}
			perName := map[string]int{}
			helperOnly, direct := false, false
			for _, a := range m.Spec.Atoms {
				if a.Kind == "helper" && a.Variant%2 == 1 {
					labels["helper_called_via_this"] = true
				}
			}
			for _, cl := range m.Calls {
				if cl.Assertion {
					perName[cl.Name]++
					direct = true
				}
				if cl.Helper != "" {
					for _, hc := range helperCalls(t, cl.Helper) {
						if hc.Assertion {
							helperOnly = true
						}
					}
				}
				if cl.Creation && (cl == m.Calls[0] || cl == m.Calls[len(m.Calls)-1]) {
					labels["creation_first_or_last"] = true
				}
			}
			if helperOnly && !direct {
				labels["assertions_only_in_helper"] = true
			}
			for _, n := range perName {
				if n >= 4 && n <= 6 {
					v.NonTrivial = true
					labels[fmt.Sprintf("same_assertion_x%d", n)] = true
				}
			}
			for _, a := range m.Spec.Atoms {
				if a.K >= 4 && a.K <= 6 {
					v.NonTrivial = true
				}
				if a.Wrap != "" && a.Kind != "fill" {
					labels["atom_inside_block"] = true
				}
			}
		}
		if t.Role == "test" && c.Layout == "maven" && !strings.HasSuffix(t.Class, "Test") && !strings.HasSuffix(t.Class, "Tests") {
			labels["maven_test_class_without_Test_suffix"] = true
		}
		if t.Role == "test" && strings.HasSuffix(t.Class, "Tests") {
			labels["name_ends_with_Tests"] = true
		}
		for _, o := range truths {
			if o.Rel != t.Rel && o.Class == t.Class {
				labels["same_class_name_twice"] = true
			}
		}
		for i := 1; i < len(t.Methods); i++ {
			if t.Role == "test" && t.Methods[i].Spec.Kind == "test" && len(t.Methods[i].Spec.Atoms) > 0 {
				for j := 0; j < i; j++ {
					if t.Methods[j].Spec.Kind == "test" && fmt.Sprint(t.Methods[j].Spec.Atoms) == fmt.Sprint(t.Methods[i].Spec.Atoms) {
						labels["two_tests_with_the_same_body"] = true
					}
				}
			}
		}
		sort.Strings(ms)
		canon = append(canon, t.Role+":"+strings.Join(ms, ";"))
	}
	if len(truths) > 1 {
		labels["files>=2"] = true
	}
	nTestFiles := 0
	for _, f := range c.Files {
		// audit widening
		if f.Role == "test" {
			nTestFiles++
			nTests := 0
			for _, m := range f.Methods {
				if m.Kind == "test" {
					nTests++
				}
			}
			switch {
			case nTests == 0:
				labels["test_class_without_test_method"] = true
			case nTests > 16:
				labels["test_class_with_more_than_16_tests"] = true
			case nTests > 8:
				labels["test_class_with_more_than_8_tests"] = true
			}
			if c.Layout == "maven" && f.Package == "" {
				labels["maven_default_package"] = true
			}
			if f.Peer != "" {
				labels["field_of_another_test_class"] = true
			}
		}
		for _, odd := range oddSubjects {
			if strings.HasPrefix(f.Name, odd) && f.Role == "test" {
				labels["class_name_from_word_list"] = true
			}
		}
		if f.Role == "prod" && (strings.HasSuffix(f.Name, "test") || strings.HasSuffix(f.Name, "tests") || strings.HasSuffix(f.Name, "TEST")) {
			labels["production_file_with_suffix_in_other_case"] = true
		}
		switch f.SubDir {
		case "testdata", "it/TestData", "unit tests", "unit-tests", "ünit", "test-data":
			labels["directory_name_variant"] = true
		case "src/integration-test/java", "src/tests/java", "test/java", "src/test", "src/test/Java":
			labels["production_directory_resembling_src_test_java"] = true
		}
		if f.NoFinalNewline {
			labels["no_final_newline"] = true
		}
		if f.LeadingBlank > 0 {
			labels["leading_blank_lines"] = true
		}
		if f.Imports > 0 {
			labels[fmt.Sprintf("import_variant_%d", f.Imports)] = true
		}
		if f.LongLine > 0 {
			labels[fmt.Sprintf("long_line_%d", f.LongLine)] = true
		}
		if f.ClassAnnot >= 2 && f.Role == "test" {
			labels["class_level_ignore"] = true
		}
		if f.ClassAnnot == 1 || f.Extends {
			labels["class_header_variant"] = true
		}
		if f.CRLF {
			labels["crlf_line_ends"] = true
		}
		if f.Role == "prod" && (strings.Contains(strings.ToLower(f.Name), "test") || strings.Contains(f.SubDir, "test")) {
			labels["production_file_with_test_in_its_path"] = true
		}
	}
	if nTestFiles > 16 {
		labels["more_than_16_test_files"] = true
	} else if nTestFiles > 8 {
		labels["more_than_8_test_files"] = true
	}
	for _, e := range c.Extras {
		labels["extra_file_"+e.Kind] = true
	}
	if len(c.Prior) > 0 {
		labels["another_tree_analysed_first"] = true
		if c.Files[0].Role == "test" && c.Prior[0].Name == c.Files[0].Name && c.Prior[0].Package == c.Files[0].Package {
			labels["earlier_tree_has_a_class_of_the_same_name"] = true
		}
	}
	if c.ArgStyle != 0 {
		labels[fmt.Sprintf("cli_option_spelling_%d", c.ArgStyle)] = true
	}
	if c.Twice {
		labels["cli_same_tree_twice_with_other_sort_setting"] = true
	}
	if c.Repeat {
		labels["pipeline_twice_in_one_process"] = true
	}
	if c.Sort {
		labels["cli_sorted_report"] = true
	}
	if c.DirStyle != 0 {
		labels[fmt.Sprintf("cli_dir_style_%d", c.DirStyle)] = true
	}
	for k := range labels {
		v.Classes = append(v.Classes, k)
	}
	sort.Strings(v.Classes)
	sort.Strings(canon)
	v.Canon = mode + "|" + c.Layout + "|" + strings.Join(canon, "||")
	return v
}

// ---------------------------------------------------------------------------------------
// generators

var (
	subjects     = []string{"Order", "Invoice", "Ledger", "Parser", "Router", "Cache", "Account", "Planner"}
	helperNames  = []string{"prepareFixture", "runScenario", "exerciseAll", "loadDefaults"}
	assert1Names = []string{"assertTrue", "assertNotNull", "assertFalse", "assertNull", "assertThat", "verify",
		"shouldBeOpen", "checkState", "mayNotBeAccessedByAnyLayer", "isConsistent", "specifiedBy", "assertThrows", "verifyNoMoreInteractions"}
	assert2Names  = []string{"assertEquals", "assertSame", "assertArrayEquals", "assertNotEquals", "assertIterableEquals", "assertNotSame"}
	neutral2Names = []string{"put", "max", "equals", "register"}
	helperAsserts = []string{"assertNotNull", "assertTrue", "assertEquals"}

	// audit widening. Helper names: the i-th helper of a class takes one of helperNameSets[i];
	// the sets hold prefixes, extensions and case variants of each other and names with $, _,
	// digits and non-ASCII letters; none starts with a prefix of the tool's assertion list.
	helperNameSets = [][]string{
		{"prepareFixture", "prepare", "préparer$1", "p"},
		{"runScenario", "prepareFixtures", "run_all_2", "runScenarioWithAVeryLongNameThatGoesOnAndOnAndOnUntilItIsLongerThanAnyReasonableName"},
		{"exerciseAll", "preparefixture", "PrepareFixture", "übung"},
	}
	// names of test methods (an index is appended): words the tool treats specially in
	// callee names, JUnit 3 style, $ _ digits, non-ASCII, one letter, very long
	testNameBases = []string{"shouldReturnTotal", "testIsEmpty", "verifiesOrder", "checkLimits", "isOpen", "assertsNothing", "sleep", "println",
		"ignore", "test", "t", "überprüfeSumme", "$_case_", "specifiedBehaviourOfAVeryLongTestMethodNameThatDescribesTheWholeScenarioInWordsAndThenSomeMore"}
	// names of methods without @Test/@Ignore that look like tests by name
	plainNameBases = []string{"testLegacy", "shouldNotRun", "ignoredCase", "test", "sleepyPrint"}
	mockFields     = []string{"orderMock", "orderMock2", "ledgerMock"}
	// class names: special words, near misses of the tool's testData rule, $ _ digits, non-ASCII, one letter, long
	oddSubjects = []string{"Thread", "System", "Assert", "Ignore", "OrderTestData", "TestData", "Ünïcode", "Order_$2", "A",
		"TheOrderServiceIntegrationScenarioForTheBillingSubsystemOfTheWarehouseManagementApplication"}
)

const qualifiedFeature = "qualified_test_annotation"

func rare(t *rapid.T, label string, n int) bool {
	return rapid.IntRange(0, n).Draw(t, label) == n
}

func genWrap(t *rapid.T) string {
	if rare(t, "wrapped", 3) {
		return rapid.SampledFrom([]string{"try", "if", "for", "while", "catch", "finally", "else", "sync", "switch", "lambda"}).Draw(t, "wrap")
	}
	return ""
}

// genMultiplicity: 1 mostly, sometimes small, sometimes around the duplicate limit.
func genMultiplicity(t *rapid.T, label string, around bool) int {
	k := rapid.IntRange(0, 9).Draw(t, label+"Kind")
	switch {
	case around && k >= 5:
		return rapid.SampledFrom([]int{3, 4, 5, 6}).Draw(t, label+"Around")
	case k >= 8:
		return rapid.IntRange(2, 7).Draw(t, label+"Any")
	case k >= 6:
		return 2
	}
	return 1
}

// genAtom draws one atom. inHelper restricts to what a called helper may contain without
// making the expected findings of its callers depend on a reading the statement leaves open.
func genAtom(t *rapid.T, helpers []string, inHelper bool, helperParams map[string]int) Atom {
	a := genAtomCore(t, helpers, inHelper, helperParams)
	if inHelper {
		return a
	}
	// audit widening: layout of the K statements
	switch a.Kind {
	case "print", "sleep", "same2", "diff2", "assert", "neutral", "mock", "helper", "pair2":
		if a.K >= 2 && rare(t, "oneLine", 5) {
			a.OneLine, a.Split = true, false
		}
		if rare(t, "spaced", 7) {
			a.Spaced = rapid.IntRange(1, 2).Draw(t, "spacedMode")
		}
	}
	return a
}

// helperCall is one call of the helper name with as many arguments as it has parameters.
func helperCall(t *rapid.T, name string, helperParams map[string]int) Atom {
	a := Atom{Kind: "helper", K: 1, Name: name, Args: helperParams[name]}
	if a.Args == 2 {
		a.SameArgs = rare(t, "sameArgs", 2)
	}
	return a
}

func genAtomCore(t *rapid.T, helpers []string, inHelper bool, helperParams map[string]int) Atom {
	if !inHelper && rare(t, "mockAtom", 11) {
		return Atom{Kind: "mock", Name: rapid.SampledFrom(mockFields).Draw(t, "mockField"), K: genMultiplicity(t, "k", true)}
	}
	if inHelper {
		if rare(t, "helperPair2", 7) {
			// widening w5: a two-argument call with two different lambdas / structured expressions
			// inside a called helper (never identical ones: whose finding that would be is open)
			a := Atom{Kind: "pair2", K: rapid.IntRange(1, 2).Draw(t, "k"), Variant: rapid.IntRange(0, len(pairShapes)-1).Draw(t, "pairShape")}
			a.Name = rapid.SampledFrom([]string{"toMap", "assertEquals", "register", "assertAll"}).Draw(t, "pairCallee")
			return a
		}
		switch rapid.IntRange(0, 4).Draw(t, "helperAtom") {
		case 0:
			return Atom{Kind: "neutral", K: rapid.IntRange(1, 2).Draw(t, "k"), Variant: rapid.SampledFrom([]int{0, 6, 1, 8, 9, 12}).Draw(t, "variant")}
		case 1:
			return Atom{Kind: "fill", K: 1}
		case 4:
			return Atom{Kind: "create", K: 1} // a creation, possibly the last thing the helper does
		}
		name := rapid.SampledFrom(helperAsserts).Draw(t, "helperAssert")
		if name == "assertEquals" {
			return Atom{Kind: "diff2", K: rapid.IntRange(1, 2).Draw(t, "k"), Name: name, Variant: rapid.IntRange(0, 5).Draw(t, "variant")}
		}
		return Atom{Kind: "assert", K: rapid.IntRange(1, 2).Draw(t, "k"), Name: name}
	}
	kind := rapid.SampledFrom([]string{"assert", "assert", "diff2", "print", "sleep", "same2", "neutral", "create", "fill", "helper", "pair2"}).Draw(t, "atomKind")
	a := Atom{Kind: kind, K: 1}
	switch kind {
	case "assert":
		a.Name = rapid.SampledFrom(assert1Names).Draw(t, "assertName")
		a.K = genMultiplicity(t, "k", true)
		a.Wrap = genWrap(t)
		a.Split = rare(t, "split", 5)
		if a.Name == "assertThat" && rare(t, "hamcrest", 1) {
			a.Variant = 1
		}
		if rare(t, "bigK", 30) {
			a.K = rapid.SampledFrom([]int{9, 17, 33}).Draw(t, "bigKValue")
		}
	case "diff2":
		if rare(t, "neutral2", 3) {
			a.Name = rapid.SampledFrom(neutral2Names).Draw(t, "name2")
		} else {
			a.Name = rapid.SampledFrom(assert2Names).Draw(t, "assert2")
		}
		a.K = genMultiplicity(t, "k", true)
		a.Variant = rapid.IntRange(0, 7).Draw(t, "variant")
		a.Split = rare(t, "split", 5)
		if rare(t, "moreArgTexts", 5) {
			a.Variant = rapid.IntRange(8, 9).Draw(t, "argTexts")
		}
	case "same2":
		if rare(t, "neutral2", 2) {
			a.Name = rapid.SampledFrom(neutral2Names).Draw(t, "name2")
		} else {
			a.Name = rapid.SampledFrom(assert2Names).Draw(t, "assert2")
		}
		a.K = genMultiplicity(t, "k", true)
		a.Variant = rapid.IntRange(0, 6).Draw(t, "variant")
		a.Wrap = genWrap(t)
		a.Split = rare(t, "split", 5)
		if rare(t, "moreArgTexts", 5) {
			a.Variant = rapid.IntRange(7, 8).Draw(t, "argTexts") // a comma inside each argument
		}
	case "print":
		a.K = genMultiplicity(t, "k", false)
		a.Variant = rapid.IntRange(0, 3).Draw(t, "variant")
		a.Wrap = genWrap(t)
		a.Split = rare(t, "split", 3)
		if rare(t, "printForm", 5) {
			a.Variant = rapid.IntRange(4, 5).Draw(t, "printFormKind") // identical arguments / a call as argument
		}
	case "sleep":
		a.K = genMultiplicity(t, "k", false)
		if rapid.Bool().Draw(t, "sleepInTry") {
			a.Wrap = "try"
		} else {
			a.Wrap = genWrap(t)
		}
		a.Split = rare(t, "split", 3)
		if rare(t, "sleepForm", 4) {
			a.Variant = rapid.IntRange(1, 3).Draw(t, "sleepFormKind") // two arguments (different / identical), a call as argument
		}
	case "neutral":
		a.K = genMultiplicity(t, "k", true)
		a.Variant = rapid.IntRange(0, 13).Draw(t, "variant")
		a.Wrap = genWrap(t)
		a.Split = rare(t, "split", 5)
		if rare(t, "moreLookAlikes", 4) {
			a.Variant = rapid.IntRange(14, 19).Draw(t, "lookAlike")
		}
		if rare(t, "bigK", 30) {
			a.K = rapid.SampledFrom([]int{9, 17, 33, 65}).Draw(t, "bigKValue") // a body with more than 8 / 16 / 32 / 64 calls
		}
	case "pair2":
		// widening w5: both arguments lambdas (the first shapes) or other structured expressions
		a.Variant = rapid.IntRange(0, len(pairShapes)-1).Draw(t, "pairShape")
		if rare(t, "neutral2", 2) {
			a.Name = rapid.SampledFrom(append([]string{"toMap"}, neutral2Names...)).Draw(t, "name2")
		} else {
			a.Name = rapid.SampledFrom(append([]string{"assertAll"}, assert2Names...)).Draw(t, "assert2")
		}
		a.K = genMultiplicity(t, "k", true)
		a.SameArgs = rare(t, "sameArgs", 2)
		a.Third = rare(t, "thirdArgument", 7)
		a.Nested = rare(t, "nestedInAssertTrue", 7)
		a.Wrap = genWrap(t)
		a.Split = rare(t, "split", 5)
	case "create":
		a.K = rapid.IntRange(1, 2).Draw(t, "k")
	case "fill":
		a.K = rapid.IntRange(1, 3).Draw(t, "k")
	case "helper":
		if len(helpers) == 0 {
			return Atom{Kind: "fill", K: 1}
		}
		a = helperCall(t, rapid.SampledFrom(helpers).Draw(t, "helper"), helperParams)
		a.K = rapid.IntRange(1, 2).Draw(t, "k")
		if rare(t, "qualified", 2) {
			a.Variant = rapid.IntRange(1, 2).Draw(t, "qualifier") // this.helper() / OwnClass.helper()
		}
	}
	return a
}

// callsOf counts the call sites an atom list writes (a chain writes two).
func callsOf(atoms []Atom, helperCallCount map[string]int) (direct, total int) {
	for _, a := range atoms {
		per := 1
		switch a.Kind {
		case "fill":
			per = 0
		case "print":
			if a.Variant%6 == 5 {
				per = 2
			}
		case "sleep":
			if a.Variant%4 == 3 {
				per = 2
			}
		case "same2":
			if a.Variant%9 == 6 || a.Variant%9 == 8 {
				per = 3
			}
		case "diff2":
			if a.Variant%10 == 6 {
				per = 2
			} else if a.Variant%10 == 7 {
				per = 3
			}
		case "assert":
			if a.Name == "assertThat" || a.Name == "verify" || a.Name == "assertThrows" {
				per = 2
			}
		case "pair2":
			per = 1 + len(pairInner(a))
			if a.Nested {
				per++
			}
		}
		direct += per * a.K
		total += per * a.K
		if a.Kind == "helper" {
			total += a.K * helperCallCount[a.Name]
		}
	}
	return
}

func isAssertAtom(a Atom) bool {
	return (a.Kind == "assert" || a.Kind == "same2" || a.Kind == "diff2" || a.Kind == "pair2") && assertionNames[a.Name]
}

// fixTestAtoms keeps a test method inside the part of the domain where the statement gives
// one answer: creations only next to a real call; no assertion name whose count reaches the
// duplicate limit only when helper bodies are counted in.
func fixTestAtoms(atoms []Atom, helperAtoms map[string][]Atom) []Atom {
	real := 0
	for _, a := range atoms {
		if a.Kind != "fill" && a.Kind != "create" {
			real += a.K
		}
	}
	var out []Atom
	for _, a := range atoms {
		if a.Kind == "create" && real == 0 {
			continue
		}
		out = append(out, a)
	}
	direct, inlined := map[string]int{}, map[string]int{}
	count := func(into map[string]int, list []Atom, times int) {
		for _, a := range list {
			if a.Kind == "pair2" {
				// callee, wrapper and the assertions written inside the arguments
				for _, n := range pairAssertions(a) {
					into[n] += a.K * times
				}
				continue
			}
			if isAssertAtom(a) {
				into[a.Name] += a.K * times
				if a.Name == "assertThat" {
					into["isEqualTo"] += a.K * times
				}
			}
		}
	}
	count(direct, out, 1)
	for _, a := range out {
		if a.Kind == "helper" {
			count(inlined, helperAtoms[a.Name], a.K)
		}
	}
	ambiguous := false
	for name, n := range inlined {
		if direct[name] < 5 && direct[name]+n >= 5 {
			ambiguous = true
		}
	}
	if ambiguous {
		var kept []Atom
		for _, a := range out {
			if a.Kind != "helper" {
				kept = append(kept, a)
			}
		}
		out = kept
	}
	return out
}

// genMethodLayout draws how a method is laid out (audit widening).
func genMethodLayout(t *rapid.T, m *Method) {
	if rare(t, "methodLayout", 3) {
		switch rapid.IntRange(0, 2).Draw(t, "methodLayoutKind") {
		case 0:
			m.BraceNext = true
		case 1:
			m.Compact = true
		default:
			m.BraceNext, m.Compact = true, true
		}
	}
}

func genTestMethod(t *rapid.T, idx int, helpers []string, helperAtoms map[string][]Atom, helperCallCount map[string]int, prev *Method, helperParams map[string]int) Method {
	m := Method{Kind: "test", Name: fmt.Sprintf("scenario%d", idx)}
	if rare(t, "testName", 3) {
		m.Name = fmt.Sprintf("%s%d", rapid.SampledFrom(testNameBases).Draw(t, "testNameBase"), idx)
	}
	m.Annot = rapid.SampledFrom([]string{"T", "T", "T", "I", "TI", "IT"}).Draw(t, "annot")
	if rare(t, "annotArgs", 3) {
		m.AnnotArgs = rapid.IntRange(1, 3).Draw(t, "annotArgsKind")
	}
	m.SameLine = rare(t, "sameLine", 3)
	m.Mods = rapid.SampledFrom([]string{"public", "public", "public", ""}).Draw(t, "mods")
	m.Throws = rare(t, "throws", 2)
	if rare(t, "extraAnnotation", 3) {
		m.Extra = rapid.IntRange(1, plainExtraFrom-1).Draw(t, "extra")
		m.ExtraPos = rapid.IntRange(0, 2).Draw(t, "extraPos")
	}
	// audit widening: spellings of the annotations and of the declaration
	if rare(t, "annotForm", 4) {
		m.AnnotForm = rapid.IntRange(1, 4).Draw(t, "annotFormKind")
	}
	if rare(t, "qualifiedAnnotation", 7) && !pbt.Excluded(qualifiedFeature) {
		m.Qualified = rapid.IntRange(1, 3).Draw(t, "qualifiedWhich")
	}
	if m.Mods != "" {
		m.ModsFirst = rare(t, "modsFirst", 6)
		if rare(t, "moreMods", 6) {
			m.Mods = rapid.SampledFrom([]string{"public final", "public synchronized", "synchronized public", "final public"}).Draw(t, "modsKind")
		}
	}
	if rare(t, "testParameter", 7) {
		m.Params = 1
	}
	if rare(t, "docComment", 5) {
		m.Doc = rapid.IntRange(1, 3).Draw(t, "docKind")
	}
	genMethodLayout(t, &m)
	atoms := []Atom{}
	if prev != nil && rare(t, "cloneOfPrevious", 4) {
		// a copy of the previous test method of the class under another name
		atoms = append(atoms, prev.Atoms...)
	} else if rare(t, "mockPair", 9) {
		// one assertion name called on two fields, five or six times in all: the fields are of
		// one class (one assertion method) or of two (two methods of the same name)
		total := rapid.SampledFrom([]int{5, 6}).Draw(t, "mockTotal")
		first := rapid.IntRange(1, 4).Draw(t, "mockFirst")
		atoms = append(atoms, Atom{Kind: "mock", Name: "orderMock", K: first},
			Atom{Kind: "mock", Name: rapid.SampledFrom([]string{"ledgerMock", "orderMock2"}).Draw(t, "mockSecond"), K: total - first})
		if rapid.Bool().Draw(t, "mockSwap") {
			atoms[0], atoms[1] = atoms[1], atoms[0]
		}
		if rapid.Bool().Draw(t, "oneMore") {
			pos := rapid.IntRange(0, len(atoms)).Draw(t, "onePos")
			atoms = append(atoms[:pos], append([]Atom{genAtom(t, helpers, false, helperParams)}, atoms[pos:]...)...)
		}
	} else if len(helpers) >= 2 && rare(t, "throughSeveralHelpers", 4) {
		// nothing but calls of two or three helpers (and perhaps a neutral call): whether the
		// test asserts depends on all of them
		order := rapid.Permutation(helpers).Draw(t, "helperOrder")
		for _, h := range order {
			a := helperCall(t, h, helperParams)
			a.Variant = rapid.IntRange(0, 2).Draw(t, "qualifier")
			atoms = append(atoms, a)
		}
		if rapid.Bool().Draw(t, "neutralToo") {
			pos := rapid.IntRange(0, len(atoms)).Draw(t, "neutralPos")
			atoms = append(atoms[:pos], append([]Atom{{Kind: "neutral", K: 1, Variant: rapid.IntRange(0, 13).Draw(t, "variant")}}, atoms[pos:]...)...)
		}
	} else {
		n := rapid.IntRange(0, 4).Draw(t, "atoms")
		for i := 0; i < n; i++ {
			atoms = append(atoms, genAtom(t, helpers, false, helperParams))
		}
		if len(atoms) > 0 && rare(t, "sameAssertionAgain", 3) {
			// the same assertion once more in another place of the body, the total around the limit
			for _, a := range atoms {
				if isAssertAtom(a) && a.Name != "assertThrows" {
					total := rapid.SampledFrom([]int{5, 4, 6}).Draw(t, "assertionTotal")
					more := Atom{Kind: a.Kind, Name: a.Name, Variant: a.Variant, K: total - a.K}
					if more.K < 1 {
						more.K = 1
					}
					pos := rapid.IntRange(0, len(atoms)).Draw(t, "againPos")
					atoms = append(atoms[:pos], append([]Atom{more}, atoms[pos:]...)...)
					break
				}
			}
		}
	}
	atoms = fixTestAtoms(atoms, helperAtoms)
	direct, total := callsOf(atoms, helperCallCount)
	if m.Annot == "I" && direct == 0 {
		// @Ignore without @Test and without a call: the statement's EmptyTest clause can be
		// read either way, so such a method always gets a call
		atoms = append(atoms, Atom{Kind: "diff2", K: 2, Name: "assertEquals"})
		direct, total = callsOf(atoms, helperCallCount)
	}
	if total == 1 && strings.Contains(m.Annot, "T") && pbt.Excluded(oneCallFeature) {
		// known finding: EmptyTest is reported for a test with exactly one call; with the
		// feature excluded the single call is written twice instead
		for i := range atoms {
			if atoms[i].Kind != "fill" && atoms[i].Kind != "create" {
				atoms[i].K = 2
				break
			}
		}
		if _, total = callsOf(atoms, helperCallCount); total == 1 {
			atoms = append(atoms, Atom{Kind: "neutral", K: 1, Variant: 0})
		}
	}
	m.Atoms = atoms
	return m
}

func genFile(t *rapid.T, c *Case, role string, idx int, used map[string]bool) File {
	f := File{Role: role}
	subject := rapid.SampledFrom(subjects).Draw(t, "subject")
	oddSubject := rare(t, "oddSubject", 6)
	if oddSubject {
		subject = rapid.SampledFrom(oddSubjects).Draw(t, "oddSubjectName")
	}
	suffix := ""
	if role == "test" {
		suffix = "Test"
		if rare(t, "tests", 3) {
			suffix = "Tests"
		}
		if c.Layout == "maven" && rare(t, "otherSuffix", 2) {
			suffix = rapid.SampledFrom([]string{"IT", "Spec", "Cases", "TestCase"}).Draw(t, "suffix")
		}
	} else if rare(t, "prodNamedTest", 2) {
		// names with "Test" / "test" in them that are not test file names
		switch rapid.IntRange(0, 7).Draw(t, "prodNameKind") {
		case 0:
			subject = "Test" + subject // TestOrderSupport.java: "Test" at the front
			suffix = "Support"
		case 1:
			suffix = "Tester"
		case 2:
			suffix = "TestBase"
		case 3:
			suffix = "Testing"
		case 4:
			subject = "Contest" + subject
		// audit widening: the suffix in another case (Ordertest.java, Ordertests.java, OrderTEST.java)
		case 5:
			suffix = "test"
		case 6:
			suffix = "tests"
		default:
			suffix = "TEST"
		}
	}
	f.Name = subject + suffix
	twin := false
	if role == "test" && idx > 0 && c.Files[0].Role == "test" && rare(t, "sameNameElsewhere", 4) {
		// the name of the first test class once more, in another package / directory
		f.Name = c.Files[0].Name
		twin = true
	}
	if c.Layout == "maven" {
		f.Package = "com.acme." + strings.ToLower(strings.TrimPrefix(strings.TrimPrefix(subject, "Test"), "Contest"))
		if oddSubject {
			f.Package = "com.acme.misc" // `assert` is a keyword, `$` and long names make no good directory names
		}
		if rare(t, "shortPackage", 4) {
			f.Package = "shop"
		}
		if rare(t, "defaultPackage", 9) {
			f.Package = "" // directly in src/test/java (src/main/java)
		}
		if rare(t, "toolDirPackage", 7) {
			// seventh seed batch: a package segment named like a directory that build tools, IDEs and package
			// managers make; below src/test/java it is a package like any other
			f.Package = "com.acme." + rapid.SampledFrom([]string{"build", "target", "out", "bin", "dist", "generated", "vendor", "node_modules", "tmp", "classes", "gen"}).Draw(t, "toolDirPackageName") + rapid.SampledFrom([]string{"", ".queue", ".api"}).Draw(t, "toolDirPackageTail")
		}
		if twin {
			f.Package = "com.acme.other"
		}
	} else {
		f.SubDir = rapid.SampledFrom([]string{"", "", "tests", "unit/core"}).Draw(t, "subDir")
		if rare(t, "toolSubDir", 9) {
			f.SubDir = rapid.SampledFrom([]string{"build", "target/it", "out", "bin", "dist", "generated", "vendor/acme"}).Draw(t, "toolSubDirName")
		}
		if rare(t, "oddSubDir", 6) {
			// near misses of the tool's testData rule, a blank, a non-ASCII letter
			f.SubDir = rapid.SampledFrom([]string{"testdata", "it/TestData", "unit tests", "ünit", "test-data"}).Draw(t, "oddSubDirName")
		}
		if role == "prod" && rare(t, "prodDirNamedTest", 2) {
			// directories that resemble src/test/java without being it
			f.SubDir = rapid.SampledFrom([]string{"test", "src/testing/java", "src/test/resources", "latest", "src/test/javax",
				"src/integration-test/java", "src/tests/java", "test/java", "src/test", "src/test/Java"}).Draw(t, "prodSubDir")
		}
		if twin {
			f.SubDir = "other"
		}
		if rare(t, "hasPackage", 1) {
			f.Package = "com.acme"
		}
		if twin {
			// another package too: two classes with the same fully-qualified name in one tree
			// are not generated (whose helper `the same class` means is open then)
			f.Package = "com.acme.other"
		}
	}
	// one file per path and one class per fully-qualified name; the same simple class name may
	// occur again in another package and directory
	for n := 2; used[relPath(*c, f)] || used["class "+f.Package+"."+f.Name]; n++ {
		f.Name = fmt.Sprintf("%s%d%s", subject, n, suffix)
	}
	used[relPath(*c, f)] = true
	used["class "+f.Package+"."+f.Name] = true
	f.ImportStyle = rapid.IntRange(0, 2).Draw(t, "importStyle")
	f.Indent = rapid.IntRange(0, 2).Draw(t, "indent")
	f.Header = rapid.IntRange(0, 2).Draw(t, "header")
	f.BlankLines = rapid.IntRange(0, 1).Draw(t, "blank")
	f.Field = rare(t, "fieldCreation", 2)
	f.Constructor = role == "test" && rare(t, "constructor", 4)
	f.CRLF = rare(t, "crlf", 5)
	if rare(t, "classAnnotation", 3) {
		f.ClassAnnot = rapid.IntRange(1, 3).Draw(t, "classAnnot")
	}
	f.Extends = rare(t, "extends", 3)
	// audit widening: layout of the file
	f.NoFinalNewline = rare(t, "noFinalNewline", 5)
	if rare(t, "leadingBlank", 5) {
		f.LeadingBlank = rapid.IntRange(1, 3).Draw(t, "leadingBlankLines")
	}
	if rare(t, "importVariant", 4) {
		f.Imports = rapid.IntRange(1, 2).Draw(t, "importVariantKind")
	}
	if rare(t, "longLine", 14) {
		f.LongLine = rapid.IntRange(1, 2).Draw(t, "longLineKind")
		if rare(t, "mebibyteLine", 5) {
			f.LongLine = 3
		}
	}

	if role == "prod" {
		n := rapid.IntRange(0, 3).Draw(t, "prodMethods")
		for i := 0; i < n; i++ {
			if rare(t, "annotatedInProd", 2) {
				// @Test / @Ignore on a method of a file that is no test file: still no finding
				m := genTestMethod(t, i, nil, nil, nil, nil, nil)
				m.Name = fmt.Sprintf("selfCheck%d", i)
				f.Methods = append(f.Methods, m)
				continue
			}
			m := Method{Kind: "plain", Name: fmt.Sprintf("operation%d", i), Mods: "public"}
			k := rapid.IntRange(0, 3).Draw(t, "prodAtoms")
			for j := 0; j < k; j++ {
				a := genAtom(t, nil, false, nil)
				m.Atoms = append(m.Atoms, a)
			}
			f.Methods = append(f.Methods, m)
		}
		return f
	}

	// helpers first (so that tests can refer to them), then tests and plain methods, then a drawn order
	helperAtoms := map[string][]Atom{}
	helperCallCount := map[string]int{}
	var helpers []string
	var methods []Method
	nh := rapid.IntRange(0, 3).Draw(t, "helpers")
	helperParams := map[string]int{}
	for i := 0; i < nh; i++ {
		name := helperNames[i]
		if rare(t, "helperName", 2) {
			name = rapid.SampledFrom(helperNameSets[i]).Draw(t, "helperNameKind")
		}
		m := Method{Kind: "helper", Name: name, Mods: rapid.SampledFrom([]string{"private", "protected", "", "private static", "static"}).Draw(t, "helperMods")}
		if rare(t, "helperParams", 2) {
			m.Params = rapid.IntRange(1, 2).Draw(t, "helperParamCount")
		}
		helperParams[name] = m.Params
		genMethodLayout(t, &m)
		k := rapid.IntRange(0, 3).Draw(t, "helperAtoms")
		m.Atoms = []Atom{}
		for j := 0; j < k; j++ {
			m.Atoms = append(m.Atoms, genAtom(t, nil, true, nil))
		}
		_, helperCallCount[name] = callsOf(m.Atoms, nil)
		helperAtoms[name] = m.Atoms
		helpers = append(helpers, name)
		methods = append(methods, m)
	}
	nt := rapid.IntRange(1, 4).Draw(t, "tests")
	if rare(t, "otherTestCount", 11) {
		// a test class without any test method; a class with more than 8 / 16 of them
		nt = rapid.SampledFrom([]int{0, 9, 0, 17}).Draw(t, "testCount")
	}
	var prev *Method
	for i := 0; i < nt; i++ {
		m := genTestMethod(t, i, helpers, helperAtoms, helperCallCount, prev, helperParams)
		methods = append(methods, m)
		prev = &m
	}
	np := rapid.IntRange(0, 2).Draw(t, "plainMethods")
	for i := 0; i < np; i++ {
		m := Method{Kind: "plain", Name: fmt.Sprintf("unused%d", i), Mods: rapid.SampledFrom([]string{"public", "private", ""}).Draw(t, "plainMods")}
		if rare(t, "plainNamedLikeTest", 2) {
			// JUnit 3 style and other test-like names without @Test/@Ignore
			m.Name = fmt.Sprintf("%s_%d", rapid.SampledFrom(plainNameBases).Draw(t, "plainNameBase"), i)
		}
		if rare(t, "lifecycle", 1) {
			m.Annot = rapid.SampledFrom([]string{"B", "A", "BC"}).Draw(t, "lifecycleAnnot")
			m.Mods = "public"
			m.SameLine = rare(t, "sameLine", 3)
		}
		if rare(t, "lookAlikeAnnotation", 1) {
			// an annotation whose name resembles @Test / @Ignore makes no test method
			m.Extra = rapid.IntRange(1, len(extraAnnotations)-1).Draw(t, "extra")
			m.ExtraPos = rapid.IntRange(0, 1).Draw(t, "extraPos")
			m.SameLine = rare(t, "sameLine", 3)
		}
		k := rapid.IntRange(0, 3).Draw(t, "plainAtoms")
		m.Atoms = []Atom{}
		for j := 0; j < k; j++ {
			m.Atoms = append(m.Atoms, genAtom(t, nil, false, nil))
		}
		methods = append(methods, m)
	}
	// a helper nobody calls is an un-annotated bystander; that is fine
	if len(methods) > 1 {
		methods = rapid.Permutation(methods).Draw(t, "order")
	}
	f.Methods = methods
	return f
}

func genCase(t *rapid.T) Case {
	c := Case{Layout: "flat"}
	if rapid.IntRange(0, 2).Draw(t, "maven") > 0 {
		c.Layout = "maven"
		if rare(t, "module", 2) {
			c.Module = rapid.SampledFrom([]string{"core", "app/service"}).Draw(t, "moduleDir")
		}
	}
	used := map[string]bool{}
	nTest := rapid.IntRange(1, 3).Draw(t, "testFiles")
	nProd := rapid.IntRange(0, 2).Draw(t, "prodFiles")
	if rare(t, "manyFiles", 39) {
		nTest = rapid.SampledFrom([]int{9, 17}).Draw(t, "manyTestFiles") // more than 8 / 16 test classes
	}
	for i := 0; i < nTest; i++ {
		c.Files = append(c.Files, genFile(t, &c, "test", i, used))
	}
	for i := 0; i < nProd; i++ {
		c.Files = append(c.Files, genFile(t, &c, "prod", i, used))
	}
	c.Repeat = rare(t, "repeat", 3)
	genPeers(t, &c)
	genExtras(t, &c)
	if rare(t, "priorTree", 4) {
		genPrior(t, &c)
	}
	return c
}

// genPeers lets some test methods call, on a field, the helper of ANOTHER test class of the
// tree (a class with another simple name). Only methods that make a call already get one, so
// that no method ends up with exactly one call.
func genPeers(t *rapid.T, c *Case) {
	for i := range c.Files {
		f := &c.Files[i]
		if f.Role != "test" {
			continue
		}
		type target struct {
			class  string
			helper Method
		}
		var targets []target
		for j, o := range c.Files {
			if j == i || o.Role != "test" || o.Name == f.Name {
				continue
			}
			for _, m := range o.Methods {
				if m.Kind == "helper" {
					targets = append(targets, target{o.Name, m})
				}
			}
		}
		var callers []int
		for j, m := range f.Methods {
			if direct, _ := callsOf(m.Atoms, nil); m.Kind == "test" && direct > 0 {
				callers = append(callers, j)
			}
		}
		if len(targets) == 0 || len(callers) == 0 || !rare(t, "peerCall", 2) {
			continue
		}
		// all peer calls of a class go to one other class (one field)
		tg := rapid.SampledFrom(targets).Draw(t, "peerTarget")
		f.Peer = tg.class
		m := &f.Methods[rapid.SampledFrom(callers).Draw(t, "peerCaller")]
		a := Atom{Kind: "peer", K: rapid.IntRange(1, 2).Draw(t, "k"), Name: tg.helper.Name, Args: tg.helper.Params}
		if a.Args == 2 {
			a.SameArgs = rare(t, "sameArgs", 2)
		}
		pos := rapid.IntRange(0, len(m.Atoms)).Draw(t, "peerPos")
		atoms := append([]Atom{}, m.Atoms[:pos]...)
		atoms = append(atoms, a)
		m.Atoms = append(atoms, m.Atoms[pos:]...)
	}
}

// genExtras adds files that are no Java classes.
func genExtras(t *rapid.T, c *Case) {
	taken := map[string]bool{}
	for _, f := range c.Files {
		taken[relPath(*c, f)] = true
	}
	add := func(e ExtraFile) {
		if !taken[e.Rel] {
			taken[e.Rel] = true
			c.Extras = append(c.Extras, e)
		}
	}
	if rare(t, "gitignore", 5) {
		add(ExtraFile{Kind: "gitignore", Rel: ".gitignore"})
	}
	for i, f := range c.Files {
		if f.Role != "test" {
			continue
		}
		rel := relPath(*c, f)
		if rare(t, "copyUnderOtherName", 5) {
			// the text of the test class (evidence and all) next to it under a name that is no
			// Java source name
			ext := rapid.SampledFrom([]string{".java.bak", ".java~", ".txt", ".javax", ".kt", ".java.orig", "java", ".JAVA"}).Draw(t, "otherExtension")
			add(ExtraFile{Kind: "copy", Rel: strings.TrimSuffix(rel, ".java") + ext, Copy: i})
		}
		if c.Layout == "maven" && f.Package != "" && rare(t, "packageInfo", 5) {
			add(ExtraFile{Kind: "pkginfo", Rel: rel[:strings.LastIndex(rel, "/")] + "/package-info.java"})
		}
	}
}

// genPrior draws the tree that is analysed before the judged one: its first class has the
// name, package and directory of the judged tree's first test class, and its own methods.
func genPrior(t *rapid.T, c *Case) {
	p := Case{Layout: c.Layout, Module: c.Module}
	used := map[string]bool{}
	n := rapid.IntRange(1, 2).Draw(t, "priorFiles")
	for i := 0; i < n; i++ {
		f := genFile(t, &p, "test", i, used)
		if i == 0 && c.Files[0].Role == "test" {
			delete(used, relPath(p, f))
			delete(used, "class "+f.Package+"."+f.Name)
			f.Name, f.Package, f.SubDir = c.Files[0].Name, c.Files[0].Package, c.Files[0].SubDir
			used[relPath(p, f)] = true
			used["class "+f.Package+"."+f.Name] = true
		}
		p.Files = append(p.Files, f)
	}
	c.Prior = p.Files
}

func genCLICase(t *rapid.T) Case {
	c := genCase(t)
	c.Repeat = false
	// the printed table folds a long cell at blanks, so its rows cannot be read back for a path
	// with a blank: directory names with a blank stay with the API check
	for _, files := range [][]File{c.Files, c.Prior} {
		for i := range files {
			files[i].SubDir = strings.ReplaceAll(files[i].SubDir, " ", "-")
		}
	}
	for i := range c.Extras {
		c.Extras[i].Rel = strings.ReplaceAll(c.Extras[i].Rel, "unit tests/", "unit-tests/")
	}
	c.RelDir = rapid.Bool().Draw(t, "relDir")
	if rare(t, "otherDirStyle", 2) {
		c.DirStyle = rapid.IntRange(1, 3).Draw(t, "dirStyle")
	}
	c.Sort = rare(t, "sortFlag", 2)
	if rare(t, "argStyle", 2) {
		c.ArgStyle = rapid.IntRange(1, 3).Draw(t, "argStyleKind")
	}
	c.Twice = rare(t, "twice", 4)
	return c
}

func init() {
	pbt.SetProperty("C11")
	pbt.Describe("Trees of 1-3 JUnit-style test classes and 0-2 production classes, flat (FooTest.java / FooTests.java next to production files, optionally in sub-directories) or Maven style ([module/]src/test/java/<package dirs>/ with class names that need not end in Test, production under src/main/java); the name of a test class may recur in another package and directory. Test methods are assembled from evidence atoms with multiplicities: System.out.println/print/printf, Thread.sleep (also inside try/catch/finally/if/else/for/while/switch/synchronized blocks and lambda bodies, also with the argument list continued on the next line), two-argument calls with identical / different argument texts (assertion and non-assertion callees), one assertion repeated k times (k around the limit: 3,4,5,6; in one run or in two places of the body), several different assertions that only together reach the limit, a non-assertion repeated five times, chains assertThat(x).isEqualTo(y) and verify(m).run(), assertThrows around a lambda, calls of same-class helpers written helper(), this.helper() or OwnClass.helper() (whose bodies hold assertions, neutral calls and creations; also tests that do nothing but call two or three helpers), neutral calls that resemble the patterns (System.err.println, System.out.format/flush, TimeUnit.SECONDS.sleep, WorkerThread.sleep, logger.print, dispatch/inspect whose names contain is/spec, three-argument calls with two equal arguments, a call named like a helper on another object), creations first/last, plain statements, comments and string literals quoting the patterns; a test method may be a copy of the previous one; @Test / @Ignore alone or together in both orders, with or without arguments, on their own lines or on the declaration line, optionally with a third annotation (@Deprecated, @SuppressWarnings, @Category, @DisplayName) before, between or after them; static-import, explicit-static-import and qualified assertion styles; class-level @RunWith / @Ignore / extends; LF or CRLF. Un-annotated methods (also with lifecycle annotations or look-alikes such as @ParameterizedTest, @TestFactory, @IgnoreIf, @Ignored, @TestOnly), production classes (also named TestXSupport, XTester, XTestBase, ContestX or lying in test/, src/testing/java, src/test/resources, src/test/javax) carry the same atoms, production classes also methods annotated @Test/@Ignore. A line-tracking printer gives the ground-truth lines. Oracle: the multiset of findings by the statement's rules, each compared by type and file, plus the call's line for RedundantPrintTest/SleepyTest, plus the owning test method (reported line anywhere between its first annotation and its closing brace) for EmptyTest/RedundantAssertionTest/UnknownTest/DuplicateAssertTest; no finding may name a non-test file; a crash is a violation. Entry points: the cmd/tbs.go pipeline through the API, with TbsApp.AnalysisPath called a second time on the same class nodes and, in one case of four, the whole pipeline run again in the same process without reset (every result judged); and `coca tbs [-p DIR] [-s]` (tbs.json as a list or grouped by type; DIR absolute, relative, ./DIR, DIR/ or the default . from inside; the printed count and table, where present, must agree with tbs.json). Audit widening: (names) test methods named from a word list (shouldX, testX, verifiesX, checkX, isX, assertsX, sleepN, printlnN, ignoreN, one letter, $ _, non-ASCII, ~100 characters), un-annotated methods with JUnit-3-like names (testLegacy_N, shouldNotRun_N), helper names that are prefixes / extensions / case variants of each other (prepare, prepareFixture, prepareFixtures, preparefixture, PrepareFixture) or hold $ _ digits and non-ASCII letters, class names from a word list (ThreadTest, SystemTest, AssertTest, IgnoreTest, OrderTestDataTest, TestDataTest, non-ASCII, $ and _, one letter, ~90 characters), production files whose suffix differs in case only (Ordertest.java, Ordertests.java, OrderTEST.java), directories testdata, it/TestData, test-data, `unit tests` (API only), ünit, production directories src/integration-test/java, src/tests/java, test/java, src/test, src/test/Java, the default package in the Maven layout; (layout) the k statements of an atom on one source line, a whole method (annotations to closing brace) on one line, the opening brace on its own line, blanks around every . ( ) , ; of a call statement and comments after its dots, a documentation comment quoting the patterns before the annotations, a block or line comment between annotations and declaration, leading blank lines, no final newline, a comment line of 5000 and a string literal of 70000 characters, every import twice, unused imports (java.lang.Thread, java.io.PrintStream, wildcards); (spellings) @Test(), @Test(expected = X.class), @Ignore(value = \"..\"), a blank after the @, the annotations written with their package (@org.junit.Test, @org.junit.Ignore), modifiers before the annotations (public @Test void f()), two modifiers (public final, synchronized public), a parameter on a test method (TestInfo info), `coca tbs` options spelled --path DIR / --path=DIR / -p=DIR and --sort / --sort=true / -s=true; (structure) test classes without any test method, with 9 and 17 test methods, trees with 9 and 17 test classes, bodies with 9 / 17 / 33 / 65 calls, helpers with one or two int parameters (called with textually identical or different arguments: a two-argument helper call with identical arguments is a two-argument call like any other), a package-info.java among the Maven test sources, copies of a test class's text under names that are no Java source names (X.java.bak, X.java~, X.java.orig, X.txt, X.javax, X.kt, Xjava, X.JAVA), a .gitignore whose patterns match no file of the tree; (evidence) System.out.printf and Thread.sleep with two identical arguments (both findings), Thread.sleep(ms, ns), a call as the argument of a print / sleep, argument texts with a comma inside (\"a, b\", Arrays.asList(1, 2)), second argument a prefix of the first, assertThat(x, is(y)), one assertion name verifyAll called 5-6 times through two fields of one class (one assertion method: DuplicateAssertTest) or on fields of two classes (two methods: none), a same-named helper of ANOTHER test class of the tree called on a field (no helper of the same class), look-alikes out.println / this.out.printf / writer.print on fields, Thread.yield, reassert, unverified; (histories) in one case of five another tree (same layout; its first class has name, package and directory of the judged tree's first test class but other methods) is analysed first - in the same process without reset (API), by an earlier `coca tbs` run in the same working directory (CLI) - and in one CLI case of five the same tree is analysed first with the other setting of -s. Widening after seeded change C11-r5 (two-argument calls with structured arguments): two-argument calls, with assertion callees (assertEquals .. assertNotSame, assertAll) and others (Collectors.toMap, registry.put, Math.max, Objects.equals, service.register), whose two arguments are both lambdas - the same parameter list with different bodies (e -> e.getName() / e -> e.getSize(), () -> .. / () -> .., (a, b) -> a / (a, b) -> b, (Item e) -> .., block bodies, nested lambdas a -> b -> a / a -> b -> b, one body a prefix of the other, assertions inside the bodies), the same body under another parameter name or with the parameter in parentheses, a plain argument next to a lambda - or other structured expressions that agree in a part of their text (calls of one callee with other arguments, creations of one type, casts, elements of one array, conditionals, the same operands with another operator or swapped, the same tail, this.limit / limit, (expected) / expected, class literals, call chains with a common front, \"1\" / 1); each pair written with two different texts (no finding) or with the first text twice (textually identical: RedundantAssertionTest), once or k times (k around the limit), optionally followed by a third argument (a three-argument call: no finding) or as the argument of assertTrue(..), in every block kind, split over two lines, spaced out, on one line; the calls written inside the argument texts count as calls (and assertions) of the method; called helpers hold such calls with different arguments only. Non-trivial = some test method with >= 2 atom kinds, or a multiplicity 4/5/6, or both annotations; distinct = layout + per-file atom sequences.",
		"assertion names are clear positives (assert*, verify*, isEqualTo, one name per other prefix of the tool's list); other callee names do not start with the tool's prefixes (assert, should, check, maynotbe, is, spec, verify)",
		"called helpers contain only assertions, neutral calls, creations and plain statements (prints, sleeps and identical-argument calls inside a called helper are not generated: the statement does not say whose finding they would be); helper inlining is one level; helpers are not overloaded; two classes with the same fully-qualified name in one tree are not generated",
		"an assertion name never reaches 5 occurrences only through helper bodies; a method annotated @Ignore alone always makes a call; creations appear only next to at least one method call",
		"a call split over two lines starts (callee name and opening parenthesis) on its first line; method references (System.out::println), nested types, inherited helpers and JUnit 5 @Disabled are not generated",
		"a method counts as a test method by @Test/@Ignore alone (statement: 'Methods without @Test/@Ignore ... never produce a finding'), so look-alike annotations and an @Ignore on the class call for nothing",
		"prints and sleeps are written System.out.<m>(..) and Thread.sleep(..) literally (with or without blanks and comments between the tokens); java.lang.System.out.println, a print on the result of another print (System.out.printf(..).println()), Thread.currentThread().sleep(..), sleep on a variable of type Thread, statically imported sleep / out, and one assertion method spelled both assertEquals(..) and Assert.assertEquals(..) inside one test are not generated: the statement names the textual forms only",
		"one top-level class per file, no type parameters on test methods, no byte order mark (the shipped parser rejects it), no directory named like a Java file; no path contains `testData` (the tool leaves such paths out on purpose; the statement does not mention it) and the .gitignore never matches a file of the tree; a directory name with a blank occurs in the API check only (the printed table folds cells at blanks)",
		"annotations written with their package are generated unless known_findings.json lists the feature "+qualifiedFeature+" as known",
		"known finding (feature "+oneCallFeature+"): @Test methods with exactly one call (after helper inlining) are generated only with VERIF_NO_EXCLUDE=1 or while the finding is not listed as known")
	pbt.Register("tree", 1000, 2000, genCase, checkAPI)
	pbt.Register("cli", 60, 150, genCLICase, checkCLI)
}

func TestProp(t *testing.T)   { pbt.Main(t) }
func TestReplay(t *testing.T) { pbt.Replay(t) }
