// Second widening of the C04 generator (audit of input dimensions no seed had pointed at).
// xGen wraps wGen: shape 0 of every draw is the variant produced before, the new shapes sit
// behind their own draws.
//
// Shapes added:
//   - fan-in: one target with 9..70 direct callers spread over many classes (caller lists past
//     8, 16, 32 and 64 entries), some callers calling twice or having callers of their own
//   - caller tree: a tree (or chain) of exactly K callers that themselves have callers, K on both
//     sides of the expansion budget, declared in permuted order, plus further direct callers
//   - big: 9..40 classes, more than 64 methods
//   - empty: a model without classes
//   - names: letter-case twins (m0 / M0, C0 / c0, a / A), letters outside ASCII, one-letter,
//     underscore and very long names (300, 5000 characters), names that contain DOT / JSON
//     syntax characters other than quote and backslash
//   - a class declared twice (two structures of one full name, as for a type present in two
//     source roots), methods of one name spread over both
//   - Extend / Implements between project classes plus calls whose receiver class inherits the
//     method without declaring it (not a project method of that name: must stay out of the map)
//   - targets: the empty name, a letter-case variant, a proper prefix / an extension of a
//     declared name, the full name of a class
package c04

import (
	"fmt"
	"strings"
	"unicode"

	"pgregory.net/rapid"

	"verif/internal/mgen"
)

type xRef struct{ ci, mi int }

// xGen returns a model and, for the constructed shapes, the method the shape is built around
// ("" = none).
func xGen(t *rapid.T) (mgen.Model, string) {
	var m mgen.Model
	hint := xRef{-1, -1}
	switch s := rapid.IntRange(0, 13).Draw(t, "xShape"); {
	case s <= 8:
		m = wGen(t, wOpts{Quotes: true, Overloads: true})
	case s == 9:
		m, hint = xFanIn(t)
	case s == 10 || s == 11:
		m, hint = xCallerTree(t)
	case s == 12:
		m = xBig(t)
	default:
		// now and then: no classes at all
		if rapid.IntRange(0, 3).Draw(t, "noClasses") != 3 {
			m = wGen(t, wOpts{Quotes: true, Overloads: true})
		}
	}
	xRename(t, &m)
	target := ""
	if hint.ci >= 0 {
		target = m.Classes[hint.ci].Full() + "." + m.Classes[hint.ci].Methods[hint.mi].Name
	}
	xDuplicate(t, &m)
	xInherit(t, &m)
	return m, target
}

func xRefs(m mgen.Model) []xRef {
	var refs []xRef
	for ci, c := range m.Classes {
		for mi := range c.Methods {
			refs = append(refs, xRef{ci, mi})
		}
	}
	return refs
}

func xCallTo(m mgen.Model, r xRef) mgen.Call {
	c := m.Classes[r.ci]
	return mgen.Call{Pkg: c.Pkg, Node: c.Name, Func: c.Methods[r.mi].Name}
}

var xExt = mgen.Call{Pkg: "x", Node: "Ext", Func: "run"}

// xFanIn: a target with many direct callers.
func xFanIn(t *rapid.T) (mgen.Model, xRef) {
	n := rapid.SampledFrom([]int{9, 12, 16, 17, 32, 33, 40, 64, 65, 70}).Draw(t, "fanIn")
	per := rapid.IntRange(1, 8).Draw(t, "callersPerClass")
	var m mgen.Model
	tc := mgen.Class{Pkg: rapid.SampledFrom(wPkgs).Draw(t, "pkg"), Name: "C0", Methods: []mgen.Method{{Name: "m0"}}}
	if rapid.IntRange(0, 3).Draw(t, "targetCallsItself") == 3 {
		tc.Methods[0].Calls = append(tc.Methods[0].Calls, mgen.Call{Pkg: tc.Pkg, Node: "C0", Func: "m0"})
	}
	tcall := mgen.Call{Pkg: tc.Pkg, Node: "C0", Func: "m0"}
	var cur *mgen.Class
	for i := 0; i < n; i++ {
		if cur == nil || len(cur.Methods) >= per {
			m.Classes = append(m.Classes, mgen.Class{Pkg: rapid.SampledFrom(wPkgs).Draw(t, "pkg"), Name: fmt.Sprintf("C%d", len(m.Classes)+1)})
			cur = &m.Classes[len(m.Classes)-1]
		}
		mm := mgen.Method{Name: fmt.Sprintf("m%d", len(cur.Methods)), Calls: []mgen.Call{tcall}}
		switch rapid.IntRange(0, 7).Draw(t, "callerKind") {
		case 5: // calls the target twice
			mm.Calls = append(mm.Calls, tcall)
		case 6: // something else first
			mm.Calls = []mgen.Call{xExt, tcall}
		case 7: // twice, not next to each other
			mm.Calls = []mgen.Call{tcall, xExt, tcall}
		}
		cur.Methods = append(cur.Methods, mm)
	}
	// some callers have callers of their own (another caller of the target, possibly later in the model)
	refs := xRefs(m)
	k := rapid.IntRange(0, 6).Draw(t, "callersWithCallers")
	for i := 0; i < k; i++ {
		from := rapid.SampledFrom(refs).Draw(t, "from")
		to := rapid.SampledFrom(refs).Draw(t, "to")
		fm := &m.Classes[from.ci].Methods[from.mi]
		if rapid.Bool().Draw(t, "before") {
			fm.Calls = append([]mgen.Call{xCallTo(m, to)}, fm.Calls...)
		} else {
			fm.Calls = append(fm.Calls, xCallTo(m, to))
		}
	}
	// the target's class comes first, last or in between
	pos := rapid.IntRange(0, len(m.Classes)).Draw(t, "targetClassAt")
	out := mgen.Model{}
	out.Classes = append(out.Classes, m.Classes[:pos]...)
	out.Classes = append(out.Classes, tc)
	out.Classes = append(out.Classes, m.Classes[pos:]...)
	return out, xRef{pos, 0}
}

// xCallerTree: node 0 is the target; node i > 0 calls its parent; every node has a caller, so
// exactly k methods of the graph are expandable in the reverse direction. Declaration order is a
// drawn permutation (the order of a caller list is the declaration order).
func xCallerTree(t *rapid.T) (mgen.Model, xRef) {
	k := rapid.SampledFrom([]int{6, 7, 5, 4, 8, 9, 12, 6, 7}).Draw(t, "treeCallers")
	chain := rapid.IntRange(0, 2).Draw(t, "chain") == 2
	type node struct {
		calls []int // nodes called, in order
		ext   bool
	}
	nodes := make([]node, k)
	hasChild := make([]bool, k)
	for i := 1; i < k; i++ {
		p := i - 1
		if !chain {
			p = rapid.IntRange(0, i-1).Draw(t, "parent")
		}
		nodes[i].calls = append(nodes[i].calls, p)
		hasChild[p] = true
	}
	// leaves of the tree get a caller without callers, so that they count as expandable
	for i := 0; i < k; i++ {
		if !hasChild[i] || rapid.IntRange(0, 3).Draw(t, "leafCaller") == 3 {
			nodes = append(nodes, node{calls: []int{i}})
		}
	}
	// further direct callers of the target, with or without a caller of their own
	extra := rapid.IntRange(0, 3).Draw(t, "extraDirect")
	for i := 0; i < extra; i++ {
		nodes = append(nodes, node{calls: []int{0}})
		if rapid.Bool().Draw(t, "extraHasCaller") {
			nodes = append(nodes, node{calls: []int{len(nodes) - 1}})
		}
	}
	for i := range nodes {
		nodes[i].ext = rapid.IntRange(0, 3).Draw(t, "alsoExternal") == 3
	}
	idx := make([]int, len(nodes))
	for i := range idx {
		idx[i] = i
	}
	order := idx
	if rapid.IntRange(0, 2).Draw(t, "permuted") != 0 {
		order = rapid.Permutation(idx).Draw(t, "order")
	}
	chunk := rapid.IntRange(1, 4).Draw(t, "methodsPerClass")
	pkgOf := map[int]string{}
	at := make([]xRef, len(nodes)) // node -> place
	var m mgen.Model
	for p, nd := range order {
		ci, mi := p/chunk, p%chunk
		if mi == 0 {
			pkgOf[ci] = rapid.SampledFrom(wPkgs).Draw(t, "pkg")
			m.Classes = append(m.Classes, mgen.Class{Pkg: pkgOf[ci], Name: fmt.Sprintf("C%d", ci)})
		}
		m.Classes[ci].Methods = append(m.Classes[ci].Methods, mgen.Method{Name: fmt.Sprintf("m%d", mi)})
		at[nd] = xRef{ci, mi}
	}
	for nd, n := range nodes {
		mm := &m.Classes[at[nd].ci].Methods[at[nd].mi]
		for _, callee := range n.calls {
			mm.Calls = append(mm.Calls, xCallTo(m, at[callee]))
		}
		if n.ext {
			mm.Calls = append(mm.Calls, xExt)
		}
	}
	return m, at[0]
}

// xBig: many classes, sparse calls.
func xBig(t *rapid.T) mgen.Model {
	nc := rapid.SampledFrom([]int{9, 16, 17, 33, 40}).Draw(t, "bigClasses")
	var m mgen.Model
	for i := 0; i < nc; i++ {
		c := mgen.Class{Pkg: rapid.SampledFrom(wPkgs).Draw(t, "pkg"), Name: fmt.Sprintf("C%d", i)}
		nm := rapid.IntRange(1, 3).Draw(t, "nMethods")
		for j := 0; j < nm; j++ {
			c.Methods = append(c.Methods, mgen.Method{Name: fmt.Sprintf("m%d", j)})
		}
		m.Classes = append(m.Classes, c)
	}
	refs := xRefs(m)
	for _, r := range refs {
		n := rapid.IntRange(0, 2).Draw(t, "nCalls")
		for k := 0; k < n; k++ {
			call := xExt
			if rapid.IntRange(0, 3).Draw(t, "external") != 3 {
				call = xCallTo(m, rapid.SampledFrom(refs).Draw(t, "callee"))
			}
			m.Classes[r.ci].Methods[r.mi].Calls = append(m.Classes[r.ci].Methods[r.mi].Calls, call)
		}
	}
	return m
}

// ---- names -----------------------------------------------------------------------------

func xToggle(s string) string {
	out := []rune(s)
	for i, r := range out {
		if unicode.IsUpper(r) {
			out[i] = unicode.ToLower(r)
		} else {
			out[i] = unicode.ToUpper(r)
		}
	}
	return string(out)
}

var xNonASCII = []string{"é", "名", "ß", "Ω", "ı", "İ", "Ä"}
var xSyntax = []string{" -> ", ";", "}", "{", "//", "#", "[label=x]", "<T>", "&", ",", ":", "=", " ", "->", "/*", "*/", "'"}

// xRename renames packages, classes and methods of the model consistently (declarations and
// calls). The mapping is injective and never produces a name already in use, so the call
// relation stays the same up to names.
func xRename(t *rapid.T, m *mgen.Model) {
	fam := rapid.IntRange(0, 12).Draw(t, "xNames") - 8 // <= 0: none
	if fam <= 0 || len(m.Classes) == 0 {
		return
	}
	var pk, cn, mn []string
	seenP, seenC, seenM := map[string]bool{}, map[string]bool{}, map[string]bool{}
	for _, c := range m.Classes {
		if !seenP[c.Pkg] && c.Pkg != "" {
			seenP[c.Pkg] = true
			pk = append(pk, c.Pkg)
		}
		if !seenC[c.Name] {
			seenC[c.Name] = true
			cn = append(cn, c.Name)
		}
		for _, mm := range c.Methods {
			if !mm.Ctor && !seenM[mm.Name] {
				seenM[mm.Name] = true
				mn = append(mn, mm.Name)
			}
		}
	}
	used := map[string]bool{}
	for _, l := range [][]string{pk, cn, mn} {
		for _, s := range l {
			used[s] = true
		}
	}
	rename := func(kind string, table []string) map[string]string {
		out := map[string]string{}
		for i, old := range table {
			if !rapid.Bool().Draw(t, "rename") {
				continue
			}
			nw := old
			switch fam {
			case 1: // letter-case twin of the entry before (which keeps its name), else of itself
				nw = xToggle(old)
				if i > 0 {
					if _, moved := out[table[i-1]]; !moved {
						nw = xToggle(table[i-1])
					}
				}
			case 2:
				x := rapid.SampledFrom(xNonASCII).Draw(t, "letter")
				if rapid.Bool().Draw(t, "inFront") {
					nw = x + old
				} else {
					nw = old + x
				}
			case 3:
				switch rapid.IntRange(0, 5).Draw(t, "plainName") {
				case 0:
					nw = old[:1]
				case 1:
					nw = "_"
				case 2:
					nw = old[:1] + "_" + old[1:]
				case 3:
					nw = "_" + old
				case 4:
					nw = old + strings.Repeat("x", 300)
				default:
					nw = old + strings.Repeat("y", 5000)
				}
			default:
				if kind == "pkg" {
					continue
				}
				x := rapid.SampledFrom(xSyntax).Draw(t, "syntax")
				switch rapid.IntRange(0, 2).Draw(t, "where") {
				case 0:
					nw = old + x
				case 1:
					nw = old + x + old
				default:
					nw = x + old
				}
				if strings.HasPrefix(nw, "-") {
					nw = old + nw // a target must not read like an option of the CLI
				}
			}
			if nw == old || used[nw] {
				continue
			}
			used[nw] = true
			out[old] = nw
		}
		return out
	}
	pm, cm, mm := rename("pkg", pk), rename("class", cn), rename("method", mn)
	get := func(m map[string]string, s string) string {
		if n, ok := m[s]; ok {
			return n
		}
		return s
	}
	fn := func(s string) string {
		if n, ok := mm[s]; ok {
			return n
		}
		return get(cm, s) // a constructor called by name
	}
	fix := func(c *mgen.Call) {
		c.Pkg, c.Node, c.Func = get(pm, c.Pkg), get(cm, c.Node), fn(c.Func)
	}
	for ci := range m.Classes {
		c := &m.Classes[ci]
		c.Pkg, c.Name = get(pm, c.Pkg), get(cm, c.Name)
		for i := range c.FieldCalls {
			fix(&c.FieldCalls[i])
		}
		for mi := range c.Methods {
			f := &c.Methods[mi]
			if f.Ctor {
				f.Name = get(cm, f.Name)
			} else {
				f.Name = get(mm, f.Name)
			}
			for i := range f.Calls {
				fix(&f.Calls[i])
			}
		}
	}
}

// ---- a class declared twice ------------------------------------------------------------

func xDuplicate(t *rapid.T, m *mgen.Model) {
	if rapid.IntRange(0, 6).Draw(t, "xDup") != 6 || len(m.Classes) == 0 {
		return
	}
	orig := m.Classes[rapid.IntRange(0, len(m.Classes)-1).Draw(t, "dupOf")]
	dup := mgen.Class{Pkg: orig.Pkg, Name: orig.Name, Type: orig.Type}
	refs := xRefs(*m)
	n := rapid.IntRange(1, 3).Draw(t, "dupMethods")
	for j := 0; j < n; j++ {
		f := mgen.Method{Name: fmt.Sprintf("d%d", j)}
		if len(orig.Methods) > 0 && rapid.Bool().Draw(t, "sameName") {
			f.Name = orig.Methods[rapid.IntRange(0, len(orig.Methods)-1).Draw(t, "nameOf")].Name
		}
		nc := rapid.IntRange(0, 2).Draw(t, "nCalls")
		for k := 0; k < nc && len(refs) > 0; k++ {
			f.Calls = append(f.Calls, xCallTo(*m, rapid.SampledFrom(refs).Draw(t, "callee")))
		}
		dup.Methods = append(dup.Methods, f)
	}
	// methods of the project call what only the second declaration holds
	k := rapid.IntRange(0, 2).Draw(t, "callsIntoDup")
	for i := 0; i < k && len(refs) > 0; i++ {
		from := rapid.SampledFrom(refs).Draw(t, "from")
		callee := dup.Methods[rapid.IntRange(0, len(dup.Methods)-1).Draw(t, "dupCallee")]
		fm := &m.Classes[from.ci].Methods[from.mi]
		fm.Calls = append(fm.Calls, mgen.Call{Pkg: dup.Pkg, Node: dup.Name, Func: callee.Name})
	}
	m.Classes = append(m.Classes, dup)
}

// ---- inheritance -----------------------------------------------------------------------

func xInherit(t *rapid.T, m *mgen.Model) {
	if rapid.IntRange(0, 5).Draw(t, "xInherit") != 5 || len(m.Classes) < 2 {
		return
	}
	refs := xRefs(*m)
	n := rapid.IntRange(1, 2).Draw(t, "nInherit")
	for i := 0; i < n; i++ {
		ci := rapid.IntRange(0, len(m.Classes)-1).Draw(t, "child")
		pi := rapid.IntRange(0, len(m.Classes)-1).Draw(t, "parent")
		child, parent := &m.Classes[ci], m.Classes[pi]
		if child.Full() == parent.Full() {
			continue
		}
		name := parent.Name
		if rapid.Bool().Draw(t, "qualified") {
			name = parent.Full()
		}
		if rapid.IntRange(0, 2).Draw(t, "implements") == 2 {
			child.Implements = append(child.Implements, name)
		} else {
			child.Extend = name
		}
		// somebody calls, on the child, a method that only the parent declares
		own := map[string]bool{}
		for _, c := range m.Classes {
			if c.Full() == child.Full() {
				for _, f := range c.Methods {
					own[f.Name] = true
				}
			}
		}
		var inherited []string
		for _, f := range parent.Methods {
			if !own[f.Name] && !f.Ctor {
				inherited = append(inherited, f.Name)
			}
		}
		if len(inherited) > 0 && len(refs) > 0 {
			k := rapid.IntRange(1, 2).Draw(t, "inheritedCalls")
			for j := 0; j < k; j++ {
				from := rapid.SampledFrom(refs).Draw(t, "from")
				fm := &m.Classes[from.ci].Methods[from.mi]
				fm.Calls = append(fm.Calls, mgen.Call{Pkg: child.Pkg, Node: child.Name, Func: rapid.SampledFrom(inherited).Draw(t, "inheritedName")})
			}
		}
	}
}

// ---- targets ---------------------------------------------------------------------------

func xTarget(t *rapid.T, m mgen.Model, hint string) string {
	k := rapid.IntRange(0, 19).Draw(t, "xTargetKind")
	methods := m.Methods()
	switch {
	case k == 16:
		return ""
	case k == 17 && len(methods) > 0:
		full := rapid.SampledFrom(methods).Draw(t, "caseVariantOf")
		if hint != "" {
			full = hint
		}
		cut := strings.LastIndex(full, ".") + 1
		if rapid.Bool().Draw(t, "wholeName") {
			cut = 0
		}
		return full[:cut] + xToggle(full[cut:])
	case k == 18 && len(methods) > 0:
		full := rapid.SampledFrom(methods).Draw(t, "nearOf")
		if hint != "" {
			full = hint
		}
		switch rapid.IntRange(0, 3).Draw(t, "near") {
		case 0:
			r := []rune(full)
			return string(r[:len(r)-1])
		case 1:
			return full + "0"
		case 2:
			return full + "."
		default:
			return full[:strings.LastIndex(full, ".")+1]
		}
	case k == 19 && len(m.Classes) > 0:
		return rapid.SampledFrom(m.Classes).Draw(t, "classAsTarget").Full()
	}
	if hint != "" && k < 13 {
		return hint
	}
	return genTarget(t, m)
}

// ---- second models for the seq sub-check -----------------------------------------------

// xPermuted: the same classes in another order (the call relation is the same, caller lists
// come in another order).
func xPermuted(t *rapid.T, m mgen.Model) mgen.Model {
	if len(m.Classes) == 0 {
		return m
	}
	return mgen.Model{Classes: rapid.Permutation(m.Classes).Draw(t, "classOrder")}
}

// xSubset: one class removed (calls into it become calls to undeclared methods).
func xSubset(t *rapid.T, m mgen.Model) mgen.Model {
	if len(m.Classes) == 0 {
		return m
	}
	drop := rapid.IntRange(0, len(m.Classes)-1).Draw(t, "dropped")
	var out mgen.Model
	out.Classes = append(out.Classes, m.Classes[:drop]...)
	out.Classes = append(out.Classes, m.Classes[drop+1:]...)
	return out
}
