// Widened model generator for C04 (same file as in c03) (a copy of mgen.Gen with more input shapes; the data type
// stays mgen.Model so that old replay files keep loading). Every knob is drawn so that 0 is the
// plain variant of mgen.Gen.
//
// Shapes added over mgen.Gen:
//   - class simple names shared between packages, preferably packages of which one is a
//     (dotted or plain) suffix of the other: b.C0 / a.b.C0 / ab.C0
//   - the default package (Package == "")
//   - method names of which one is a prefix / suffix of another (m0, m00, xm0), names with '$'
//   - callees: a method declared only in the same-named class of another package, an unresolved
//     receiver without package (".list.add"), call Type values the Java front end writes
//   - class-level calls (field initialisers): recorded in the class, made by no method
//   - class Types other than "Class" (Interface, CreatorClass, InnerStructures); methods named
//     like accessors, main, Object's methods or JUnit's (getM, setM, get, isM, main, toString, equals, hashCode, testM, setUp)
//   - up to 8 classes
//   - shape 3: a call tree of exactly K expandable methods (K = 5..9, the budget is 7)
//   - overloads (two functions of one name in a class) when asked for (C04 only)
package c04

import (
	"fmt"

	"github.com/modernizing/coca/pkg/domain/core_domain"
	"pgregory.net/rapid"

	"verif/internal/mgen"
)

type wOpts struct {
	Quotes    bool
	Overloads bool
}

var wPkgs = []string{"a", "b", "a.b", "ab", "a.c", "bc", "c"}
var wExtPkgs = []string{"java.util", "org.ext", "x"}

// pairs of packages where the first is a string suffix of the second
var wSuffixPkgs = map[string][]string{"b": {"a.b", "ab"}, "c": {"a.c", "bc"}, "a.b": {"b"}, "ab": {"b"}, "a.c": {"c"}, "bc": {"c"}}

var wAltMethodNames = []string{"m0", "m00", "xm0", "m1", "m01", "run", "getM", "setM", "get", "isM", "main", "toString", "equals", "hashCode", "testM", "setUp"}
var wClassTypes = []string{"", "Interface", "CreatorClass", "InnerStructures"}
var wCallTypes = []string{"", "lambda", "CreatorClass", "field"}

func wGen(t *rapid.T, o wOpts) mgen.Model {
	maxClasses := 5
	if rapid.IntRange(0, 9).Draw(t, "manyClasses") == 9 {
		maxClasses = 8
	}
	nc := rapid.IntRange(1, maxClasses).Draw(t, "nClasses")
	quotes := o.Quotes && rapid.IntRange(0, 5).Draw(t, "quotedModel") == 5
	// 0, 1: any call target; 2: only later methods (acyclic); 3: a tree of exactly K expandable methods
	shape := rapid.IntRange(0, 3).Draw(t, "shape")
	collide := rapid.IntRange(0, 3).Draw(t, "collide") == 3
	defaultPkg := rapid.IntRange(0, 9).Draw(t, "defaultPkg") == 9
	names := rapid.IntRange(0, 5).Draw(t, "names") // 4: alternative method names, 5: '$'
	moreKinds := rapid.IntRange(0, 2).Draw(t, "moreKinds") == 2
	overloads := o.Overloads && rapid.IntRange(0, 2).Draw(t, "overloads") == 2
	minMethods := 0
	if shape == 3 {
		if nc < 3 {
			nc = 3
		}
		minMethods = 2
	}
	pkgPool := wPkgs
	if defaultPkg {
		pkgPool = append(append([]string{}, wPkgs...), "")
	}
	var m mgen.Model
	seen := map[string]bool{}
	for i := 0; i < nc; i++ {
		pkg := rapid.SampledFrom(pkgPool).Draw(t, "pkg")
		name := fmt.Sprintf("C%d", i)
		if quotes && rapid.IntRange(0, 3).Draw(t, "q") == 3 {
			// a call on a string literal is recorded with the literal's text as receiver: quotes, backslashes
			// (`"\\d+".matches(x)`), tabs and letters outside ASCII; never a backslash in front of a quote or
			// at the end (what that means inside a quoted DOT ID is not settled)
			name = name + rapid.SampledFrom([]string{"\"q", "\"q", "\"\\d+\"", "a\\\\b", "\tq", "\"éü\"", "\\w"}).Draw(t, "literalPiece")
		}
		if names == 5 && rapid.IntRange(0, 2).Draw(t, "dollar") == 2 {
			name = name + "$1"
		}
		if collide && len(m.Classes) > 0 && rapid.IntRange(0, 1).Draw(t, "twin") == 1 {
			other := m.Classes[rapid.IntRange(0, len(m.Classes)-1).Draw(t, "twinOf")]
			cand := other.Name
			p := pkg
			if rel := wSuffixPkgs[other.Pkg]; len(rel) > 0 && rapid.Bool().Draw(t, "suffixPkg") {
				p = rapid.SampledFrom(rel).Draw(t, "relPkg")
			}
			if !seen[p+"."+cand] {
				pkg, name = p, cand
			}
		}
		if seen[pkg+"."+name] {
			continue
		}
		seen[pkg+"."+name] = true
		c := mgen.Class{Pkg: pkg, Name: name}
		if moreKinds {
			// what the front end writes for interfaces (default methods have calls), anonymous and inner classes
			c.Type = rapid.SampledFrom(wClassTypes).Draw(t, "classType")
		}
		nm := rapid.IntRange(minMethods, 4).Draw(t, "nMethods")
		used := map[string]bool{}
		for j := 0; j < nm; j++ {
			mn := fmt.Sprintf("m%d", j)
			if names == 4 && rapid.Bool().Draw(t, "altName") {
				mn = rapid.SampledFrom(wAltMethodNames).Draw(t, "methodName")
			}
			if names == 5 && rapid.IntRange(0, 3).Draw(t, "dollar") == 3 {
				mn = mn + "$"
			}
			if quotes && rapid.IntRange(0, 5).Draw(t, "q") == 5 {
				mn = mn + rapid.SampledFrom([]string{"\"x", "\"x", "\\n1", "\tx", "\\d+x"}).Draw(t, "literalPieceM")
			}
			if used[mn] && !overloads {
				continue
			}
			used[mn] = true
			c.Methods = append(c.Methods, mgen.Method{Name: mn})
		}
		if overloads && len(c.Methods) > 0 && rapid.Bool().Draw(t, "overload") {
			// a second function of the same name, not necessarily next to the first
			c.Methods = append(c.Methods, mgen.Method{Name: c.Methods[rapid.IntRange(0, len(c.Methods)-1).Draw(t, "overloadOf")].Name})
		}
		if rapid.IntRange(0, 3).Draw(t, "hasCtor") == 3 {
			c.Methods = append(c.Methods, mgen.Method{Name: name, Ctor: true})
		}
		m.Classes = append(m.Classes, c)
	}
	type ref struct{ ci, mi int }
	var refs []ref
	for ci, c := range m.Classes {
		for mi := range c.Methods {
			refs = append(refs, ref{ci, mi})
		}
	}
	callTo := func(r ref) mgen.Call {
		tc := m.Classes[r.ci]
		return mgen.Call{Pkg: tc.Pkg, Node: tc.Name, Func: tc.Methods[r.mi].Name}
	}
	anyMethodName := func() string {
		if len(refs) == 0 {
			return "undeclared"
		}
		r := rapid.SampledFrom(refs).Draw(t, "nameOf")
		return m.Classes[r.ci].Methods[r.mi].Name
	}

	if shape == 3 && len(refs) >= 5 {
		// a tree over the first K methods; every node also calls a leaf so that it is expandable
		k := rapid.SampledFrom([]int{7, 8, 5, 6, 9, 7, 8}).Draw(t, "treeNodes") // the budget is 7
		if k > len(refs) {
			k = len(refs)
		}
		for i := 0; i < k; i++ {
			if i > 0 {
				p := refs[rapid.IntRange(0, i-1).Draw(t, "parent")]
				pm := &m.Classes[p.ci].Methods[p.mi]
				pm.Calls = append(pm.Calls, callTo(refs[i]))
			}
		}
		if rapid.IntRange(0, 3).Draw(t, "again") == 3 {
			// one node of the tree is called a second time (its subtree is unfolded twice)
			p, c := refs[rapid.IntRange(0, k-1).Draw(t, "againFrom")], refs[rapid.IntRange(1, k-1).Draw(t, "againTo")]
			pm := &m.Classes[p.ci].Methods[p.mi]
			if p.ci*100+p.mi < c.ci*100+c.mi { // keeps the tree acyclic
				pm.Calls = append(pm.Calls, callTo(c))
			}
		}
		for i := 0; i < k; i++ {
			r := refs[i]
			mm := &m.Classes[r.ci].Methods[r.mi]
			leaf := mgen.Call{Pkg: "x", Node: "Ext", Func: "run"}
			if k < len(refs) && rapid.Bool().Draw(t, "declaredLeaf") {
				leaf = callTo(refs[rapid.IntRange(k, len(refs)-1).Draw(t, "leaf")])
			}
			if rapid.Bool().Draw(t, "leafFirst") {
				mm.Calls = append([]mgen.Call{leaf}, mm.Calls...)
			} else {
				mm.Calls = append(mm.Calls, leaf)
			}
		}
		return m
	}

	density := rapid.IntRange(1, 4).Draw(t, "density")
	for ci := range m.Classes {
		if moreKinds && len(refs) > 0 && rapid.IntRange(0, 3).Draw(t, "fieldCalls") == 3 {
			// calls in field initialisers: recorded at class level, made by no method
			n := rapid.IntRange(1, 2).Draw(t, "nFieldCalls")
			for k := 0; k < n; k++ {
				fc := callTo(rapid.SampledFrom(refs).Draw(t, "fieldCallee"))
				m.Classes[ci].FieldCalls = append(m.Classes[ci].FieldCalls, fc)
			}
		}
		for mi := range m.Classes[ci].Methods {
			n := rapid.IntRange(0, density).Draw(t, "nCalls")
			if n == 0 && rapid.Bool().Draw(t, "atLeastOne") {
				n = 1
			}
			for k := 0; k < n; k++ {
				kind := rapid.IntRange(0, 19).Draw(t, "kind")
				var call mgen.Call
				switch {
				case kind < 13 && len(refs) > 0: // declared method (possibly itself)
					r := rapid.SampledFrom(refs).Draw(t, "target")
					if shape == 2 {
						self := 0
						for i, x := range refs {
							if x.ci == ci && x.mi == mi {
								self = i
							}
						}
						if self == len(refs)-1 {
							continue
						}
						r = refs[rapid.IntRange(self+1, len(refs)-1).Draw(t, "later")]
					}
					call = callTo(r)
				case kind < 15: // undeclared method of a declared class
					tc := rapid.SampledFrom(m.Classes).Draw(t, "tclass")
					call = mgen.Call{Pkg: tc.Pkg, Node: tc.Name, Func: "undeclared"}
					if (moreKinds || collide) && shape != 2 && rapid.Bool().Draw(t, "borrowedName") {
						// a name declared elsewhere (e.g. in the same-named class of another package)
						call.Func = anyMethodName()
					}
				case kind < 17: // external
					call = mgen.Call{Pkg: rapid.SampledFrom(wExtPkgs).Draw(t, "xpkg"), Node: "Ext", Func: "run"}
					if moreKinds && rapid.IntRange(0, 2).Draw(t, "noPkg") == 2 {
						call = mgen.Call{Pkg: "", Node: "list", Func: "add"} // receiver the front end could not resolve
					}
				case kind < 18: // empty receiver
					call = mgen.Call{Pkg: "", Node: "", Func: "orphan"}
				default: // constructor form
					tc := rapid.SampledFrom(m.Classes).Draw(t, "tclass")
					call = mgen.Call{Pkg: tc.Pkg, Node: tc.Name, Func: ""}
				}
				if moreKinds {
					call.Type = rapid.SampledFrom(wCallTypes).Draw(t, "callType")
				}
				m.Classes[ci].Methods[mi].Calls = append(m.Classes[ci].Methods[mi].Calls, call)
			}
		}
	}
	return m
}

// wMutate returns a changed copy of m with the same classes and method names: the calls of one
// to three methods are replaced (what a cache keyed by names or sizes would not notice).
func wMutate(t *rapid.T, m mgen.Model) mgen.Model {
	var out mgen.Model
	for _, c := range m.Classes {
		cc := c
		cc.Methods = nil
		for _, mm := range c.Methods {
			mc := mm
			mc.Calls = append([]mgen.Call(nil), mm.Calls...)
			cc.Methods = append(cc.Methods, mc)
		}
		out.Classes = append(out.Classes, cc)
	}
	type ref struct{ ci, mi int }
	var refs []ref
	for ci, c := range out.Classes {
		for mi := range c.Methods {
			refs = append(refs, ref{ci, mi})
		}
	}
	if len(refs) == 0 {
		return out
	}
	n := rapid.IntRange(1, 3).Draw(t, "nMutations")
	for i := 0; i < n; i++ {
		r := rapid.SampledFrom(refs).Draw(t, "mutated")
		mm := &out.Classes[r.ci].Methods[r.mi]
		switch rapid.IntRange(0, 2).Draw(t, "mutation") {
		case 0: // drop the calls
			mm.Calls = nil
		case 1: // call another declared method in addition
			x := rapid.SampledFrom(refs).Draw(t, "newCallee")
			tc := out.Classes[x.ci]
			mm.Calls = append(mm.Calls, mgen.Call{Pkg: tc.Pkg, Node: tc.Name, Func: tc.Methods[x.mi].Name})
		default: // replace the calls
			x := rapid.SampledFrom(refs).Draw(t, "onlyCallee")
			tc := out.Classes[x.ci]
			mm.Calls = []mgen.Call{{Pkg: tc.Pkg, Node: tc.Name, Func: tc.Methods[x.mi].Name}}
		}
	}
	return out
}

// xArgs: number of arguments recorded for call k of function j of class i.
func xArgs(i, j, k int) int { return (i + 2*j + k) % 3 }

// xIsTest: function j of class i carries @Test.
func xIsTest(i, j int) bool { return (3*i+j)%7 == 5 }

// toCoca converts a model and fills in, as a fixed function of the position in the model, the
// fields a parsed project carries and the call relation does not depend on: positions (every call
// site has its own), modifiers, @Override, @Test, return and parameter types, the arguments of a call.

func toCoca(m mgen.Model) []core_domain.CodeDataStruct {
	out := m.ToCoca()
	for i := range out {
		line := 3
		for j := range out[i].Functions {
			f := &out[i].Functions[j]
			f.Position = core_domain.CodePosition{StartLine: line, StartLinePosition: 4, StopLine: line + len(f.FunctionCalls) + 1, StopLinePosition: 5}
			switch (i + j) % 4 {
			case 1:
				f.Modifiers = []string{"public", "static"}
			case 2:
				f.Modifiers = []string{"public"}
				f.Override = true
				f.Annotations = []core_domain.CodeAnnotation{{Name: "Override"}}
			case 3:
				f.Modifiers = []string{"private"}
				if !f.IsConstructor {
					f.ReturnType = "String"
				}
				f.Parameters = []core_domain.CodeProperty{{TypeType: "int", TypeValue: "n"}}
			}
			if xIsTest(i, j) {
				f.Annotations = append(f.Annotations, core_domain.CodeAnnotation{Name: "Test"})
			}
			for k := range f.FunctionCalls {
				f.FunctionCalls[k].Position = core_domain.CodePosition{StartLine: line + 1 + k, StartLinePosition: 8 + k, StopLine: line + 1 + k, StopLinePosition: 30}
				for a := 0; a < xArgs(i, j, k); a++ {
					f.FunctionCalls[k].Parameters = append(f.FunctionCalls[k].Parameters, core_domain.CodeProperty{TypeType: []string{"String", "int"}[a], TypeValue: []string{"s", "n"}[a]})
				}
			}
			line += len(f.FunctionCalls) + 3
		}
	}
	return out
}
