// C04 — reverse call graph is the exact inverse of the project-internal call relation.
package c04

import (
	"encoding/json"
	"fmt"
	"os"
	"path/filepath"
	"sort"
	"strings"
	"testing"

	"github.com/modernizing/coca/pkg/application/call"
	"github.com/modernizing/coca/pkg/application/rcall"
	"github.com/modernizing/coca/pkg/domain/core_domain"
	"pgregory.net/rapid"

	"verif/internal/cli"
	"verif/internal/dot"
	"verif/internal/mgen"
	"verif/internal/pbt"
)

type Case struct {
	Model  mgen.Model `json:"model"`
	Target string     `json:"target"`
}

// SeqCase: several generations in one process on shared data, no reset between them.
type SeqCase struct {
	Models []mgen.Model `json:"models"`
	Steps  []Step       `json:"steps"`
}

type Step struct {
	Kind   string `json:"kind"` // "rcall" | "lookup" (call.Analysis with lookup, what `coca call -l` runs)
	Model  int    `json:"model"`
	Target string `json:"target"`
}

// CliCase: the real binary, `coca rcall -c T` or `coca call -l -c T`.
type CliCase struct {
	Model  mgen.Model `json:"model"`
	Mode   string     `json:"mode"` // "rcall" | "lookup"
	Target string     `json:"target"`
}

// ---- reference -------------------------------------------------------------------------

type ref struct {
	declared map[string]bool
	methods  []string            // full names of all functions in declaration order (an overload repeats its name)
	calls    [][]string          // per function: callees with a receiver, in order
	inv      map[string][]string // declared callee -> callers, one entry per call site
	fwd      map[string][]string // name -> callees of all functions of that name
}

func newRef(m mgen.Model) ref {
	r := ref{declared: map[string]bool{}, inv: map[string][]string{}, fwd: map[string][]string{}}
	for _, c := range m.Classes {
		for _, mm := range c.Methods {
			name := c.Full() + "." + mm.Name
			r.declared[name] = true
			r.methods = append(r.methods, name)
			var list []string
			for _, cc := range mm.Calls {
				if cc.Node != "" {
					list = append(list, cc.Full())
				}
			}
			r.calls = append(r.calls, list)
			r.fwd[name] = append(r.fwd[name], list...)
		}
	}
	for i, caller := range r.methods {
		for _, callee := range r.calls[i] {
			if r.declared[callee] {
				r.inv[callee] = append(r.inv[callee], caller)
			}
		}
	}
	return r
}

// back is the set of methods on a caller chain ending at target (target included).
func (r ref) back(target string) map[string]bool {
	back := map[string]bool{target: true}
	stack := []string{target}
	for len(stack) > 0 {
		n := stack[len(stack)-1]
		stack = stack[:len(stack)-1]
		for _, a := range r.inv[n] {
			if !back[a] {
				back[a] = true
				stack = append(stack, a)
			}
		}
	}
	return back
}

func (r ref) reach(root string) map[string]bool {
	seen := map[string]bool{root: true}
	stack := []string{root}
	for len(stack) > 0 {
		n := stack[len(stack)-1]
		stack = stack[:len(stack)-1]
		for _, c := range r.fwd[n] {
			if !seen[c] {
				seen[c] = true
				stack = append(stack, c)
			}
		}
	}
	return seen
}

func contains(list []string, s string) bool {
	for _, x := range list {
		if x == s {
			return true
		}
	}
	return false
}

func sortedKeys(m map[string][]string) []string {
	var out []string
	for k := range m {
		out = append(out, k)
	}
	sort.Strings(out)
	return out
}

// judgeMap: the reverse map lists for each project method exactly its project callers, once per call site.
func judgeMap(r ref, got map[string][]string) string {
	for _, k := range sortedKeys(got) {
		list := got[k]
		if !r.declared[k] {
			return fmt.Sprintf("reverse map has key %q which is not a method declared in the project", k)
		}
		for _, caller := range list {
			if !r.declared[caller] {
				return fmt.Sprintf("reverse map lists caller %q of %q which is not declared in the project", caller, k)
			}
		}
		a, b := mgen.SortedCopy(list), mgen.SortedCopy(r.inv[k])
		if strings.Join(a, "\x00") != strings.Join(b, "\x00") {
			return fmt.Sprintf("reverse map of %q is %v, the model's call sites give %v", k, a, b)
		}
	}
	for _, k := range sortedKeys(r.inv) {
		if _, ok := got[k]; !ok {
			return fmt.Sprintf("reverse map lacks %q, called by %v", k, r.inv[k])
		}
	}
	return ""
}

// judgeGraph: the reverse call graph of target.
func judgeGraph(r ref, target string, out string) string {
	edges, err := dot.ParseFlat(out, "digraph G {")
	if err != nil {
		return fmt.Sprintf("reverse call graph is not well-formed DOT: %v\n%s", err, out)
	}
	if err := dot.Lenient(out); err != nil {
		return fmt.Sprintf("reverse call graph rejected by the DOT parser: %v\n%s", err, out)
	}
	back := r.back(target)
	has := map[dot.Edge]bool{}
	for _, e := range edges {
		has[e] = true
		if !contains(r.inv[e.To], e.From) {
			return fmt.Sprintf("edge %q -> %q: the model has no call from %q to %q\n%s", e.From, e.To, e.From, e.To, out)
		}
		if !back[e.To] {
			return fmt.Sprintf("edge %q -> %q: %q is not on a caller chain ending at target %q\n%s", e.From, e.To, e.To, target, out)
		}
	}
	for _, caller := range r.inv[target] {
		if caller != target && !has[dot.Edge{From: caller, To: target}] {
			return fmt.Sprintf("direct caller %q of target %q has no edge\n%s", caller, target, out)
		}
	}
	return ""
}

// judgeLookup: the graph of `coca call -l`: forward calls from target plus the reverse call graph.
// Only what this property states is asserted: every edge that is not a forward call is an edge of the
// reverse graph, and every direct caller is present.
func judgeLookup(r ref, target string, out string) string {
	edges, err := dot.ParseFlat(out, "digraph G {", "rankdir = LR;")
	if err != nil {
		return fmt.Sprintf("lookup graph is not well-formed DOT: %v\n%s", err, out)
	}
	if err := dot.Lenient(out); err != nil {
		return fmt.Sprintf("lookup graph rejected by the DOT parser: %v\n%s", err, out)
	}
	back, reach := r.back(target), r.reach(target)
	has := map[dot.Edge]bool{}
	for _, e := range edges {
		has[e] = true
		isFwd := reach[e.From] && contains(r.fwd[e.From], e.To)
		isRev := back[e.To] && contains(r.inv[e.To], e.From)
		if !isFwd && !isRev {
			return fmt.Sprintf("lookup graph: edge %q -> %q is neither a call reachable from %q nor a project call on a caller chain ending at it\n%s", e.From, e.To, target, out)
		}
	}
	for _, caller := range r.inv[target] {
		if caller != target && !has[dot.Edge{From: caller, To: target}] {
			return fmt.Sprintf("lookup graph: direct caller %q of target %q has no edge\n%s", caller, target, out)
		}
	}
	return ""
}

// ---- generators ------------------------------------------------------------------------

func genTarget(t *rapid.T, m mgen.Model) string {
	r := newRef(m)
	k := rapid.IntRange(0, 13).Draw(t, "targetKind")
	if len(r.methods) == 0 || k == 0 {
		return "zz.Absent.nothing"
	}
	switch {
	case k < 9:
		// prefer a target that is called by somebody
		var called []string
		seen := map[string]bool{}
		for i := range r.methods {
			for _, callee := range r.calls[i] {
				if r.declared[callee] && !seen[callee] {
					seen[callee] = true
					called = append(called, callee)
				}
			}
		}
		if len(called) > 0 {
			return rapid.SampledFrom(called).Draw(t, "calledTarget")
		}
	case k == 12:
		// a name that is called but not declared (undeclared method, external method, constructor form)
		var names []string
		seen := map[string]bool{}
		for i := range r.methods {
			for _, callee := range r.calls[i] {
				if !r.declared[callee] && !seen[callee] {
					seen[callee] = true
					names = append(names, callee)
				}
			}
		}
		if len(names) > 0 {
			return rapid.SampledFrom(names).Draw(t, "undeclaredTarget")
		}
	case k == 13:
		// a declared name without its first segment
		full := rapid.SampledFrom(r.methods).Draw(t, "partialOf")
		return full[strings.Index(full, ".")+1:]
	}
	return rapid.SampledFrom(r.methods).Draw(t, "target")
}

func gen(t *rapid.T) Case {
	m := wGen(t, wOpts{Quotes: true, Overloads: true})
	return Case{Model: m, Target: genTarget(t, m)}
}

func genSeq(t *rapid.T) SeqCase {
	a := wGen(t, wOpts{Quotes: true, Overloads: true})
	c := SeqCase{Models: []mgen.Model{a}}
	switch rapid.IntRange(0, 3).Draw(t, "second") {
	case 1, 2:
		c.Models = append(c.Models, wMutate(t, a))
	case 3:
		c.Models = append(c.Models, wGen(t, wOpts{Quotes: true, Overloads: true}))
	}
	n := rapid.IntRange(2, 4).Draw(t, "nSteps")
	for i := 0; i < n; i++ {
		s := Step{Kind: "rcall", Model: rapid.IntRange(0, len(c.Models)-1).Draw(t, "stepModel")}
		if rapid.IntRange(0, 3).Draw(t, "stepKind") == 3 {
			s.Kind = "lookup"
		}
		s.Target = genTarget(t, c.Models[s.Model])
		if i > 0 && rapid.IntRange(0, 2).Draw(t, "sameTarget") == 2 {
			s.Target = c.Steps[i-1].Target
		}
		c.Steps = append(c.Steps, s)
	}
	return c
}

func genCli(t *rapid.T) CliCase {
	m := wGen(t, wOpts{Quotes: true, Overloads: true})
	c := CliCase{Model: m, Mode: "rcall", Target: genTarget(t, m)}
	if rapid.IntRange(0, 2).Draw(t, "mode") == 2 {
		c.Mode = "lookup"
	}
	return c
}

// ---- checks ----------------------------------------------------------------------------

func copyMap(m map[string][]string) map[string][]string {
	out := map[string][]string{}
	for k, v := range m {
		out[k] = append([]string(nil), v...)
	}
	return out
}

func reset() {
	rcall.VerifResetRcall()
	call.VerifResetCall()
}

// runRcall runs one reverse analysis and judges map and graph. The map is judged as handed to the
// callback (that is what rcallmap.json holds) and again after the graph has been generated.
func runRcall(r ref, target string, data []core_domain.CodeDataStruct) string {
	var out string
	var atCallback, got map[string][]string
	calls := 0
	if p := pbt.Call(func() {
		out = rcall.NewRCallGraph().Analysis(target, data, func(m map[string][]string) {
			calls++
			atCallback = copyMap(m)
			got = m
		})
	}); p != "" {
		return "Analysis panicked: " + p
	}
	if calls == 0 {
		return "the write callback was never called: no reverse map was delivered"
	}
	if msg := judgeMap(r, atCallback); msg != "" {
		return msg
	}
	if msg := judgeMap(r, got); msg != "" {
		return "after the graph was generated: " + msg
	}
	if lc, b := rcall.VerifLoopCountRcall(), rcall.VerifBudgetRcall(); lc > b {
		return fmt.Sprintf("expansion counter %d exceeds budget %d", lc, b)
	}
	return judgeGraph(r, target, out)
}

func runLookup(r ref, target string, data []core_domain.CodeDataStruct) string {
	var out string
	if p := pbt.Call(func() { out = call.NewCallGraph().Analysis(target, data, true) }); p != "" {
		return "call.Analysis with lookup panicked: " + p
	}
	return judgeLookup(r, target, out)
}

func classify(m mgen.Model, r ref, target string) pbt.Verdict {
	v := pbt.Verdict{}
	callers := r.inv[target]
	distinct := map[string]int{}
	for _, a := range callers {
		distinct[a]++
	}
	twice, deeper, selfCall := false, false, false
	for a, n := range distinct {
		if n >= 2 {
			twice = true
		}
		if len(r.inv[a]) > 0 && a != target {
			deeper = true
		}
		if a == target {
			selfCall = true
		}
	}
	v.NonTrivial = len(distinct) >= 2 || twice || deeper
	add := func(s string) { v.Classes = append(v.Classes, s) }
	if len(distinct) >= 2 {
		add("callers>=2")
	}
	if twice {
		add("caller_calls_target_twice")
	}
	if deeper {
		add("caller_has_callers")
	}
	if selfCall {
		add("target_calls_itself")
	}
	if len(callers) == 0 {
		add("target_without_callers")
	}
	back := r.back(target)
	cyc := false
	for a := range back {
		for _, b := range r.inv[a] {
			if b == target && a != target {
				cyc = true
			}
		}
	}
	if cyc {
		add("target_on_cycle")
	}
	if len(back) > rcall.VerifBudgetRcall() {
		add("callers_beyond_budget")
	}
	if !r.declared[target] && len(r.reachedBy(target)) > 0 {
		add("target_called_but_undeclared")
	}
	names := fmt.Sprint(r.methods)
	if strings.Contains(names, "\"") {
		add("quoted_names")
	}
	if strings.Contains(names, "$") {
		add("dollar_names")
	}
	seen := map[string]bool{}
	over := false
	for _, n := range r.methods {
		if seen[n] {
			over = true
		}
		seen[n] = true
	}
	if over {
		add("overloads")
		dup := map[string]int{}
		for _, n := range r.methods {
			dup[n]++
		}
		for _, a := range callers {
			if dup[a] > 1 {
				add("overloaded_caller_of_target")
				break
			}
		}
		if dup[target] > 1 {
			add("overloaded_target")
		}
	}
	byName := map[string][]string{}
	for _, c := range m.Classes {
		byName[c.Name] = append(byName[c.Name], c.Pkg)
		if c.Pkg == "" {
			add("default_package")
		}
		if len(c.FieldCalls) > 0 {
			add("class_level_calls")
		}
	}
	for _, k := range sortedKeys(byName) {
		if len(byName[k]) >= 2 {
			add("class_name_in_two_packages")
			break
		}
	}
	var lines []string
	for k, list := range r.inv {
		for _, a := range list {
			lines = append(lines, a+">"+k)
		}
	}
	sort.Strings(lines)
	v.Canon = target + "|" + strings.Join(lines, ";")
	return v
}

// reachedBy lists the functions that call name (declared or not).
func (r ref) reachedBy(name string) []string {
	var out []string
	for i, caller := range r.methods {
		if contains(r.calls[i], name) {
			out = append(out, caller)
		}
	}
	return out
}

func check(c Case) pbt.Verdict {
	reset()
	r := newRef(c.Model)
	if msg := runRcall(r, c.Target, toCoca(c.Model)); msg != "" {
		return pbt.Fail("%s", msg)
	}
	return classify(c.Model, r, c.Target)
}

// checkLookup: the same reverse graph as part of call.Analysis(target, model, true) (`coca call -l`).
func checkLookup(c Case) pbt.Verdict {
	reset()
	r := newRef(c.Model)
	if msg := runLookup(r, c.Target, toCoca(c.Model)); msg != "" {
		return pbt.Fail("%s", msg)
	}
	v := classify(c.Model, r, c.Target)
	v.Canon = "lookup|" + v.Canon
	return v
}

func checkSeq(c SeqCase) pbt.Verdict {
	reset()
	var data [][]core_domain.CodeDataStruct
	var refs []ref
	for _, m := range c.Models {
		data = append(data, toCoca(m))
		refs = append(refs, newRef(m))
	}
	v := pbt.Verdict{}
	var canons []string
	for i, s := range c.Steps {
		if s.Model < 0 || s.Model >= len(c.Models) {
			return pbt.Verdict{Skip: true}
		}
		var msg string
		switch s.Kind {
		case "rcall":
			msg = runRcall(refs[s.Model], s.Target, data[s.Model])
		case "lookup":
			msg = runLookup(refs[s.Model], s.Target, data[s.Model])
		default:
			return pbt.Verdict{Skip: true}
		}
		if msg != "" {
			return pbt.Fail("step %d (%s %q, model %d) after %d earlier generations in this process: %s", i, s.Kind, s.Target, s.Model, i, msg)
		}
		sub := classify(c.Models[s.Model], refs[s.Model], s.Target)
		v.NonTrivial = v.NonTrivial || sub.NonTrivial
		canons = append(canons, s.Kind+":"+sub.Canon)
		v.Classes = append(v.Classes, "step_"+s.Kind)
		if i > 0 && c.Steps[i-1].Model != s.Model {
			v.Classes = append(v.Classes, "model_switched")
		}
		if i > 0 && c.Steps[i-1].Target == s.Target {
			v.Classes = append(v.Classes, "same_target_again")
		}
	}
	v.Canon = strings.Join(canons, "||")
	return v
}

func checkCli(c CliCase) pbt.Verdict {
	if c.Target == "" {
		return pbt.Verdict{Skip: true} // `coca rcall` refuses an empty name
	}
	dir := cli.Scratch("c04-")
	defer os.RemoveAll(dir)
	data := toCoca(c.Model)
	if data == nil {
		data = []core_domain.CodeDataStruct{}
	}
	deps, _ := json.Marshal(data)
	cli.WriteTree(dir, map[string]string{"coca_reporter/deps.json": string(deps)})
	args := []string{"rcall", "-c", c.Target}
	if c.Mode == "lookup" {
		args = []string{"call", "-l", "-c", c.Target}
	}
	res, err := cli.Run("coca", dir, nil, args...)
	if err != nil {
		panic("cannot run coca: " + err.Error())
	}
	if res.TimedOut {
		return pbt.Verdict{Skip: true}
	}
	shown := "coca " + strings.Join(args, " ")
	if res.ExitCode != 0 {
		return pbt.Fail("`%s` exited with %d\n%s", shown, res.ExitCode, strings.ReplaceAll(res.Stderr, dir, "<scratch>"))
	}
	r := newRef(c.Model)
	v := classify(c.Model, r, c.Target)
	v.Canon = "cli|" + c.Mode + "|" + v.Canon
	if c.Mode == "lookup" {
		raw, err := os.ReadFile(filepath.Join(dir, "coca_reporter", "call.dot"))
		if err != nil {
			return pbt.Fail("`%s` wrote no coca_reporter/call.dot", shown)
		}
		if msg := judgeLookup(r, c.Target, string(raw)); msg != "" {
			return pbt.Fail("`%s`, coca_reporter/call.dot: %s", shown, msg)
		}
		v.Classes = append(v.Classes, "cli_call_l")
		return v
	}
	raw, err := os.ReadFile(filepath.Join(dir, "coca_reporter", "rcallmap.json"))
	if err != nil {
		return pbt.Fail("`%s` wrote no coca_reporter/rcallmap.json", shown)
	}
	var got map[string][]string
	if err := json.Unmarshal(raw, &got); err != nil {
		return pbt.Fail("`%s`: coca_reporter/rcallmap.json is not a JSON map of lists: %v\n%s", shown, err, string(raw))
	}
	if msg := judgeMap(r, got); msg != "" {
		return pbt.Fail("`%s`, coca_reporter/rcallmap.json: %s", shown, msg)
	}
	graph, err := os.ReadFile(filepath.Join(dir, "coca_reporter", "rcall.dot"))
	if err != nil {
		return pbt.Fail("`%s` wrote no coca_reporter/rcall.dot", shown)
	}
	if msg := judgeGraph(r, c.Target, string(graph)); msg != "" {
		return pbt.Fail("`%s`, coca_reporter/rcall.dot: %s", shown, msg)
	}
	v.Classes = append(v.Classes, "cli_rcall")
	return v
}

func init() {
	pbt.SetProperty("C04")
	pbt.Describe("rapid-generated code models as in C03's widened generator (cycles, mutual recursion, repeated calls, external and undeclared callees, receivers without package, constructors, class simple names shared between packages, the default package, class-level calls, names with a double quote or '$', call trees of 5-9 chained methods) plus overloads (two functions of one full name in a class), and a target (called method / any declared method / absent / called but undeclared / a declared name without its first segment). Sub-checks: rcall (RCallGraph.Analysis: map as handed to the callback and after graph generation, graph), lookup (the reverse part of call.Analysis(target, model, true)), seq (2-4 generations in one process without reset, on one or two models that share class and method names), cli (`coca rcall -c T`: rcallmap.json and rcall.dot; `coca call -l -c T`: call.dot). Oracle: the inverse of the project-internal call relation computed from the abstract model, one entry per call site; backward reachability from the target. Non-trivial = the target has >= 2 distinct callers, or a caller calling it twice, or a caller that itself has callers; distinct = hash of (target, sorted inverse relation).",
		"names contain no backslash and no dot inside a simple name",
		"a target that calls itself is not required to show a self edge (the statement exempts it)",
		"in the lookup graph an edge that is a forward call reachable from the target is C03's subject; every other edge must be an edge of the reverse graph",
		"the budget of the reverse traversal is read through the verif hook")
	pbt.Register("rcall", 8000, 80000, gen, check)
	pbt.Register("lookup", 3000, 30000, gen, checkLookup)
	pbt.Register("seq", 3000, 30000, genSeq, checkSeq)
	pbt.Register("cli", 100, 400, genCli, checkCli)
}

func TestProp(t *testing.T)   { pbt.Main(t) }
func TestReplay(t *testing.T) { pbt.Replay(t) }
