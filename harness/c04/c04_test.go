// C04 — reverse call graph is the exact inverse of the project-internal call relation.
package c04

import (
	"fmt"
	"sort"
	"strings"
	"testing"

	"github.com/modernizing/coca/pkg/application/rcall"
	"pgregory.net/rapid"

	"verif/internal/dot"
	"verif/internal/mgen"
	"verif/internal/pbt"
)

type Case struct {
	Model  mgen.Model `json:"model"`
	Target string     `json:"target"`
}

func gen(t *rapid.T) Case {
	m := mgen.Gen(t, mgen.Options{Quotes: true})
	methods := m.Methods()
	target := "zz.Absent.nothing"
	k := rapid.IntRange(0, 11).Draw(t, "targetKind")
	if len(methods) > 0 && k > 0 {
		target = rapid.SampledFrom(methods).Draw(t, "target")
		if k < 9 {
			// prefer a target that is called by somebody
			declared := map[string]bool{}
			for _, x := range methods {
				declared[x] = true
			}
			var called []string
			seen := map[string]bool{}
			for _, caller := range methods {
				for _, callee := range m.Calls()[caller] {
					if declared[callee] && !seen[callee] {
						seen[callee] = true
						called = append(called, callee)
					}
				}
			}
			if len(called) > 0 {
				target = rapid.SampledFrom(called).Draw(t, "calledTarget")
			}
		}
	}
	return Case{Model: m, Target: target}
}

func check(c Case) pbt.Verdict {
	rcall.VerifResetRcall()
	model := c.Model.ToCoca()
	var out string
	var got map[string][]string
	if p := pbt.Call(func() {
		out = rcall.NewRCallGraph().Analysis(c.Target, model, func(m map[string][]string) { got = m })
	}); p != "" {
		return pbt.Fail("Analysis panicked: %s", p)
	}
	// (a) the reverse map
	declared := map[string]bool{}
	for _, m := range c.Model.Methods() {
		declared[m] = true
	}
	want := map[string][]string{}
	calls := c.Model.Calls()
	for _, caller := range c.Model.Methods() {
		for _, callee := range calls[caller] {
			if declared[callee] {
				want[callee] = append(want[callee], caller)
			}
		}
	}
	for k, list := range got {
		if !declared[k] {
			return pbt.Fail("reverse map has key %q which is not a method declared in the project", k)
		}
		for _, caller := range list {
			if !declared[caller] {
				return pbt.Fail("reverse map lists caller %q of %q which is not declared in the project", caller, k)
			}
		}
		a, b := mgen.SortedCopy(list), mgen.SortedCopy(want[k])
		if strings.Join(a, "\x00") != strings.Join(b, "\x00") {
			return pbt.Fail("reverse map of %q is %v, the model's call sites give %v", k, a, b)
		}
	}
	for k := range want {
		if _, ok := got[k]; !ok {
			return pbt.Fail("reverse map lacks %q, called by %v", k, want[k])
		}
	}
	// (b) the graph
	if lc, b := rcall.VerifLoopCountRcall(), rcall.VerifBudgetRcall(); lc > b {
		return pbt.Fail("expansion counter %d exceeds budget %d", lc, b)
	}
	edges, err := dot.ParseFlat(out, "digraph G {")
	if err != nil {
		return pbt.Fail("reverse call graph is not well-formed DOT: %v\n%s", err, out)
	}
	if err := dot.Lenient(out); err != nil {
		return pbt.Fail("reverse call graph rejected by the DOT parser: %v\n%s", err, out)
	}
	back := map[string]bool{c.Target: true}
	stack := []string{c.Target}
	for len(stack) > 0 {
		n := stack[len(stack)-1]
		stack = stack[:len(stack)-1]
		for _, a := range want[n] {
			if !back[a] {
				back[a] = true
				stack = append(stack, a)
			}
		}
	}
	has := map[dot.Edge]bool{}
	for _, e := range edges {
		has[e] = true
		found := false
		for _, a := range want[e.To] {
			if a == e.From {
				found = true
			}
		}
		if !found {
			return pbt.Fail("edge %q -> %q: the model has no call from %q to %q\n%s", e.From, e.To, e.From, e.To, out)
		}
		if !back[e.To] {
			return pbt.Fail("edge %q -> %q: %q is not on a caller chain ending at target %q\n%s", e.From, e.To, e.To, c.Target, out)
		}
	}
	for _, caller := range want[c.Target] {
		if caller != c.Target && !has[dot.Edge{From: caller, To: c.Target}] {
			return pbt.Fail("direct caller %q of target %q has no edge\n%s", caller, c.Target, out)
		}
	}
	// classification
	v := pbt.Verdict{}
	callers := want[c.Target]
	distinct := map[string]int{}
	for _, a := range callers {
		distinct[a]++
	}
	twice, deeper, selfCall := false, false, false
	for a, n := range distinct {
		if n >= 2 {
			twice = true
		}
		if len(want[a]) > 0 && a != c.Target {
			deeper = true
		}
		if a == c.Target {
			selfCall = true
		}
	}
	v.NonTrivial = len(distinct) >= 2 || twice || deeper
	if len(distinct) >= 2 {
		v.Classes = append(v.Classes, "callers>=2")
	}
	if twice {
		v.Classes = append(v.Classes, "caller_calls_target_twice")
	}
	if deeper {
		v.Classes = append(v.Classes, "caller_has_callers")
	}
	if selfCall {
		v.Classes = append(v.Classes, "target_calls_itself")
	}
	if len(callers) == 0 {
		v.Classes = append(v.Classes, "target_without_callers")
	}
	cyc := false
	for a := range back {
		for _, b := range want[a] {
			if b == c.Target && a != c.Target {
				cyc = true
			}
		}
	}
	if cyc {
		v.Classes = append(v.Classes, "target_on_cycle")
	}
	if strings.Contains(fmt.Sprint(c.Model.Methods()), "\"") {
		v.Classes = append(v.Classes, "quoted_names")
	}
	var lines []string
	for k, list := range want {
		for _, a := range list {
			lines = append(lines, a+">"+k)
		}
	}
	sort.Strings(lines)
	v.Canon = c.Target + "|" + strings.Join(lines, ";")
	return v
}

func init() {
	pbt.SetProperty("C04")
	pbt.Describe("rapid-generated code models as in C03 (cycles, mutual recursion, repeated calls, external and undeclared callees, some names with a double quote) and a target (called method / any declared method / absent). Oracle: the inverse of the project-internal call relation computed from the abstract model, one entry per call site; backward reachability from the target. Non-trivial = the target has >= 2 distinct callers, or a caller calling it twice, or a caller that itself has callers; distinct = hash of (target, sorted inverse relation).",
		"names contain no backslash and no dot inside a simple name",
		"a target that calls itself is not required to show a self edge (the statement exempts it)")
	pbt.Register("rcall", 8000, 80000, gen, check)
}

func TestProp(t *testing.T)   { pbt.Main(t) }
func TestReplay(t *testing.T) { pbt.Replay(t) }
