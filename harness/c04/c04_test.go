// C04 — reverse call graph is the exact inverse of the project-internal call relation.
package c04

import (
	"time"
	"encoding/json"
	"fmt"
	"os"
	"path/filepath"
	"sort"
	"strings"
	"testing"

	"github.com/modernizing/coca/pkg/application/call"
	"github.com/modernizing/coca/pkg/application/rcall"
	"github.com/modernizing/coca/pkg/domain/core_domain"
	"pgregory.net/rapid"

	"verif/internal/cli"
	"verif/internal/dot"
	"verif/internal/mgen"
	"verif/internal/pbt"
)

type Case struct {
	Model  mgen.Model `json:"model"`
	Target string     `json:"target"`
	// Bare: the model carries nothing but names and calls (no positions, modifiers, annotations,
	// parameters, arguments), as a front end that records none of them would write it
	Bare bool `json:"bare,omitempty"`
}

// SeqCase: several generations in one process on shared data, no reset between them.
type SeqCase struct {
	Models []mgen.Model `json:"models"`
	Steps  []Step       `json:"steps"`
	Bare   bool         `json:"bare,omitempty"`
}

type Step struct {
	Kind   string `json:"kind"` // "rcall" | "lookup" (call.Analysis with lookup, what `coca call -l` runs) | "chain" (BuildRCallChain on the reverse map built at the first "chain" step of that model)
	Model  int    `json:"model"`
	Target string `json:"target"`
}

// CliCase: the real binary, `coca rcall -c T` or `coca call -l -c T`.
type CliCase struct {
	Model  mgen.Model `json:"model"`
	Mode   string     `json:"mode"` // "rcall" | "lookup"
	Target string     `json:"target"`
	// spellings of the command line and of deps.json; 0 = `-c T` (and `-l`), compact JSON at the default place
	Spell  int  `json:"spell,omitempty"`  // 1: --className T, 2: --className=T, 3: -cT
	Deps   int  `json:"deps,omitempty"`   // 1: -d other/deps.json, 2: --dependence=deps2.json, 3: --dependence deps2.json
	Remove int  `json:"remove,omitempty"` // 1: -r <text that occurs nowhere>, 2: --remove=<text that occurs nowhere>
	Lookup int  `json:"lookup,omitempty"` // 1: --lookup, 2: --lookup=true
	Order  int  `json:"order,omitempty"`  // 1: options in reverse order
	Bare   bool `json:"bare,omitempty"`
	Layout int  `json:"layout,omitempty"` // 1: indented with tabs as coca writes it, 2: the same with CRLF, 3: blanks and a final newline around the compact text
	// Past (eighth seed batch): the working directory has a past: the same command was run there before on this other
	// model (reports of it lie in coca_reporter), and the dependence file of the judged run is an hour old when the
	// judged run starts (a file produced earlier, copied with its times)
	Past *mgen.Model `json:"past,omitempty"`
}

// ---- reference -------------------------------------------------------------------------

type ref struct {
	declared map[string]bool
	methods  []string            // full names of all functions in declaration order (an overload repeats its name)
	calls    [][]string          // per function: callees with a receiver, in order
	inv      map[string][]string // declared callee -> callers, one entry per call site
	fwd      map[string][]string // name -> callees of all functions of that name
}

func newRef(m mgen.Model) ref {
	r := ref{declared: map[string]bool{}, inv: map[string][]string{}, fwd: map[string][]string{}}
	for _, c := range m.Classes {
		for _, mm := range c.Methods {
			name := c.Full() + "." + mm.Name
			r.declared[name] = true
			r.methods = append(r.methods, name)
			var list []string
			for _, cc := range mm.Calls {
				if cc.Node != "" {
					list = append(list, cc.Full())
				}
			}
			r.calls = append(r.calls, list)
			r.fwd[name] = append(r.fwd[name], list...)
		}
	}
	for i, caller := range r.methods {
		for _, callee := range r.calls[i] {
			if r.declared[callee] {
				r.inv[callee] = append(r.inv[callee], caller)
			}
		}
	}
	return r
}

// back is the set of methods on a caller chain ending at target (target included).
func (r ref) back(target string) map[string]bool {
	back := map[string]bool{target: true}
	stack := []string{target}
	for len(stack) > 0 {
		n := stack[len(stack)-1]
		stack = stack[:len(stack)-1]
		for _, a := range r.inv[n] {
			if !back[a] {
				back[a] = true
				stack = append(stack, a)
			}
		}
	}
	return back
}

func (r ref) reach(root string) map[string]bool {
	seen := map[string]bool{root: true}
	stack := []string{root}
	for len(stack) > 0 {
		n := stack[len(stack)-1]
		stack = stack[:len(stack)-1]
		for _, c := range r.fwd[n] {
			if !seen[c] {
				seen[c] = true
				stack = append(stack, c)
			}
		}
	}
	return seen
}

func contains(list []string, s string) bool {
	for _, x := range list {
		if x == s {
			return true
		}
	}
	return false
}

func sortedKeys(m map[string][]string) []string {
	var out []string
	for k := range m {
		out = append(out, k)
	}
	sort.Strings(out)
	return out
}

// judgeMap: the reverse map lists for each project method exactly its project callers, once per call site.
func judgeMap(r ref, got map[string][]string) string {
	for _, k := range sortedKeys(got) {
		list := got[k]
		if !r.declared[k] {
			return fmt.Sprintf("reverse map has key %q which is not a method declared in the project", k)
		}
		for _, caller := range list {
			if !r.declared[caller] {
				return fmt.Sprintf("reverse map lists caller %q of %q which is not declared in the project", caller, k)
			}
		}
		a, b := mgen.SortedCopy(list), mgen.SortedCopy(r.inv[k])
		if strings.Join(a, "\x00") != strings.Join(b, "\x00") {
			return fmt.Sprintf("reverse map of %q is %v, the model's call sites give %v", k, a, b)
		}
	}
	for _, k := range sortedKeys(r.inv) {
		if _, ok := got[k]; !ok {
			return fmt.Sprintf("reverse map lacks %q, called by %v", k, r.inv[k])
		}
	}
	return ""
}

// judgeGraph: the reverse call graph of target.
func judgeGraph(r ref, target string, out string) string {
	edges, err := dot.ParseFlat(out, "digraph G {")
	if err != nil {
		return fmt.Sprintf("reverse call graph is not well-formed DOT: %v\n%s", err, out)
	}
	if err := dot.Lenient(out); err != nil {
		return fmt.Sprintf("reverse call graph rejected by the DOT parser: %v\n%s", err, out)
	}
	back := r.back(target)
	has := map[dot.Edge]bool{}
	for _, e := range edges {
		has[e] = true
		if !contains(r.inv[e.To], e.From) {
			return fmt.Sprintf("edge %q -> %q: the model has no call from %q to %q\n%s", e.From, e.To, e.From, e.To, out)
		}
		if !back[e.To] {
			return fmt.Sprintf("edge %q -> %q: %q is not on a caller chain ending at target %q\n%s", e.From, e.To, e.To, target, out)
		}
	}
	for _, caller := range r.inv[target] {
		if caller != target && !has[dot.Edge{From: caller, To: target}] {
			return fmt.Sprintf("direct caller %q of target %q has no edge\n%s", caller, target, out)
		}
	}
	return ""
}

// judgeLookup: the graph of `coca call -l`: forward calls from target plus the reverse call graph.
// Only what this property states is asserted: every edge that is not a forward call is an edge of the
// reverse graph, and every direct caller is present.
func judgeLookup(r ref, target string, out string) string {
	edges, err := dot.ParseFlat(out, "digraph G {", "rankdir = LR;")
	if err != nil {
		return fmt.Sprintf("lookup graph is not well-formed DOT: %v\n%s", err, out)
	}
	if err := dot.Lenient(out); err != nil {
		return fmt.Sprintf("lookup graph rejected by the DOT parser: %v\n%s", err, out)
	}
	back, reach := r.back(target), r.reach(target)
	has := map[dot.Edge]bool{}
	for _, e := range edges {
		has[e] = true
		isFwd := reach[e.From] && contains(r.fwd[e.From], e.To)
		isRev := back[e.To] && contains(r.inv[e.To], e.From)
		if !isFwd && !isRev {
			return fmt.Sprintf("lookup graph: edge %q -> %q is neither a call reachable from %q nor a project call on a caller chain ending at it\n%s", e.From, e.To, target, out)
		}
	}
	for _, caller := range r.inv[target] {
		if caller != target && !has[dot.Edge{From: caller, To: target}] {
			return fmt.Sprintf("lookup graph: direct caller %q of target %q has no edge\n%s", caller, target, out)
		}
	}
	return ""
}

// ---- generators ------------------------------------------------------------------------

func genTarget(t *rapid.T, m mgen.Model) string {
	r := newRef(m)
	k := rapid.IntRange(0, 13).Draw(t, "targetKind")
	if len(r.methods) == 0 || k == 0 {
		return "zz.Absent.nothing"
	}
	switch {
	case k < 9:
		// prefer a target that is called by somebody
		var called []string
		seen := map[string]bool{}
		for i := range r.methods {
			for _, callee := range r.calls[i] {
				if r.declared[callee] && !seen[callee] {
					seen[callee] = true
					called = append(called, callee)
				}
			}
		}
		if len(called) > 0 {
			return rapid.SampledFrom(called).Draw(t, "calledTarget")
		}
	case k == 12:
		// a name that is called but not declared (undeclared method, external method, constructor form)
		var names []string
		seen := map[string]bool{}
		for i := range r.methods {
			for _, callee := range r.calls[i] {
				if !r.declared[callee] && !seen[callee] {
					seen[callee] = true
					names = append(names, callee)
				}
			}
		}
		if len(names) > 0 {
			return rapid.SampledFrom(names).Draw(t, "undeclaredTarget")
		}
	case k == 13:
		// a declared name without its first segment
		full := rapid.SampledFrom(r.methods).Draw(t, "partialOf")
		return full[strings.Index(full, ".")+1:]
	}
	return rapid.SampledFrom(r.methods).Draw(t, "target")
}

func gen(t *rapid.T) Case {
	m, hint := xGen(t)
	return Case{Model: m, Target: xTarget(t, m, hint), Bare: genBare(t)}
}

func genBare(t *rapid.T) bool { return rapid.IntRange(0, 5).Draw(t, "bare") == 5 }

func convert(m mgen.Model, bare bool) []core_domain.CodeDataStruct {
	if bare {
		return m.ToCoca()
	}
	return toCoca(m)
}

func genSeq(t *rapid.T) SeqCase {
	a, hint := xGen(t)
	c := SeqCase{Models: []mgen.Model{a}}
	hints := []string{hint}
	switch rapid.IntRange(0, 5).Draw(t, "second") {
	case 1, 2:
		c.Models = append(c.Models, wMutate(t, a))
		hints = append(hints, hint)
	case 3:
		b, h := xGen(t)
		c.Models = append(c.Models, b)
		hints = append(hints, h)
	case 4:
		c.Models = append(c.Models, xPermuted(t, a))
		hints = append(hints, hint)
	case 5:
		c.Models = append(c.Models, xSubset(t, a))
		hints = append(hints, hint)
	}
	n := rapid.IntRange(2, 4).Draw(t, "nSteps")
	if rapid.IntRange(0, 4).Draw(t, "moreSteps") == 4 {
		n += rapid.IntRange(1, 5).Draw(t, "extraSteps")
	}
	for i := 0; i < n; i++ {
		s := Step{Kind: "rcall", Model: rapid.IntRange(0, len(c.Models)-1).Draw(t, "stepModel")}
		switch rapid.IntRange(0, 5).Draw(t, "stepKind") {
		case 3:
			s.Kind = "lookup"
		case 4, 5:
			s.Kind = "chain"
		}
		s.Target = xTarget(t, c.Models[s.Model], hints[s.Model])
		if i > 0 && rapid.IntRange(0, 2).Draw(t, "sameTarget") == 2 {
			s.Target = c.Steps[i-1].Target
		}
		c.Steps = append(c.Steps, s)
	}
	c.Bare = genBare(t)
	return c
}

func genCli(t *rapid.T) CliCase {
	m, hint := xGen(t)
	c := CliCase{Model: m, Mode: "rcall", Target: xTarget(t, m, hint)}
	if c.Target == "" {
		c.Target = genTarget(t, m) // `coca rcall` refuses an empty name
	}
	if rapid.IntRange(0, 2).Draw(t, "mode") == 2 {
		c.Mode = "lookup"
	}
	if rapid.IntRange(0, 2).Draw(t, "spelled") == 2 {
		c.Spell = rapid.IntRange(0, 3).Draw(t, "spell")
		c.Deps = rapid.IntRange(0, 3).Draw(t, "deps")
		c.Remove = rapid.IntRange(0, 2).Draw(t, "remove")
		c.Lookup = rapid.IntRange(0, 2).Draw(t, "lookupSpelling")
		c.Order = rapid.IntRange(0, 1).Draw(t, "order")
	}
	if c.Spell == 3 && strings.HasPrefix(c.Target, "=") {
		c.Spell = 0 // `-c=T` means T
	}
	if rapid.IntRange(0, 2).Draw(t, "laidOut") == 2 {
		c.Layout = rapid.IntRange(1, 3).Draw(t, "layout")
	}
	c.Bare = genBare(t)
	if rapid.IntRange(0, 3).Draw(t, "workingDirectoryWithAPast") == 3 {
		past, _ := xGen(t)
		if rapid.Bool().Draw(t, "pastIsTheModelWithOtherCallers") {
			// the same classes and methods; every method has the calls of the method declared after it: what is called
			// stays called, by someone else
			var lists [][]mgen.Call
			for _, cl := range m.Classes {
				for _, mm := range cl.Methods {
					lists = append(lists, append([]mgen.Call(nil), mm.Calls...))
				}
			}
			past = mgen.Model{}
			k := 0
			for _, cl := range m.Classes {
				nc := cl
				nc.Methods = append([]mgen.Method(nil), cl.Methods...)
				for i := range nc.Methods {
					k++
					if len(lists) > 0 {
						nc.Methods[i].Calls = lists[k%len(lists)]
					}
				}
				past.Classes = append(past.Classes, nc)
			}
		}
		c.Past = &past
	}
	return c
}

// ---- checks ----------------------------------------------------------------------------

func copyMap(m map[string][]string) map[string][]string {
	out := map[string][]string{}
	for k, v := range m {
		out[k] = append([]string(nil), v...)
	}
	return out
}

func reset() {
	rcall.VerifResetRcall()
	call.VerifResetCall()
}

// runRcall runs one reverse analysis and judges map and graph. The map is judged as handed to the
// callback (that is what rcallmap.json holds) and again after the graph has been generated.
func runRcall(r ref, target string, data []core_domain.CodeDataStruct) string {
	var out string
	var atCallback, got map[string][]string
	calls := 0
	if p := pbt.Call(func() {
		out = rcall.NewRCallGraph().Analysis(target, data, func(m map[string][]string) {
			calls++
			atCallback = copyMap(m)
			got = m
		})
	}); p != "" {
		return "Analysis panicked: " + p
	}
	if calls == 0 {
		return "the write callback was never called: no reverse map was delivered"
	}
	if msg := judgeMap(r, atCallback); msg != "" {
		return msg
	}
	if msg := judgeMap(r, got); msg != "" {
		return "after the graph was generated: " + msg
	}
	if lc, b := rcall.VerifLoopCountRcall(), rcall.VerifBudgetRcall(); lc > b {
		return fmt.Sprintf("expansion counter %d exceeds budget %d", lc, b)
	}
	return judgeGraph(r, target, out)
}

func runLookup(r ref, target string, data []core_domain.CodeDataStruct) string {
	var out string
	if p := pbt.Call(func() { out = call.NewCallGraph().Analysis(target, data, true) }); p != "" {
		return "call.Analysis with lookup panicked: " + p
	}
	return judgeLookup(r, target, out)
}

// runChain queries one reverse map several times: the map is built at the first "chain" step of
// a model and handed to BuildRCallChain by every later one (what Analysis does once).
func runChain(r ref, target string, data []core_domain.CodeDataStruct, maps map[int]map[string][]string, key int) string {
	var out string
	if p := pbt.Call(func() {
		if maps[key] == nil {
			maps[key] = rcall.BuildMethodCallMap(data, rcall.BuildProjectMethodMap(data))
		}
		out = rcall.ToGraphviz(rcall.NewRCallGraph().BuildRCallChain(target, maps[key]))
	}); p != "" {
		return "BuildRCallChain panicked: " + p
	}
	if msg := judgeMap(r, maps[key]); msg != "" {
		return "reverse map after it was queried: " + msg
	}
	if lc, b := rcall.VerifLoopCountRcall(), rcall.VerifBudgetRcall(); lc > b {
		return fmt.Sprintf("expansion counter %d exceeds budget %d", lc, b)
	}
	return judgeGraph(r, target, out)
}

func classify(m mgen.Model, r ref, target string, bare bool) pbt.Verdict {
	v := pbt.Verdict{}
	if bare {
		v.Classes = append(v.Classes, "bare_model_without_positions")
	}
	callers := r.inv[target]
	distinct := map[string]int{}
	for _, a := range callers {
		distinct[a]++
	}
	twice, deeper, selfCall := false, false, false
	for a, n := range distinct {
		if n >= 2 {
			twice = true
		}
		if len(r.inv[a]) > 0 && a != target {
			deeper = true
		}
		if a == target {
			selfCall = true
		}
	}
	v.NonTrivial = len(distinct) >= 2 || twice || deeper
	add := func(s string) { v.Classes = append(v.Classes, s) }
	if len(distinct) >= 2 {
		add("callers>=2")
	}
	if twice {
		add("caller_calls_target_twice")
	}
	if deeper {
		add("caller_has_callers")
	}
	if selfCall {
		add("target_calls_itself")
	}
	if len(callers) == 0 {
		add("target_without_callers")
	}
	back := r.back(target)
	cyc := false
	for a := range back {
		for _, b := range r.inv[a] {
			if b == target && a != target {
				cyc = true
			}
		}
	}
	if cyc {
		add("target_on_cycle")
	}
	if len(back) > rcall.VerifBudgetRcall() {
		add("callers_beyond_budget")
	}
	if !r.declared[target] && len(r.reachedBy(target)) > 0 {
		add("target_called_but_undeclared")
	}
	names := fmt.Sprint(r.methods)
	if strings.Contains(names, "\"") {
		add("quoted_names")
	}
	if strings.Contains(names, "$") {
		add("dollar_names")
	}
	seen := map[string]bool{}
	over := false
	for _, n := range r.methods {
		if seen[n] {
			over = true
		}
		seen[n] = true
	}
	if over {
		add("overloads")
		dup := map[string]int{}
		for _, n := range r.methods {
			dup[n]++
		}
		for _, a := range callers {
			if dup[a] > 1 {
				add("overloaded_caller_of_target")
				break
			}
		}
		if dup[target] > 1 {
			add("overloaded_target")
		}
	}
	byName := map[string][]string{}
	for _, c := range m.Classes {
		byName[c.Name] = append(byName[c.Name], c.Pkg)
		if c.Pkg == "" {
			add("default_package")
		}
		if len(c.FieldCalls) > 0 {
			add("class_level_calls")
		}
	}
	for _, k := range sortedKeys(byName) {
		if len(byName[k]) >= 2 {
			add("class_name_in_two_packages")
			break
		}
	}
	for _, l := range xLabels(m, r, target, bare) {
		add(l)
	}
	var lines []string
	for k, list := range r.inv {
		for _, a := range list {
			lines = append(lines, a+">"+k)
		}
	}
	sort.Strings(lines)
	v.Canon = target + "|" + strings.Join(lines, ";")
	return v
}

// xLabels: class labels of the shapes of the second widening.
func xLabels(m mgen.Model, r ref, target string, bare bool) []string {
	var out []string
	add := func(s string) { out = append(out, s) }
	switch n := len(r.inv[target]); {
	case n > 64:
		add("direct_callers>64")
	case n > 32:
		add("direct_callers>32")
	case n > 16:
		add("direct_callers>16")
	case n > 8:
		add("direct_callers>8")
	}
	if len(r.methods) > 64 {
		add("methods>64")
	}
	if len(m.Classes) == 0 {
		add("empty_model")
	}
	// number of methods on a caller chain to the target that have callers (what the traversal may expand)
	if len(r.inv[target]) > 0 {
		exp, cyclic := 0, false
		back := r.back(target)
		for a := range back {
			if len(r.inv[a]) > 0 {
				exp++
			}
			if contains(r.inv[target], a) && a != target {
				for _, b := range r.inv[a] {
					if back[b] && b == target {
						cyclic = true
					}
				}
			}
		}
		if !cyclic && exp >= 4 {
			b := rcall.VerifBudgetRcall()
			switch {
			case exp == b-1:
				add("expandable=budget-1")
			case exp == b:
				add("expandable=budget")
			case exp == b+1:
				add("expandable=budget+1")
			case exp > b+1:
				add("expandable>budget+1")
			}
		}
	}
	simple, pkgSeg := map[string]bool{}, map[string]bool{}
	full := map[string]int{}
	inherits := false
	for _, c := range m.Classes {
		full[c.Full()]++
		simple[c.Name] = true
		for _, p := range strings.Split(c.Pkg, ".") {
			simple[p] = true
			if p != "_" && !strings.Contains(p, "_") {
				pkgSeg[p] = true // the stock packages a, b, c are one letter long
			}
		}
		for _, f := range c.Methods {
			simple[f.Name] = true
		}
		if c.Extend != "" || len(c.Implements) > 0 {
			inherits = true
		}
	}
	for _, k := range sortedCount(full) {
		if full[k] > 1 {
			add("class_declared_twice")
			break
		}
	}
	if inherits {
		add("extends_or_implements")
		if xInheritedCall(m, r) {
			add("call_of_inherited_method_on_subclass")
		}
	}
	lower := map[string]string{}
	flags := map[string]bool{}
	for _, s := range sortedSet(simple) {
		l := strings.ToLower(s)
		if o, ok := lower[l]; ok && o != s {
			flags["letter_case_twin_names"] = true
		}
		lower[l] = s
		for _, c := range s {
			if c > 127 {
				flags["non_ascii_names"] = true
			}
		}
		if len(s) >= 5000 {
			flags["names>=5000_chars"] = true
		} else if len(s) >= 300 {
			flags["names>=300_chars"] = true
		}
		if !pkgSeg[s] && (len([]rune(s)) == 1 || strings.Contains(s, "_")) {
			flags["one_letter_or_underscore_names"] = true
		}
		if strings.ContainsAny(s, " ->;{}#/[]<&,:=*'") {
			flags["syntaxlike_names"] = true
		}
	}
	for _, k := range sortedFlags(flags) {
		add(k)
	}
	if !r.declared[target] {
		switch {
		case target == "":
			add("target_empty")
		case full[target] > 0:
			add("target_is_class_name")
		default:
			fold, near := false, false
			for _, d := range r.methods {
				if strings.EqualFold(d, target) {
					fold = true
				}
				if strings.HasPrefix(d, target) || strings.HasPrefix(target, d) {
					near = true
				}
			}
			if fold {
				add("target_letter_case_variant")
			}
			if near {
				add("target_prefix_or_extension_of_declared")
			}
		}
	}
	args, tests := false, false
	for i, c := range m.Classes {
		for j, f := range c.Methods {
			if xIsTest(i, j) {
				tests = true
			}
			for k := range f.Calls {
				if xArgs(i, j, k) > 0 {
					args = true
				}
			}
		}
	}
	if args && !bare {
		add("calls_with_arguments")
	}
	if tests && !bare {
		add("test_annotated_methods")
	}
	return out
}

// xInheritedCall: some method calls X.f where class X does not declare f and names, as Extend or
// Implements, a project class that does.
func xInheritedCall(m mgen.Model, r ref) bool {
	parents := map[string][]string{}
	for _, c := range m.Classes {
		if c.Extend != "" {
			parents[c.Full()] = append(parents[c.Full()], c.Extend)
		}
		parents[c.Full()] = append(parents[c.Full()], c.Implements...)
	}
	for _, c := range m.Classes {
		for _, f := range c.Methods {
			for _, cc := range f.Calls {
				if cc.Func == "" || cc.Node == "" || r.declared[cc.Full()] {
					continue
				}
				for _, p := range parents[cc.Pkg+"."+cc.Node] {
					for _, pc := range m.Classes {
						if (pc.Name == p || pc.Full() == p) && r.declared[pc.Full()+"."+cc.Func] {
							return true
						}
					}
				}
			}
		}
	}
	return false
}

func sortedCount(m map[string]int) []string {
	var out []string
	for k := range m {
		out = append(out, k)
	}
	sort.Strings(out)
	return out
}

func sortedSet(m map[string]bool) []string {
	var out []string
	for k := range m {
		out = append(out, k)
	}
	sort.Strings(out)
	return out
}

func sortedFlags(m map[string]bool) []string { return sortedSet(m) }

// reachedBy lists the functions that call name (declared or not).
func (r ref) reachedBy(name string) []string {
	var out []string
	for i, caller := range r.methods {
		if contains(r.calls[i], name) {
			out = append(out, caller)
		}
	}
	return out
}

func check(c Case) pbt.Verdict {
	reset()
	r := newRef(c.Model)
	if msg := runRcall(r, c.Target, convert(c.Model, c.Bare)); msg != "" {
		return pbt.Fail("%s", msg)
	}
	return classify(c.Model, r, c.Target, c.Bare)
}

// checkLookup: the same reverse graph as part of call.Analysis(target, model, true) (`coca call -l`).
func checkLookup(c Case) pbt.Verdict {
	reset()
	r := newRef(c.Model)
	if msg := runLookup(r, c.Target, convert(c.Model, c.Bare)); msg != "" {
		return pbt.Fail("%s", msg)
	}
	v := classify(c.Model, r, c.Target, c.Bare)
	v.Canon = "lookup|" + v.Canon
	return v
}

func checkSeq(c SeqCase) pbt.Verdict {
	reset()
	var data [][]core_domain.CodeDataStruct
	var refs []ref
	for _, m := range c.Models {
		data = append(data, convert(m, c.Bare))
		refs = append(refs, newRef(m))
	}
	v := pbt.Verdict{}
	var canons []string
	maps := map[int]map[string][]string{} // per model: the reverse map built once and queried by every "chain" step
	for i, s := range c.Steps {
		if s.Model < 0 || s.Model >= len(c.Models) {
			return pbt.Verdict{Skip: true}
		}
		var msg string
		switch s.Kind {
		case "rcall":
			msg = runRcall(refs[s.Model], s.Target, data[s.Model])
		case "lookup":
			msg = runLookup(refs[s.Model], s.Target, data[s.Model])
		case "chain":
			msg = runChain(refs[s.Model], s.Target, data[s.Model], maps, s.Model)
		default:
			return pbt.Verdict{Skip: true}
		}
		if msg != "" {
			return pbt.Fail("step %d (%s %q, model %d) after %d earlier generations in this process: %s", i, s.Kind, s.Target, s.Model, i, msg)
		}
		sub := classify(c.Models[s.Model], refs[s.Model], s.Target, c.Bare)
		v.NonTrivial = v.NonTrivial || sub.NonTrivial
		canons = append(canons, s.Kind+":"+sub.Canon)
		v.Classes = append(v.Classes, "step_"+s.Kind)
		if i > 0 && c.Steps[i-1].Model != s.Model {
			v.Classes = append(v.Classes, "model_switched")
		}
		if i > 0 && c.Steps[i-1].Target == s.Target {
			v.Classes = append(v.Classes, "same_target_again")
		}
	}
	v.Canon = strings.Join(canons, "||")
	return v
}

func checkCli(c CliCase) pbt.Verdict {
	if c.Target == "" {
		return pbt.Verdict{Skip: true} // `coca rcall` refuses an empty name
	}
	dir := cli.Scratch("c04-")
	defer os.RemoveAll(dir)
	data := convert(c.Model, c.Bare)
	if data == nil {
		data = []core_domain.CodeDataStruct{}
	}
	deps, _ := json.Marshal(data)
	switch c.Layout {
	case 1, 2:
		deps, _ = json.MarshalIndent(data, "", "\t")
		if c.Layout == 2 {
			// between JSON tokens only: a line break inside a string is written as \n by the encoder
			deps = []byte(strings.ReplaceAll(string(deps), "\n", "\r\n"))
		}
	case 3:
		deps = []byte("\n \t" + string(deps) + " \n\n")
	}
	depsAt := "coca_reporter/deps.json"
	var opts [][]string
	switch c.Spell {
	case 1:
		opts = append(opts, []string{"--className", c.Target})
	case 2:
		opts = append(opts, []string{"--className=" + c.Target})
	case 3:
		opts = append(opts, []string{"-c" + c.Target})
	default:
		opts = append(opts, []string{"-c", c.Target})
	}
	if c.Mode == "lookup" {
		switch c.Lookup {
		case 1:
			opts = append(opts, []string{"--lookup"})
		case 2:
			opts = append(opts, []string{"--lookup=true"})
		default:
			opts = append(opts, []string{"-l"})
		}
	}
	switch c.Deps {
	case 1:
		depsAt = "other/deps.json"
		opts = append(opts, []string{"-d", depsAt})
	case 2:
		depsAt = "deps2.json"
		opts = append(opts, []string{"--dependence=" + depsAt})
	case 3:
		depsAt = "deps2.json"
		opts = append(opts, []string{"--dependence", depsAt})
	}
	const nowhere = "~~no such text~~" // generated names contain no '~'
	switch c.Remove {
	case 1:
		opts = append(opts, []string{"-r", nowhere})
	case 2:
		opts = append(opts, []string{"--remove=" + nowhere})
	}
	if c.Order == 1 {
		for i, j := 0, len(opts)-1; i < j; i, j = i+1, j-1 {
			opts[i], opts[j] = opts[j], opts[i]
		}
	}
	args := []string{"rcall"}
	if c.Mode == "lookup" {
		args = []string{"call"}
	}
	for _, o := range opts {
		args = append(args, o...)
	}
	if c.Past != nil {
		pd := convert(*c.Past, c.Bare)
		if pd == nil {
			pd = []core_domain.CodeDataStruct{}
		}
		pastDeps, _ := json.Marshal(pd)
		cli.WriteTree(dir, map[string]string{depsAt: string(pastDeps)})
		if pre, err := cli.Run("coca", dir, nil, args...); err != nil {
			panic("cannot run coca: " + err.Error())
		} else if pre.TimedOut {
			return pbt.Verdict{Skip: true}
		}
	}
	cli.WriteTree(dir, map[string]string{depsAt: string(deps)})
	if c.Past != nil {
		old := time.Now().Add(-time.Hour)
		_ = os.Chtimes(filepath.Join(dir, filepath.FromSlash(depsAt)), old, old)
	}
	res, err := cli.Run("coca", dir, nil, args...)
	if err != nil {
		panic("cannot run coca: " + err.Error())
	}
	if res.TimedOut {
		return pbt.Verdict{Skip: true}
	}
	shown := "coca " + strings.Join(args, " ")
	if res.ExitCode != 0 {
		return pbt.Fail("`%s` exited with %d\n%s", shown, res.ExitCode, strings.ReplaceAll(res.Stderr, dir, "<scratch>"))
	}
	r := newRef(c.Model)
	v := classify(c.Model, r, c.Target, c.Bare)
	v.Canon = "cli|" + c.Mode + "|" + v.Canon
	if c.Spell != 0 || c.Deps != 0 || c.Remove != 0 || c.Lookup != 0 || c.Order != 0 {
		v.Classes = append(v.Classes, "cli_other_option_spelling")
	}
	if c.Deps != 0 {
		v.Classes = append(v.Classes, "cli_deps_elsewhere")
	}
	if c.Layout != 0 {
		v.Classes = append(v.Classes, "cli_deps_json_laid_out")
	}
	if c.Past != nil {
		v.Classes = append(v.Classes, "cli_working_directory_with_a_past")
	}
	if len(deps) > 65536 {
		v.Classes = append(v.Classes, "cli_deps_json_line>64k")
	}
	if c.Mode == "lookup" {
		raw, err := os.ReadFile(filepath.Join(dir, "coca_reporter", "call.dot"))
		if err != nil {
			return pbt.Fail("`%s` wrote no coca_reporter/call.dot", shown)
		}
		if msg := judgeLookup(r, c.Target, string(raw)); msg != "" {
			return pbt.Fail("`%s`, coca_reporter/call.dot: %s", shown, msg)
		}
		v.Classes = append(v.Classes, "cli_call_l")
		return v
	}
	raw, err := os.ReadFile(filepath.Join(dir, "coca_reporter", "rcallmap.json"))
	if err != nil {
		return pbt.Fail("`%s` wrote no coca_reporter/rcallmap.json", shown)
	}
	var got map[string][]string
	if err := json.Unmarshal(raw, &got); err != nil {
		return pbt.Fail("`%s`: coca_reporter/rcallmap.json is not a JSON map of lists: %v\n%s", shown, err, string(raw))
	}
	if msg := judgeMap(r, got); msg != "" {
		return pbt.Fail("`%s`, coca_reporter/rcallmap.json: %s", shown, msg)
	}
	graph, err := os.ReadFile(filepath.Join(dir, "coca_reporter", "rcall.dot"))
	if err != nil {
		return pbt.Fail("`%s` wrote no coca_reporter/rcall.dot", shown)
	}
	if msg := judgeGraph(r, c.Target, string(graph)); msg != "" {
		return pbt.Fail("`%s`, coca_reporter/rcall.dot: %s", shown, msg)
	}
	v.Classes = append(v.Classes, "cli_rcall")
	return v
}

func init() {
	pbt.SetProperty("C04")
	pbt.Describe("rapid-generated code models as in C03's widened generator (cycles, mutual recursion, repeated calls, external and undeclared callees, receivers without package, constructors, class simple names shared between packages, the default package, class-level calls, names with a double quote or '$', call trees of 5-9 chained methods) plus overloads (two functions of one full name in a class). Second widening, each shape behind its own draw: a target with 9-70 direct callers spread over many classes (caller lists past 8, 16, 32, 64 entries; some callers call twice or have callers of their own); a tree or chain of exactly K = 4-9 or 12 callers that themselves have callers, i.e. on both sides of the expansion budget, declared in permuted order, with further direct callers of the target; 9-40 classes with more than 64 methods; a model without classes; consistent renamings of packages, classes and methods to letter-case twins (m0 | M0, C0 | c0, a | A), names with letters outside ASCII (\u00e9, \u540d, \u00df, \u03a9, \u0131, \u0130, \u00c4), one-letter and underscore names, names of 300 and of 5000 characters, names containing DOT / JSON syntax characters other than quote and backslash (' -> ', ';', '{', '}', '//', '#', '/*', '[label=x]', '<T>', '&', ',', ':', '=', blank, apostrophe); a class declared twice (two structures of one full name, methods of one name spread over both, calls into what only the second declares); Extend / Implements between project classes with calls of an inherited method on the subclass (not a declared method of that name: must stay out of the map); method names toString, equals, hashCode, testM, setUp next to the accessor-like ones. The tool's model is written either with positions (every call site its own), modifiers, @Override, @Test, return and parameter types and 0-2 arguments per call as a fixed function of the place in the model, or bare (one case in six: names and calls only, all positions zero). Target: called method / any declared method / absent / called but undeclared / a declared name without its first segment / the empty name (API only) / a letter-case variant of a declared name / a declared name shortened or extended by one character or cut after its last dot / the full name of a class; the constructed shapes mostly ask for the method they are built around. Sub-checks: rcall (RCallGraph.Analysis: map as handed to the callback and after graph generation, graph), lookup (the reverse part of call.Analysis(target, model, true)), seq (2-9 generations in one process without reset, on one or two models; the second is a mutation of the first with the same names, an unrelated model, the same classes in another order, or the first minus one class; step kinds: Analysis, call.Analysis with lookup, and BuildRCallChain on a reverse map that is built once per model and queried by every such step), cli (`coca rcall` with rcallmap.json and rcall.dot; `coca call -l` with call.dot; option spellings -c T | --className T | --className=T | -cT, -l | --lookup | --lookup=true, deps.json at the default place or elsewhere with -d | --dependence[=], -r / --remove= with a text that occurs nowhere, options in either order; deps.json compact, tab-indented as coca writes it, the same with CRLF, or with blanks and newlines around it). Oracle: the inverse of the project-internal call relation computed from the abstract model, one entry per call site; backward reachability from the target. Non-trivial = the target has >= 2 distinct callers, or a caller calling it twice, or a caller that itself has callers; distinct = hash of (target, sorted inverse relation).",
		"names contain no backslash and no dot inside a simple name; names do not start with '-' (the target is an operand of the command line)",
		"a target that calls itself is not required to show a self edge (the statement exempts it)",
		"in the lookup graph an edge that is a forward call reachable from the target is C03's subject; every other edge must be an edge of the reverse graph",
		"the budget of the reverse traversal is read through the verif hook",
		"every recorded call with a receiver is a call site of its own, whether or not the model carries positions",
		"project methods are the functions listed in a structure's Functions; InnerStructures / InnerFunctions stay empty (the statement leaves open whether their methods are project methods)",
		"a package whose last segment equals a class name together with a class named like a method (so that the constructor key pkg.Class of one equals the method key of another) is not generated: the statement leaves the expected entry open",
		"--remove is only given a text that occurs in no name (with a text that does occur the output is by definition not the graph the statement describes)")
	pbt.Register("rcall", 8000, 80000, gen, check)
	pbt.Register("lookup", 3000, 30000, gen, checkLookup)
	pbt.Register("seq", 3000, 30000, genSeq, checkSeq)
	pbt.Register("cli", 100, 400, genCli, checkCli)
}

func TestProp(t *testing.T)   { pbt.Main(t) }
func TestReplay(t *testing.T) { pbt.Replay(t) }
