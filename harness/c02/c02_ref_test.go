package c02

import (
	"verif/internal/jany"
	"verif/internal/pbt"
)

// Sub-check `anyjava`: see internal/jany. The recorded call sites of Java files that jgen did not write,
// judged against the reference reader internal/jref.
func init() {
	pbt.DescribeMore(jany.Rule)
	pbt.Register("anyjava", 1500, 2000, jany.Gen, func(c jany.Case) pbt.Verdict { return jany.Check(c, true) })
}
