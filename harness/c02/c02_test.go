// C02 — recorded call sites are exactly the invocations written in the source.
package c02

import (
	"fmt"
	"os"
	"path/filepath"
	"sort"
	"strings"
	"testing"

	"github.com/modernizing/coca/pkg/application/analysis/javaapp"
	"github.com/modernizing/coca/pkg/domain/core_domain"
	"github.com/modernizing/coca/pkg/infrastructure/ast/ast_java"
	"github.com/modernizing/coca/pkg/infrastructure/ast/ast_java/java_identify"
	"pgregory.net/rapid"

	"verif/internal/cli"
	"verif/internal/jgen"
	"verif/internal/pbt"
)

type Case struct {
	Project jgen.Project `json:"project"`
}

func gen(t *rapid.T) Case {
	return Case{Project: jgen.GenProject(t, jgen.Opts{Bodies: true, MultiByte: true, Interfaces: true, MaxUnits: 4, MaxMethods: 4, Anon: true, Wide: true, RichDecl: true, Loops: true, SharedMethodNames: true, UnqualifiedForeign: true})}
}

func genScoped(t *rapid.T) Case {
	return Case{Project: jgen.GenProject(t, jgen.Opts{Bodies: true, ScopedReuse: true, MaxUnits: 3, MaxMethods: 4, Anon: true, Wide: true, RichDecl: true, Loops: true, SharedMethodNames: true, UnqualifiedForeign: true})}
}

func check(c Case) pbt.Verdict {
	dir := cli.Scratch("c02-")
	defer os.RemoveAll(dir)
	files := map[string]string{}
	for _, f := range c.Project.Files {
		files[f.Path] = f.Text
	}
	cli.WriteTree(dir, files)
	ast_java.VerifResetAstJava()
	java_identify.VerifResetJavaIdentify()
	var model []core_domain.CodeDataStruct
	if p := pbt.Call(func() {
		iapp := javaapp.NewJavaIdentifierApp()
		ident := iapp.AnalysisPath(dir)
		app := javaapp.NewJavaFullApp()
		model = app.AnalysisPath(dir, ident)
	}); p != "" {
		return pbt.Fail("analysis panicked: %s", p)
	}
	byName := map[string]core_domain.CodeDataStruct{}
	for _, ds := range model {
		if ds.NodeName != "" {
			byName[ds.Package+"."+ds.NodeName] = ds
		}
	}
	v := pbt.Verdict{}
	kinds := map[string]bool{}
	total, sameLine, resolved := 0, false, 0
	var canon []string
	shapes := map[string]bool{}
	for i, u := range c.Project.Units {
		for _, f := range u.Features {
			shapes["shape_"+f] = true
		}
		ds, ok := byName[u.FullName()]
		if !ok {
			return pbt.Fail("type %s is not in the model", u.FullName())
		}
		lines := strings.Split(c.Project.Files[i].Text, "\n")
		for _, f := range u.Funcs {
			var fn *core_domain.CodeFunction
			for k := range ds.Functions {
				if ds.Functions[k].Name == f.Name && ds.Functions[k].Position.StartLine == f.DeclLine {
					// overloads may share a line: the start column of a class method or
					// constructor is the column of its name
					if fn == nil || ds.Functions[k].Position.StartLinePosition == f.NameCol {
						fn = &ds.Functions[k]
					}
				}
			}
			if fn == nil {
				return pbt.Fail("%s: function %s declared at line %d is not in the model", u.Path, f.Name, f.DeclLine)
			}
			var got []core_domain.CodeCall
			for _, call := range fn.FunctionCalls {
				if call.Type != "field" {
					got = append(got, call)
				}
			}
			where := fmt.Sprintf("%s: %s (line %d)", u.Path, f.Name, f.DeclLine)
			if len(got) != len(f.Events) {
				return pbt.Fail("%s: %d calls recorded, %d invocations/creations written\nrecorded: %s\nwritten:  %s\n%s", where, len(got), len(f.Events), renderCalls(got), renderEvents(f.Events), body(lines, f))
			}
			lastLine := -1
			for k, e := range f.Events {
				g := got[k]
				total++
				kinds[e.Recv] = true
				if e.Decl != "" {
					shapes["recv_local_declared_in_"+e.Decl] = true
				}
				for _, l := range nameLabels(c.Project, i, f, e) {
					shapes[l] = true
				}
				if e.Line == lastLine {
					sameLine = true
				}
				lastLine = e.Line
				canon = append(canon, fmt.Sprintf("%s%s@%d", e.Kind, e.Recv, e.Col))
				if e.Kind == "new" {
					if g.Type != "CreatorClass" || g.NodeName != e.Name {
						return pbt.Fail("%s: call #%d should be the creation of %s at %d:%d, recorded %+v\n%s", where, k, e.Name, e.Line, e.Col, g, body(lines, f))
					}
					if g.Position.StartLine != e.Line || g.Position.StartLinePosition != e.Col {
						return pbt.Fail("%s: creation of %s is written at %d:%d, recorded at %d:%d", where, e.Name, e.Line, e.Col, g.Position.StartLine, g.Position.StartLinePosition)
					}
					continue
				}
				if g.Type == "CreatorClass" || g.FunctionName != e.Name {
					return pbt.Fail("%s: call #%d should be the invocation of %s at %d:%d, recorded %+v\nrecorded: %s\nwritten:  %s\n%s", where, k, e.Name, e.Line, e.Col, g, renderCalls(got), renderEvents(f.Events), body(lines, f))
				}
				if g.Position.StartLine != e.Line {
					return pbt.Fail("%s: invocation of %s is written on line %d, recorded on line %d", where, e.Name, e.Line, g.Position.StartLine)
				}
				l := []rune(lines[e.Line-1])
				a, b := g.Position.StartLinePosition, g.Position.StopLinePosition
				if a < 0 || b > len(l) || a > b || string(l[a:b]) != e.Name {
					sel := "<out of range>"
					if a >= 0 && b <= len(l) && a <= b {
						sel = string(l[a:b])
					}
					return pbt.Fail("%s: invocation of %s on line %d: recorded columns [%d,%d) select %q, not the callee identifier\nline: %q", where, e.Name, e.Line, a, b, sel, lines[e.Line-1])
				}
				if e.Resolve {
					resolved++
					if g.Package != e.ExpPkg || g.NodeName != e.ExpNode {
						return pbt.Fail("%s: invocation of %s at %d:%d (receiver kind %s) must be recorded against %s.%s, recorded against package %q node %q\n%s", where, e.Name, e.Line, e.Col, e.Recv, e.ExpPkg, e.ExpNode, g.Package, g.NodeName, body(lines, f))
					}
				}
			}
		}
	}
	for k := range kinds {
		v.Classes = append(v.Classes, "recv_"+k)
	}
	for k := range shapes {
		v.Classes = append(v.Classes, k)
	}
	sort.Strings(v.Classes)
	if sameLine {
		v.Classes = append(v.Classes, "two_invocations_on_one_line")
	}
	if resolved > 0 {
		v.Classes = append(v.Classes, "resolution_asserted")
	}
	v.NonTrivial = (total >= 3 && len(kinds) >= 2) || sameLine
	v.Canon = strings.Join(canon, ",")
	return v
}

// nameLabels classifies an invocation by what else its callee name denotes in the project: labels
// only, computed from the generator's ground truth (nothing here is asserted).
func nameLabels(p jgen.Project, ui int, f jgen.FuncTruth, e jgen.Event) []string {
	if e.Kind != "call" {
		return nil
	}
	u := p.Units[ui]
	ownEarlier, ownLater, ownSelf := false, false, false
	for _, g := range u.Funcs {
		if g.Name == e.Name && !g.IsCtor {
			switch {
			case g.DeclLine == f.DeclLine && g.NameCol == f.NameCol:
				ownSelf = true
			case g.DeclLine > f.DeclLine || g.DeclLine == f.DeclLine && g.NameCol > f.NameCol:
				ownLater = true
			default:
				ownEarlier = true
			}
		}
	}
	var out []string
	if e.Recv != "implicit" {
		if (ownEarlier || ownLater || ownSelf) && e.Resolve {
			out = append(out, "variable_receiver_callee_is_also_an_own_method")
		}
		return out
	}
	if ownLater {
		out = append(out, "implicit_callee_declared_after_the_caller")
	}
	if ownEarlier {
		out = append(out, "implicit_callee_declared_before_the_caller")
	}
	if ownSelf {
		out = append(out, "implicit_callee_is_the_caller")
	}
	for oi, o := range p.Units {
		if oi == ui {
			continue
		}
		declares := false
		for _, g := range o.Funcs {
			if g.Name == e.Name && !g.IsCtor {
				declares = true
			}
		}
		if !declares {
			continue
		}
		rel := "unrelated_class"
		if o.Pkg == u.Pkg {
			rel = "same_package_class"
		}
		for _, im := range u.Imports {
			switch {
			case im.Text == o.FullName() && !im.Static:
				rel = "imported_class"
			case im.Text == o.FullName() && im.Static && im.Wildcard:
				out = append(out, "implicit_callee_also_declared_by_class_statically_imported_on_demand")
			}
		}
		if u.ExtendsFull == o.FullName() {
			rel = "superclass"
		}
		for _, in := range u.Implements {
			if in == o.Name {
				rel = "implemented_interface"
			}
		}
		out = append(out, "implicit_callee_also_declared_by_"+rel)
		if ownLater && !ownEarlier && rel == "imported_class" {
			out = append(out, "implicit_callee_declared_only_later_and_by_imported_class")
		}
	}
	return out
}

func renderCalls(cs []core_domain.CodeCall) string {
	var out []string
	for _, c := range cs {
		if c.Type == "CreatorClass" {
			out = append(out, fmt.Sprintf("new %s@%d:%d", c.NodeName, c.Position.StartLine, c.Position.StartLinePosition))
		} else {
			out = append(out, fmt.Sprintf("%s@%d:%d", c.FunctionName, c.Position.StartLine, c.Position.StartLinePosition))
		}
	}
	return strings.Join(out, " ")
}

func renderEvents(es []jgen.Event) string {
	var out []string
	for _, e := range es {
		if e.Kind == "new" {
			out = append(out, fmt.Sprintf("new %s@%d:%d", e.Name, e.Line, e.Col))
		} else {
			out = append(out, fmt.Sprintf("%s@%d:%d", e.Name, e.Line, e.Col))
		}
	}
	return strings.Join(out, " ")
}

func body(lines []string, f jgen.FuncTruth) string {
	a, b := f.DeclLine-1, f.EndLine
	if b > len(lines) {
		b = len(lines)
	}
	var sb strings.Builder
	for i := a; i < b; i++ {
		fmt.Fprintf(&sb, "%4d| %s\n", i+1, lines[i])
	}
	return sb.String()
}

var _ = filepath.Join

func init() {
	pbt.SetProperty("C02")
	jgen.SetExcluded(pbt.Excluded)
	pbt.Describe("rapid-generated conventional Java projects (jgen, 1-4 units) whose method and constructor bodies hold 0-15 statements (local declarations, assignments, if/else, for, for-each, while, switch, try/catch/finally, return, expression statements) nested up to depth 3; enhanced for statements over project classes, primitives (int, long, char, double), arrays (int[], String[]), String / Object / Integer and List<String> elements, with or without `final`; classic for statements whose loop variable is an int or a local variable of a project class declared in the header (for (Node n = first; n != null; n = n.next()), called in the header and the body, and in the scoped_names sub-check possibly named like a field it shadows inside the loop only); bodies of if / else / for / for-each / while / do written as a block or as a single statement without braces on the same or the next line (a call, an assignment or another loop / branch, hence `else if` chains), with invocations of every receiver kind (implicit, this, field, this.field, parameter, local, for-each variable, static, chained, on a fresh object, lambda body), `new` expressions, several per line, arguments over several lines, any indentation (blanks or tabs), string literals and comments with multi-byte characters in front of call sites; method names may be shared between the classes of a project, so that the callee of an unqualified call (declared before the caller, after it, or the caller itself) may also be declared by a class the file imports, by a class of the same package, by the project superclass or an implemented interface, and the callee of a call on a variable may also be a method of the enclosing class; files may carry static imports of project classes (`import static pkg.P.*;`, also as a mere decoy next to own methods named like static methods of P, and `import static pkg.P.m;`) and unqualified calls of the static methods so imported and of methods inherited from the project superclass (receiver kinds staticimport and inherited). Oracle: the ordered list of (kind, name, line, column) recorded by the printer for each function; recorded calls must match it one to one in order, each recorded column range must select the callee identifier (in characters), creations must carry the created type, and for implicit / field / parameter / local receivers whose declared type is a plain project or imported class the recorded package and node must be that class. Non-trivial = >= 3 invocations of >= 2 receiver kinds in the project, or two invocations on one line; distinct = hash of the (kind, receiver kind, column) sequence.",
		"variable names are unique per project, so that a receiver name denotes one declaration (name reuse across files is C07's domain)",
		"resolution is asserted only for the receiver kinds the statement lists; this., for-each, lambda, static and chained receivers are checked for name/position/order only",
		"array creations (`new int[3]`) are written but are not object creations and must not be recorded",
		"a variable declared in the header of a classic for is a local variable (resolution asserted, class label recv_local_declared_in_forinit); the variable of an enhanced for keeps the receiver kind for-each (name/position/order only)",
		"a statement without braces is never a declaration (Java forbids it)",
		"unqualified calls of inherited and statically imported methods have no implicit receiver of the enclosing type in the statement's sense: name/position/order only. A method is imported with `import static pkg.P.m;`, or called through an on-demand static import, only when the class neither declares nor inherits from its project superclass a method of that name (which would hide the imported one) and no second static import brings the same name in (the call would be ambiguous)")
	pbt.Register("callsites", 400, 3000, gen, check)
	// the same oracle on units whose methods reuse parameter / local names with different types
	// and shadow fields: a receiver name denotes the declaration visible at the call site
	pbt.Register("scoped_names", 300, 2000, genScoped, check)
}

func TestProp(t *testing.T)   { pbt.Main(t) }
func TestReplay(t *testing.T) { pbt.Replay(t) }
