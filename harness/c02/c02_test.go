// C02 — recorded call sites are exactly the invocations written in the source.
package c02

import (
	"encoding/json"
	"fmt"
	"os"
	"path/filepath"
	"sort"
	"strings"
	"testing"

	"github.com/modernizing/coca/pkg/application/analysis/javaapp"
	"github.com/modernizing/coca/pkg/domain/core_domain"
	"github.com/modernizing/coca/pkg/infrastructure/ast/ast_java"
	"github.com/modernizing/coca/pkg/infrastructure/ast/ast_java/java_identify"
	"pgregory.net/rapid"

	"verif/internal/cli"
	"verif/internal/jgen"
	"verif/internal/pbt"
)

type Case struct {
	Project jgen.Project `json:"project"`
	// CLI > 0: the model is read from the deps.json that `coca analysis` writes (cliSpellings[CLI-1]); 0: from JavaFullApp.AnalysisPath
	CLI int `json:"cli,omitempty"`
}

// the shapes of the checklist audit (jgen/audit_c02.go) and the options of other audits that matter here
func widened(o jgen.Opts) jgen.Opts {
	o.ExoticNames, o.WildcardProjectImports, o.TwinNames, o.TwinReferrers = true, true, true, true
	o.AnonBodies, o.AssignedCreations, o.CaseTwinNames, o.ScopeEnds, o.CallLayout, o.OwnTypeVars, o.ReturnCalls, o.FieldForms, o.InterfaceBodies, o.FieldChainCalls = true, true, true, true, true, true, true, true, true, true
	// fifth seed batch: imports that mention a namesake of a class the file refers to
	o.NamesakeImports = true
	// more often than chance has it: a call on an earlier local right after a statement with scopes of its own
	o.CallsAfterScopes = true
	// seventh seed batch: receivers (fields, parameters, locals) and methods named by a contextual keyword of newer
	// Java (record, module, open, to, with, ...), which the shipped lexer gives token types of their own
	o.KeywordNames = true
	return o
}

func gen(t *rapid.T) Case {
	p := jgen.GenProject(t, widened(jgen.Opts{Bodies: true, MultiByte: true, Interfaces: true, MaxUnits: 4, MaxMethods: 4, Anon: true, Wide: true, RichDecl: true, Loops: true, SharedMethodNames: true, UnqualifiedForeign: true}))
	return Case{Project: fileForms(t, p)}
}

func genScoped(t *rapid.T) Case {
	p := jgen.GenProject(t, widened(jgen.Opts{Bodies: true, ScopedReuse: true, MaxUnits: 3, MaxMethods: 4, Anon: true, Wide: true, RichDecl: true, Loops: true, SharedMethodNames: true, UnqualifiedForeign: true}))
	return Case{Project: fileForms(t, p)}
}

// the command line: the same projects, analysed by the binary, the model read from coca_reporter/deps.json
func genCLI(t *rapid.T) Case {
	c := gen(t)
	c.CLI = 1 + rapid.IntRange(0, len(cliSpellings)-1).Draw(t, "cliSpelling")
	return c
}

// cliSpellings are the ways to name the analysed directory DIR (the empty list: it is the working directory).
var cliSpellings = [][]string{{"-p", "DIR"}, {"--path", "DIR"}, {"--path=DIR"}, {}, {"-i", "-p", "DIR"}, {"-p", "."}}

// fileForms draws what a file may look like as a whole without any of its call sites moving: line ends
// written CR LF, and the classes of one package living in the unnamed package (no package declaration)
// when nothing outside refers to that package by name.
func fileForms(t *rapid.T, p jgen.Project) jgen.Project {
	pkgs := map[string]bool{}
	for _, u := range p.Units {
		pkgs[u.Pkg] = true
	}
	var cands []string
	for pkg := range pkgs {
		names := map[string]bool{}
		for _, u := range p.Units {
			if u.Pkg == pkg {
				names[u.FullName()] = true
			}
		}
		named := false
		for _, u := range p.Units {
			for _, im := range u.Imports {
				if im.Text == pkg || names[im.Text] {
					named = true
				}
				for n := range names {
					if strings.HasPrefix(im.Text, n+".") {
						named = true
					}
				}
			}
		}
		if !named {
			cands = append(cands, pkg)
		}
	}
	sort.Strings(cands)
	if len(cands) > 0 && rapid.IntRange(0, 7).Draw(t, "unnamedPackage") == 7 {
		pkg := rapid.SampledFrom(cands).Draw(t, "unnamedPackageOf")
		for i := range p.Units {
			u := &p.Units[i]
			if u.ExtendsFull != "" && strings.HasPrefix(u.ExtendsFull, pkg+".") && !strings.Contains(u.ExtendsFull[len(pkg)+1:], ".") {
				u.ExtendsFull = u.ExtendsFull[len(pkg):]
			}
			for j := range u.Funcs {
				for k := range u.Funcs[j].Events {
					if e := &u.Funcs[j].Events[k]; e.Resolve && e.ExpPkg == pkg {
						e.ExpPkg = ""
					}
				}
			}
			if u.Pkg == pkg {
				// the line stays, so that nothing below it moves
				p.Files[i].Text = strings.Replace(p.Files[i].Text, "package "+pkg+";", "", 1)
				u.Pkg = ""
				u.Features = append(u.Features, "unnamed_package")
			}
		}
	}
	for i := range p.Units {
		if rapid.IntRange(0, 7).Draw(t, "crlf") == 7 {
			p.Files[i].Text = strings.ReplaceAll(p.Files[i].Text, "\n", "\r\n")
			p.Units[i].Features = append(p.Units[i].Features, "crlf_line_ends")
		}
	}
	// eighth seed batch: a character of two, three or four bytes that straddles the border of a read buffer (4096,
	// 8192, 65536 bytes into the file): a block comment in front of the first token of line 1 (nothing below moves,
	// no call stands on line 1) is padded so that the character starts one to three bytes before the border
	for i := range p.Units {
		if rapid.IntRange(0, 11).Draw(t, "multiByteAtBufferBorder") != 11 || strings.HasPrefix(p.Files[i].Text, "\n") || strings.HasPrefix(p.Files[i].Text, "\r") {
			continue
		}
		border := rapid.SampledFrom([]int{4096, 8192, 8192, 65536}).Draw(t, "bufferBorder")
		ch := rapid.SampledFrom([]string{"é", "€", "漢", "😀"}).Draw(t, "borderChar")
		back := rapid.IntRange(1, len(ch)-1).Draw(t, "borderCharStartsBefore")
		pad := border - back - len("/* ")
		p.Files[i].Text = "/* " + strings.Repeat("x", pad) + ch + " " + strings.Repeat("€ y ", 40) + "*/" + p.Files[i].Text
		p.Units[i].Features = append(p.Units[i].Features, "multi_byte_character_across_a_buffer_border")
	}
	return p
}

// analyse runs the two passes in this process, or the binary, on the project written to a scratch directory.
func analyse(c Case) ([]core_domain.CodeDataStruct, string) {
	dir := cli.Scratch("c02-")
	defer os.RemoveAll(dir)
	proj := filepath.Join(dir, "proj")
	files := map[string]string{}
	for _, f := range c.Project.Files {
		files[f.Path] = f.Text
	}
	if len(files) == 0 {
		_ = os.MkdirAll(proj, 0755)
	}
	cli.WriteTree(proj, files)
	var model []core_domain.CodeDataStruct
	if c.CLI == 0 {
		ast_java.VerifResetAstJava()
		java_identify.VerifResetJavaIdentify()
		if p := pbt.Call(func() {
			iapp := javaapp.NewJavaIdentifierApp()
			ident := iapp.AnalysisPath(proj)
			app := javaapp.NewJavaFullApp()
			model = app.AnalysisPath(proj, ident)
		}); p != "" {
			return nil, fmt.Sprintf("analysis panicked: %s", p)
		}
		return model, ""
	}
	if c.CLI > len(cliSpellings) {
		return nil, fmt.Sprintf("case names command-line spelling %d, there are %d", c.CLI, len(cliSpellings))
	}
	cwd := dir
	args := []string{"analysis"}
	shown := "coca analysis"
	for _, a := range cliSpellings[c.CLI-1] {
		args = append(args, strings.ReplaceAll(a, "DIR", proj))
		shown += " " + a
	}
	if !strings.Contains(shown, "DIR") {
		cwd = proj
	}
	res, err := cli.Run("coca", cwd, nil, args...)
	if err != nil {
		panic(err)
	}
	if res.ExitCode != 0 || res.TimedOut {
		return nil, fmt.Sprintf("`%s` exited with %d (timeout=%v)\n%s", shown, res.ExitCode, res.TimedOut, tail(strings.ReplaceAll(res.Stdout+res.Stderr, dir, "")))
	}
	data, err := os.ReadFile(filepath.Join(cwd, "coca_reporter", "deps.json"))
	if err != nil {
		return nil, fmt.Sprintf("`%s` wrote no coca_reporter/deps.json", shown)
	}
	if err := json.Unmarshal(data, &model); err != nil {
		return nil, fmt.Sprintf("the deps.json written by `%s` is not valid JSON: %v", shown, err)
	}
	return model, ""
}

func tail(s string) string {
	if len(s) > 1500 {
		return s[len(s)-1500:]
	}
	return s
}

func check(c Case) pbt.Verdict {
	model, trouble := analyse(c)
	if trouble != "" {
		return pbt.Fail("%s", trouble)
	}
	byName := map[string]core_domain.CodeDataStruct{}
	for _, ds := range model {
		if ds.NodeName != "" {
			byName[ds.Package+"."+ds.NodeName] = ds
		}
	}
	v := pbt.Verdict{}
	kinds := map[string]bool{}
	total, sameLine, resolved := 0, false, 0
	var canon []string
	shapes := map[string]bool{}
	for i, u := range c.Project.Units {
		for _, f := range u.Features {
			if k := strings.Index(f, ":"); k >= 0 {
				f = f[:k] // wildcard_only:<class>
			}
			shapes["shape_"+f] = true
		}
		for _, l := range unitLabels(c.Project, i) {
			shapes[l] = true
		}
		ds, ok := byName[u.FullName()]
		if !ok {
			return pbt.Fail("type %s is not in the model", u.FullName())
		}
		lines := strings.Split(c.Project.Files[i].Text, "\n")
		for _, f := range u.Funcs {
			var fn *core_domain.CodeFunction
			for k := range ds.Functions {
				if ds.Functions[k].Name == f.Name && ds.Functions[k].Position.StartLine == f.DeclLine {
					// overloads may share a line: the start column of a class method or constructor is
					// the column of its name, that of an interface method the column of the first token
					// of its declaration, so the entry of f is the last one that starts at or before
					// the name of f
					c := ds.Functions[k].Position.StartLinePosition
					if fn == nil || (c <= f.NameCol && (c > fn.Position.StartLinePosition || fn.Position.StartLinePosition > f.NameCol)) {
						fn = &ds.Functions[k]
					}
				}
			}
			if fn == nil {
				return pbt.Fail("%s: function %s declared at line %d is not in the model", u.Path, f.Name, f.DeclLine)
			}
			var got []core_domain.CodeCall
			for _, call := range fn.FunctionCalls {
				if call.Type != "field" {
					got = append(got, call)
				}
			}
			where := fmt.Sprintf("%s: %s (line %d)", u.Path, f.Name, f.DeclLine)
			if len(got) != len(f.Events) {
				return pbt.Fail("%s: %d calls recorded, %d invocations/creations written\nrecorded: %s\nwritten:  %s\n%s", where, len(got), len(f.Events), renderCalls(got), renderEvents(f.Events), body(lines, f))
			}
			switch n := len(f.Events); {
			case n >= 65:
				shapes["function_with_65_or_more_call_sites"] = true
			case n >= 33:
				shapes["function_with_33_to_64_call_sites"] = true
			case n >= 17:
				shapes["function_with_17_to_32_call_sites"] = true
			}
			lastLine := -1
			for k, e := range f.Events {
				g := got[k]
				total++
				kinds[e.Recv] = true
				if e.Decl != "" {
					shapes["recv_local_declared_in_"+e.Decl] = true
				}
				for _, l := range nameLabels(c.Project, i, f, e) {
					shapes[l] = true
				}
				if e.Line == lastLine {
					sameLine = true
				}
				lastLine = e.Line
				canon = append(canon, fmt.Sprintf("%s%s@%d", e.Kind, e.Recv, e.Col))
				if e.Kind == "new" {
					if g.Type != "CreatorClass" || g.NodeName != e.Name {
						return pbt.Fail("%s: call #%d should be the creation of %s at %d:%d, recorded %+v\n%s", where, k, e.Name, e.Line, e.Col, g, body(lines, f))
					}
					if g.Position.StartLine != e.Line || g.Position.StartLinePosition != e.Col {
						return pbt.Fail("%s: creation of %s is written at %d:%d, recorded at %d:%d", where, e.Name, e.Line, e.Col, g.Position.StartLine, g.Position.StartLinePosition)
					}
					continue
				}
				if g.Type == "CreatorClass" || g.FunctionName != e.Name {
					return pbt.Fail("%s: call #%d should be the invocation of %s at %d:%d, recorded %+v\nrecorded: %s\nwritten:  %s\n%s", where, k, e.Name, e.Line, e.Col, g, renderCalls(got), renderEvents(f.Events), body(lines, f))
				}
				if g.Position.StartLine != e.Line {
					return pbt.Fail("%s: invocation of %s is written on line %d, recorded on line %d", where, e.Name, e.Line, g.Position.StartLine)
				}
				l := []rune(lines[e.Line-1])
				a, b := g.Position.StartLinePosition, g.Position.StopLinePosition
				if a < 0 || b > len(l) || a > b || string(l[a:b]) != e.Name {
					sel := "<out of range>"
					if a >= 0 && b <= len(l) && a <= b {
						sel = string(l[a:b])
					}
					return pbt.Fail("%s: invocation of %s on line %d: recorded columns [%d,%d) select %q, not the callee identifier\nline: %q", where, e.Name, e.Line, a, b, sel, lines[e.Line-1])
				}
				if e.Resolve {
					resolved++
					if g.Package != e.ExpPkg || g.NodeName != e.ExpNode {
						return pbt.Fail("%s: invocation of %s at %d:%d (receiver kind %s) must be recorded against %s.%s, recorded against package %q node %q\n%s", where, e.Name, e.Line, e.Col, e.Recv, e.ExpPkg, e.ExpNode, g.Package, g.NodeName, body(lines, f))
					}
				}
			}
		}
	}
	for k := range kinds {
		v.Classes = append(v.Classes, "recv_"+k)
	}
	for k := range shapes {
		v.Classes = append(v.Classes, k)
	}
	sort.Strings(v.Classes)
	if sameLine {
		v.Classes = append(v.Classes, "two_invocations_on_one_line")
	}
	if c.CLI > 0 {
		v.Classes = append(v.Classes, "cli_spelling_"+strings.TrimSpace("analysis "+strings.Join(cliSpellings[c.CLI-1], " ")))
	}
	if resolved > 0 {
		v.Classes = append(v.Classes, "resolution_asserted")
	}
	v.NonTrivial = (total >= 3 && len(kinds) >= 2) || sameLine
	v.Canon = strings.Join(canon, ",")
	return v
}

// nameLabels classifies an invocation by what else its callee name denotes in the project: labels
// only, computed from the generator's ground truth (nothing here is asserted).
func nameLabels(p jgen.Project, ui int, f jgen.FuncTruth, e jgen.Event) []string {
	u := p.Units[ui]
	if e.Kind != "call" {
		if !isASCII(e.Name) {
			return []string{"created_type_with_non_ascii_letter"}
		}
		return nil
	}
	out := spellingLabels(e.Name)
	if e.Resolve && e.Recv != "implicit" {
		out = append(out, receiverTypeLabels(p, u, e)...)
	}
	return append(out, calleeLabels(p, ui, f, e)...)
}

func isASCII(s string) bool {
	for _, r := range s {
		if r > 127 {
			return false
		}
	}
	return true
}

func spellingLabels(callee string) []string {
	var out []string
	if !isASCII(callee) {
		out = append(out, "callee_with_non_ascii_letter")
	}
	if strings.ContainsAny(callee, "$_") {
		out = append(out, "callee_with_dollar_or_underscore")
	}
	return out
}

// receiverTypeLabels classifies the declared class of a field / parameter / local receiver.
func receiverTypeLabels(p jgen.Project, u jgen.UnitTruth, e jgen.Event) []string {
	var out []string
	if e.ExpPkg == u.Pkg && e.ExpNode == u.Name {
		out = append(out, "receiver_variable_of_the_enclosing_class")
	} else if strings.EqualFold(e.ExpNode, u.Name) {
		out = append(out, "receiver_class_named_like_the_enclosing_class_in_another_case")
	}
	for _, o := range p.Units {
		if o.Name == e.ExpNode && o.Pkg != e.ExpPkg {
			if e.ExpPkg == u.Pkg {
				out = append(out, "receiver_class_of_the_own_package_has_a_namesake_in_another_package")
			} else {
				out = append(out, "receiver_class_imported_has_a_namesake_in_another_package")
			}
			break
		}
	}
	for _, f := range u.Features {
		if f == "wildcard_only:"+e.ExpPkg+"."+e.ExpNode {
			out = append(out, "receiver_class_reached_through_an_on_demand_import_only")
		}
	}
	out = append(out, namesakeImportLabels(p, u, e)...)
	if e.ExpPkg == "" {
		out = append(out, "receiver_class_of_the_unnamed_package")
	}
	return out
}

// namesakeImportLabels classifies the declared class of a field / parameter / local receiver by what the
// imports of the file say about its namesakes: read off the import lines and the classes of the project.
func namesakeImportLabels(p jgen.Project, u jgen.UnitTruth, e jgen.Event) []string {
	single, onDemand, staticOnDemand := false, map[string]bool{}, map[string]bool{}
	for _, im := range u.Imports {
		switch {
		case im.Static:
			if im.Wildcard {
				staticOnDemand[im.Text] = true
			}
		case im.Wildcard:
			onDemand[im.Text] = true
		case im.Text == e.ExpPkg+"."+e.ExpNode:
			single = true
		}
	}
	inOwnPkg, inOnDemand, inOnDemandOtherCase, elsewhere, membersImported := false, 0, false, false, false
	for _, o := range p.Units {
		if o.Pkg == e.ExpPkg {
			continue
		}
		if o.Name == e.ExpNode && staticOnDemand[o.FullName()] {
			membersImported = true
		}
		if o.Name != e.ExpNode {
			if strings.EqualFold(o.Name, e.ExpNode) && onDemand[o.Pkg] {
				inOnDemandOtherCase = true
			}
			continue
		}
		switch {
		case o.Pkg == u.Pkg:
			inOwnPkg = true
		case onDemand[o.Pkg]:
			inOnDemand++
		default:
			elsewhere = true
		}
	}
	var out []string
	self := e.ExpPkg == u.Pkg && e.ExpNode == u.Name
	switch {
	case self && inOnDemand > 0:
		out = append(out, "receiver_variable_of_the_enclosing_class_which_has_a_namesake_in_a_package_imported_on_demand")
	case self:
	case e.ExpPkg == u.Pkg && inOnDemand > 0:
		out = append(out, "receiver_class_of_the_own_package_has_a_namesake_in_a_package_imported_on_demand")
		if inOnDemand > 1 {
			out = append(out, "receiver_class_of_the_own_package_has_namesakes_in_two_packages_imported_on_demand")
		}
	case e.ExpPkg == u.Pkg:
	case single:
		if inOwnPkg {
			out = append(out, "receiver_class_of_a_single_type_import_has_a_namesake_in_the_own_package")
		}
		if inOnDemand > 0 {
			out = append(out, "receiver_class_of_a_single_type_import_has_a_namesake_in_a_package_imported_on_demand")
		}
	case onDemand[e.ExpPkg] && elsewhere:
		out = append(out, "receiver_class_reached_through_an_on_demand_import_only_has_a_namesake_in_a_package_not_imported")
	}
	if membersImported {
		out = append(out, "receiver_class_has_a_namesake_whose_static_members_are_imported_on_demand")
	}
	if inOnDemandOtherCase && (self || e.ExpPkg == u.Pkg || single) {
		out = append(out, "receiver_class_has_a_namesake_in_another_case_in_a_package_imported_on_demand")
	}
	return out
}

// unitLabels classifies the names of the classes of the project as seen from unit ui.
func unitLabels(p jgen.Project, ui int) []string {
	var out []string
	u := p.Units[ui]
	for oi, o := range p.Units {
		if oi == ui {
			continue
		}
		switch {
		case o.Name == u.Name:
			out = append(out, "class_with_a_namesake_in_another_package")
		case strings.EqualFold(o.Name, u.Name):
			out = append(out, "class_named_like_another_one_in_another_case")
		}
	}
	return out
}

func calleeLabels(p jgen.Project, ui int, f jgen.FuncTruth, e jgen.Event) []string {
	u := p.Units[ui]
	ownEarlier, ownLater, ownSelf := false, false, false
	for _, g := range u.Funcs {
		if g.Name == e.Name && !g.IsCtor {
			switch {
			case g.DeclLine == f.DeclLine && g.NameCol == f.NameCol:
				ownSelf = true
			case g.DeclLine > f.DeclLine || g.DeclLine == f.DeclLine && g.NameCol > f.NameCol:
				ownLater = true
			default:
				ownEarlier = true
			}
		}
	}
	var out []string
	if e.Recv != "implicit" {
		if (ownEarlier || ownLater || ownSelf) && e.Resolve {
			out = append(out, "variable_receiver_callee_is_also_an_own_method")
		}
		return out
	}
	if ownLater {
		out = append(out, "implicit_callee_declared_after_the_caller")
	}
	if ownEarlier {
		out = append(out, "implicit_callee_declared_before_the_caller")
	}
	if ownSelf {
		out = append(out, "implicit_callee_is_the_caller")
	}
	for oi, o := range p.Units {
		if oi == ui {
			continue
		}
		declares := false
		for _, g := range o.Funcs {
			if g.Name == e.Name && !g.IsCtor {
				declares = true
			}
		}
		if !declares {
			continue
		}
		rel := "unrelated_class"
		if o.Pkg == u.Pkg {
			rel = "same_package_class"
		}
		for _, im := range u.Imports {
			switch {
			case im.Text == o.FullName() && !im.Static:
				rel = "imported_class"
			case im.Text == o.FullName() && im.Static && im.Wildcard:
				out = append(out, "implicit_callee_also_declared_by_class_statically_imported_on_demand")
			}
		}
		if u.ExtendsFull == o.FullName() {
			rel = "superclass"
		}
		for _, in := range u.Implements {
			if in == o.Name {
				rel = "implemented_interface"
			}
		}
		out = append(out, "implicit_callee_also_declared_by_"+rel)
		if ownLater && !ownEarlier && rel == "imported_class" {
			out = append(out, "implicit_callee_declared_only_later_and_by_imported_class")
		}
	}
	return out
}

func renderCalls(cs []core_domain.CodeCall) string {
	var out []string
	for _, c := range cs {
		if c.Type == "CreatorClass" {
			out = append(out, fmt.Sprintf("new %s@%d:%d", c.NodeName, c.Position.StartLine, c.Position.StartLinePosition))
		} else {
			out = append(out, fmt.Sprintf("%s@%d:%d", c.FunctionName, c.Position.StartLine, c.Position.StartLinePosition))
		}
	}
	return strings.Join(out, " ")
}

func renderEvents(es []jgen.Event) string {
	var out []string
	for _, e := range es {
		if e.Kind == "new" {
			out = append(out, fmt.Sprintf("new %s@%d:%d", e.Name, e.Line, e.Col))
		} else {
			out = append(out, fmt.Sprintf("%s@%d:%d", e.Name, e.Line, e.Col))
		}
	}
	return strings.Join(out, " ")
}

func body(lines []string, f jgen.FuncTruth) string {
	a, b := f.DeclLine-1, f.EndLine
	if b > len(lines) {
		b = len(lines)
	}
	var sb strings.Builder
	for i := a; i < b; i++ {
		fmt.Fprintf(&sb, "%4d| %s\n", i+1, lines[i])
	}
	return sb.String()
}

var _ = filepath.Join

func init() {
	pbt.SetProperty("C02")
	jgen.SetExcluded(pbt.Excluded)
	pbt.Describe("rapid-generated conventional Java projects (jgen, 1-4 units) whose method and constructor bodies hold 0-15 statements (local declarations, assignments, if/else, for, for-each, while, switch, try/catch/finally, return, expression statements) nested up to depth 3; enhanced for statements over project classes, primitives (int, long, char, double), arrays (int[], String[]), String / Object / Integer and List<String> elements, with or without `final`; classic for statements whose loop variable is an int or a local variable of a project class declared in the header (for (Node n = first; n != null; n = n.next()), called in the header and the body, and in the scoped_names sub-check possibly named like a field it shadows inside the loop only); bodies of if / else / for / for-each / while / do written as a block or as a single statement without braces on the same or the next line (a call, an assignment or another loop / branch, hence `else if` chains), with invocations of every receiver kind (implicit, this, field, this.field, parameter, local, for-each variable, static, chained, on a fresh object, lambda body), `new` expressions, several per line, arguments over several lines, any indentation (blanks or tabs), string literals and comments with multi-byte characters in front of call sites; method names may be shared between the classes of a project, so that the callee of an unqualified call (declared before the caller, after it, or the caller itself) may also be declared by a class the file imports, by a class of the same package, by the project superclass or an implemented interface, and the callee of a call on a variable may also be a method of the enclosing class; files may carry static imports of project classes (`import static pkg.P.*;`, also as a mere decoy next to own methods named like static methods of P, and `import static pkg.P.m;`) and unqualified calls of the static methods so imported and of methods inherited from the project superclass (receiver kinds staticimport and inherited). "+
		"Widened by the checklist audit: method, variable and class names with `_`, `$` (not in class names) and letters outside ASCII, packages with digits and underscores; a class may be named like a class of another package in another case (Order7 / ORDER7) and refer to it; two classes may bear one simple name in two packages (referred to from the own package, or through a single-type import where the own package has no such class), a third class of the package of one of them referring to its package mate; a project class of another package may be reached through an on-demand import of its package only (or next to its single-type import), among unrelated on-demand imports; the classes of one package may live in the unnamed package (no package declaration) when nothing refers to that package by name; files may be written with CR LF line ends; a class may hold a field of its own type, hence parameters, locals, loop variables, creations and static calls of the enclosing class; fields of project classes may be annotated (@Autowired, @Resource(name = \"x\") on the same or the line before), static / transient, and declared two to a declaration; a local variable may be initialised with an object of another class than its declared one, and a field / parameter / local of class type may be assigned a fresh object of any project class (`x = new T();`, `this.x = new T();`), also right before a call on it; anonymous classes written as arguments have one or two methods, on one line or over several, with creations, local declarations with a call on them, and calls on the fields, parameters and locals of the enclosing method inside them (all of them call sites of the enclosing function); a group of a switch may declare a local variable of a project class, which ends with the switch; lambdas may have a parameter typed with a project class (`(Foo x) -> x.m()`); in the scoped_names sub-check both may be named like a field of another class, which is called right after the switch / lambda; a blank or a comment may stand between a callee or created type and its `(`, two blanks, a comment or a line end between `new` and the type; generic creations (`new ArrayList<>()`, `new ArrayList<String>(n)`); return statements that carry an invocation or creation and early returns at the end of nested blocks; default and static methods of interfaces with bodies; calls on a static field of a library class (System.out.println(..), System.err.printf(..), java.lang.System.out.println(..): receiver kind fieldchain, name/position/order only); functions with 17-64 call sites occur regularly. Widened after the fifth seed batch (imports that mention a namesake): two or three classes bear one simple name more often, and a further class of the project may refer to any one of them from wherever it lives; the file that uses such a name may import on demand the packages that hold the namesakes (`import com.other.*;`) when the name means the class the file declares or a class of the file's own package (which hide every class imported on demand, JLS 6.4.1, so one or two such imports), or a class the file imports by a single-type import (which hides the namesake of the own package as well as those imported on demand); a class reached through an on-demand import only may have namesakes in packages the file does not import; the same on-demand imports next to a name that differs from a class of the imported package only in case; a file may import on demand the static members of a namesake (`import static com.other.Audit.*;`, which brings methods into scope and not the class, so the name keeps its meaning; none of these methods is called). A loop, branch, switch, try or synchronized statement is followed more often than chance has it by a call on a local variable of class type declared before it (still in sight, still of its declared type). The cli sub-check runs the same projects through `coca analysis` (directory named by -p DIR, --path DIR, --path=DIR, -p ., the working directory, or next to -i) and reads the model from coca_reporter/deps.json. "+
		"Oracle: the ordered list of (kind, name, line, column) recorded by the printer for each function; recorded calls must match it one to one in order, each recorded column range must select the callee identifier (in characters), creations must carry the created type, and for implicit / field / parameter / local receivers whose declared type is a plain project or imported class the recorded package and node must be that class. Non-trivial = >= 3 invocations of >= 2 receiver kinds in the project, or two invocations on one line; distinct = hash of the (kind, receiver kind, column) sequence.",
		"variable names are unique per project, so that a receiver name denotes one declaration (name reuse across files is C07's domain)",
		"resolution is asserted only for the receiver kinds the statement lists; this., for-each, lambda, static and chained receivers are checked for name/position/order only",
		"array creations (`new int[3]`) are written but are not object creations and must not be recorded; arrays of classes (`new Foo[3]`, `new String[] {..}`) are not written: whether they count as creations of the element type is left open by the statement",
		"a variable declared in the header of a classic for is a local variable (resolution asserted, class label recv_local_declared_in_forinit); the variable of an enhanced for keeps the receiver kind for-each (name/position/order only)",
		"a statement without braces is never a declaration (Java forbids it)",
		"unqualified calls of inherited and statically imported methods have no implicit receiver of the enclosing type in the statement's sense: name/position/order only. A method is imported with `import static pkg.P.m;`, or called through an on-demand static import, only when the class neither declares nor inherits from its project superclass a method of that name (which would hide the imported one) and no second static import brings the same name in (the call would be ambiguous)",
		"the declared type of a variable is what a call on it is recorded against, whatever object it was initialised with or assigned (the statement speaks of the declared type)",
		"a simple class name means what the language says it means in the file: the enclosing class itself, else the class of a single-type import, else the class of the own package, else the class of a package imported on demand; names are case-sensitive. A name that two packages imported on demand hold is written only where the class itself, a single-type import or the own package decides it (otherwise it is ambiguous and the file does not compile)",
		"the call sites inside the methods of an anonymous class written in a body are call sites of that body (as the plain anonymous classes of the first version already were); anonymous classes are not nested in one another and their methods take no parameters",
		"not written, because the statement leaves their expected record open: explicit constructor calls `this(..)` / `super(..)`, method references, creations with a qualified type name (`new java.util.ArrayList<>()`, `new Outer.Inner()`), explicit type arguments on a call (`Util.<T>make()`), nested and several top-level types per file, initializer blocks; receivers declared after the method that uses them are outside the quantifier (\"declared at any earlier point\")")
	pbt.Register("callsites", 400, 3000, gen, check)
	// the same oracle on units whose methods reuse parameter / local names with different types
	// and shadow fields: a receiver name denotes the declaration visible at the call site
	pbt.Register("scoped_names", 300, 2000, genScoped, check)
	// the same oracle on the deps.json that the command line writes
	pbt.Register("cli", 60, 300, genCLI, check)
}

func TestProp(t *testing.T)   { pbt.Main(t) }
func TestReplay(t *testing.T) { pbt.Replay(t) }
