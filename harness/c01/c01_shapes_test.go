// Shapes added by the checklist audit: other layouts of the same token sequence, other spellings of the
// root .gitignore, directories and files whose names resemble the special ones, other ways of naming the
// analysed directory. Every change keeps the recorded ground truth valid (a moved file and a re-included
// file get their path / role corrected).
package c01

import (
	"path"
	"strings"
	"unicode"
	"unicode/utf8"

	"pgregory.net/rapid"

	"verif/internal/jgen"
)

// ---------------------------------------------------------------------------------------
// layout of a unit: the same tokens, other white space and comments between them

type jtok struct {
	text  string
	kind  byte // w word/number/annotation name, s string or char literal, c block comment, l line comment, o operator run, p punctuation
	space bool // white space stood in front of it
}

func isWordRune(r rune) bool {
	return r == '_' || r == '$' || unicode.IsLetter(r) || unicode.IsDigit(r)
}

const opChars = "+-*/%=!<>&|^~?:"

// javaTokens splits a unit into its tokens. Runs of operator characters stay together (so `>>`, `->`, `::`,
// `<?>` are never broken up), `@` stays with the name behind it, a number keeps its fraction.
func javaTokens(text string) []jtok {
	var out []jtok
	space := false
	for i := 0; i < len(text); {
		r, n := utf8.DecodeRuneInString(text[i:])
		switch {
		case r == ' ' || r == '\t' || r == '\n' || r == '\r' || r == '\f':
			space = true
			i += n
			continue
		case strings.HasPrefix(text[i:], "//"):
			j := strings.IndexByte(text[i:], '\n')
			if j < 0 {
				j = len(text) - i
			}
			out = append(out, jtok{strings.TrimRight(text[i:i+j], "\r"), 'l', space})
			i += j
		case strings.HasPrefix(text[i:], "/*"):
			j := strings.Index(text[i+2:], "*/")
			if j < 0 {
				return nil
			}
			out = append(out, jtok{text[i : i+2+j+2], 'c', space})
			i += 2 + j + 2
		case r == '"' || r == '\'':
			j := i + 1
			for j < len(text) && text[j] != byte(r) {
				if text[j] == '\\' {
					j++
				}
				if j < len(text) && text[j] == '\n' {
					return nil
				}
				j++
			}
			if j >= len(text) {
				return nil
			}
			out = append(out, jtok{text[i : j+1], 's', space})
			i = j + 1
		case r == '@' || isWordRune(r):
			j := i + n
			digit := unicode.IsDigit(r)
			for j < len(text) {
				r2, n2 := utf8.DecodeRuneInString(text[j:])
				if isWordRune(r2) {
					j += n2
					continue
				}
				if digit && r2 == '.' && j+1 < len(text) && text[j+1] >= '0' && text[j+1] <= '9' {
					j += 2
					continue
				}
				break
			}
			out = append(out, jtok{text[i:j], 'w', space})
			i = j
		case strings.ContainsRune(opChars, r):
			j := i
			for j < len(text) && strings.IndexByte(opChars, text[j]) >= 0 && !strings.HasPrefix(text[j:], "//") && !strings.HasPrefix(text[j:], "/*") {
				j++
			}
			out = append(out, jtok{text[i:j], 'o', space})
			i = j
		default:
			out = append(out, jtok{text[i : i+n], 'p', space})
			i += n
		}
		space = false
	}
	return out
}

// layoutStyle says what to write between the tokens.
type layoutStyle struct {
	Seps     []string // used in turn where white space is needed
	Optional int      // 0: nothing where no white space is needed; k: the next separator at every k-th such place
	Lead     string
	Trail    string
}

// separators between tokens; the first is the plain one. Comments among them carry text that looks like
// declarations, which is plain content there.
var layoutSeps = []string{" ", "  ", "\t", "\n", "\n\n", "\n        ", " \t ", "\t\t", "\r\n", "\f", "\n\t", "      ",
	" /* c */ ", "/**/", " // note\n", " /* void ghost() { } */ ", " // class Ghost {\n", " /* } */ ", " /* package other.pkg; */ ",
	" // @Override public int size() { return 0; }\n", "\n/**\n * @param x the {@code int foo(int x)} one\n */\n", " /* interface Phantom { void m(); } */ "}

var layoutLeads = []string{"", "\n", "\n\n\n", "  ", "\t\n", "/* first */ ", "// first line\n", "/** class Early { } */\n"}
var layoutTrails = []string{"", "\n\n\n", "   ", "\n\t\n", " // end", "\n/* eof */", "\n// class Late { void m() { } }\n", "\n\n\n\n\n\n\n\n"}

func drawLayoutStyle(t *rapid.T) layoutStyle {
	return layoutStyle{
		Seps:     rapid.SliceOfN(rapid.SampledFrom(layoutSeps), 1, 5).Draw(t, "layoutSeps"),
		Optional: rapid.IntRange(0, 4).Draw(t, "layoutOptional"),
		Lead:     rapid.SampledFrom(layoutLeads).Draw(t, "layoutLead"),
		Trail:    rapid.SampledFrom(layoutTrails).Draw(t, "layoutTrail"),
	}
}

// relayout writes the tokens of text with the separators of the style. "" = text has a token the splitter
// does not know (never for generated units).
func relayout(text string, st layoutStyle) string {
	toks := javaTokens(text)
	if len(toks) == 0 {
		return ""
	}
	var sb strings.Builder
	sb.WriteString(st.Lead)
	n, opt := 0, 0
	for i, tk := range toks {
		if i > 0 {
			prev := toks[i-1]
			need := tk.space || prev.kind == 'l'
			// never glue what was apart; a place without white space takes some only where every Java reader
			// allows it: not inside `.5`-like texts, which the splitter keeps apart from the dot
			sep := ""
			if need {
				sep = st.Seps[n%len(st.Seps)]
				n++
			} else if st.Optional > 0 && !(prev.text == "." && tk.kind == 'w' && tk.text[0] >= '0' && tk.text[0] <= '9') {
				opt++
				if opt%st.Optional == 0 {
					sep = st.Seps[n%len(st.Seps)]
					n++
				}
			}
			if prev.kind == 'l' && !strings.HasPrefix(sep, "\n") && !strings.HasPrefix(sep, "\r\n") {
				sep = "\n" + sep
			}
			if sep == "/**/" && need {
				sep = " /**/ "
			}
			sb.WriteString(sep)
		}
		sb.WriteString(tk.text)
	}
	if toks[len(toks)-1].kind == 'l' && !strings.HasPrefix(st.Trail, "\n") {
		sb.WriteString("\n")
	}
	sb.WriteString(st.Trail)
	return sb.String()
}

// layoutLabels names what a style exercises.
func layoutLabels(st layoutStyle) []string {
	out := []string{"relayout"}
	all := strings.Join(st.Seps, "")
	if strings.Contains(all, "\t") {
		out = append(out, "layout_tabs_between_tokens")
	}
	if strings.Contains(all, "\n") {
		out = append(out, "layout_declaration_over_several_lines")
	}
	if strings.Contains(all, "/*") || strings.Contains(all, "//") {
		out = append(out, "layout_comment_between_tokens")
	}
	if strings.Contains(all, "ghost") || strings.Contains(all, "Ghost") || strings.Contains(all, "Phantom") || strings.Contains(all, "other.pkg") || strings.Contains(all, "size()") || strings.Contains(all, "foo(") ||
		strings.Contains(st.Lead+st.Trail, "class ") {
		out = append(out, "declaration_text_inside_comment")
	}
	if st.Optional > 0 {
		out = append(out, "layout_blanks_inside_brackets")
	}
	if st.Lead != "" {
		out = append(out, "layout_text_before_package")
	}
	if st.Trail != "" {
		out = append(out, "layout_text_after_type")
	}
	return out
}

// ---------------------------------------------------------------------------------------
// the root .gitignore

// gitignoreNoise are lines that ignore nothing of a generated tree: comments that look like patterns,
// patterns for files a Java project usually ignores, an escaped `#`.
var gitignoreNoise = []string{"# *.java", "#src/", "", "*.class", "*.log", ".idea/", "out/", "\\#notes#", "# " + "!*.java", "*.iml", "   ", "#"}

// decoyDirs are directories a main file may be moved under: none is ignored, none is a test directory.
// %d stands for the ignored directory of the tree.
var decoyDirs = []string{"%d2", "x%d", "%d_", "my.%d", "target", "build", "node_modules", ".hidden", "Sample.java", "vendor/lib.java", "javatest", "attic/Old.java"}

// tweakTree applies the c01-local variants to a generated project; it returns the labels of what it did.
func tweakTree(t *rapid.T, p *jgen.Project) []string {
	var labels []string
	add := func(l string) { labels = append(labels, l) }
	gi := -1
	for i, f := range p.Files {
		if f.Path == ".gitignore" {
			gi = i
		}
	}
	ignoreDir := ""
	if gi >= 0 {
		for _, l := range strings.Split(p.Files[gi].Text, "\n") {
			switch {
			case strings.HasPrefix(l, "*") && strings.HasSuffix(l, ".java"):
			case l != "" && !strings.HasPrefix(l, "#"):
				ignoreDir = strings.Trim(l, "/")
			}
		}
	}
	taken := map[string]bool{}
	for _, f := range p.Files {
		taken[f.Path] = true
	}
	// a main file under a directory whose name resembles the ignored one, a build directory, a Java file, a test directory
	if len(p.Units) > 0 && rapid.IntRange(0, 4).Draw(t, "decoyDir") == 4 {
		i := rapid.IntRange(0, len(p.Units)-1).Draw(t, "decoyDirUnit")
		d := rapid.SampledFrom(decoyDirs).Draw(t, "decoyDirName")
		if strings.Contains(d, "%d") {
			if ignoreDir == "" {
				d = ""
			} else {
				d = strings.ReplaceAll(d, "%d", ignoreDir)
			}
		}
		if np := d + "/" + p.Units[i].Path; d != "" && p.Units[i].Role == "main" && !taken[np] {
			delete(taken, p.Units[i].Path)
			taken[np] = true
			p.Units[i].Path, p.Files[i].Path = np, np
			add("main_file_under_decoy_directory")
			if strings.Contains(d, ignoreDir) && ignoreDir != "" {
				add("main_dir_resembles_ignored_dir")
			}
			if strings.Contains(d, ".java") {
				add("directory_named_like_java_file")
			}
		}
	}
	if gi >= 0 {
		var dirLine, sufLine string
		var rest []string
		for _, l := range strings.Split(strings.TrimRight(p.Files[gi].Text, "\n"), "\n") {
			switch {
			case strings.HasPrefix(l, "*") && strings.HasSuffix(l, ".java"):
				sufLine = l
			case l != "" && !strings.HasPrefix(l, "#"):
				dirLine = l
			default:
				rest = append(rest, l)
			}
		}
		var lines []string
		lines = append(lines, rest...)
		// the directory pattern in another spelling (only the unanchored form has equivalents)
		nested := false // the ignored directory lies (also) below the root: `dir/**` is anchored at the root for git
		for _, u := range p.Units {
			if strings.Contains(u.Path, "/"+ignoreDir+"/") {
				nested = true
			}
		}
		if dirLine == ignoreDir+"/" {
			form := rapid.IntRange(0, 5).Draw(t, "dirPatternForm")
			if form == 4 && nested {
				form = 3
			}
			switch form {
			case 3:
				dirLine = "**/" + ignoreDir + "/"
				add("gitignore_double_star_pattern")
			case 4:
				dirLine = ignoreDir + "/**"
				add("gitignore_double_star_pattern")
			case 5:
				dirLine = ignoreDir + "/   "
				add("gitignore_trailing_blanks")
			}
		}
		lines = append(lines, dirLine)
		// the suffix pattern: as it is, with **/, or replaced by the names / paths of the files it ignores
		var bySuffix []int
		for i, u := range p.Units {
			if u.Role == "ignored" && !strings.HasPrefix(u.Path, ignoreDir+"/") && !strings.Contains(u.Path, "/"+ignoreDir+"/") {
				bySuffix = append(bySuffix, i)
			}
		}
		switch form := rapid.IntRange(0, 7).Draw(t, "suffixPatternForm"); {
		case form == 4:
			lines = append(lines, "**/"+sufLine)
			add("gitignore_double_star_pattern")
		case form >= 5 && len(bySuffix) > 0:
			for _, i := range bySuffix {
				switch form {
				case 5:
					lines = append(lines, path.Base(p.Units[i].Path))
				case 6:
					lines = append(lines, p.Units[i].Path)
				default:
					lines = append(lines, "/"+p.Units[i].Path)
				}
			}
			add("gitignore_names_single_file")
		default:
			lines = append(lines, sufLine)
			// a file the glob ignores is included again by a later negated pattern: it is an ordinary main file
			if len(bySuffix) > 0 && rapid.IntRange(0, 2).Draw(t, "negation") == 2 {
				i := bySuffix[rapid.IntRange(0, len(bySuffix)-1).Draw(t, "negationUnit")]
				neg := "!" + path.Base(p.Units[i].Path)
				if rapid.Bool().Draw(t, "negationByPath") {
					neg = "!/" + p.Units[i].Path
				}
				lines = append(lines, neg)
				p.Units[i].Role = "main"
				add("gitignore_negated_pattern_reincludes_file")
			}
		}
		p.Files[gi].Text = strings.Join(lines, "\n") + "\n"
	}
	// lines that ignore nothing; a .gitignore that ignores nothing at all
	if gi < 0 && rapid.IntRange(0, 3).Draw(t, "emptyGitignore") == 3 {
		p.Files = append(p.Files, jgen.File{Path: ".gitignore", Text: ""})
		gi = len(p.Files) - 1
		add("gitignore_without_matching_pattern")
	}
	if gi >= 0 {
		text := p.Files[gi].Text
		if k := rapid.IntRange(0, 3).Draw(t, "gitignoreNoiseLines"); k > 0 {
			noise := rapid.SliceOfN(rapid.SampledFrom(gitignoreNoise), 1, 4).Draw(t, "gitignoreNoiseText")
			if k == 1 {
				text += strings.Join(noise, "\n") + "\n"
			} else {
				text = strings.Join(noise, "\n") + "\n" + text
			}
			add("gitignore_comment_and_unrelated_lines")
		}
		switch rapid.IntRange(0, 5).Draw(t, "gitignoreLineEnds") {
		case 4:
			text = strings.ReplaceAll(text, "\n", "\r\n")
			add("gitignore_crlf")
		case 5:
			text = strings.TrimSuffix(text, "\n")
			add("gitignore_no_final_newline")
		}
		p.Files[gi].Text = text
	}
	// files that are not Java files although their names come close, a directory named like a Java file
	if rapid.IntRange(0, 4).Draw(t, "lookalikeFiles") == 4 {
		for _, name := range rapid.SliceOfNDistinct(rapid.SampledFrom([]string{"Foojava", "notes.java.txt", "A.jav", "docs/Sample.java/README.txt", "Legacy.java/inner/Old.txt", "B.java~", "C.java.orig", "java", "D.jsp", "E.javac"}), 1, 3, func(s string) string { return s }).Draw(t, "lookalikeNames") {
			if !taken[name] {
				taken[name] = true
				p.Files = append(p.Files, jgen.File{Path: name, Text: "package com.acme;\npublic class Lookalike { public void notJava() { } }\n"})
				add("lookalike_non_java_file")
				if strings.Contains(name, ".java/") {
					add("directory_named_like_java_file")
				}
			}
		}
	}
	return labels
}

// rootNames are names of the analysed directory; %d / %s stand for the ignored directory / suffix of the tree.
var rootNames = []string{"my proj", "проект", "proj.java", "%d", "X%s.java", "src", "OrderTest", "a/b/c/d/e/f/g/h/proj", "proj-1.0_RC"}
