// C01 — every declared Java type and method appears exactly once in the code model.
package c01

import (
	"encoding/json"
	"fmt"
	"os"
	"path/filepath"
	"regexp"
	"sort"
	"strings"
	"testing"

	"github.com/modernizing/coca/pkg/application/analysis/javaapp"
	"github.com/modernizing/coca/pkg/domain/core_domain"
	"github.com/modernizing/coca/pkg/infrastructure/ast/ast_java"
	"github.com/modernizing/coca/pkg/infrastructure/ast/ast_java/java_identify"
	"pgregory.net/rapid"

	"verif/internal/cli"
	"verif/internal/jgen"
	"verif/internal/pbt"
)

type Case struct {
	Project jgen.Project `json:"project"`
	CLI     bool         `json:"cli"`
	// the zero values of the following fields are the plain variant
	Root     string        `json:"root,omitempty"`     // name of the analysed directory below the scratch directory ("" = proj)
	Slash    bool          `json:"slash,omitempty"`    // the directory is handed to AnalysisPath with a trailing separator
	CLIForm  int           `json:"cliForm,omitempty"`  // spelling of the command line (cliForms)
	CLIAgain bool          `json:"cliAgain,omitempty"` // `coca analysis` is run a second time with --identify=false (the identifier list of the first run)
	Twice    bool          `json:"twice,omitempty"`    // both passes are run twice in the process; the second result is judged as well
	Before   *jgen.Project `json:"before,omitempty"`   // another tree that is analysed first, in the same process and at the same path
	Shapes   []string      `json:"shapes,omitempty"`   // what the layout / tree variants of c01_shapes_test.go did (class labels)
}

// longFeature: the unit has one of the long-line shapes, whose physical lines stay as they are.
func longFeature(u jgen.UnitTruth) bool {
	for _, ft := range u.Features {
		switch ft {
		case "flat_unit", "flat_member", "wide_parameter_list", "long_comment", "long_literal":
			return true
		}
	}
	return false
}

func gen(t *rapid.T) Case {
	o := jgen.Opts{Layout: true, Interfaces: true, RichDecl: true, MaxUnits: 8, MultiByte: true, WordNames: true, WordDirs: true, ModuleLayout: true, LongLines: true, ManyMembers: true,
		Bodies: rapid.IntRange(0, 3).Draw(t, "bodies") == 0}
	// further dimensions, each behind its own draw (0 = as before)
	o.ExoticNames = rapid.IntRange(0, 2).Draw(t, "exoticNames") == 2
	o.KeywordNames = rapid.IntRange(0, 2).Draw(t, "keywordNames") == 2
	o.DeclForms = rapid.IntRange(0, 1).Draw(t, "declForms") == 1
	switch rapid.IntRange(0, 7).Draw(t, "nameSharing") {
	case 4, 3, 2:
		o.TwinNames = true
	case 5:
		o.WildcardProjectImports = true // never together with TwinNames: a name reached through a wildcard import has to be unique
	case 6, 7:
		// seventh seed batch: namesakes reached through on-demand imports, the way the rules of the language decide
		// them (jgen/namesake_imports.go): a superclass `Base` that means billing.Base in one file and shipping.Base
		// in another file of the same package, each through its own `import pkg.*;`
		o.TwinNames, o.WildcardProjectImports, o.NamesakeImports, o.TwinReferrers = true, true, true, true
	}
	o.ExtraImps = rapid.IntRange(0, 3).Draw(t, "extraImports") == 3
	o.SharedMethodNames = rapid.IntRange(0, 3).Draw(t, "sharedMethodNames") == 3
	if o.Bodies {
		o.Wide = rapid.Bool().Draw(t, "wideBodies")
		o.Loops = rapid.Bool().Draw(t, "loopBodies")
		o.ScopedReuse = rapid.Bool().Draw(t, "scopedReuse")
	}
	if rapid.IntRange(0, 14).Draw(t, "manyUnits") == 14 {
		o.MaxUnits = 36
	}
	p := jgen.GenProject(t, o)
	var shapes []string
	// the same tokens in another layout
	for i, u := range p.Units {
		if longFeature(u) || rapid.IntRange(0, 3).Draw(t, "relayout") != 3 {
			continue
		}
		st := drawLayoutStyle(t)
		if text := relayout(p.Files[i].Text, st); text != "" && len(jgen.SyntaxErrors(text)) == 0 {
			p.Files[i].Text = text
			shapes = append(shapes, layoutLabels(st)...)
		} else {
			shapes = append(shapes, "relayout_rejected")
		}
	}
	shapes = append(shapes, tweakTree(t, &p)...)
	// seventh seed batch: two files of one package whose superclass bears the same simple name and means another
	// class in each: neither a single-type import nor the own package provides it, each file reaches its class
	// through its own on-demand import (com.acme.billing.model.Base / com.acme.shipping.model.Base)
	if rapid.IntRange(0, 5).Draw(t, "wildcardSuperclassFamily") == 5 {
		prefix, ok := "", false
		for _, u := range p.Units {
			tail := strings.ReplaceAll(u.Pkg, ".", "/") + "/" + u.Name + ".java"
			if u.Role == "main" && u.Pkg != "" && strings.HasSuffix(u.Path, tail) {
				prefix, ok = strings.TrimSuffix(u.Path, tail), true
				break
			}
		}
		if ok {
			base := rapid.SampledFrom([]string{"WfBase", "Base9", "AbstractWfView"}).Draw(t, "wfBaseName")
			holders := []string{"wf.billing.model", "wf.shipping.model", "wf.returns.model"}[:rapid.IntRange(2, 3).Draw(t, "wfHolders")]
			viewPkg := rapid.SampledFrom([]string{"wf.web", "wf.web.views", "wf"}).Draw(t, "wfViewPkg")
			add := func(pkg, name, text, extRaw, extFull string) {
				path := prefix + strings.ReplaceAll(pkg, ".", "/") + "/" + name + ".java"
				n := len(p.Units)
				p.Files = append(p.Files[:n:n], append([]jgen.File{{Path: path, Text: text}}, p.Files[n:]...)...)
				p.Units = append(p.Units, jgen.UnitTruth{Path: path, Role: "main", Pkg: pkg, Name: name, Kind: "Class", ExtendsRaw: extRaw, ExtendsFull: extFull})
			}
			for _, h := range holders {
				add(h, base, "package "+h+";\n\npublic class "+base+" {\n}\n", "", "")
			}
			// the views, in an order of names that lets the walk meet them either way round
			order := rapid.Permutation([]string{"AView", "MView", "ZView"}[:len(holders)]).Draw(t, "wfViewOrder")
			for k, h := range holders {
				name := "Wf" + order[k]
				add(viewPkg, name, "package "+viewPkg+";\n\nimport "+h+".*;\n\npublic class "+name+" extends "+base+" {\n}\n", base, h+"."+base)
			}
			shapes = append(shapes, "same_simple_superclass_name_through_different_on_demand_imports")
		}
	}
	// eighth seed batch: overloads (and methods whose names end in digits) at places whose numbers read alike when they
	// are written one behind the other without a separator: `total` on line 4 with its name at column 18 and on line 41
	// at column 8 ("4"+"18" = "41"+"8"); `run1` on line 23 and `run12` on line 3 ("run1"+"23" = "run12"+"3"). A table
	// keyed by name, line and column must still hold an entry for each.
	if rapid.IntRange(0, 7).Draw(t, "placesThatReadAlike") == 7 {
		prefix, ok := "", false
		for _, u := range p.Units {
			tail := strings.ReplaceAll(u.Pkg, ".", "/") + "/" + u.Name + ".java"
			if u.Role == "main" && u.Pkg != "" && strings.HasSuffix(u.Path, tail) {
				prefix, ok = strings.TrimSuffix(u.Path, tail), true
				break
			}
		}
		if ok {
			a := rapid.IntRange(4, 9).Draw(t, "alikeLine")
			x := rapid.IntRange(1, 9).Draw(t, "alikeDigit")
			y := rapid.IntRange(4, 9).Draw(t, "alikeColumn")
			lineB := 10*a + x
			lines := map[int]string{1: "package wf.grid;", 2: "public class Grid {"}
			var funcs []jgen.FuncTruth
			put := func(line, col int, name string, params []jgen.Param) {
				var ps []string
				for _, q := range params {
					ps = append(ps, q.Type+" "+q.Name)
				}
				lines[line] = strings.Repeat(" ", col-4) + "int " + name + "(" + strings.Join(ps, ", ") + ") { return 0; }"
				funcs = append(funcs, jgen.FuncTruth{Name: name, ReturnType: "int", Params: params, DeclLine: line, NameLine: line, NameCol: col, EndLine: line})
			}
			// (a) line and column
			put(a, 10*x+y, "total", []jgen.Param{{Type: "int", Name: "first"}})
			put(lineB, y, "total", []jgen.Param{{Type: "int", Name: "first"}, {Type: "int", Name: "second"}})
			// (b) name and line: run1 on line 10*b+c, run1c on line b ... with b = 3 and c free of a's lines
			c2 := rapid.IntRange(0, 9).Draw(t, "alikeNameDigit")
			l1 := 30 + c2
			if lines[l1] == "" && lines[3] == "" {
				put(3, 8, fmt.Sprintf("run1%d", c2), nil)
				put(l1, 8, "run1", nil)
			}
			last := lineB
			if l1 > last {
				last = l1
			}
			var sb strings.Builder
			for l := 1; l <= last; l++ {
				sb.WriteString(lines[l] + "\n")
			}
			sb.WriteString("}\n")
			path := prefix + "wf/grid/Grid.java"
			n := len(p.Units)
			p.Files = append(p.Files[:n:n], append([]jgen.File{{Path: path, Text: sb.String()}}, p.Files[n:]...)...)
			p.Units = append(p.Units, jgen.UnitTruth{Path: path, Role: "main", Pkg: "wf.grid", Name: "Grid", Kind: "Class", Funcs: funcs})
			shapes = append(shapes, "members_at_places_whose_numbers_read_alike")
		}
	}
	// sixth seed batch: one fully qualified name declared by two files (the same class in two modules of a
	// multi-module build): each declaration has its own entry
	if rapid.IntRange(0, 5).Draw(t, "twinDeclaration") == 5 {
		gitignore := ""
		for _, f := range p.Files {
			if f.Path == ".gitignore" {
				gitignore = f.Text
			}
		}
		var mains []int
		for i, u := range p.Units {
			// (a main file that a negated pattern of the .gitignore brings back - XStub.java, XGen.java - is left alone:
			// its copy elsewhere is not named by that pattern and stays ignored)
			if u.Role == "main" && !longFeature(u) && !strings.HasSuffix(u.Name, "Stub") && !strings.HasSuffix(u.Name, "Gen") && !strings.Contains(gitignore, u.Name+".java") {
				mains = append(mains, i)
			}
		}
		if len(mains) > 0 {
			i := mains[rapid.IntRange(0, len(mains)-1).Draw(t, "twinUnit")]
			dir := rapid.SampledFrom([]string{"twin-module/", "zz_copy/", "a0/"}).Draw(t, "twinDir")
			u := p.Units[i]
			u.Path = dir + u.Path
			text := ""
			for _, f := range p.Files {
				if f.Path == p.Units[i].Path {
					text = f.Text
				}
			}
			if text != "" {
				// Files holds the Java files first, in the order of Units
				n := len(p.Units)
				p.Files = append(p.Files[:n], append([]jgen.File{{Path: u.Path, Text: text}}, p.Files[n:]...)...)
				p.Units = append(p.Units, u)
				shapes = append(shapes, "one_qualified_name_declared_by_two_files")
			}
		}
	}
	// some files end their lines with CR LF
	for i := range p.Files {
		if strings.HasSuffix(p.Files[i].Path, ".java") && rapid.IntRange(0, 7).Draw(t, "crlf") == 0 {
			p.Files[i].Text = strings.ReplaceAll(p.Files[i].Text, "\n", "\r\n")
		}
	}
	c := Case{Project: p, CLI: rapid.IntRange(0, 9).Draw(t, "cli") == 0}
	if rapid.IntRange(0, 3).Draw(t, "rootName") == 3 {
		name := rapid.SampledFrom(rootNames).Draw(t, "rootNameText")
		ignoreDir, ignoreSuffix := "", ""
		for _, f := range p.Files {
			if f.Path == ".gitignore" {
				for _, w := range []string{"gen_out", "skipme", "dist_tmp"} {
					if strings.Contains(f.Text, w) {
						ignoreDir = w
					}
				}
				for _, w := range []string{"Gen", "Stub"} {
					if strings.Contains(f.Text, w+".java") {
						ignoreSuffix = w
					}
				}
			}
		}
		if (!strings.Contains(name, "%d") || ignoreDir != "") && (!strings.Contains(name, "%s") || ignoreSuffix != "") {
			c.Root = strings.ReplaceAll(strings.ReplaceAll(name, "%d", ignoreDir), "%s", ignoreSuffix)
		}
	}
	c.Slash = rapid.IntRange(0, 5).Draw(t, "trailingSeparator") == 5
	if c.CLI {
		c.CLIForm = rapid.IntRange(0, len(cliForms)-1).Draw(t, "cliForm")
		c.CLIAgain = rapid.IntRange(0, 2).Draw(t, "cliAgain") == 2
	}
	switch rapid.IntRange(0, 9).Draw(t, "history") {
	case 8:
		c.Twice = true
	case 9:
		before := jgen.GenProject(t, jgen.Opts{Layout: true, Interfaces: true, RichDecl: true, MaxUnits: 3, ModuleLayout: true})
		c.Before = &before
	}
	seen := map[string]bool{}
	for _, l := range shapes {
		if !seen[l] {
			seen[l] = true
			c.Shapes = append(c.Shapes, l)
		}
	}
	sort.Strings(c.Shapes)
	return c
}

// cliForms are spellings of the command line. ABS is the absolute path of the analysed directory, REL its
// path relative to the working directory; "cwd" = the command runs inside the analysed directory.
var cliForms = [][]string{
	{"analysis", "-p", "ABS"},
	{"analysis", "--path", "ABS"},
	{"analysis", "--path=ABS"},
	{"analysis", "-p", "REL"},
	{"analysis", "-p", "./REL/"},
	{"cwd", "analysis"},
	{"analysis", "-i", "-p", "ABS"},
	{"analysis", "--identify=true", "--path", "ABS/"},
	{"cwd", "analysis", "--path=."},
}

func reset() {
	ast_java.VerifResetAstJava()
	java_identify.VerifResetJavaIdentify()
}

func nb(s string) string { return strings.Join(strings.Fields(s), "") }

func annKey(name string, kv [][2]string) string {
	var parts []string
	for _, p := range kv {
		parts = append(parts, nb(p[0])+"="+nb(p[1]))
	}
	return name + "(" + strings.Join(parts, ",") + ")"
}

func funcKey(name, ret string, ctor bool, params []jgen.Param, withParams bool) string {
	s := fmt.Sprintf("%s|%s|%v", name, nb(ret), ctor)
	if withParams {
		for _, p := range params {
			s += "|" + nb(p.Type) + " " + p.Name
		}
	}
	return s
}

// compare checks a model against the ground truth. pass is "identifier" or "full".
// dir is the analysed directory as it was named to the tool (cleaned): the source paths start with it.
// pass is "identifier" or "full"; note says which run it was (part of the messages only).
func compare(model []core_domain.CodeDataStruct, p jgen.Project, dir string, pass string, note string, qualified bool) string {
	full := pass != "identifier"
	pass += note
	byKey := map[string][]core_domain.CodeDataStruct{}
	for _, ds := range model {
		if ds.NodeName == "" {
			continue // unnamed entries are not covered by the statement
		}
		k := ds.Package + "." + ds.NodeName
		byKey[k] = append(byKey[k], ds)
	}
	expected := map[string]bool{}
	declaredBy := map[string]int{}
	for _, u := range p.Units {
		if u.Role == "main" {
			declaredBy[u.FullName()]++
		}
	}
	for _, u := range p.Units {
		if u.Role != "main" {
			continue
		}
		k := u.FullName()
		expected[k] = true
		got := byKey[k]
		if len(got) != declaredBy[k] {
			return fmt.Sprintf("%s pass: type %s declared in %s (and in %d files in all) has %d entries in the model, want exactly one per declaration", pass, k, u.Path, declaredBy[k], len(got))
		}
		ds := got[0]
		if declaredBy[k] > 1 {
			// the declarations of one name carry the same text here; the full pass tells them apart by their path
			found := !full
			for _, g := range got {
				if full && filepath.Clean(g.FilePath) == filepath.Join(dir, filepath.FromSlash(u.Path)) {
					ds, found = g, true
				}
			}
			if !found {
				return fmt.Sprintf("%s pass: none of the %d entries of type %s has the source path of its declaration in %s", pass, len(got), k, u.Path)
			}
		}
		if ds.Type != u.Kind {
			return fmt.Sprintf("%s pass: type %s has kind %q, want %q", pass, k, ds.Type, u.Kind)
		}
		wantExt := u.ExtendsRaw
		if full && qualified {
			wantExt = u.ExtendsFull
		}
		if full && !qualified && ds.Extend != u.ExtendsRaw && ds.Extend != u.ExtendsFull {
			return fmt.Sprintf("%s pass: type %s has superclass %q, want %q or %q", pass, k, ds.Extend, u.ExtendsRaw, u.ExtendsFull)
		}
		if (!full || qualified) && nb(ds.Extend) != wantExt {
			return fmt.Sprintf("%s pass: type %s has superclass %q, want %q", pass, k, ds.Extend, wantExt)
		}
		if full {
			want := filepath.Join(dir, filepath.FromSlash(u.Path))
			if filepath.Clean(ds.FilePath) != want {
				return fmt.Sprintf("%s pass: type %s has source path %q, want %q", pass, k, ds.FilePath, want)
			}
		}
		var ga, wa []string
		for _, a := range ds.Annotations {
			var kv [][2]string
			for _, x := range a.KeyValues {
				kv = append(kv, [2]string{x.Key, x.Value})
			}
			ga = append(ga, annKey(a.Name, kv))
		}
		for _, a := range u.Annotations {
			wa = append(wa, annKey(a.Name, a.KV))
		}
		sort.Strings(ga)
		sort.Strings(wa)
		if strings.Join(ga, ";") != strings.Join(wa, ";") {
			return fmt.Sprintf("%s pass: type %s has annotations %v, want %v", pass, k, ga, wa)
		}
		var gf, wf []string
		for _, f := range ds.Functions {
			if f.Name == "" {
				continue
			}
			var ps []jgen.Param
			for _, x := range f.Parameters {
				ps = append(ps, jgen.Param{Type: x.TypeType, Name: x.TypeValue})
			}
			gf = append(gf, funcKey(f.Name, f.ReturnType, f.IsConstructor, ps, full))
		}
		for _, f := range u.Funcs {
			wf = append(wf, funcKey(f.Name, f.ReturnType, f.IsCtor, f.Params, full))
		}
		sort.Strings(gf)
		sort.Strings(wf)
		if strings.Join(gf, ";") != strings.Join(wf, ";") {
			return fmt.Sprintf("%s pass: type %s (%s) has functions\n  %v\nwant exactly\n  %v", pass, k, u.Path, gf, wf)
		}
	}
	var extra []string
	for k := range byKey {
		if !expected[k] {
			extra = append(extra, k)
		}
	}
	sort.Strings(extra)
	if len(extra) > 0 {
		return fmt.Sprintf("%s pass: model has named entries for %v which no non-test, non-ignored .java file declares", pass, extra)
	}
	return ""
}

func writeProject(root string, p jgen.Project) {
	files := map[string]string{}
	for _, f := range p.Files {
		files[f.Path] = f.Text
	}
	if err := os.MkdirAll(root, 0755); err != nil {
		panic(err)
	}
	cli.WriteTree(root, files)
}

func check(c Case) pbt.Verdict {
	dir := cli.Scratch("c01-")
	defer os.RemoveAll(dir)
	root := "proj"
	if c.Root != "" {
		root = c.Root
	}
	proj := filepath.Join(dir, filepath.FromSlash(root))
	arg := proj
	if c.Slash {
		arg += string(filepath.Separator)
	}
	reset()
	if c.Before != nil {
		// an earlier analysis of another tree at the same path, in the same process
		writeProject(proj, *c.Before)
		if p := pbt.Call(func() {
			ia, fa := javaapp.NewJavaIdentifierApp(), javaapp.NewJavaFullApp()
			fa.AnalysisPath(arg, ia.AnalysisPath(arg))
		}); p != "" {
			return pbt.Fail("analysis of the earlier tree panicked: %s", p)
		}
		if err := os.RemoveAll(proj); err != nil {
			panic(err)
		}
	}
	writeProject(proj, c.Project)
	rounds := []string{""}
	if c.Twice {
		rounds = append(rounds, ", second analysis in the process")
	}
	for _, round := range rounds {
		var ident, full []core_domain.CodeDataStruct
		if p := pbt.Call(func() {
			app := javaapp.NewJavaIdentifierApp()
			ident = app.AnalysisPath(arg)
		}); p != "" {
			return pbt.Fail("identifier pass%s panicked: %s", round, p)
		}
		if msg := compare(ident, c.Project, proj, "identifier", round, false); msg != "" {
			return pbt.Fail("%s", strings.ReplaceAll(msg, dir, "<scratch>"))
		}
		if p := pbt.Call(func() {
			app := javaapp.NewJavaFullApp()
			full = app.AnalysisPath(arg, ident)
		}); p != "" {
			return pbt.Fail("full pass%s panicked: %s", round, p)
		}
		if msg := compare(full, c.Project, proj, "full", round, true); msg != "" {
			return pbt.Fail("%s", strings.ReplaceAll(msg, dir, "<scratch>"))
		}
	}
	if c.CLI {
		form := cliForms[0]
		if c.CLIForm > 0 && c.CLIForm < len(cliForms) {
			form = cliForms[c.CLIForm]
		}
		cwd, named := dir, proj
		var args []string
		for _, a := range form {
			switch {
			case a == "cwd":
				cwd, named = proj, "."
			case strings.Contains(a, "ABS"):
				args = append(args, strings.ReplaceAll(a, "ABS", proj))
			case strings.Contains(a, "REL"):
				args = append(args, strings.ReplaceAll(a, "REL", filepath.FromSlash(root)))
				named = filepath.FromSlash(root)
			default:
				args = append(args, a)
			}
		}
		shown := strings.Join(form, " ")
		runs := [][]string{args}
		if c.CLIAgain {
			runs = append(runs, append(append([]string(nil), args...), "--identify=false"))
		}
		for k, args := range runs {
			if k > 0 {
				shown += " --identify=false (second run)"
				if err := os.Remove(filepath.Join(cwd, "coca_reporter", "deps.json")); err != nil {
					panic(err)
				}
			}
			res, err := cli.Run("coca", cwd, nil, args...)
			if err != nil {
				panic(err)
			}
			if res.ExitCode != 0 || res.TimedOut {
				return pbt.Fail("`coca %s` exited with %d (timeout=%v)\n%s", shown, res.ExitCode, res.TimedOut, strings.ReplaceAll(tail(res.Stdout+res.Stderr), dir, "<scratch>"))
			}
			for _, out := range []struct{ file, pass string }{{"identify.json", "identifier"}, {"deps.json", "full"}} {
				data, err := os.ReadFile(filepath.Join(cwd, "coca_reporter", out.file))
				if err != nil {
					return pbt.Fail("`coca %s` wrote no %s: %v", shown, out.file, err)
				}
				var model []core_domain.CodeDataStruct
				if err := json.Unmarshal(data, &model); err != nil {
					return pbt.Fail("%s of `coca %s` is not valid JSON: %v", out.file, shown, err)
				}
				if msg := compare(model, c.Project, filepath.Clean(named), out.pass, " (coca "+shown+")", true); msg != "" {
					return pbt.Fail("%s", strings.ReplaceAll(msg, dir, "<scratch>"))
				}
			}
		}
	}
	return classify(c)
}

func tail(s string) string {
	if len(s) > 1500 {
		return s[len(s)-1500:]
	}
	return s
}

var wordMethod = regexp.MustCompile(`^(get|set|is|test|should|latest|contest|main|check|util)[A-Z]`)

func classify(c Case) pbt.Verdict {
	v := pbt.Verdict{}
	nMain, nOther, multi := 0, 0, false
	for _, u := range c.Project.Units {
		if u.Role == "main" {
			nMain++
			if len(u.Funcs) >= 2 {
				multi = true
			}
			if u.Kind == "Interface" {
				v.Classes = append(v.Classes, "interface_unit")
			}
			if u.ExtendsFull != u.ExtendsRaw {
				v.Classes = append(v.Classes, "qualified_superclass")
			}
			low := strings.ToLower(u.Name)
			switch {
			case strings.HasSuffix(low, "test") || strings.HasSuffix(low, "tests"):
				v.Classes = append(v.Classes, "main_name_ends_in_letters_test")
			case strings.Contains(low, "test"):
				v.Classes = append(v.Classes, "main_name_contains_test")
			}
			for _, w := range []string{"service", "util", "main", "null", "todo"} {
				if strings.Contains(low, w) {
					v.Classes = append(v.Classes, "main_name_with_tool_word")
					break
				}
			}
			if strings.Contains(strings.ToLower(filepath.ToSlash(filepath.Dir(u.Path))), "test") {
				v.Classes = append(v.Classes, "main_dir_contains_letters_test")
			}
			for _, f := range u.Funcs {
				if wordMethod.MatchString(f.Name) {
					v.Classes = append(v.Classes, "method_with_word_prefix")
					break
				}
			}
		} else {
			nOther++
			v.Classes = append(v.Classes, "excluded_"+u.Role)
		}
	}
	// physical line structure of the main files
	for i, u := range c.Project.Units {
		if u.Role != "main" {
			continue
		}
		for _, ft := range u.Features {
			switch ft {
			case "flat_unit", "flat_member", "wide_parameter_list", "long_comment", "long_literal":
				v.Classes = append(v.Classes, ft)
			}
		}
		text := c.Project.Files[i].Text
		if strings.Contains(text, "\r\n") {
			v.Classes = append(v.Classes, "crlf_file")
		}
		longest := 0
		for _, l := range strings.Split(text, "\n") {
			if len(l) > longest {
				longest = len(l)
			}
		}
		switch {
		case longest > 65536:
			v.Classes = append(v.Classes, "line_longer_than_65536_bytes")
		case longest > 4096:
			v.Classes = append(v.Classes, "line_longer_than_4096_bytes")
		case longest > 1000:
			v.Classes = append(v.Classes, "line_longer_than_1000_bytes")
		}
		nameLen, params := 0, 0
		for _, f := range u.Funcs {
			if len(f.Name) > nameLen {
				nameLen = len(f.Name)
			}
			if len(f.Params) > params {
				params = len(f.Params)
			}
			for _, p := range f.Params {
				if len(p.Name) > nameLen {
					nameLen = len(p.Name)
				}
			}
		}
		switch {
		case nameLen > 4096:
			v.Classes = append(v.Classes, "name_longer_than_4096")
		case nameLen > 40:
			v.Classes = append(v.Classes, "name_longer_than_40")
		}
		if params >= 100 {
			v.Classes = append(v.Classes, "at_least_100_parameters")
		}
	}
	for _, f := range c.Project.Files {
		if !strings.HasSuffix(f.Path, ".java") && f.Path != ".gitignore" {
			nOther++
			v.Classes = append(v.Classes, "non_java_file")
			break
		}
	}
	for _, f := range c.Project.Files {
		if strings.HasPrefix(f.Path, "src/") {
			v.Classes = append(v.Classes, "maven_layout")
			break
		}
	}
	module, dirOnly := false, false
	for _, u := range c.Project.Units {
		for _, m := range []string{"core", "contest-api"} {
			if strings.Contains("/"+u.Path, "/"+m+"/src/") {
				module = true
				if u.Role == "test" && !strings.HasSuffix(u.Name, "Test") && !strings.HasSuffix(u.Name, "Tests") {
					dirOnly = true
				}
			}
		}
	}
	if module {
		v.Classes = append(v.Classes, "module_maven_layout")
	}
	if dirOnly {
		v.Classes = append(v.Classes, "module_test_by_directory_only")
	}
	if c.CLI {
		v.Classes = append(v.Classes, "cli")
		if c.CLIForm > 0 && c.CLIForm < len(cliForms) {
			f := strings.Join(cliForms[c.CLIForm], " ")
			switch {
			case strings.Contains(f, "REL") || strings.Contains(f, "cwd"):
				v.Classes = append(v.Classes, "cli_relative_path")
			case strings.Contains(f, "--path"):
				v.Classes = append(v.Classes, "cli_long_option")
			}
			if strings.Contains(f, "-i") {
				v.Classes = append(v.Classes, "cli_identify_option")
			}
		}
		if c.CLIAgain {
			v.Classes = append(v.Classes, "cli_second_run_with_stored_identifiers")
		}
	}
	v.Classes = append(v.Classes, auditLabels(c)...)
	v.NonTrivial = len(c.Project.Units) >= 2 && nMain >= 1 && nOther >= 1 && multi
	return v
}

var contextual = map[string]bool{}

func init() {
	for _, w := range strings.Fields("record open to with module uses provides exports requires opens transitive permits sealed yield var") {
		contextual[w] = true
	}
}

// auditLabels names the shapes of the checklist audit that a case contains (each label once per case).
func auditLabels(c Case) []string {
	set := map[string]bool{}
	for _, l := range c.Shapes {
		set[l] = true
	}
	if c.Root != "" {
		set["root_directory_with_unusual_name"] = true
		for _, f := range c.Project.Files {
			if f.Path == ".gitignore" && (strings.Contains(f.Text, c.Root) || (strings.HasSuffix(c.Root, ".java") && strings.Contains(f.Text, strings.TrimSuffix(c.Root[1:], ".java")+".java"))) {
				set["root_directory_matches_ignore_pattern"] = true
			}
		}
	}
	if c.Slash {
		set["path_with_trailing_separator"] = true
	}
	if c.Twice {
		set["analysed_twice_in_one_process"] = true
	}
	if c.Before != nil {
		set["other_tree_analysed_before_at_same_path"] = true
	}
	nMainUnits := 0
	byName := map[string][]jgen.UnitTruth{}
	for _, u := range c.Project.Units {
		if u.Role == "main" {
			byName[u.Name] = append(byName[u.Name], u)
		}
	}
	short := func(name string) {
		switch {
		case contextual[name]:
			set["contextual_keyword_as_name"] = true
		case len(name) == 1:
			set["one_letter_name"] = true
		}
		for _, r := range name {
			switch {
			case r == '_' || r == '$':
				set["name_with_underscore_or_dollar"] = true
			case r > 127:
				set["name_with_non_ascii_letter"] = true
			}
		}
	}
	for _, u := range c.Project.Units {
		if u.Role != "main" {
			continue
		}
		nMainUnits++
		short(u.Name)
		if len(byName[u.Name]) > 1 {
			set["simple_name_in_two_packages"] = true
		}
		for _, x := range c.Project.Units {
			if x.Role == "main" && x.Name != u.Name && strings.HasPrefix(x.Name, u.Name) {
				set["name_is_prefix_of_another"] = true
			}
		}
		if u.ExtendsRaw != "" && u.ExtendsRaw == u.ExtendsFull && strings.Contains(u.ExtendsRaw, ".") {
			set["superclass_written_qualified"] = true
		}
		if u.ExtendsRaw != u.Name && strings.EqualFold(u.ExtendsRaw, u.Name) {
			set["superclass_name_differs_from_own_only_in_case"] = true
		}
		if !strings.Contains(u.ExtendsRaw, ".") && len(byName[u.ExtendsRaw]) > 1 && strings.HasPrefix(u.ExtendsFull, u.Pkg+".") {
			set["superclass_of_own_package_has_namesake_elsewhere"] = true
		}
		for _, a := range u.Annotations {
			for _, kv := range a.KV {
				if strings.HasPrefix(kv[1], "@") || strings.HasPrefix(kv[1], "{@") {
					set["annotation_as_annotation_argument"] = true
				}
			}
			if a.Name == "Query" || a.Name == "Sep" || a.Name == "Retry" || a.Name == "Names" || a.Name == "Priority" || (a.Name == "Entity" && len(a.KV) == 0) {
				set["annotation_argument_of_further_kind"] = true
			}
		}
		for _, ft := range u.Features {
			switch ft {
			case "class_annotation_among_modifiers", "stray_semicolon", "interface_method_with_modifiers", "interface_method_with_body", "usage_method", "wildcard_project_import":
				set[ft] = true
			}
		}
		for _, im := range u.Imports {
			if im.Static {
				set["static_import"] = true
			}
			if im.Wildcard {
				set["wildcard_import"] = true
			}
		}
		switch n := len(u.Funcs); {
		case n > 64:
			set["type_with_more_than_64_functions"] = true
		case n > 32:
			set["type_with_more_than_32_functions"] = true
		case n > 16:
			set["type_with_more_than_16_functions"] = true
		}
		for _, f := range u.Funcs {
			short(f.Name)
			for _, p := range f.Params {
				short(p.Name)
			}
		}
	}
	switch {
	case nMainUnits > 32:
		set["more_than_32_main_files"] = true
	case nMainUnits > 16:
		set["more_than_16_main_files"] = true
	case nMainUnits > 8:
		set["more_than_8_main_files"] = true
	}
	var out []string
	for l := range set {
		out = append(out, l)
	}
	sort.Strings(out)
	return out
}

func init() {
	pbt.SetProperty("C01")
	jgen.SetExcluded(pbt.Excluded)
	pbt.Describe("rapid-generated conventional Java trees (jgen): 1-8 units over 1-3 packages in flat / nested / Maven / multi-module Maven (core/src/main/java, contest-api/src/test/java) / deep layouts, classes (some abstract, generic) and interfaces with fields, constructors, methods (modifier permutations, generic methods, overloads, arrays, generic types, final parameters), class-level annotations of five argument forms, superclasses (project class same package / imported, imported external, unimported, generic), comments and layout noise; class names that are ordinary words which merely contain the letters of a test name (ending in ...test / ...tests in lower case: Contest, Latest, Protests, Shortest; Test in the middle: ...TestHelper, ...Attestation) or other words the tool keys on elsewhere (...Service, ...Util, ...Main, ...Nullable, ...Todo), method names getX / setX / isX / testX / shouldX / mainX, package directories containing the letters test (com/acme/contest, org/demo/latest/api, app/attest); physical lines of any length: a member (annotations and body included) or a whole unit written on one line as generated / minified code is, parameter lists with 20-120 further parameters on one line (the all-arguments constructor of a data class; at most 255 argument slots), method and variable names of 41-300 and occasionally 4100-5200 characters, block comments of 500-6000 (occasionally 60000-70000) bytes in front of the package declaration or of a member on its line, string literals of that length as field initialisers, so that lines exceed 4 KiB and occasionally 64 KiB; one file in eight with CR LF line ends; mixed with test files (*Test.java, *Tests.java, src/test/java/), files ignored through .gitignore (directory pattern and *Suffix.java pattern) and non-Java files. Widened by the checklist audit, each shape behind its own draw: identifiers with `_`, `$`, digits and letters outside ASCII (also in class and hence file names, packages com.acme2.v1_0 / org.demo_x); method and variable names that are contextual keywords of newer Java (record, open, to, with, module, uses, provides, permits, sealed, yield, var, ...) and class, method and variable names of one letter; one simple name borne by two classes in two packages, a class named like another one plus a tail (Order1 / Order1Repo), a class whose name differs from that of its imported superclass only in case (ORDER1 extends Order1), a superclass of the own package that has a namesake in another package; further declaration forms: class annotations whose arguments are an empty list `()`, a negative number, a char, a boolean, a string with commas, parentheses, escaped quotes and annotation-like text, a class literal, an arithmetic expression, an empty array, other annotations (`@NamedQueries({@NamedQuery(...), ...})`, `uniqueConstraints = @UniqueConstraint(...)`), arguments over several lines, a qualified annotation name with a pair; an annotation, final or strictfp written among the class modifiers (`public @Deprecated final class`); bounded and several type parameters (`<T extends Comparable<T>>`, `<T, V>`); a superclass written with its qualified name (project class, java.util.ArrayList<String>); throws clauses of constructors; interface methods that are default or static with a body, redundantly abstract (both modifier orders), annotated, throwing; a stray `;` behind a member or the type; types with 13-70 methods; trees of up to 36 units; unused, static and wildcard imports, project classes reached through a wildcard import of their package; method names shared between classes; the wider statement forms of jgen in bodies. Layout: one unit in four (those without a long-line shape) is written again token by token with other separators in turn: tabs, runs of blanks, line ends (a declaration, a parameter list, an annotation over several lines), form feed, CR LF, blanks inside brackets and in front of `(` `;` `.` `,`, block, line and Javadoc comments between any two tokens, some with text that reads like a declaration (`void ghost() { }`, `class Ghost {`, `package other.pkg;`, `}`), text in front of the package declaration and behind the type (blank lines, comments holding a class, eight trailing line ends). Tree: the root .gitignore in other spellings (`**/dir/`, `dir/**`, trailing blanks, `**/*Suffix.java`, the ignored files named one by one by base name / path / rooted path, a later negated pattern that includes one of them again - an ordinary main file -, comment lines that look like patterns `# *.java`, patterns that match nothing here, an escaped `#`, CR LF line ends, no final line end, a .gitignore without any matching pattern); a main file moved under a directory whose name resembles the ignored one (gen_out2, xgen_out, gen_out_, my.gen_out), a build or hidden directory (target, build, node_modules, .hidden), a directory named like a Java file (Sample.java/, vendor/lib.java/, attic/Old.java/) or containing the letters test (javatest); files that are no Java files although their names come close (Foojava, java, notes.java.txt, A.jav, B.java~, C.java.orig, E.javac, D.jsp, files below docs/Sample.java/ and Legacy.java/). The analysed directory is called proj, `my proj`, `проект`, proj.java, like the ignored directory, like an ignored file (XGen.java), src, OrderTest, or lies eight directories deep; one case in six hands it over with a trailing separator. Histories: one case in ten runs both passes twice in the process (both results judged), one in ten first analyses another generated tree at the same path, without reset in between. The sub-process (one case in ten) is spelled `analysis -p ABS`, `--path ABS`, `--path=ABS`, `-p REL`, `-p ./REL/`, `-i -p ABS`, `--identify=true --path ABS/`, or runs inside the directory (`analysis`, `analysis --path=.`); one in three of them runs a second time with `--identify=false` (the stored identifier list) and is judged again. Oracle: the ground truth recorded while printing; both directions (each declared type/function exactly once with its attributes; no other named entry). Judged for JavaIdentifierApp.AnalysisPath, JavaFullApp.AnalysisPath(dir, identifiers) and, for one case in ten, the files written by the sub-process `coca analysis` (source paths expected below the directory as it was named on the command line). Non-trivial = at least 2 units, at least one included and one excluded file, and a type with >= 2 functions; distinct = hash of the whole case.",
		"identifier pass: FilePath and parameter lists are never recorded for any input, so they are asserted on the full pass only (DESIGN.md section 5)",
		"interfaces are generated without `extends` (the statement speaks of a superclass)",
		"paths containing `testData` are not generated: the statement does not say whether they count as ignored",
		"type texts are compared after removing blanks",
		"class names stay shorter than a file name may be (255 bytes); only method and variable names get the very long forms",
		"a main file is never named with the capitalised suffix Test / Tests, the prefix Test, the suffix TestCase or an upper-case TEST / TESTS ending, and never lies under a directory called test or tests: the statement does not define `test file`, and for those names a reader could argue either way; names that only contain the letters (Contest.java, com/acme/latest/, javatest/) are ordinary main files under every reading",
		"not generated because the statement leaves their expected entries open: nested, local and anonymous classes, initializer blocks, varargs, array brackets behind a parameter name (`String args[]`), enums / records / annotation types, generic constructors, units without a package, nested .gitignore files, the extension .JAVA, a file called just `.java`",
		"a byte order mark is not generated: javac rejects such a file, so it is no conventional compilation unit",
		"a simple name that two classes bear is referred to only where Java resolves it without doubt: from the own package without import, or through a single-type import into a package that has no class of that name; never in a tree that also reaches project classes through wildcard imports",
		"a superclass is written with its qualified name only when its package has at least two segments (next to `import app.*;` the first segment of `app.Base` equals an import text; not examined)",
		"`dir/**` is written only when the ignored directory lies at the root (git anchors a pattern with an inner slash there); patterns naming a file by path are written from the root",
		"the separators of the re-written layout are put only between tokens: never inside an operator run (`>>`, `->`, `::`, `<?>`), a literal, a number or between `@` and the annotation name; a re-written text that the shipped parser rejected would be counted as relayout_rejected (0 so far)",
		"feature switches for findings that may get recorded as known: annotation_as_annotation_argument, same_package_reference_with_namesake_in_other_package, superclass_name_differs_from_own_name_only_in_case")
	pbt.Register("model", 250, 2500, gen, check)
}

func TestProp(t *testing.T)   { pbt.Main(t) }
func TestReplay(t *testing.T) { pbt.Replay(t) }
