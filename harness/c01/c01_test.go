// C01 — every declared Java type and method appears exactly once in the code model.
package c01

import (
	"encoding/json"
	"fmt"
	"os"
	"path/filepath"
	"regexp"
	"sort"
	"strings"
	"testing"

	"github.com/modernizing/coca/pkg/application/analysis/javaapp"
	"github.com/modernizing/coca/pkg/domain/core_domain"
	"github.com/modernizing/coca/pkg/infrastructure/ast/ast_java"
	"github.com/modernizing/coca/pkg/infrastructure/ast/ast_java/java_identify"
	"pgregory.net/rapid"

	"verif/internal/cli"
	"verif/internal/jgen"
	"verif/internal/pbt"
)

type Case struct {
	Project jgen.Project `json:"project"`
	CLI     bool         `json:"cli"`
}

func gen(t *rapid.T) Case {
	p := jgen.GenProject(t, jgen.Opts{Layout: true, Interfaces: true, RichDecl: true, MaxUnits: 8, MultiByte: true, WordNames: true, WordDirs: true, ModuleLayout: true, LongLines: true, Bodies: rapid.IntRange(0, 3).Draw(t, "bodies") == 0})
	// some files end their lines with CR LF
	for i := range p.Files {
		if strings.HasSuffix(p.Files[i].Path, ".java") && rapid.IntRange(0, 7).Draw(t, "crlf") == 0 {
			p.Files[i].Text = strings.ReplaceAll(p.Files[i].Text, "\n", "\r\n")
		}
	}
	return Case{Project: p, CLI: rapid.IntRange(0, 11).Draw(t, "cli") == 0}
}

func reset() {
	ast_java.VerifResetAstJava()
	java_identify.VerifResetJavaIdentify()
}

func nb(s string) string { return strings.Join(strings.Fields(s), "") }

func annKey(name string, kv [][2]string) string {
	var parts []string
	for _, p := range kv {
		parts = append(parts, nb(p[0])+"="+nb(p[1]))
	}
	return name + "(" + strings.Join(parts, ",") + ")"
}

func funcKey(name, ret string, ctor bool, params []jgen.Param, withParams bool) string {
	s := fmt.Sprintf("%s|%s|%v", name, nb(ret), ctor)
	if withParams {
		for _, p := range params {
			s += "|" + nb(p.Type) + " " + p.Name
		}
	}
	return s
}

// compare checks a model against the ground truth. pass is "identifier" or "full".
func compare(model []core_domain.CodeDataStruct, p jgen.Project, dir string, pass string, qualified bool) string {
	full := pass != "identifier"
	byKey := map[string][]core_domain.CodeDataStruct{}
	for _, ds := range model {
		if ds.NodeName == "" {
			continue // unnamed entries are not covered by the statement
		}
		k := ds.Package + "." + ds.NodeName
		byKey[k] = append(byKey[k], ds)
	}
	expected := map[string]bool{}
	for _, u := range p.Units {
		if u.Role != "main" {
			continue
		}
		k := u.FullName()
		expected[k] = true
		got := byKey[k]
		if len(got) != 1 {
			return fmt.Sprintf("%s pass: type %s declared in %s has %d entries in the model, want exactly 1", pass, k, u.Path, len(got))
		}
		ds := got[0]
		if ds.Type != u.Kind {
			return fmt.Sprintf("%s pass: type %s has kind %q, want %q", pass, k, ds.Type, u.Kind)
		}
		wantExt := u.ExtendsRaw
		if full && qualified {
			wantExt = u.ExtendsFull
		}
		if full && !qualified && ds.Extend != u.ExtendsRaw && ds.Extend != u.ExtendsFull {
			return fmt.Sprintf("%s pass: type %s has superclass %q, want %q or %q", pass, k, ds.Extend, u.ExtendsRaw, u.ExtendsFull)
		}
		if (!full || qualified) && nb(ds.Extend) != wantExt {
			return fmt.Sprintf("%s pass: type %s has superclass %q, want %q", pass, k, ds.Extend, wantExt)
		}
		if full {
			want := filepath.Join(dir, filepath.FromSlash(u.Path))
			if filepath.Clean(ds.FilePath) != want {
				return fmt.Sprintf("%s pass: type %s has source path %q, want %q", pass, k, ds.FilePath, want)
			}
		}
		var ga, wa []string
		for _, a := range ds.Annotations {
			var kv [][2]string
			for _, x := range a.KeyValues {
				kv = append(kv, [2]string{x.Key, x.Value})
			}
			ga = append(ga, annKey(a.Name, kv))
		}
		for _, a := range u.Annotations {
			wa = append(wa, annKey(a.Name, a.KV))
		}
		sort.Strings(ga)
		sort.Strings(wa)
		if strings.Join(ga, ";") != strings.Join(wa, ";") {
			return fmt.Sprintf("%s pass: type %s has annotations %v, want %v", pass, k, ga, wa)
		}
		var gf, wf []string
		for _, f := range ds.Functions {
			if f.Name == "" {
				continue
			}
			var ps []jgen.Param
			for _, x := range f.Parameters {
				ps = append(ps, jgen.Param{Type: x.TypeType, Name: x.TypeValue})
			}
			gf = append(gf, funcKey(f.Name, f.ReturnType, f.IsConstructor, ps, full))
		}
		for _, f := range u.Funcs {
			wf = append(wf, funcKey(f.Name, f.ReturnType, f.IsCtor, f.Params, full))
		}
		sort.Strings(gf)
		sort.Strings(wf)
		if strings.Join(gf, ";") != strings.Join(wf, ";") {
			return fmt.Sprintf("%s pass: type %s (%s) has functions\n  %v\nwant exactly\n  %v", pass, k, u.Path, gf, wf)
		}
	}
	var extra []string
	for k := range byKey {
		if !expected[k] {
			extra = append(extra, k)
		}
	}
	sort.Strings(extra)
	if len(extra) > 0 {
		return fmt.Sprintf("%s pass: model has named entries for %v which no non-test, non-ignored .java file declares", pass, extra)
	}
	return ""
}

func check(c Case) pbt.Verdict {
	dir := cli.Scratch("c01-")
	defer os.RemoveAll(dir)
	proj := filepath.Join(dir, "proj")
	files := map[string]string{}
	for _, f := range c.Project.Files {
		files[f.Path] = f.Text
	}
	cli.WriteTree(proj, files)
	reset()
	var ident, full []core_domain.CodeDataStruct
	if p := pbt.Call(func() {
		app := javaapp.NewJavaIdentifierApp()
		ident = app.AnalysisPath(proj)
	}); p != "" {
		return pbt.Fail("identifier pass panicked: %s", p)
	}
	if msg := compare(ident, c.Project, proj, "identifier", false); msg != "" {
		return pbt.Fail("%s", msg)
	}
	if p := pbt.Call(func() {
		app := javaapp.NewJavaFullApp()
		full = app.AnalysisPath(proj, ident)
	}); p != "" {
		return pbt.Fail("full pass panicked: %s", p)
	}
	if msg := compare(full, c.Project, proj, "full", true); msg != "" {
		return pbt.Fail("%s", msg)
	}
	if c.CLI {
		res, err := cli.Run("coca", dir, nil, "analysis", "-p", proj)
		if err != nil {
			panic(err)
		}
		if res.ExitCode != 0 || res.TimedOut {
			return pbt.Fail("`coca analysis -p DIR` exited with %d (timeout=%v)\n%s", res.ExitCode, res.TimedOut, tail(res.Stdout+res.Stderr))
		}
		for _, out := range []struct{ file, pass string }{{"identify.json", "identifier"}, {"deps.json", "full (coca analysis)"}} {
			data, err := os.ReadFile(filepath.Join(dir, "coca_reporter", out.file))
			if err != nil {
				return pbt.Fail("`coca analysis` wrote no %s: %v", out.file, err)
			}
			var model []core_domain.CodeDataStruct
			if err := json.Unmarshal(data, &model); err != nil {
				return pbt.Fail("%s is not valid JSON: %v", out.file, err)
			}
			if msg := compare(model, c.Project, proj, out.pass, true); msg != "" {
				return pbt.Fail("%s", msg)
			}
		}
	}
	return classify(c)
}

func tail(s string) string {
	if len(s) > 1500 {
		return s[len(s)-1500:]
	}
	return s
}

var wordMethod = regexp.MustCompile(`^(get|set|is|test|should|latest|contest|main|check|util)[A-Z]`)

func classify(c Case) pbt.Verdict {
	v := pbt.Verdict{}
	nMain, nOther, multi := 0, 0, false
	for _, u := range c.Project.Units {
		if u.Role == "main" {
			nMain++
			if len(u.Funcs) >= 2 {
				multi = true
			}
			if u.Kind == "Interface" {
				v.Classes = append(v.Classes, "interface_unit")
			}
			if u.ExtendsFull != u.ExtendsRaw {
				v.Classes = append(v.Classes, "qualified_superclass")
			}
			low := strings.ToLower(u.Name)
			switch {
			case strings.HasSuffix(low, "test") || strings.HasSuffix(low, "tests"):
				v.Classes = append(v.Classes, "main_name_ends_in_letters_test")
			case strings.Contains(low, "test"):
				v.Classes = append(v.Classes, "main_name_contains_test")
			}
			for _, w := range []string{"service", "util", "main", "null", "todo"} {
				if strings.Contains(low, w) {
					v.Classes = append(v.Classes, "main_name_with_tool_word")
					break
				}
			}
			if strings.Contains(strings.ToLower(filepath.ToSlash(filepath.Dir(u.Path))), "test") {
				v.Classes = append(v.Classes, "main_dir_contains_letters_test")
			}
			for _, f := range u.Funcs {
				if wordMethod.MatchString(f.Name) {
					v.Classes = append(v.Classes, "method_with_word_prefix")
					break
				}
			}
		} else {
			nOther++
			v.Classes = append(v.Classes, "excluded_"+u.Role)
		}
	}
	// physical line structure of the main files
	for i, u := range c.Project.Units {
		if u.Role != "main" {
			continue
		}
		for _, ft := range u.Features {
			switch ft {
			case "flat_unit", "flat_member", "wide_parameter_list", "long_comment", "long_literal":
				v.Classes = append(v.Classes, ft)
			}
		}
		text := c.Project.Files[i].Text
		if strings.Contains(text, "\r\n") {
			v.Classes = append(v.Classes, "crlf_file")
		}
		longest := 0
		for _, l := range strings.Split(text, "\n") {
			if len(l) > longest {
				longest = len(l)
			}
		}
		switch {
		case longest > 65536:
			v.Classes = append(v.Classes, "line_longer_than_65536_bytes")
		case longest > 4096:
			v.Classes = append(v.Classes, "line_longer_than_4096_bytes")
		case longest > 1000:
			v.Classes = append(v.Classes, "line_longer_than_1000_bytes")
		}
		nameLen, params := 0, 0
		for _, f := range u.Funcs {
			if len(f.Name) > nameLen {
				nameLen = len(f.Name)
			}
			if len(f.Params) > params {
				params = len(f.Params)
			}
			for _, p := range f.Params {
				if len(p.Name) > nameLen {
					nameLen = len(p.Name)
				}
			}
		}
		switch {
		case nameLen > 4096:
			v.Classes = append(v.Classes, "name_longer_than_4096")
		case nameLen > 40:
			v.Classes = append(v.Classes, "name_longer_than_40")
		}
		if params >= 100 {
			v.Classes = append(v.Classes, "at_least_100_parameters")
		}
	}
	for _, f := range c.Project.Files {
		if !strings.HasSuffix(f.Path, ".java") && f.Path != ".gitignore" {
			nOther++
			v.Classes = append(v.Classes, "non_java_file")
			break
		}
	}
	for _, f := range c.Project.Files {
		if strings.HasPrefix(f.Path, "src/") {
			v.Classes = append(v.Classes, "maven_layout")
			break
		}
	}
	module, dirOnly := false, false
	for _, u := range c.Project.Units {
		for _, m := range []string{"core", "contest-api"} {
			if strings.Contains("/"+u.Path, "/"+m+"/src/") {
				module = true
				if u.Role == "test" && !strings.HasSuffix(u.Name, "Test") && !strings.HasSuffix(u.Name, "Tests") {
					dirOnly = true
				}
			}
		}
	}
	if module {
		v.Classes = append(v.Classes, "module_maven_layout")
	}
	if dirOnly {
		v.Classes = append(v.Classes, "module_test_by_directory_only")
	}
	if c.CLI {
		v.Classes = append(v.Classes, "cli")
	}
	v.NonTrivial = len(c.Project.Units) >= 2 && nMain >= 1 && nOther >= 1 && multi
	return v
}

func init() {
	pbt.SetProperty("C01")
	jgen.SetExcluded(pbt.Excluded)
	pbt.Describe("rapid-generated conventional Java trees (jgen): 1-8 units over 1-3 packages in flat / nested / Maven / multi-module Maven (core/src/main/java, contest-api/src/test/java) / deep layouts, classes (some abstract, generic) and interfaces with fields, constructors, methods (modifier permutations, generic methods, overloads, arrays, generic types, final parameters), class-level annotations of five argument forms, superclasses (project class same package / imported, imported external, unimported, generic), comments and layout noise; class names that are ordinary words which merely contain the letters of a test name (ending in ...test / ...tests in lower case: Contest, Latest, Protests, Shortest; Test in the middle: ...TestHelper, ...Attestation) or other words the tool keys on elsewhere (...Service, ...Util, ...Main, ...Nullable, ...Todo), method names getX / setX / isX / testX / shouldX / mainX, package directories containing the letters test (com/acme/contest, org/demo/latest/api, app/attest); physical lines of any length: a member (annotations and body included) or a whole unit written on one line as generated / minified code is, parameter lists with 20-120 further parameters on one line (the all-arguments constructor of a data class; at most 255 argument slots), method and variable names of 41-300 and occasionally 4100-5200 characters, block comments of 500-6000 (occasionally 60000-70000) bytes in front of the package declaration or of a member on its line, string literals of that length as field initialisers, so that lines exceed 4 KiB and occasionally 64 KiB; one file in eight with CR LF line ends; mixed with test files (*Test.java, *Tests.java, src/test/java/), files ignored through .gitignore (directory pattern and *Suffix.java pattern) and non-Java files. Oracle: the ground truth recorded while printing; both directions (each declared type/function exactly once with its attributes; no other named entry). Judged for JavaIdentifierApp.AnalysisPath, JavaFullApp.AnalysisPath(dir, identifiers) and, for one case in twelve, the files written by the sub-process `coca analysis -p DIR`. Non-trivial = at least 2 units, at least one included and one excluded file, and a type with >= 2 functions; distinct = hash of the whole case.",
		"identifier pass: FilePath and parameter lists are never recorded for any input, so they are asserted on the full pass only (DESIGN.md section 5)",
		"interfaces are generated without `extends` (the statement speaks of a superclass)",
		"paths containing `testData` are not generated: the statement does not say whether they count as ignored",
		"type texts are compared after removing blanks",
		"class names stay shorter than a file name may be (255 bytes); only method and variable names get the very long forms",
		"a main file is never named with the capitalised suffix Test / Tests, the prefix Test, the suffix TestCase or an upper-case TEST / TESTS ending, and never lies under a directory called test or tests: the statement does not define `test file`, and for those names a reader could argue either way; names that only contain the letters (Contest.java, com/acme/latest/) are ordinary main files under every reading")
	pbt.Register("model", 250, 2500, gen, check)
}

func TestProp(t *testing.T)   { pbt.Main(t) }
func TestReplay(t *testing.T) { pbt.Replay(t) }
