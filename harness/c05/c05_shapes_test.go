// C05 — shapes the project generator does not write: compilation units written by hand with the
// position-tracking writer (a rename subject whose declaration and call sites take the layouts and
// names listed below, a caller of it in another file, classes whose names resemble the subject's).
package c05

import (
	"fmt"
	"strings"
	"unicode"

	"pgregory.net/rapid"

	"verif/internal/jgen"
)

// contextualWords are identifiers of the shipped grammar that are keywords only in module
// declarations, records and sealed types: ordinary method names everywhere else (open(), with(x), to()).
var contextualWords = []string{"open", "with", "to", "record", "module", "exports", "opens", "uses", "provides", "requires", "transitive", "sealed", "permits"}

func isKeyword(s string) bool { return (keywords[s] || jgenKeyword(s)) && !isContextual(s) || s == "_" }

func isContextual(s string) bool {
	for _, w := range contextualWords {
		if w == s {
			return true
		}
	}
	return false
}

// fullName is pkg.Name, or Name alone in the default package.
func fullName(u jgen.UnitTruth) string {
	if u.Pkg == "" {
		return u.Name
	}
	return u.Pkg + "." + u.Name
}

func splitClass(full string) (pkg, cls string) {
	k := strings.LastIndex(full, ".")
	if k < 0 {
		return "", full
	}
	return full[:k], full[k+1:]
}

func pathOf(pkg, cls string) string {
	if pkg == "" {
		return cls + ".java"
	}
	return strings.ReplaceAll(pkg, ".", "/") + "/" + cls + ".java"
}

// identifiersOf collects every identifier written in the project's files.
func identifiersOf(p *jgen.Project) map[string]bool {
	taken := map[string]bool{"_": true}
	for _, f := range p.Files {
		for _, id := range strings.FieldsFunc(f.Text, func(r rune) bool { return !identPart(r) }) {
			taken[id] = true
		}
	}
	return taken
}

func identStart(r rune) bool { return identPart(r) && !(r >= '0' && r <= '9') }

// variantsOf lists names that resemble name: extensions, a prefix, a suffix, case variants.
func variantsOf(name string) []string {
	out := []string{name + "X", name + "_", name + "2", "x" + name, name + name}
	rs := []rune(name)
	if len(rs) >= 2 {
		out = append(out, string(rs[:len(rs)-1]))
		if identStart(rs[1]) {
			out = append(out, string(rs[1:]))
		}
	}
	first := rs[0]
	switch {
	case unicode.IsLower(first):
		first = unicode.ToUpper(first)
	case unicode.IsUpper(first):
		first = unicode.ToLower(first)
	}
	if first != rs[0] {
		out = append(out, string(first)+string(rs[1:]))
	}
	if up := strings.ToUpper(name); up != name {
		out = append(out, up)
	}
	return out
}

// padding is a run of 4200..5000 bytes, rarely of 66000..70000 (past the buffers of line readers).
func padding(t *rapid.T, label, old string) string {
	n := 0
	if rapid.IntRange(0, 9).Draw(t, label+"Huge") == 9 {
		n = rapid.IntRange(66000, 70000).Draw(t, label+"HugeLen")
	} else {
		n = rapid.IntRange(4200, 5000).Draw(t, label+"Len")
	}
	chunk := rapid.SampledFrom([]string{"x", "lorem ipsum ", "日本語", old + "() "}).Draw(t, label+"Chunk")
	return strings.TrimRight(strings.Repeat(chunk, n/len(chunk)+1), " ")
}

// genSynth appends hand-written units to the project and returns the rename subject they declare.
//
// The subject class declares the method once; what varies: the package (one of the project's, a fresh
// one, none), the method's name (plain, one character, a contextual keyword, 41..5200 characters,
// with `_` `$` or letters outside ASCII), what stands between the return type and the name (blanks, a
// tab, a comment holding the name, a long comment, a line end: the name then begins its line, possibly
// at column 0) and between the name and the parenthesis (nothing, a blank, a comment, a line end);
// call sites in a field initializer, an initializer block, the method's own body and a user method,
// one to three statements per line, in many forms (see stmt); methods whose names resemble the
// subject's, declared and called next to it; a second top-level class in the file that calls the
// method on a parameter; the whole unit on one line. others lists further methods of the class that a
// config may rename as well (those named like the subject, and the user method): their calls are
// entered in the truth like the subject's.
func genSynth(t *rapid.T, p *jgen.Project) (class, old string, others []string) {
	taken := identifiersOf(p)
	fresh := func(name string) string {
		for taken[name] || isKeyword(name) {
			name += "q"
		}
		taken[name] = true
		return name
	}
	cls := fresh(fmt.Sprintf("Zq%d", rapid.IntRange(1, 99).Draw(t, "synthClass")))
	pkg := ""
	switch rapid.IntRange(0, 3).Draw(t, "synthPkg") {
	case 0, 1:
		pkg = p.Units[0].Pkg
	case 2:
		pkg = "zz.synth_1"
	}
	var features []string
	feature := func(name string) {
		for _, f := range features {
			if f == "synth:"+name {
				return
			}
		}
		features = append(features, "synth:"+name)
	}
	if pkg == "" {
		feature("default_package")
	}
	// the method's name
	switch rapid.IntRange(0, 4).Draw(t, "synthOldKind") {
	case 0:
		old = rapid.StringMatching(`[a-z][a-zA-Z0-9]{1,8}`).Draw(t, "synthOldPlain")
	case 1:
		old = rapid.SampledFrom([]string{"q", "k", "$", "é", "π", "値"}).Draw(t, "synthOldOneChar")
	case 2:
		n := rapid.IntRange(41, 300).Draw(t, "synthOldLongLen")
		if rapid.IntRange(0, 9).Draw(t, "synthOldHuge") == 9 {
			n = rapid.IntRange(4100, 5200).Draw(t, "synthOldHugeLen")
		}
		chunk := rapid.StringMatching(`[a-zA-Z0-9]{1,6}`).Draw(t, "synthOldChunk")
		old = "m" + strings.Repeat(chunk, n/len(chunk)+1)[:n-1]
	case 3:
		old = rapid.StringMatching(`[a-z][a-zA-Z0-9]{0,5}`).Draw(t, "synthOldBase")
		piece := rapid.SampledFrom([]string{"_", "$", "$impl", "é", "größe", "данные", "名前"}).Draw(t, "synthOldPiece")
		if rapid.Bool().Draw(t, "synthOldPieceFront") {
			old = piece + old
		} else {
			old += piece
		}
	default:
		old = rapid.SampledFrom(contextualWords).Draw(t, "synthOldWord")
	}
	old = fresh(old)
	// methods of the same class whose names resemble it
	var variants []string
	{
		var cands []string
		for _, v := range variantsOf(old) {
			if !taken[v] && !isKeyword(v) && v != old && identStart([]rune(v)[0]) {
				cands = append(cands, v)
			}
		}
		nv := rapid.IntRange(0, min(3, len(cands))).Draw(t, "synthVariants")
		if nv > 0 {
			variants = rapid.Permutation(cands).Draw(t, "synthVariantOrder")[:nv]
			for _, v := range variants {
				taken[v] = true
			}
			feature("methods_named_like_the_subject")
		}
	}
	static := rapid.Bool().Draw(t, "synthStatic")
	ind := rapid.SampledFrom([]string{"    ", "\t", "  "}).Draw(t, "synthIndent")
	w := jgen.NewW()
	if rapid.IntRange(0, 5).Draw(t, "synthFlat") == 5 {
		w.SetFlat(true)
		feature("unit_on_one_line")
	}
	full := cls
	if pkg != "" {
		full = pkg + "." + cls
		w.S("package " + pkg + ";\n\n")
	}
	truth := jgen.UnitTruth{Path: pathOf(pkg, cls), Role: "main", Pkg: pkg, Name: cls, Kind: "Class"}
	w.S("public class " + cls + " {\n")
	var cur *jgen.FuncTruth
	site := func(recv string, resolve bool) {
		e := jgen.Event{Kind: "call", Name: old, Line: w.Line(), Col: w.Col(), Recv: recv, Target: full + "." + old}
		if resolve {
			e.Resolve, e.ExpPkg, e.ExpNode = true, pkg, cls
		}
		if cur != nil {
			cur.Events = append(cur.Events, e)
		}
		w.S(old)
	}
	// siteOf writes a call of another method of the class (implicit receiver)
	siteOf := func(name string) {
		if cur != nil {
			cur.Events = append(cur.Events, jgen.Event{Kind: "call", Name: name, Line: w.Line(), Col: w.Col(), Recv: "implicit", Target: full + "." + name, Resolve: true, ExpPkg: pkg, ExpNode: cls})
		}
		w.S(name)
	}
	staticMod := ""
	if static {
		staticMod = "static "
	}
	// sites outside every method
	if rapid.IntRange(0, 3).Draw(t, "synthFieldInit") == 3 {
		w.S(ind + "private " + staticMod + "Object zf0 = ")
		site("implicit", false)
		w.S("(0);\n")
		feature("site_in_field_initializer")
	}
	if rapid.IntRange(0, 3).Draw(t, "synthInitBlock") == 3 {
		w.S(ind + staticMod + "{ ")
		site("implicit", false)
		w.S("(0); }\n")
		feature("site_in_initializer_block")
	}
	n := 0
	local := func(prefix string) string {
		n++
		return fmt.Sprintf("%s%d", prefix, n)
	}
	// stmt writes one statement holding one or two sites (or a decoy)
	var stmt func(k int)
	stmt = func(k int) {
		switch k {
		case 1:
			w.S("this.")
			site("this", false)
			w.S("(null);")
		case 2: // something between the name and the parenthesis
			site("implicit", true)
			w.S(rapid.SampledFrom([]string{" ", "/* " + old + "( */", "\n" + ind + ind + ind, "  \t"}).Draw(t, "synthGap"))
			w.S("(2);")
			feature("gap_between_name_and_parenthesis")
		case 3:
			w.S(cls + ".")
			site("static", false)
			w.S("(4);")
		case 4: // a call as argument of a call
			site("implicit", true)
			w.S("(")
			site("implicit", true)
			w.S("(5));")
			feature("nested_sites")
		case 5: // the name inside literals left and right of the site
			w.S("Object " + local("zs") + " = \"" + old + "(\" + ")
			site("implicit", true)
			w.S("(\"" + old + "()\");")
		case 6: // a method reference
			feature("method_reference")
			switch {
			case static:
				w.S("java.util.function.Function<Object, Object> " + local("zr") + " = " + cls + "::")
				site("methodref", false)
			case rapid.Bool().Draw(t, "synthRefThis"):
				w.S("java.util.function.Function<Object, Object> " + local("zr") + " = this::")
				site("methodref", false)
			default:
				w.S("java.util.function.BiFunction<" + cls + ", Object, Object> " + local("zr") + " = " + cls + "::")
				site("methodref", false)
			}
			w.S(";")
		case 7: // a call of a method named like the subject
			if len(variants) == 0 {
				stmt(0)
				return
			}
			siteOf(rapid.SampledFrom(variants).Draw(t, "synthVariantCall"))
			w.S("(1);")
		case 8: // a long comment left of the site
			w.S("/* " + padding(t, "synthPad", old) + " */ ")
			feature("long_comment_left_of_site")
			stmt(0)
		case 9:
			w.S("new " + cls + "().")
			site("chain", false)
			w.S("(7);")
		case 10:
			w.S("String " + local("zm") + " = \"日本語é☂\"; ")
			stmt(0)
		case 11:
			w.S("Runnable " + local("zl") + " = () -> ")
			site("implicit", true)
			w.S("(3);")
		case 12: // the name begins its line
			w.S("this.\n" + ind + ind + ind)
			site("this", false)
			w.S("(6);")
			if !w.Flat() {
				feature("site_begins_its_line")
			}
		default:
			site("implicit", true)
			w.S("(1);")
		}
	}
	declare := func() {
		w.S(ind)
		w.S(rapid.SampledFrom([]string{"", "@Deprecated ", "@SuppressWarnings(\"" + old + "\") "}).Draw(t, "synthAnn"))
		w.S(rapid.SampledFrom([]string{"public ", "", "private ", "protected final ", "public synchronized "}).Draw(t, "synthMods") + staticMod)
		ft := jgen.FuncTruth{Name: old, ReturnType: "Object", Params: []jgen.Param{{Type: "Object", Name: "a"}}, DeclLine: w.Line()}
		if rapid.IntRange(0, 4).Draw(t, "synthGeneric") == 4 {
			w.S("<T> ")
			ft.DeclLine = w.Line()
		}
		w.S("Object")
		// between the return type and the name
		switch k := rapid.IntRange(0, 6).Draw(t, "synthBeforeName"); k {
		case 1:
			w.S("  ")
		case 2:
			w.S("\t")
		case 3:
			w.S(" /* " + old + " */ ")
		case 4:
			w.S(" /* " + padding(t, "synthDeclPad", old) + " */ ")
			feature("long_comment_left_of_declaration")
		case 5, 6:
			if k == 5 {
				w.S("\n" + ind + ind)
			} else {
				w.S("\n") // the name at column 0
			}
			if !w.Flat() {
				feature("declaration_name_on_the_line_after_the_return_type")
			}
		default:
			w.S(" ")
		}
		ft.NameLine, ft.NameCol = w.Line(), w.Col()
		w.S(old)
		if g := rapid.IntRange(0, 4).Draw(t, "synthAfterName"); g > 0 {
			w.S([]string{" ", "/* c */", "\n" + ind + ind, "\t "}[g-1])
			feature("gap_between_name_and_parenthesis")
		}
		w.S("(Object a) {")
		cur = &ft
		if rapid.IntRange(0, 3).Draw(t, "synthRecursive") == 3 {
			w.S(" return a == null ? a : ")
			site("implicit", true)
			w.S("(null); }")
			feature("site_in_the_subject's_own_body")
		} else {
			w.S("\n" + ind + ind + "return a;\n" + ind + "}")
		}
		ft.EndLine = w.Line()
		w.S("\n")
		truth.Funcs = append(truth.Funcs, ft)
		cur = nil
	}
	use := func() {
		ft := jgen.FuncTruth{Name: fresh("zuse"), ReturnType: "void", DeclLine: w.Line(), NameLine: w.Line()}
		others = append(others, ft.Name)
		w.S(ind + "void ")
		ft.NameCol = w.Col()
		w.S(ft.Name + "() {\n")
		cur = &ft
		nLines := rapid.IntRange(0, 4).Draw(t, "synthLines")
		perLine := 0
		if nLines == 4 && rapid.IntRange(0, 3).Draw(t, "synthMany") == 3 {
			// past 8, 16, 32 and 64 sites in one file
			nLines = rapid.SampledFrom([]int{3, 5, 9, 17}).Draw(t, "synthManyLines")
			perLine = 4
			feature("many_sites")
		}
		for l := 0; l < nLines; l++ {
			w.S(ind + ind)
			k := perLine
			if k == 0 {
				k = rapid.IntRange(1, 3).Draw(t, "synthOnLine")
			}
			for s := 0; s < k; s++ {
				if s > 0 {
					w.S(" ")
				}
				if perLine > 0 {
					stmt(0)
				} else {
					stmt(rapid.IntRange(0, 12).Draw(t, "synthStmt"))
				}
			}
			if rapid.IntRange(0, 5).Draw(t, "synthTrail") == 5 {
				w.S(" " + w.LineComment("see "+old+"(9)"))
			}
			w.S("\n")
		}
		w.S(ind + "}")
		ft.EndLine = w.Line()
		w.S("\n")
		truth.Funcs = append(truth.Funcs, ft)
		cur = nil
	}
	if rapid.IntRange(0, 2).Draw(t, "synthUseFirst") == 2 {
		use()
		w.S("\n")
		declare()
		feature("used_before_declared")
	} else {
		declare()
		w.S("\n")
		use()
	}
	for _, v := range variants {
		ft := jgen.FuncTruth{Name: v, ReturnType: "Object", Params: []jgen.Param{{Type: "Object", Name: "a"}}, DeclLine: w.Line(), NameLine: w.Line()}
		w.S(ind + staticMod + "Object ")
		ft.NameCol = w.Col()
		w.S(v + "(Object a) { return ")
		// the variant's body calls the subject and itself on one line
		cur = &ft
		site("implicit", true)
		w.S("(")
		siteOf(v)
		w.S("(a)); }")
		ft.EndLine = w.Line()
		w.S("\n")
		truth.Funcs = append(truth.Funcs, ft)
		cur = nil
	}
	w.S("}\n")
	// a second top-level class in the same file: its node of the model has neither package nor imports
	if rapid.IntRange(0, 4).Draw(t, "synthSecondClass") == 4 {
		w.S("\nclass " + fresh("Zh"+cls[2:]) + " {\n")
		ft := jgen.FuncTruth{Name: "zhelp", ReturnType: "Object", Params: []jgen.Param{{Type: cls, Name: "zp"}}, DeclLine: w.Line(), NameLine: w.Line()}
		w.S(ind + "Object ")
		ft.NameCol = w.Col()
		w.S("zhelp(" + cls + " zp) { return zp.")
		cur = &ft
		site("param", false)
		w.S("(zp.")
		site("param", false)
		w.S("(1)); }")
		ft.EndLine = w.Line()
		w.S("\n}\n")
		truth.Funcs = append(truth.Funcs, ft)
		cur = nil
		feature("second_top_level_class_in_the_subject's_file")
	}
	text := w.String()
	if rapid.IntRange(0, 3).Draw(t, "synthNoFinalNewline") == 3 {
		text = text[:len(text)-1]
	}
	if !w.Flat() && rapid.IntRange(0, 7).Draw(t, "synthCRLF") == 7 {
		text = strings.ReplaceAll(text, "\n", "\r\n")
	}
	truth.Features = append([]string{"synth"}, features...)
	p.Files = append(p.Files, jgen.File{Path: truth.Path, Text: text})
	p.Units = append(p.Units, truth)

	// a caller in another file: receivers that are a parameter, a field, a local variable
	if rapid.IntRange(0, 2).Draw(t, "synthCaller") > 0 {
		cpkg := pkg
		if pkg != "" && rapid.Bool().Draw(t, "synthCallerOtherPkg") {
			cpkg = "zz.callers"
		}
		ccls := fresh("Zc" + cls[2:])
		cw := jgen.NewW()
		if cpkg != "" {
			cw.S("package " + cpkg + ";\n\n")
		}
		if cpkg != pkg {
			cw.S("import " + full + ";\n\n")
		}
		ct := jgen.UnitTruth{Path: pathOf(cpkg, ccls), Role: "main", Pkg: cpkg, Name: ccls, Kind: "Class", Features: []string{"synth", "synth:caller_in_another_file"}}
		if cpkg != pkg {
			ct.Imports = []jgen.ImportTruth{{Text: full, Line: 3, Verdict: "keep", Why: "used"}}
		}
		cw.S("public class " + ccls + " {\n")
		cw.S(ind + "private " + cls + " zfld = new " + cls + "();\n\n")
		ct.Fields = []jgen.Param{{Type: cls, Name: "zfld"}}
		ft := jgen.FuncTruth{Name: "zcall", ReturnType: "Object", Params: []jgen.Param{{Type: cls, Name: "zp"}}, DeclLine: cw.Line(), NameLine: cw.Line()}
		cw.S(ind + "Object ")
		ft.NameCol = cw.Col()
		cw.S("zcall(" + cls + " zp) {\n")
		// the default package has no name to resolve against: there the model decides
		resolve := pkg != ""
		csite := func(recv string, res bool) {
			e := jgen.Event{Kind: "call", Name: old, Line: cw.Line(), Col: cw.Col(), Recv: recv, Target: full + "." + old}
			if res && resolve {
				e.Resolve, e.ExpPkg, e.ExpNode = true, pkg, cls
			}
			ft.Events = append(ft.Events, e)
			cw.S(old)
		}
		cw.S(ind + ind + cls + " zl = new " + cls + "();\n")
		for l, nl := 0, rapid.IntRange(1, 3).Draw(t, "synthCallerLines"); l < nl; l++ {
			cw.S(ind + ind)
			for s, k := 0, rapid.IntRange(1, 3).Draw(t, "synthCallerOnLine"); s < k; s++ {
				if s > 0 {
					cw.S(" ")
				}
				switch rapid.IntRange(0, 5).Draw(t, "synthCallerStmt") {
				case 1:
					cw.S("zfld.")
					csite("field", true)
					cw.S("(2);")
				case 2:
					cw.S("zl.")
					csite("local", true)
					cw.S("(3);")
				case 3:
					cw.S(cls + ".")
					csite("static", false)
					cw.S("(4);")
				case 4:
					cw.S("java.util.function.Function<Object, Object> " + local("zg") + " = zp::")
					csite("methodref", false)
					cw.S(";")
					ct.Features = append(ct.Features, "synth:method_reference")
				case 5:
					cw.S("zp\n" + ind + ind + ind + ".")
					csite("param", true)
					cw.S("(5);")
				default:
					cw.S("zp.")
					csite("param", true)
					cw.S("(1);")
				}
			}
			cw.S("\n")
		}
		cw.S(ind + ind + "return zp;\n" + ind + "}")
		ft.EndLine = cw.Line()
		cw.S("\n}\n")
		ct.Funcs = []jgen.FuncTruth{ft}
		p.Files = append(p.Files, jgen.File{Path: ct.Path, Text: cw.String()})
		p.Units = append(p.Units, ct)
	}
	return full, old, append(append([]string(nil), variants...), others...)
}

// addLookalike appends a class whose name resembles the subject's class and which declares and calls a
// method of the subject's name: the same simple name in another package (only when every other file
// that calls the subject names its class through a single-type import: the model resolves a plain
// name without such an import by its simple name alone), or the subject's class name extended, in
// the subject's package. It returns the full name of the class it added, "" when it added none.
func addLookalike(t *rapid.T, c *Case) (class string) {
	kind := rapid.IntRange(0, 2).Draw(t, "lookalikeKind")
	pkg, cls := splitClass(c.Class)
	target := c.Class + "." + c.Old
	taken := identifiersOf(&c.Project)
	npkg, ncls, label := pkg, cls, ""
	switch kind {
	case 0, 1: // same simple name, another package
		for i, u := range c.Project.Units {
			if fullName(u) == c.Class {
				continue
			}
			refers := false
			for _, f := range u.Funcs {
				for _, e := range f.Events {
					if e.Target == target {
						refers = true
					}
				}
			}
			if refers && (pkg == "" || !strings.Contains(c.Project.Files[i].Text, "import "+c.Class+";")) {
				return ""
			}
		}
		if pkg == "" {
			npkg = "zz.twin"
		} else {
			npkg = rapid.SampledFrom([]string{pkg + ".alt", pkg + "x", "x" + pkg, "alt." + pkg}).Draw(t, "lookalikePkg")
		}
		for _, u := range c.Project.Units {
			if u.Pkg == npkg {
				return ""
			}
		}
		label = "synth:same_simple_class_name_in_another_package"
	default: // the class name extended, same package
		ncls = cls + rapid.SampledFrom([]string{"X", "2", "_", "Impl"}).Draw(t, "lookalikeSuffix")
		if taken[ncls] {
			return ""
		}
		label = "synth:class_name_extending_the_subject's_class_name"
	}
	w := jgen.NewW()
	if npkg != "" {
		w.S("package " + npkg + ";\n\n")
	}
	nfull := ncls
	if npkg != "" {
		nfull = npkg + "." + ncls
	}
	u := jgen.UnitTruth{Path: pathOf(npkg, ncls), Role: "main", Pkg: npkg, Name: ncls, Kind: "Class", Features: []string{"synth", label}}
	w.S("public class " + ncls + " {\n")
	ft := jgen.FuncTruth{Name: c.Old, ReturnType: "Object", Params: []jgen.Param{{Type: "Object", Name: "a"}}, DeclLine: w.Line(), NameLine: w.Line()}
	w.S("    Object ")
	ft.NameCol = w.Col()
	w.S(c.Old + "(Object a) { return a == null ? a : ")
	ft.Events = []jgen.Event{{Kind: "call", Name: c.Old, Line: w.Line(), Col: w.Col(), Recv: "implicit", Resolve: true, ExpPkg: npkg, ExpNode: ncls, Target: nfull + "." + c.Old}}
	w.S(c.Old + "(null); }")
	ft.EndLine = w.Line()
	w.S("\n}\n")
	u.Funcs = []jgen.FuncTruth{ft}
	c.Project.Files = append(append([]jgen.File(nil), c.Project.Files...), jgen.File{Path: u.Path, Text: w.String()})
	c.Project.Units = append(append([]jgen.UnitTruth(nil), c.Project.Units...), u)
	return nfull
}

// newNameLike derives the new name from the old one: an extension, a prefix, a suffix, a case variant.
func newNameLike(t *rapid.T, old string) string {
	var cands []string
	for _, v := range variantsOf(old) {
		if identStart([]rune(v)[0]) {
			cands = append(cands, v)
		}
	}
	return rapid.SampledFrom(cands).Draw(t, "newLikeOld")
}

// confText lays out the requests in the config file: one per line, in the order of Case.requests,
// optionally a blank line between two of them; with or without final line end, among blank lines.
func confText(c Case) string {
	reqs, _ := c.requests()
	var lines []string
	for _, r := range reqs {
		lines = append(lines, r.Class+"."+r.Old+" -> "+r.Class+"."+r.New)
	}
	sep := "\n"
	if c.Sep == 1 {
		sep = "\n\n"
	}
	line := strings.Join(lines, sep)
	switch c.Conf {
	case 1:
		return line // no final newline
	case 2:
		return "\n" + line + "\n"
	case 3:
		return line + "\n\n"
	case 4:
		return "\n\n" + line
	}
	return line + "\n"
}

// cliArgs spells the options of `coca refactor`; conf and deps lie in the working directory.
func cliArgs(c Case, conf, deps string) []string {
	switch c.Args {
	case 1:
		return []string{"refactor", "--rename", conf, "--dependence", deps}
	case 2:
		return []string{"refactor", "--rename=" + conf, "--dependence=" + deps}
	case 3:
		return []string{"refactor", "-d", deps, "-R", conf}
	case 4:
		return []string{"refactor", "-R" + conf, "-d" + deps}
	case 5:
		return []string{"refactor", "-R", "rename.config", "-d", "deps.json"}
	}
	return []string{"refactor", "-R", conf, "-d", deps}
}
