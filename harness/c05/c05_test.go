// C05 — method rename rewrites only the renamed identifier tokens.
package c05

import (
	"encoding/json"
	"fmt"
	"os"
	"path/filepath"
	"sort"
	"strings"
	"testing"
	"unicode"
	"unicode/utf8"

	"github.com/modernizing/coca/pkg/application/analysis/javaapp"
	rename "github.com/modernizing/coca/pkg/application/refactor/rename"
	"github.com/modernizing/coca/pkg/domain/core_domain"
	"github.com/modernizing/coca/pkg/infrastructure/ast/ast_java"
	"github.com/modernizing/coca/pkg/infrastructure/ast/ast_java/java_identify"
	"pgregory.net/rapid"

	"verif/internal/cli"
	"verif/internal/jgen"
	"verif/internal/pbt"
)

type Case struct {
	Project jgen.Project `json:"project"`
	Class   string       `json:"class"` // pkg.Class of the renamed method
	Old     string       `json:"old"`
	New     string       `json:"new"`
	CLI     bool         `json:"cli"`
}

var keywords = map[string]bool{"do": true, "if": true, "for": true, "int": true, "new": true, "try": true, "var": true, "byte": true, "case": true,
	"char": true, "else": true, "enum": true, "goto": true, "long": true, "null": true, "this": true, "true": true, "void": true, "to": true, "with": true, "non": true}

func gen(t *rapid.T) Case {
	p := jgen.GenProject(t, jgen.Opts{Bodies: true, MultiByte: true, Interfaces: true, MaxUnits: 4, MaxMethods: 4, Wide: true, RichDecl: true, SharedMethodNames: true, WildcardProjectImports: true, SuperCallsDeclared: true, ExoticNames: true})
	// some files use CRLF line ends: columns and lines are unaffected, every other byte must survive
	for i := range p.Files {
		if strings.HasSuffix(p.Files[i].Path, ".java") && rapid.IntRange(0, 7).Draw(t, "crlf") == 0 {
			p.Files[i].Text = strings.ReplaceAll(p.Files[i].Text, "\n", "\r\n")
		}
	}
	c := Case{Project: p, CLI: rapid.IntRange(0, 14).Draw(t, "cli") == 0}
	type cand struct {
		class, name string
		sites       int
	}
	var cands, withSites, crossFile []cand
	for _, u := range p.Units {
		if u.Kind != "Class" {
			continue
		}
		count := map[string]int{}
		for _, f := range u.Funcs {
			count[f.Name]++
		}
		for _, f := range u.Funcs {
			if f.IsCtor || count[f.Name] != 1 {
				continue
			}
			cd := cand{class: u.FullName(), name: f.Name}
			target := u.FullName() + "." + f.Name
			elsewhere := false
			for _, u2 := range p.Units {
				for _, f2 := range u2.Funcs {
					for _, e := range f2.Events {
						if e.Target == target {
							cd.sites++
							if u2.FullName() != u.FullName() {
								elsewhere = true
							}
						}
					}
				}
			}
			cands = append(cands, cd)
			if cd.sites > 0 {
				withSites = append(withSites, cd)
			}
			if elsewhere {
				crossFile = append(crossFile, cd)
			}
		}
	}
	if len(cands) == 0 {
		return c // nothing to rename; the check will skip
	}
	pick := cands
	if len(withSites) > 0 && rapid.IntRange(0, 5).Draw(t, "preferSites") > 0 {
		pick = withSites
		// and among those, methods that are called from another file
		if len(crossFile) > 0 && rapid.Bool().Draw(t, "preferCrossFile") {
			pick = crossFile
		}
	}
	sort.Slice(pick, func(i, j int) bool { return pick[i].sites > pick[j].sites })
	cd := pick[rapid.IntRange(0, len(pick)-1).Draw(t, "subject")]
	c.Class, c.Old = cd.class, cd.name
	// a new name of any length 1..40 (in characters): letters, then 0..3 of its characters replaced by
	// other identifier characters (`_`, `$`, a digit, letters outside ASCII)
	var nn string
	switch rapid.IntRange(0, 3).Draw(t, "newLen") {
	case 0:
		nn = rapid.StringMatching(`[a-z]`).Draw(t, "new1")
	case 1:
		nn = rapid.StringMatching(`[a-z][a-zA-Z]{`+fmt.Sprint(utf8.RuneCountInString(cd.name)-1)+`}`).Draw(t, "newSameLen")
	case 2:
		nn = rapid.StringMatching(`[a-z][a-zA-Z]{20,39}`).Draw(t, "newLong")
	default:
		nn = rapid.StringMatching(`[a-z][a-zA-Z]{0,12}`).Draw(t, "newAny")
	}
	if k := rapid.IntRange(0, 5).Draw(t, "newExotic") - 2; k > 0 {
		rs := []rune(nn)
		for ; k > 0; k-- {
			at := rapid.IntRange(0, len(rs)-1).Draw(t, "newExoticAt")
			r := rapid.SampledFrom(exoticRunes).Draw(t, "newExoticRune")
			if at == 0 && unicode.IsDigit(r) {
				r = '$'
			}
			rs[at] = r
		}
		nn = string(rs)
	}
	// fresh in the project, and no keyword (`_` alone is one)
	taken := map[string]bool{"_": true}
	for _, f := range p.Files {
		for _, id := range strings.FieldsFunc(f.Text, func(r rune) bool { return !identPart(r) }) {
			taken[id] = true
		}
	}
	for taken[nn] || keywords[nn] || jgenKeyword(nn) {
		nn += "Q"
	}
	c.New = nn
	// sometimes clone a calling unit under a class name of the same length: two files then hold
	// sites at identical (line, column) coordinates
	if rapid.IntRange(0, 3).Draw(t, "cloneCaller") == 0 {
		target := c.Class + "." + c.Old
		for i, u := range p.Units {
			if u.Kind != "Class" || u.FullName() == c.Class {
				continue
			}
			calls := false
			for _, f := range u.Funcs {
				for _, e := range f.Events {
					if e.Target == target && e.Resolve {
						calls = true
					}
				}
			}
			if !calls {
				continue
			}
			twin := "Q" + u.Name[1:]
			if twin == u.Name {
				twin = "W" + u.Name[1:]
			}
			clash := false
			for _, f := range p.Files {
				if strings.Contains(f.Text, twin) {
					clash = true
				}
			}
			if clash {
				continue
			}
			nu := u
			nu.Name = twin
			nu.Path = strings.TrimSuffix(u.Path, u.Name+".java") + twin + ".java"
			nu.Funcs = append([]jgen.FuncTruth(nil), u.Funcs...)
			for k := range nu.Funcs {
				if nu.Funcs[k].IsCtor {
					nu.Funcs[k].Name = twin
				}
			}
			c.Project.Files = append(append([]jgen.File(nil), c.Project.Files...), jgen.File{Path: nu.Path, Text: replaceIdent(p.Files[i].Text, u.Name, twin)})
			c.Project.Units = append(append([]jgen.UnitTruth(nil), c.Project.Units...), nu)
			break
		}
	}
	return c
}

// exoticRunes are identifier characters other than ASCII letters.
var exoticRunes = []rune{'_', '$', '0', '7', 'é', 'ü', 'ß', 'π', 'д', 'Ж', '値', '名'}

// identPart reports whether r may be part of a Java identifier (as the shipped lexer reads it: ASCII
// letters, digits, `_`, `$`, and everything above ASCII).
func identPart(r rune) bool {
	return r == '_' || r == '$' || r >= '0' && r <= '9' || r >= 'a' && r <= 'z' || r >= 'A' && r <= 'Z' || r > 0x7f
}

// replaceIdent replaces the occurrences of the identifier old in s (whole identifiers only) by repl.
func replaceIdent(s, old, repl string) string {
	var out strings.Builder
	from := 0
	for {
		k := strings.Index(s[from:], old)
		if k < 0 {
			break
		}
		i := from + k
		before, _ := utf8.DecodeLastRuneInString(s[:i])
		after, _ := utf8.DecodeRuneInString(s[i+len(old):])
		if (i == 0 || !identPart(before)) && (i+len(old) == len(s) || !identPart(after)) {
			out.WriteString(s[from:i] + repl)
		} else {
			out.WriteString(s[from : i+len(old)])
		}
		from = i + len(old)
	}
	out.WriteString(s[from:])
	return out.String()
}

func jgenKeyword(s string) bool {
	for _, k := range strings.Fields(`abstract assert boolean break catch class const continue default double extends final finally float
implements import instanceof interface native package private protected public return short static strictfp super switch synchronized
throw throws transient volatile while false record sealed permits yield module open requires exports opens uses provides transitive`) {
		if k == s {
			return true
		}
	}
	return false
}

func reset() {
	ast_java.VerifResetAstJava()
	java_identify.VerifResetJavaIdentify()
	rename.VerifResetRename()
}

func analyse(dir string) (model []core_domain.CodeDataStruct, panicked string) {
	panicked = pbt.Call(func() {
		iapp := javaapp.NewJavaIdentifierApp()
		ident := iapp.AnalysisPath(dir)
		app := javaapp.NewJavaFullApp()
		model = app.AnalysisPath(dir, ident)
	})
	return
}

type edit struct {
	file      string
	line, col int
}

func check(c Case) pbt.Verdict {
	if c.Old == "" {
		return pbt.Verdict{Skip: true}
	}
	dir := cli.Scratch("c05-")
	defer os.RemoveAll(dir)
	proj := filepath.Join(dir, "proj")
	orig := map[string]string{}
	for _, f := range c.Project.Files {
		orig[f.Path] = f.Text
	}
	cli.WriteTree(proj, orig)
	reset()
	before, p := analyse(proj)
	if p != "" {
		return pbt.Fail("analysis panicked: %s", p)
	}
	split := strings.LastIndex(c.Class, ".")
	pkg, cls := c.Class[:split], c.Class[split+1:]
	// the edits the statement allows: the declaration identifier and every call the model attributes to the method
	var edits []edit
	seen := map[edit]bool{}
	add := func(e edit) {
		if !seen[e] {
			seen[e] = true
			edits = append(edits, e)
		}
	}
	rel := func(abs string) string {
		r, _ := filepath.Rel(proj, abs)
		return filepath.ToSlash(r)
	}
	for _, ds := range before {
		for _, f := range ds.Functions {
			if ds.Package == pkg && ds.NodeName == cls && f.Name == c.Old {
				add(edit{rel(ds.FilePath), f.Position.StartLine, f.Position.StartLinePosition})
			}
			for _, call := range f.FunctionCalls {
				if call.Package == pkg && call.NodeName == cls && call.FunctionName == c.Old {
					add(edit{rel(ds.FilePath), call.Position.StartLine, call.Position.StartLinePosition})
				}
			}
		}
	}
	// ground truth: the declaration and every generated call site meant for the method must be among them
	target := c.Class + "." + c.Old
	sites, sameLine, mbLeft := 0, false, false
	wildcardSite, wildcardUnit, superSite := false, false, false
	for i, u := range c.Project.Units {
		wildcardOnly := false
		for _, ft := range u.Features {
			switch {
			case ft == "wildcard_project_import":
				wildcardUnit = true
			case ft == "wildcard_only:"+c.Class:
				wildcardOnly = true
			}
		}
		lines := strings.Split(c.Project.Files[i].Text, "\n")
		perLine := map[int]int{}
		for _, f := range u.Funcs {
			if u.FullName() == c.Class && f.Name == c.Old {
				if !seen[edit{u.Path, f.NameLine, f.NameCol}] {
					return pbt.Fail("the model does not place the declaration of %s at %s:%d:%d", target, u.Path, f.NameLine, f.NameCol)
				}
			}
			for _, e := range f.Events {
				if e.Target == target && e.Recv == "super" {
					superSite = true // not asserted to be attributed: the model decides
				}
				if e.Target == target && e.Resolve {
					sites++
					if wildcardOnly {
						wildcardSite = true
					}
					if !seen[edit{u.Path, e.Line, e.Col}] {
						return pbt.Fail("the call of %s at %s:%d:%d (receiver kind %s) is not attributed to it by the model", target, u.Path, e.Line, e.Col, e.Recv)
					}
				}
			}
		}
		for e := range seen {
			if e.file == u.Path {
				perLine[e.line]++
				if e.line-1 < len(lines) {
					l := []rune(lines[e.line-1])
					if e.col <= len(l) && len(string(l[:e.col])) != e.col {
						mbLeft = true
					}
				}
			}
		}
		for _, n := range perLine {
			if n >= 2 {
				sameLine = true
			}
		}
	}
	// expected bytes: all edits applied to the original text simultaneously
	expected := map[string]string{}
	for path, text := range orig {
		expected[path] = text
	}
	byFile := map[string][]edit{}
	for _, e := range edits {
		byFile[e.file] = append(byFile[e.file], e)
	}
	for file, es := range byFile {
		text, ok := orig[file]
		if !ok {
			return pbt.Fail("the model names file %q which is not part of the project", file)
		}
		lines := strings.Split(text, "\n")
		sort.Slice(es, func(i, j int) bool {
			if es[i].line != es[j].line {
				return es[i].line < es[j].line
			}
			return es[i].col > es[j].col // right to left within a line
		})
		oldLen := utf8.RuneCountInString(c.Old)
		for _, e := range es {
			l := []rune(lines[e.line-1])
			if e.col+oldLen > len(l) || string(l[e.col:e.col+oldLen]) != c.Old {
				return pbt.Fail("the model's position %s:%d:%d does not select %q in %q", file, e.line, e.col, c.Old, lines[e.line-1])
			}
			lines[e.line-1] = string(l[:e.col]) + c.New + string(l[e.col+oldLen:])
		}
		expected[file] = strings.Join(lines, "\n")
	}
	conf := c.Class + "." + c.Old + " -> " + c.Class + "." + c.New + "\n"
	how := "RenameMethodApp(deps).Refactoring(conf)"
	if c.CLI {
		how = "coca refactor -R conf -d deps.json"
		raw, _ := json.Marshal(before)
		cli.WriteTree(dir, map[string]string{"deps.json": string(raw), "rename.config": conf})
		res, err := cli.Run("coca", dir, nil, "refactor", "-R", filepath.Join(dir, "rename.config"), "-d", filepath.Join(dir, "deps.json"))
		if err != nil {
			panic(err)
		}
		if res.ExitCode != 0 || res.TimedOut {
			return pbt.Fail("`%s` exited with %d (timeout=%v)\n%s", how, res.ExitCode, res.TimedOut, res.Stdout+res.Stderr)
		}
	} else if p := pbt.Call(func() { rename.RenameMethodApp(before).Refactoring(conf) }); p != "" {
		return pbt.Fail("%s panicked: %s", how, p)
	}
	var paths []string
	for path := range orig {
		paths = append(paths, path)
	}
	sort.Strings(paths)
	for _, path := range paths {
		got, err := os.ReadFile(filepath.Join(proj, filepath.FromSlash(path)))
		if err != nil {
			return pbt.Fail("after %s: %s is gone: %v", how, path, err)
		}
		if string(got) != expected[path] {
			return pbt.Fail("after %s (%s -> %s): %s differs from the original with exactly the %d allowed identifier(s) replaced\n%s", how, target, c.New, path, len(byFile[path]), firstDiff(orig[path], expected[path], string(got)))
		}
	}
	// re-analysis gives the original model with the method and those calls renamed
	reset()
	after, p := analyse(proj)
	if p != "" {
		return pbt.Fail("re-analysis panicked: %s", p)
	}
	delta := utf8.RuneCountInString(c.New) - utf8.RuneCountInString(c.Old) // columns count characters
	shift := func(file string, line, col int) int {
		n := 0
		for _, e := range byFile[file] {
			if e.line == line && e.col < col {
				n += delta
			}
		}
		return col + n
	}
	want := project(before, proj, c.Old, c.New, func(file string, f *core_domain.CodeFunction) {
		if seen[edit{file, f.Position.StartLine, f.Position.StartLinePosition}] && f.Name == c.Old {
			f.Name = c.New
		}
		f.Position.StartLinePosition = shift(file, f.Position.StartLine, f.Position.StartLinePosition)
		for k := range f.FunctionCalls {
			call := &f.FunctionCalls[k]
			if seen[edit{file, call.Position.StartLine, call.Position.StartLinePosition}] && call.FunctionName == c.Old {
				call.FunctionName = c.New
			}
			call.Position.StartLinePosition = shift(file, call.Position.StartLine, call.Position.StartLinePosition)
		}
	})
	got := project(after, proj, c.Old, c.New, func(string, *core_domain.CodeFunction) {})
	if want != got {
		return pbt.Fail("re-analysis after renaming %s -> %s is not the original model with that method and its calls renamed\n%s", target, c.New, firstDiff("", want, got))
	}
	v := pbt.Verdict{}
	total := len(edits)
	v.NonTrivial = total >= 2 && (sameLine || mbLeft || delta != 0)
	if sameLine {
		v.Classes = append(v.Classes, "two_sites_on_one_line")
	}
	if mbLeft {
		v.Classes = append(v.Classes, "multibyte_left_of_site")
	}
	switch {
	case delta < 0:
		v.Classes = append(v.Classes, "new_shorter")
	case delta > 0:
		v.Classes = append(v.Classes, "new_longer")
	default:
		v.Classes = append(v.Classes, "same_length")
	}
	if len(byFile) >= 2 {
		v.Classes = append(v.Classes, "sites_in_several_files")
	}
	if sites >= 1 {
		v.Classes = append(v.Classes, "has_call_sites")
	}
	if wildcardUnit {
		v.Classes = append(v.Classes, "unit_with_wildcard_project_import")
	}
	if wildcardSite {
		v.Classes = append(v.Classes, "call_site_reaches_class_through_wildcard_import_only")
	}
	if superSite {
		v.Classes = append(v.Classes, "super_call_of_renamed_method")
	}
	if c.CLI {
		v.Classes = append(v.Classes, "cli")
	}
	for _, n := range []struct{ label, name string }{{"old", c.Old}, {"new", c.New}, {"class", cls}} {
		if strings.ContainsAny(n.name, "_$") {
			v.Classes = append(v.Classes, n.label+"_name_with_underscore_or_dollar")
		}
		if len(n.name) != utf8.RuneCountInString(n.name) {
			v.Classes = append(v.Classes, n.label+"_name_with_non_ascii_letter")
		}
	}
	if strings.ContainsAny(c.New, "0123456789") {
		v.Classes = append(v.Classes, "new_name_with_digit")
	}
	if strings.ContainsAny(pkg, "_0123456789") {
		v.Classes = append(v.Classes, "package_with_digit_or_underscore")
	}
	return v
}

// project renders the parts of a model that the statement's last sentence is about.
func project(model []core_domain.CodeDataStruct, proj string, oldName, newName string, adjust func(file string, f *core_domain.CodeFunction)) string {
	var out []string
	for _, ds := range model {
		if ds.NodeName == "" {
			continue
		}
		r, _ := filepath.Rel(proj, ds.FilePath)
		file := filepath.ToSlash(r)
		var fs []string
		for _, f := range ds.Functions {
			f.FunctionCalls = append([]core_domain.CodeCall(nil), f.FunctionCalls...)
			adjust(file, &f)
			s := fmt.Sprintf("  %s %s ctor=%v @%d:%d params=%v", f.ReturnType, f.Name, f.IsConstructor, f.Position.StartLine, f.Position.StartLinePosition, f.Parameters)
			for _, call := range f.FunctionCalls {
				// a call chained onto m() is recorded with node "m", one on `new K(m())` with node
				// "newK(m())": the method's name inside a receiver label follows the rename, so old
				// and new are the same label here
				call.NodeName = replaceIdent(call.NodeName, oldName, newName)
				s += fmt.Sprintf("\n    %s|%s|%s|%s @%d:%d", call.Package, call.NodeName, call.FunctionName, call.Type, call.Position.StartLine, call.Position.StartLinePosition)
			}
			fs = append(fs, s)
		}
		sort.Strings(fs)
		out = append(out, fmt.Sprintf("%s.%s %s %s extends=%s\n%s", ds.Package, ds.NodeName, ds.Type, file, ds.Extend, strings.Join(fs, "\n")))
	}
	sort.Strings(out)
	return strings.Join(out, "\n")
}

func firstDiff(orig, want, got string) string {
	wl, gl := strings.Split(want, "\n"), strings.Split(got, "\n")
	ol := strings.Split(orig, "\n")
	for i := 0; i < len(wl) || i < len(gl); i++ {
		var w, g string
		if i < len(wl) {
			w = wl[i]
		}
		if i < len(gl) {
			g = gl[i]
		}
		if w != g {
			o := ""
			if orig != "" && i < len(ol) {
				o = fmt.Sprintf("original: %q\n", ol[i])
			}
			return fmt.Sprintf("line %d\n%sexpected: %q\nactual:   %q", i+1, o, w, g)
		}
	}
	return "(same lines, different line count)"
}

func init() {
	pbt.SetProperty("C05")
	jgen.SetExcluded(pbt.Excluded)
	pbt.Describe("rapid-generated conventional Java projects (jgen, 1-4 units with method bodies, multi-byte literals and comments, several invocations per line, the method's name also inside string literals and comments as decoys; a calling class of another package reaches the renamed method's class through a single-type import, through a wildcard import of its package only, or through both, among unrelated wildcard imports; subclasses call methods their project superclass declares as super.m(...); method, variable and class names drawn from the whole identifier alphabet: besides ASCII letters and digits also `_`, `$` (not in class names) and letters outside ASCII (run4$impl, _calc7, m12größe, 値load3, class Order5_v, Item7É), packages with digits and underscores (com.acme2.v1_0)) and a rename request for a class method whose name is unique in its class, preferring methods with call sites, and among those methods called from another file; new names of length 1, the same length (in characters), 20-40 characters, or 1-13 characters, made of letters with up to three characters replaced by `_`, `$`, a digit or a letter outside ASCII (Latin-1, Greek, Cyrillic, CJK). Oracle: the allowed edits are the declaration identifier and the callee identifier of every call the pre-rename model attributes to the method (positions taken from the model, cross-checked against the printer's table: the declaration and every generated call site with an implicit / field / parameter / local receiver of that class must be among them); all edits are applied to the original text at once (in characters) and every file of the project must byte-equal the result; then the rewritten tree is re-analysed and must give the original model with the method and those calls renamed and start columns shifted. Non-trivial = at least 2 edited tokens and (two on one line, or multi-byte text left of a token, or a length change); distinct = hash of the case.",
		"rename subjects are class methods (interface method positions start at the first token of the declaration, DESIGN.md appendix B) whose name is not overloaded in the class",
		"the new name is fresh in the project (it is compared with every identifier written in the project's files and lengthened when it occurs) and is not a keyword",
		"lengths and columns are counted in characters (the model's columns are the lexer's), so `same length` and the shift of columns right of an edit refer to characters, not bytes",
		"simple class names are unique in the project, so a class reached through a wildcard import is still denoted by its plain name",
		"super.m(...) calls are not required to be attributed to the superclass's method (the statement's edits are the calls the model attributes); when the model does attribute them they must be renamed like any other call",
		"one case in fifteen goes through the sub-process `coca refactor -R conf -d deps.json` with the model serialised to deps.json")
	pbt.Register("rename", 400, 2000, gen, check)
}

func TestProp(t *testing.T)   { pbt.Main(t) }
func TestReplay(t *testing.T) { pbt.Replay(t) }
