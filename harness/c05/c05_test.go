// C05 — method rename rewrites only the renamed identifier tokens.
package c05

import (
	"encoding/json"
	"fmt"
	"os"
	"path/filepath"
	"sort"
	"strings"
	"testing"
	"unicode"
	"unicode/utf8"

	"github.com/modernizing/coca/pkg/application/analysis/javaapp"
	rename "github.com/modernizing/coca/pkg/application/refactor/rename"
	"github.com/modernizing/coca/pkg/domain/core_domain"
	"github.com/modernizing/coca/pkg/infrastructure/ast/ast_java"
	"github.com/modernizing/coca/pkg/infrastructure/ast/ast_java/java_identify"
	"pgregory.net/rapid"

	"verif/internal/cli"
	"verif/internal/jgen"
	"verif/internal/pbt"
)

type Case struct {
	Project jgen.Project `json:"project"`
	Class   string       `json:"class"` // pkg.Class of the renamed method (Class alone in the default package)
	Old     string       `json:"old"`
	New     string       `json:"new"`
	CLI     bool         `json:"cli"`
	Conf    int          `json:"conf,omitempty"`    // layout of the config text (confText)
	Args    int          `json:"args,omitempty"`    // spelling of the CLI options (cliArgs)
	Reverse bool         `json:"reverse,omitempty"` // the model is handed over in reverse order
	Prior   *Request     `json:"prior,omitempty"`   // a request carried out before, in the same process, on another copy of the project
	More    []Request    `json:"more,omitempty"`    // further requests of the same config, for other methods
	MainAt  int          `json:"mainAt,omitempty"`  // how many of them stand before the request Class.Old -> New in the config
	Sep     int          `json:"sep,omitempty"`     // 1: a blank line between the requests of the config
}

// requests lists the requests of the config in the order of its lines, and the index of the main one.
func (c Case) requests() ([]Request, int) {
	at := c.MainAt
	if at < 0 || at > len(c.More) {
		at = 0
	}
	var out []Request
	out = append(out, c.More[:at]...)
	out = append(out, Request{Class: c.Class, Old: c.Old, New: c.New})
	out = append(out, c.More[at:]...)
	return out, at
}

// Request is a rename request.
type Request struct {
	Class string `json:"class"`
	Old   string `json:"old"`
	New   string `json:"new"`
}

var keywords = map[string]bool{"do": true, "if": true, "for": true, "int": true, "new": true, "try": true, "var": true, "byte": true, "case": true,
	"char": true, "else": true, "enum": true, "goto": true, "long": true, "null": true, "this": true, "true": true, "void": true, "to": true, "with": true, "non": true}

func gen(t *rapid.T) Case {
	p := jgen.GenProject(t, jgen.Opts{Bodies: true, MultiByte: true, Interfaces: true, MaxUnits: 4, MaxMethods: 4, Wide: true, RichDecl: true, SharedMethodNames: true, WildcardProjectImports: true, SuperCallsDeclared: true, ExoticNames: true, LongLines: true, Anon: true, UnqualifiedForeign: true, Loops: true})
	// some files use CRLF line ends: columns and lines are unaffected, every other byte must survive
	for i := range p.Files {
		if strings.HasSuffix(p.Files[i].Path, ".java") && rapid.IntRange(0, 7).Draw(t, "crlf") == 0 {
			p.Files[i].Text = strings.ReplaceAll(p.Files[i].Text, "\n", "\r\n")
		}
	}
	c := Case{Project: p, CLI: rapid.IntRange(0, 14).Draw(t, "cli") == 0}
	type cand struct {
		class, name string
		sites       int
	}
	var cands, withSites, crossFile []cand
	for _, u := range p.Units {
		if u.Kind != "Class" {
			continue
		}
		count := map[string]int{}
		for _, f := range u.Funcs {
			count[f.Name]++
		}
		for _, f := range u.Funcs {
			if f.IsCtor || count[f.Name] != 1 {
				continue
			}
			cd := cand{class: u.FullName(), name: f.Name}
			target := u.FullName() + "." + f.Name
			elsewhere := false
			for _, u2 := range p.Units {
				for _, f2 := range u2.Funcs {
					for _, e := range f2.Events {
						if e.Target == target {
							cd.sites++
							if u2.FullName() != u.FullName() {
								elsewhere = true
							}
						}
					}
				}
			}
			cands = append(cands, cd)
			if cd.sites > 0 {
				withSites = append(withSites, cd)
			}
			if elsewhere {
				crossFile = append(crossFile, cd)
			}
		}
	}
	// the subject: a method of the generated project or, one time in four (and whenever the project
	// has no method to rename), of a unit written by hand (c05_shapes_test.go)
	synth := rapid.IntRange(0, 3).Draw(t, "synth") == 3 || len(cands) == 0
	var cd cand
	var synthOthers []string
	if synth {
		cd.class, cd.name, synthOthers = genSynth(t, &p)
		c.Project = p
	} else {
		pick := cands
		if len(withSites) > 0 && rapid.IntRange(0, 5).Draw(t, "preferSites") > 0 {
			pick = withSites
			// and among those, methods that are called from another file
			if len(crossFile) > 0 && rapid.Bool().Draw(t, "preferCrossFile") {
				pick = crossFile
			}
		}
		sort.Slice(pick, func(i, j int) bool { return pick[i].sites > pick[j].sites })
		cd = pick[rapid.IntRange(0, len(pick)-1).Draw(t, "subject")]
	}
	c.Class, c.Old = cd.class, cd.name
	// fresh in the project, and no keyword (`_` alone is one)
	taken := map[string]bool{"_": true}
	for _, f := range p.Files {
		for _, id := range strings.FieldsFunc(f.Text, func(r rune) bool { return !identPart(r) }) {
			taken[id] = true
		}
	}
	c.New = genNewName(t, cd.name, taken)
	// sometimes clone a calling unit under a class name of the same length: two files then hold
	// sites at identical (line, column) coordinates
	clonedClass := ""
	if !synth && rapid.IntRange(0, 3).Draw(t, "cloneCaller") == 0 {
		target := c.Class + "." + c.Old
		for i, u := range p.Units {
			if u.Kind != "Class" || u.FullName() == c.Class {
				continue
			}
			calls := false
			for _, f := range u.Funcs {
				for _, e := range f.Events {
					if e.Target == target && e.Resolve {
						calls = true
					}
				}
			}
			if !calls {
				continue
			}
			twin := "Q" + u.Name[1:]
			if twin == u.Name {
				twin = "W" + u.Name[1:]
			}
			clash := false
			for _, f := range p.Files {
				if strings.Contains(f.Text, twin) {
					clash = true
				}
			}
			if clash {
				continue
			}
			nu := u
			nu.Name = twin
			nu.Path = strings.TrimSuffix(u.Path, u.Name+".java") + twin + ".java"
			nu.Funcs = append([]jgen.FuncTruth(nil), u.Funcs...)
			for k := range nu.Funcs {
				if nu.Funcs[k].IsCtor {
					nu.Funcs[k].Name = twin
				}
			}
			c.Project.Files = append(append([]jgen.File(nil), c.Project.Files...), jgen.File{Path: nu.Path, Text: replaceIdent(p.Files[i].Text, u.Name, twin)})
			c.Project.Units = append(append([]jgen.UnitTruth(nil), c.Project.Units...), nu)
			clonedClass = u.FullName()
			break
		}
	}
	// eighth seed batch: a request that touches many files (33-43: past 32, mostly no multiple of 8): a calling unit
	// cloned under thirty-odd further class names
	if !synth && clonedClass == "" && rapid.IntRange(0, 19).Draw(t, "manyCallers") == 19 {
		target := c.Class + "." + c.Old
		for i, u := range p.Units {
			if u.Kind != "Class" || u.FullName() == c.Class || len(p.Files[i].Text) > 20000 || len([]rune(u.Name)) < 3 {
				continue
			}
			calls := false
			for _, f := range u.Funcs {
				for _, e := range f.Events {
					if e.Target == target && e.Resolve {
						calls = true
					}
				}
			}
			if !calls {
				continue
			}
			n := rapid.IntRange(31, 41).Draw(t, "manyCallersCount")
			files := append([]jgen.File(nil), c.Project.Files...)
			units := append([]jgen.UnitTruth(nil), c.Project.Units...)
			ok := true
			for k := 0; k < n && ok; k++ {
				// a name of the same length (the first two characters replaced): every site keeps its line and column
				r := []rune(u.Name)
				twin := string(rune('A'+k/26)) + string(rune('a'+k%26)) + string(r[2:])
				if twin == u.Name {
					twin = "Zz" + string(r[2:])
				}
				for _, f := range p.Files {
					if strings.Contains(f.Text, twin) {
						ok = false
					}
				}
				nu := u
				nu.Name = twin
				nu.Path = strings.TrimSuffix(u.Path, u.Name+".java") + twin + ".java"
				nu.Funcs = append([]jgen.FuncTruth(nil), u.Funcs...)
				for j := range nu.Funcs {
					if nu.Funcs[j].IsCtor {
						nu.Funcs[j].Name = twin
					}
				}
				files = append(files, jgen.File{Path: nu.Path, Text: replaceIdent(p.Files[i].Text, u.Name, twin)})
				units = append(units, nu)
			}
			if ok {
				c.Project.Files, c.Project.Units = files, units
				clonedClass = u.FullName()
			}
			break
		}
	}
	// sometimes a class whose name resembles the subject's class
	look := ""
	if rapid.IntRange(0, 4).Draw(t, "lookalike") == 4 {
		look = addLookalike(t, &c)
	}
	// one case in two: the config holds one or two further requests, for other methods: of the subject's
	// class or of another class of the project (preferring methods with a site on a line that also
	// holds a site of the subject), a method named like the subject's in a class named like its class,
	// a method of the hand-written unit, or (rarely) a method the project does not declare
	if k := rapid.IntRange(0, 3).Draw(t, "furtherRequests") - 1; k > 0 {
		type sub struct{ class, name string }
		var pool []sub
		for _, o := range cands {
			// (the truth of a cloned unit still names the original class)
			if (o.class != c.Class || o.name != c.Old) && o.class != clonedClass {
				pool = append(pool, sub{o.class, o.name})
			}
		}
		for _, n := range synthOthers {
			pool = append(pool, sub{c.Class, n})
		}
		if look != "" {
			pool = append(pool, sub{look, c.Old})
		}
		lineSet := func(class, name string) map[string]bool {
			out := map[string]bool{}
			for _, u := range c.Project.Units {
				for _, f := range u.Funcs {
					if fullName(u) == class && f.Name == name && !f.IsCtor {
						out[fmt.Sprint(u.Path, ":", f.NameLine)] = true
					}
					for _, e := range f.Events {
						if e.Target == class+"."+name {
							out[fmt.Sprint(u.Path, ":", e.Line)] = true
						}
					}
				}
			}
			return out
		}
		taken2 := identifiersOf(&c.Project)
		taken2[c.New] = true
		held := lineSet(c.Class, c.Old)
		for i := 0; i < k; i++ {
			var r Request
			if len(pool) == 0 || rapid.IntRange(0, 9).Draw(t, "absentSubject") == 9 {
				r.Class, r.Old = c.Class, fmt.Sprintf("zgone%d", i+1)
				if rapid.Bool().Draw(t, "absentClass") {
					r.Class = "zz.absent.Zgone"
				}
				for taken2[r.Old] {
					r.Old += "q"
				}
				taken2[r.Old] = true
			} else {
				var near []int
				for j, o := range pool {
					for l := range lineSet(o.class, o.name) {
						if held[l] {
							near = append(near, j)
							break
						}
					}
				}
				j := 0
				if len(near) > 0 && rapid.IntRange(0, 3).Draw(t, "preferSharedLine") > 0 {
					j = near[rapid.IntRange(0, len(near)-1).Draw(t, "furtherSubjectNear")]
				} else {
					j = rapid.IntRange(0, len(pool)-1).Draw(t, "furtherSubject")
				}
				r.Class, r.Old = pool[j].class, pool[j].name
				pool = append(append([]sub(nil), pool[:j]...), pool[j+1:]...)
				for l := range lineSet(r.Class, r.Old) {
					held[l] = true
				}
			}
			r.New = genNewName(t, r.Old, taken2)
			taken[r.New] = true
			c.More = append(c.More, r)
		}
		c.MainAt = rapid.IntRange(0, len(c.More)).Draw(t, "mainAt")
		if rapid.IntRange(0, 3).Draw(t, "blankBetween") == 3 {
			c.Sep = 1
		}
	}
	// the request in the config file: with or without final newline, among blank lines
	if rapid.IntRange(0, 2).Draw(t, "confForm") == 2 {
		c.Conf = rapid.IntRange(1, 4).Draw(t, "confLayout")
	}
	if c.CLI {
		c.Args = rapid.IntRange(0, 5).Draw(t, "cliArgs")
	}
	c.Reverse = rapid.IntRange(0, 3).Draw(t, "reverseModel") == 3
	// sometimes another request has been carried out before in the same process, on another copy of the project
	if !c.CLI && rapid.IntRange(0, 5).Draw(t, "prior") == 5 {
		pr := Request{Class: c.Class, Old: c.Old}
		if len(cands) > 0 && rapid.Bool().Draw(t, "priorOther") {
			o := cands[rapid.IntRange(0, len(cands)-1).Draw(t, "priorSubject")]
			pr.Class, pr.Old = o.class, o.name
		}
		pr.New = rapid.StringMatching(`[a-z][a-zA-Z]{0,12}`).Draw(t, "priorNew")
		for taken[pr.New] || isKeyword(pr.New) {
			pr.New += "Q"
		}
		c.Prior = &pr
	}
	return c
}

// genNewName draws the new name of a request for the method old: fresh among taken (and entered there).
func genNewName(t *rapid.T, old string, taken map[string]bool) string {
	// a new name of any length 1..40 (in characters): letters, then 0..3 of its characters replaced by
	// other identifier characters (`_`, `$`, a digit, letters outside ASCII)
	var nn string
	switch rapid.IntRange(0, 3).Draw(t, "newLen") {
	case 0:
		nn = rapid.StringMatching(`[a-z]`).Draw(t, "new1")
	case 1:
		if n := utf8.RuneCountInString(old); n <= 40 {
			nn = rapid.StringMatching(`[a-z][a-zA-Z]{`+fmt.Sprint(n-1)+`}`).Draw(t, "newSameLen")
		} else {
			// as long as a very long old name: a short chunk repeated
			chunk := rapid.StringMatching(`[a-zA-Z]{1,6}`).Draw(t, "newSameLenChunk")
			nn = "n" + strings.Repeat(chunk, n/len(chunk)+1)[:n-1]
		}
	case 2:
		nn = rapid.StringMatching(`[a-z][a-zA-Z]{20,39}`).Draw(t, "newLong")
	default:
		nn = rapid.StringMatching(`[a-z][a-zA-Z]{0,12}`).Draw(t, "newAny")
	}
	// sometimes a name that resembles the old one (an extension, a prefix, a suffix, a case variant) or a
	// contextual keyword (open, with, to, record, ...)
	special := rapid.IntRange(0, 7).Draw(t, "newSpecial")
	switch special {
	case 6:
		nn = newNameLike(t, old)
	case 7:
		nn = rapid.SampledFrom(contextualWords).Draw(t, "newWord")
	}
	if k := rapid.IntRange(0, 5).Draw(t, "newExotic") - 2; k > 0 && special < 6 {
		rs := []rune(nn)
		for ; k > 0; k-- {
			at := rapid.IntRange(0, len(rs)-1).Draw(t, "newExoticAt")
			r := rapid.SampledFrom(exoticRunes).Draw(t, "newExoticRune")
			if at == 0 && unicode.IsDigit(r) {
				r = '$'
			}
			rs[at] = r
		}
		nn = string(rs)
	}
	for taken[nn] || isKeyword(nn) {
		nn += "Q"
	}
	taken[nn] = true
	return nn
}

// exoticRunes are identifier characters other than ASCII letters.
var exoticRunes = []rune{'_', '$', '0', '7', 'é', 'ü', 'ß', 'π', 'д', 'Ж', '値', '名'}

// identPart reports whether r may be part of a Java identifier (as the shipped lexer reads it: ASCII
// letters, digits, `_`, `$`, and everything above ASCII).
func identPart(r rune) bool {
	return r == '_' || r == '$' || r >= '0' && r <= '9' || r >= 'a' && r <= 'z' || r >= 'A' && r <= 'Z' || r > 0x7f
}

// replaceIdent replaces the occurrences of the identifier old in s (whole identifiers only) by repl.
func replaceIdent(s, old, repl string) string {
	var out strings.Builder
	from := 0
	for {
		k := strings.Index(s[from:], old)
		if k < 0 {
			break
		}
		i := from + k
		before, _ := utf8.DecodeLastRuneInString(s[:i])
		after, _ := utf8.DecodeRuneInString(s[i+len(old):])
		if (i == 0 || !identPart(before)) && (i+len(old) == len(s) || !identPart(after)) {
			out.WriteString(s[from:i] + repl)
		} else {
			out.WriteString(s[from : i+len(old)])
		}
		from = i + len(old)
	}
	out.WriteString(s[from:])
	return out.String()
}

func jgenKeyword(s string) bool {
	for _, k := range strings.Fields(`abstract assert boolean break catch class const continue default double extends final finally float
implements import instanceof interface native package private protected public return short static strictfp super switch synchronized
throw throws transient volatile while false record sealed permits yield module open requires exports opens uses provides transitive`) {
		if k == s {
			return true
		}
	}
	return false
}

func reset() {
	ast_java.VerifResetAstJava()
	java_identify.VerifResetJavaIdentify()
	rename.VerifResetRename()
}

func analyse(dir string) (model []core_domain.CodeDataStruct, panicked string) {
	panicked = pbt.Call(func() {
		iapp := javaapp.NewJavaIdentifierApp()
		ident := iapp.AnalysisPath(dir)
		app := javaapp.NewJavaFullApp()
		model = app.AnalysisPath(dir, ident)
	})
	return
}

type edit struct {
	file      string
	line, col int
}

func check(c Case) pbt.Verdict {
	if c.Old == "" {
		return pbt.Verdict{Skip: true}
	}
	dir := cli.Scratch("c05-")
	defer os.RemoveAll(dir)
	proj := filepath.Join(dir, "proj")
	orig := map[string]string{}
	for _, f := range c.Project.Files {
		orig[f.Path] = f.Text
	}
	cli.WriteTree(proj, orig)
	reset()
	// history: another request carried out before, in this process, on another copy of the project; what
	// the package keeps from it must not show in the result of the request under test
	priorDir := filepath.Join(dir, "earlier")
	var priorFiles map[string]string
	if c.Prior != nil {
		cli.WriteTree(priorDir, orig)
		pm, p := analyse(priorDir)
		if p != "" {
			return pbt.Fail("analysis panicked: %s", p)
		}
		pc := Case{Class: c.Prior.Class, Old: c.Prior.Old, New: c.Prior.New}
		if p := pbt.Call(func() { rename.RenameMethodApp(pm).Refactoring(confText(pc)) }); p != "" {
			return pbt.Fail("the earlier request %s.%s -> %s panicked: %s", pc.Class, pc.Old, pc.New, p)
		}
		priorFiles = readTree(priorDir, orig)
		// (the analysis passes start afresh; the rename package keeps what it keeps)
		ast_java.VerifResetAstJava()
		java_identify.VerifResetJavaIdentify()
	}
	before, p := analyse(proj)
	if p != "" {
		return pbt.Fail("analysis panicked: %s", p)
	}
	pkg, cls := splitClass(c.Class)
	// the requests of the config, in the order of its lines
	type subject struct {
		pkg, cls, old, new, target string
		delta                      int // columns count characters
	}
	reqs, mainAt := c.requests()
	var subs []subject
	for _, r := range reqs {
		rp, rc := splitClass(r.Class)
		subs = append(subs, subject{rp, rc, r.Old, r.New, r.Class + "." + r.Old, utf8.RuneCountInString(r.New) - utf8.RuneCountInString(r.Old)})
	}
	// the edits the statement allows: for every request, the declaration identifier and every call the model attributes to the method
	var edits []edit
	seen := map[edit]bool{}
	owner := map[edit]int{} // the request an edit belongs to
	contested := false
	add := func(e edit, ri int) {
		if !seen[e] {
			seen[e] = true
			owner[e] = ri
			edits = append(edits, e)
		} else if owner[e] != ri {
			contested = true
		}
	}
	rel := func(abs string) string {
		r, _ := filepath.Rel(proj, abs)
		return filepath.ToSlash(r)
	}
	namelessSite, methodRefSite := false, false
	for _, ds := range before {
		for _, f := range ds.Functions {
			for ri, r := range subs {
				if ds.Package == r.pkg && ds.NodeName == r.cls && f.Name == r.old {
					add(edit{rel(ds.FilePath), f.Position.StartLine, f.Position.StartLinePosition}, ri)
				}
				for _, call := range f.FunctionCalls {
					if call.Package == r.pkg && call.NodeName == r.cls && call.FunctionName == r.old {
						add(edit{rel(ds.FilePath), call.Position.StartLine, call.Position.StartLinePosition}, ri)
						if f.Name == "" {
							namelessSite = true // a call outside every method (field initializer, initializer block)
						}
						if call.Type == "lambda" {
							methodRefSite = true
						}
					}
				}
			}
		}
	}
	if contested {
		// one token claimed by two requests: the statement does not say which name it gets
		pbt.Count("token_claimed_by_two_requests", 1)
		return pbt.Verdict{Skip: true}
	}
	// ground truth: the declaration and every generated call site meant for the method must be among them
	target := c.Class + "." + c.Old
	renames := "renaming " + target + " -> " + c.New
	if len(reqs) > 1 {
		var parts []string
		for _, r := range subs {
			parts = append(parts, r.target+" -> "+r.new)
		}
		renames = "renaming " + strings.Join(parts, ", ") + " (one config)"
	}
	sites, sameLine, mbLeft := 0, false, false
	wildcardSite, wildcardUnit, superSite := false, false, false
	for i, u := range c.Project.Units {
		wildcardOnly := false
		for _, ft := range u.Features {
			switch {
			case ft == "wildcard_project_import":
				wildcardUnit = true
			case ft == "wildcard_only:"+c.Class:
				wildcardOnly = true
			}
		}
		lines := strings.Split(c.Project.Files[i].Text, "\n")
		perLine := map[int]int{}
		for _, f := range u.Funcs {
			for ri, r := range subs {
				if fullName(u) == reqs[ri].Class && f.Name == r.old {
					if e := (edit{u.Path, f.NameLine, f.NameCol}); !seen[e] || owner[e] != ri {
						return pbt.Fail("the model does not place the declaration of %s at %s:%d:%d", r.target, u.Path, f.NameLine, f.NameCol)
					}
				}
				for _, e := range f.Events {
					if e.Target == r.target && e.Recv == "super" {
						superSite = true // not asserted to be attributed: the model decides
					}
					if e.Target == r.target && e.Resolve {
						sites++
						if wildcardOnly && ri == mainAt {
							wildcardSite = true
						}
						if ed := (edit{u.Path, e.Line, e.Col}); !seen[ed] || owner[ed] != ri {
							return pbt.Fail("the call of %s at %s:%d:%d (receiver kind %s) is not attributed to it by the model", r.target, u.Path, e.Line, e.Col, e.Recv)
						}
					}
				}
			}
		}
		for e := range seen {
			if e.file == u.Path {
				perLine[e.line]++
				if e.line-1 < len(lines) {
					l := []rune(lines[e.line-1])
					if e.col <= len(l) && len(string(l[:e.col])) != e.col {
						mbLeft = true
					}
				}
			}
		}
		for _, n := range perLine {
			if n >= 2 {
				sameLine = true
			}
		}
	}
	// expected bytes: all edits applied to the original text simultaneously
	expected := map[string]string{}
	for path, text := range orig {
		expected[path] = text
	}
	firstLine, lastLine, farColumn, hugeLine := false, false, false, false
	byFile := map[string][]edit{}
	for _, e := range edits {
		byFile[e.file] = append(byFile[e.file], e)
	}
	for file, es := range byFile {
		text, ok := orig[file]
		if !ok {
			return pbt.Fail("the model names file %q which is not part of the project", file)
		}
		lines := strings.Split(text, "\n")
		for _, e := range es {
			if e.line == 1 {
				firstLine = true
			}
			if e.line == len(lines) {
				lastLine = true // the file does not end in a line end and the site stands on its last line
			}
			if e.col > 4096 {
				farColumn = true
			}
			if e.line >= 1 && e.line <= len(lines) && len(lines[e.line-1]) > 65536 {
				hugeLine = true
			}
		}
		sort.Slice(es, func(i, j int) bool {
			if es[i].line != es[j].line {
				return es[i].line < es[j].line
			}
			return es[i].col > es[j].col // right to left within a line
		})
		for _, e := range es {
			r := subs[owner[e]]
			oldLen := utf8.RuneCountInString(r.old)
			l := []rune(lines[e.line-1])
			if e.col+oldLen > len(l) || string(l[e.col:e.col+oldLen]) != r.old {
				return pbt.Fail("the model's position %s:%d:%d does not select %q in %q", file, e.line, e.col, r.old, lines[e.line-1])
			}
			lines[e.line-1] = string(l[:e.col]) + r.new + string(l[e.col+oldLen:])
		}
		expected[file] = strings.Join(lines, "\n")
	}
	conf := confText(c)
	deps := before
	if c.Reverse {
		deps = nil
		for k := len(before) - 1; k >= 0; k-- {
			deps = append(deps, before[k])
		}
	}
	how := "RenameMethodApp(deps).Refactoring(conf)"
	if c.CLI {
		args := cliArgs(c, filepath.Join(dir, "rename.config"), filepath.Join(dir, "deps.json"))
		how = "coca " + strings.ReplaceAll(strings.Join(args, " "), dir+string(filepath.Separator), "")
		raw, _ := json.Marshal(deps)
		cli.WriteTree(dir, map[string]string{"deps.json": string(raw), "rename.config": conf})
		res, err := cli.Run("coca", dir, nil, args...)
		if err != nil {
			panic(err)
		}
		if res.ExitCode != 0 || res.TimedOut {
			return pbt.Fail("`%s` exited with %d (timeout=%v)\n%s", how, res.ExitCode, res.TimedOut, res.Stdout+res.Stderr)
		}
	} else if p := pbt.Call(func() { rename.RenameMethodApp(deps).Refactoring(conf) }); p != "" {
		return pbt.Fail("%s panicked: %s", how, p)
	}
	if c.Prior != nil {
		now := readTree(priorDir, orig)
		for _, path := range sortedKeys(orig) {
			if now[path] != priorFiles[path] {
				return pbt.Fail("%s (%s) changed %s in the tree of the earlier request %s.%s -> %s\n%s", how, renames, path, c.Prior.Class, c.Prior.Old, c.Prior.New, firstDiff("", priorFiles[path], now[path]))
			}
		}
	}
	for _, path := range sortedKeys(orig) {
		got, err := os.ReadFile(filepath.Join(proj, filepath.FromSlash(path)))
		if err != nil {
			return pbt.Fail("after %s: %s is gone: %v", how, path, err)
		}
		if string(got) != expected[path] {
			return pbt.Fail("after %s (%s): %s differs from the original with exactly the %d allowed identifier(s) replaced\n%s", how, renames, path, len(byFile[path]), firstDiff(orig[path], expected[path], string(got)))
		}
	}
	// re-analysis gives the original model with the method and those calls renamed
	reset()
	after, p := analyse(proj)
	if p != "" {
		return pbt.Fail("re-analysis panicked: %s", p)
	}
	delta := subs[mainAt].delta
	resized := false // some request changes the length of its name
	for _, r := range subs {
		if r.delta != 0 {
			resized = true
		}
	}
	shift := func(file string, line, col int) int {
		n := 0
		for _, e := range byFile[file] {
			if e.line == line && e.col < col {
				n += subs[owner[e]].delta
			}
		}
		return col + n
	}
	want := project(before, proj, reqs, func(file string, f *core_domain.CodeFunction) {
		if e := (edit{file, f.Position.StartLine, f.Position.StartLinePosition}); seen[e] && f.Name == subs[owner[e]].old {
			f.Name = subs[owner[e]].new
		}
		f.Position.StartLinePosition = shift(file, f.Position.StartLine, f.Position.StartLinePosition)
		for k := range f.FunctionCalls {
			call := &f.FunctionCalls[k]
			if e := (edit{file, call.Position.StartLine, call.Position.StartLinePosition}); seen[e] && call.FunctionName == subs[owner[e]].old {
				call.FunctionName = subs[owner[e]].new
			}
			call.Position.StartLinePosition = shift(file, call.Position.StartLine, call.Position.StartLinePosition)
		}
	})
	got := project(after, proj, reqs, func(string, *core_domain.CodeFunction) {})
	if want != got {
		return pbt.Fail("re-analysis after %s is not the original model with %s\n%s", renames, map[bool]string{true: "that method and its calls renamed", false: "those methods and their calls renamed"}[len(reqs) == 1], firstDiff("", want, got))
	}
	v := pbt.Verdict{}
	total := len(edits)
	v.NonTrivial = total >= 2 && (sameLine || mbLeft || resized)
	// several requests in one config: how their sites lie to each other
	if len(reqs) > 1 {
		v.Classes = append(v.Classes, fmt.Sprintf("config_with_%d_requests", len(reqs)))
		shared, staleRight, earlierRight, otherClass, sameOld, absent, sameFile := false, false, false, false, false, false, false
		perReq := map[int]int{}
		files := map[string]map[int]bool{}
		for _, e := range edits {
			perReq[owner[e]]++
			if files[e.file] == nil {
				files[e.file] = map[int]bool{}
			}
			files[e.file][owner[e]] = true
			for _, e2 := range edits {
				a, b := owner[e], owner[e2]
				if e.file != e2.file || e.line != e2.line || a == b || e.col >= e2.col {
					continue
				}
				// e stands left of e2 on one line, and they belong to different requests
				shared = true
				if a < b && subs[a].delta != 0 {
					staleRight = true
				}
				if a > b {
					earlierRight = true
				}
			}
		}
		for _, rs := range files {
			if len(rs) >= 2 {
				sameFile = true
			}
		}
		for ri, r := range subs {
			if perReq[ri] == 0 {
				absent = true
			}
			for _, r2 := range subs[:ri] {
				if r.pkg != r2.pkg || r.cls != r2.cls {
					otherClass = true
					if r.old == r2.old {
						sameOld = true
					}
				}
			}
		}
		for _, x := range []struct {
			on    bool
			label string
		}{
			{sameFile, "sites_of_two_requests_in_one_file"}, {shared, "sites_of_two_requests_on_one_line"},
			{staleRight, "site_of_a_later_request_right_of_a_resized_site_of_an_earlier_request"},
			{earlierRight, "site_of_an_earlier_request_right_of_a_site_of_a_later_request"},
			{otherClass, "requests_for_methods_of_different_classes"}, {!otherClass, "requests_for_methods_of_one_class"},
			{sameOld, "requests_for_methods_of_one_name_in_different_classes"},
			{absent, "request_without_any_site_in_the_project"},
			{mainAt > 0, "main_request_not_on_the_first_line"}, {c.Sep == 1, "blank_line_between_requests"},
		} {
			if x.on {
				v.Classes = append(v.Classes, x.label)
			}
		}
	}
	if sameLine {
		v.Classes = append(v.Classes, "two_sites_on_one_line")
	}
	if mbLeft {
		v.Classes = append(v.Classes, "multibyte_left_of_site")
	}
	switch {
	case delta < 0:
		v.Classes = append(v.Classes, "new_shorter")
	case delta > 0:
		v.Classes = append(v.Classes, "new_longer")
	default:
		v.Classes = append(v.Classes, "same_length")
	}
	if len(byFile) >= 2 {
		v.Classes = append(v.Classes, "sites_in_several_files")
	}
	if sites >= 1 {
		v.Classes = append(v.Classes, "has_call_sites")
	}
	if wildcardUnit {
		v.Classes = append(v.Classes, "unit_with_wildcard_project_import")
	}
	if wildcardSite {
		v.Classes = append(v.Classes, "call_site_reaches_class_through_wildcard_import_only")
	}
	if superSite {
		v.Classes = append(v.Classes, "super_call_of_renamed_method")
	}
	if c.CLI {
		v.Classes = append(v.Classes, "cli")
	}
	for _, n := range []struct{ label, name string }{{"old", c.Old}, {"new", c.New}, {"class", cls}} {
		if strings.ContainsAny(n.name, "_$") {
			v.Classes = append(v.Classes, n.label+"_name_with_underscore_or_dollar")
		}
		if len(n.name) != utf8.RuneCountInString(n.name) {
			v.Classes = append(v.Classes, n.label+"_name_with_non_ascii_letter")
		}
	}
	// shapes of hand-written units and of the project generator
	featureSeen := map[string]bool{}
	for i, u := range c.Project.Units {
		for _, ft := range u.Features {
			if strings.HasPrefix(ft, "synth:") {
				featureSeen[strings.ReplaceAll(ft, ":", "_")] = true
			}
			switch ft {
			case "flat_unit", "flat_member", "long_comment", "long_literal", "wide_parameter_list", "unqualified_call_inherited", "unqualified_call_staticimport", "static_import_single", "static_import_on_demand", "braceless_body", "for_init_project_var":
				featureSeen["unit_with_"+ft] = true
			}
		}
		if strings.Contains(c.Project.Files[i].Text, "new Runnable() { public void run()") {
			featureSeen["unit_with_anonymous_class"] = true
		}
		if fullName(u) == c.Class && len(u.Features) > 0 && u.Features[0] == "synth" {
			featureSeen["subject_written_by_hand"] = true
		}
	}
	for _, ft := range sortedKeys2(featureSeen) {
		v.Classes = append(v.Classes, ft)
	}
	for _, x := range []struct {
		on    bool
		label string
	}{
		{firstLine, "site_on_the_first_line"}, {lastLine, "site_on_the_last_line_of_a_file_without_final_line_end"},
		{farColumn, "site_beyond_column_4096"}, {hugeLine, "site_on_a_line_longer_than_65536_bytes"},
		{namelessSite, "attributed_site_outside_every_method"}, {methodRefSite, "attributed_method_reference"},
		{total >= 9, "sites_9_or_more"}, {total >= 17, "sites_17_or_more"}, {total >= 33, "sites_33_or_more"}, {total >= 65, "sites_65_or_more"},
		{pkg == "", "default_package"},
		{utf8.RuneCountInString(c.Old) == 1, "old_name_of_one_character"},
		{utf8.RuneCountInString(c.Old) > 40, "old_name_longer_than_40"}, {utf8.RuneCountInString(c.Old) > 4096, "old_name_longer_than_4096"},
		{isContextual(c.Old), "old_name_is_a_contextual_keyword"}, {isContextual(c.New), "new_name_is_a_contextual_keyword"},
		{strings.HasPrefix(c.New, c.Old), "new_name_extends_the_old_one"}, {strings.HasPrefix(c.Old, c.New), "new_name_is_a_prefix_of_the_old_one"},
		{strings.HasSuffix(c.New, c.Old) && c.New != c.Old+c.Old, "new_name_ends_with_the_old_one"}, {strings.HasSuffix(c.Old, c.New), "new_name_is_a_suffix_of_the_old_one"},
		{strings.EqualFold(c.New, c.Old), "new_name_is_a_case_variant_of_the_old_one"},
		{c.Conf == 1, "config_without_final_line_end"}, {c.Conf >= 2, "config_with_blank_lines"},
		{c.CLI && (c.Args == 1 || c.Args == 2), "cli_long_options"}, {c.CLI && c.Args == 2, "cli_options_with_equals_sign"},
		{c.CLI && c.Args == 3, "cli_options_in_the_other_order"}, {c.CLI && c.Args == 4, "cli_short_options_with_attached_value"},
		{c.CLI && c.Args == 5, "cli_relative_paths"},
		{c.Reverse, "model_in_reverse_order"}, {c.Prior != nil, "after_an_earlier_request_in_the_same_process"},
		{c.Prior != nil && (c.Prior.Class != c.Class || c.Prior.Old != c.Old), "after_an_earlier_request_for_another_method"},
	} {
		if x.on {
			v.Classes = append(v.Classes, x.label)
		}
	}
	if strings.ContainsAny(c.New, "0123456789") {
		v.Classes = append(v.Classes, "new_name_with_digit")
	}
	if strings.ContainsAny(pkg, "_0123456789") {
		v.Classes = append(v.Classes, "package_with_digit_or_underscore")
	}
	return v
}

// project renders the parts of a model that the statement's last sentence is about.
func project(model []core_domain.CodeDataStruct, proj string, reqs []Request, adjust func(file string, f *core_domain.CodeFunction)) string {
	var out []string
	for _, ds := range model {
		if ds.NodeName == "" {
			continue
		}
		r, _ := filepath.Rel(proj, ds.FilePath)
		file := filepath.ToSlash(r)
		var fs []string
		for _, f := range ds.Functions {
			f.FunctionCalls = append([]core_domain.CodeCall(nil), f.FunctionCalls...)
			adjust(file, &f)
			s := fmt.Sprintf("  %s %s ctor=%v @%d:%d params=%v", f.ReturnType, f.Name, f.IsConstructor, f.Position.StartLine, f.Position.StartLinePosition, f.Parameters)
			for _, call := range f.FunctionCalls {
				// a call chained onto m() is recorded with node "m", one on `new K(m())` with node
				// "newK(m())": the method's name inside a receiver label follows the rename, so old
				// and new are the same label here (the new names are fresh: written back as the old ones)
				for _, r := range reqs {
					call.NodeName = replaceIdent(call.NodeName, r.New, r.Old)
				}
				s += fmt.Sprintf("\n    %s|%s|%s|%s @%d:%d", call.Package, call.NodeName, call.FunctionName, call.Type, call.Position.StartLine, call.Position.StartLinePosition)
			}
			fs = append(fs, s)
		}
		sort.Strings(fs)
		out = append(out, fmt.Sprintf("%s.%s %s %s extends=%s\n%s", ds.Package, ds.NodeName, ds.Type, file, ds.Extend, strings.Join(fs, "\n")))
	}
	sort.Strings(out)
	return strings.Join(out, "\n")
}

func sortedKeys2(m map[string]bool) []string {
	var keys []string
	for k := range m {
		keys = append(keys, k)
	}
	sort.Strings(keys)
	return keys
}

func sortedKeys(m map[string]string) []string {
	var keys []string
	for k := range m {
		keys = append(keys, k)
	}
	sort.Strings(keys)
	return keys
}

// readTree reads the files named by the keys of like below root ("" for a file that is gone).
func readTree(root string, like map[string]string) map[string]string {
	out := map[string]string{}
	for path := range like {
		raw, _ := os.ReadFile(filepath.Join(root, filepath.FromSlash(path)))
		out[path] = string(raw)
	}
	return out
}

func firstDiff(orig, want, got string) string {
	wl, gl := strings.Split(want, "\n"), strings.Split(got, "\n")
	ol := strings.Split(orig, "\n")
	for i := 0; i < len(wl) || i < len(gl); i++ {
		var w, g string
		if i < len(wl) {
			w = wl[i]
		}
		if i < len(gl) {
			g = gl[i]
		}
		if w != g {
			o := ""
			if orig != "" && i < len(ol) {
				o = fmt.Sprintf("original: %q\n", ol[i])
			}
			return fmt.Sprintf("line %d\n%sexpected: %q\nactual:   %q", i+1, o, w, g)
		}
	}
	return "(same lines, different line count)"
}

func init() {
	pbt.SetProperty("C05")
	jgen.SetExcluded(pbt.Excluded)
	pbt.Describe("rapid-generated conventional Java projects (jgen, 1-4 units with method bodies, multi-byte literals and comments, several invocations per line, the method's name also inside string literals and comments as decoys; a calling class of another package reaches the renamed method's class through a single-type import, through a wildcard import of its package only, or through both, among unrelated wildcard imports; subclasses call methods their project superclass declares as super.m(...) or unqualified, classes call static methods of others through `import static`, written next to the imports as a further occurrence of the name that is no call; anonymous classes as arguments; loop and branch bodies without braces; method, variable and class names drawn from the whole identifier alphabet: besides ASCII letters and digits also `_`, `$` (not in class names) and letters outside ASCII (run4$impl, _calc7, m12größe, 値load3, class Order5_v, Item7É), names of 41-300 and rarely 4100-5200 characters, packages with digits and underscores (com.acme2.v1_0); physical lines of any length: a member or a whole unit on one line (sites on the first and on the last line of a file with or without final line end), block comments and literals of 500-6000 and rarely 60000-70000 bytes on the lines of declarations, parameter lists of 20-120 parameters; some files with CRLF line ends) and a rename request for a class method whose name is unique in its class, preferring methods with call sites, and among those methods called from another file. One subject in four (and every subject of a project without such a method) is declared by a unit written by hand: in a package of the project, a fresh package or the default package; named plainly, with one character (q, $, é, 値), with a contextual keyword (open, with, to, record, module, ...), with 41-5200 characters or with `_` `$` and letters outside ASCII; its name separated from the return type by blanks, a tab, a comment holding the name, a comment of 4200-70000 bytes or a line end (the name then begins its line, also at column 0) and from the parenthesis by nothing, blanks, a comment or a line end; static or not, generic or not, annotated (the name inside the annotation's literal); declared before or after its users; called in a field initializer, an initializer block, its own body and a user method with 0-4 lines of 1-3 statements (rarely 12-68 sites in one file) of the forms m(1), this.m(null), m (2) / m/* m( */(2) / m<line end>(2), C.m(4), m(m(5)), a literal holding the name left and right of the site, the method references C::m and this::m, a call behind a comment of 4200-70000 bytes, new C().m(7), a site behind a multi-byte literal, a lambda body, this.<line end>m(6); up to three further methods of the class whose names resemble the subject's (mX, m_, m2, xm, mm, m without its last or first character, M.., the upper-case form) declared and called on the lines of genuine sites; optionally a second top-level class in the same file that calls the method on a parameter (its node of the model carries neither package nor imports); optionally a second hand-written file that calls the method on a parameter, a field and a local variable (also zp<line end>.m(5), the method reference zp::m, C.m(4)), from the same or another package. One case in five adds a class that resembles the subject's class and declares and calls a method of the subject's name: the same simple name in another package (pkg.alt, pkgx, xpkg, alt.pkg), or the subject's class name extended (CX, C2, C_, CImpl) in its package. New names of length 1, the same length (in characters), 20-40 characters, or 1-13 characters, made of letters with up to three characters replaced by `_`, `$`, a digit or a letter outside ASCII (Latin-1, Greek, Cyrillic, CJK); one in four resembles the old name (an extension, a prefix, a suffix, a case variant of it) or is a contextual keyword. One case in two writes one or two further requests into the same config, each for another method and with a new name drawn like the first: a method of the subject's class or of another class of the project (three times in four one that has a site on a line which also holds a site of a method already requested, so that the sites of different requests stand side by side on one line, in either order), a method of the subject's name declared by the class that resembles the subject's class, a method of the hand-written unit (one named like the subject, whose calls stand on the lines of the subject's sites, or the user method), or one time in ten (and whenever no other method is left) a method nobody declares or calls (of the subject's class, or of a class the project does not have: a request without any site); the requests stand in any order (the first one anywhere among them), one per line, one time in four with a blank line between them. The config file comes with or without final line end, its requests alone or among blank lines; the model is handed over as analysed or in reverse order; one case in six runs after another request (for the same or another method) has been carried out in the same process on another copy of the project. Oracle: the allowed edits are the declaration identifier and the callee identifier of every call the pre-rename model attributes to the method (positions taken from the model, cross-checked against the printer's table: the declaration and every generated call site with an implicit / field / parameter / local receiver of that class must be among them); all edits of all requests of the config are applied to the original text at once (in characters, every token getting the new name of its own request) and every file of the project must byte-equal the result; the files of the tree renamed earlier must not change; then the rewritten tree is re-analysed and must give the original model with every requested method and its calls renamed and start columns shifted (by the length changes of all edits left of them on the line). Non-trivial = at least 2 edited tokens and (two on one line, or multi-byte text left of a token, or a length change of some request); distinct = hash of the case.",
		"rename subjects are class methods (interface method positions start at the first token of the declaration, DESIGN.md appendix B) whose name is not overloaded in the class; top-level classes only (nested types are outside the generated projects, as for C01)",
		"the new name is fresh in the project (it is compared with every identifier written in the project's files and lengthened when it occurs) and is not a keyword; contextual keywords of the shipped grammar (open, with, to, record, module, exports, opens, uses, provides, requires, transitive, sealed, permits) are ordinary method names",
		"lengths and columns are counted in characters (the model's columns are the lexer's), so `same length` and the shift of columns right of an edit refer to characters, not bytes",
		"a plain class name denotes one class: a second class of the subject's simple name (in another package) is added only when every other file that calls the subject imports its class by a single-type import (the model resolves a plain name that has no such import by its simple name alone, which is C02's subject)",
		"super.m(...) calls, unqualified calls of inherited or statically imported methods, this.m(), C.m(), new C().m(), method references and calls outside every method are not required to be attributed to the method (the statement's edits are the calls the model attributes); when the model does attribute them they must be renamed like any other call, otherwise they must stay as they are",
		"a config holds one to three requests, one per line, each written as the tool's own examples write it (`old -> new`, one blank on either side, LF line ends in the config); CR LF line ends or other text in the config are outside. The requests of one config name different methods (different class or different old name), their new names are fresh and differ from each other, so no request renames what another one produces and the expected result does not depend on their order: every requested method's declaration and attributed calls renamed, nothing else changed. The same request twice, two requests for one method, and chains (a -> b, b -> c) are outside: the statement does not say how such lines combine. Should the model attribute one token to two requests, the case is skipped (counter token_claimed_by_two_requests)",
		"files are UTF-8 without byte order mark (javac rejects a mark); line ends are LF or CR LF",
		"an earlier request is carried out through the API on a separate copy of the project; between the two requests the analysis passes are reset (their state is C07's subject), the rename package is not",
		"one case in fifteen goes through the sub-process `coca refactor` with the model serialised to deps.json; the options are spelled -R f -d f, --rename f --dependence f, --rename=f --dependence=f, -d f -R f, -Rf -df, or with paths relative to the working directory")
	pbt.Register("rename", 400, 2000, gen, check)
}

func TestProp(t *testing.T)   { pbt.Main(t) }
func TestReplay(t *testing.T) { pbt.Replay(t) }
