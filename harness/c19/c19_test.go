// C19 — declared build dependencies are all extracted; the unused report is exact.
//
// Four generated sub-checks:
//
//	maven   pom.xml texts with ground truth            -> deps.AnalysisMaven
//	gradle  build.gradle texts with ground truth       -> deps.AnalysisGradleString
//	unused  manifest(s) + Java source tree             -> deps.DepAnalysisApp.AnalysisPath (the pipeline of the deps command, in process)
//	cli     the same projects, fewer of them           -> binary of analysis/dep:  deps -p <dir>, table on stdout
//
// Entries of a build.gradle are of three kinds: string notation (must be extracted, in order),
// project()/fileTree()/files()/gradleApi() (must be skipped) and notations whose reading the
// statement leaves open (map notation, "g:a:${v}" interpolation, platform('g:a:v')): for those the
// oracle accepts "skipped" as well as "extracted with the right group, artifact, configuration" —
// never a crash, never a garbled entry, never a disturbed neighbour.
package c19

import (
	"fmt"
	"os"
	"path/filepath"
	"regexp"
	"sort"
	"strings"
	"testing"

	"github.com/antlr/antlr4/runtime/Go/antlr/v4"
	groovy "github.com/modernizing/coca/languages/groovy"
	"github.com/modernizing/coca/pkg/adapter/cocafile"
	"github.com/modernizing/coca/pkg/application/analysis/javaapp"
	"github.com/modernizing/coca/pkg/application/deps"
	"github.com/modernizing/coca/pkg/domain/core_domain"
	"github.com/modernizing/coca/pkg/infrastructure/ast/ast_groovy"
	"github.com/modernizing/coca/pkg/infrastructure/ast/ast_java"
	"github.com/modernizing/coca/pkg/infrastructure/ast/ast_java/java_identify"
	"pgregory.net/rapid"

	"verif/internal/cli"
	"verif/internal/pbt"
)

// ---------------------------------------------------------------------------------------
// ground truth

// Dep is one expected entry. Open = the statement leaves open whether this notation is
// extracted or skipped; when it is extracted it must be extracted right.
type Dep struct {
	Group    string `json:"group"`
	Artifact string `json:"artifact"`
	Scope    string `json:"scope"`
	Open     bool   `json:"open,omitempty"`
}

func (d Dep) String() string {
	s := d.Group + ":" + d.Artifact + " [" + d.Scope + "]"
	if d.Open {
		s += " (extract-or-skip)"
	}
	return s
}

func depList(ds []Dep) string {
	var parts []string
	for _, d := range ds {
		parts = append(parts, d.String())
	}
	return "[" + strings.Join(parts, ", ") + "]"
}

func fromCoca(in []core_domain.CodeDependency) []Dep {
	var out []Dep
	for _, d := range in {
		out = append(out, Dep{Group: d.GroupId, Artifact: d.ArtifactId, Scope: d.Scope})
	}
	return out
}

// call runs f like pbt.Call and makes the panic text reproducible: rapid only minimises a failing
// case whose message is identical when the case is run again, and a raw stack trace contains
// argument addresses and goroutine numbers that differ from run to run.
var unstable = regexp.MustCompile(`0x[0-9a-f]+\??|goroutine \d+`)

func call(f func()) string {
	p := pbt.Call(f)
	if p == "" {
		return ""
	}
	p = unstable.ReplaceAllString(p, "_")
	if len(p) > 1200 {
		p = p[:1200]
	}
	return p
}

// matchSeq: got must be want in order, where entries marked Open may be absent.
// The coordinates of an Open entry are unique per case (only firm entries are ever declared twice), so the greedy walk is exact.
func matchSeq(got, want []Dep) string {
	i := 0
	for gi, g := range got {
		for i < len(want) && want[i].Open && !same(want[i], g) {
			i++
		}
		if i >= len(want) {
			return fmt.Sprintf("entry #%d %s is not expected here (nothing further was declared)", gi, g)
		}
		if !same(want[i], g) {
			return fmt.Sprintf("entry #%d is %s, expected %s", gi, g, want[i])
		}
		i++
	}
	for ; i < len(want); i++ {
		if !want[i].Open {
			return fmt.Sprintf("missing %s (and everything after it)", want[i])
		}
	}
	return ""
}

func declared(ds []Dep, group, artifact string) bool {
	for _, d := range ds {
		if d.Group == group && d.Artifact == artifact {
			return true
		}
	}
	return false
}

func same(w, g Dep) bool { return w.Group == g.Group && w.Artifact == g.Artifact && w.Scope == g.Scope }

// ---------------------------------------------------------------------------------------
// names: group ids of which none is a substring of another or of an unrelated import

var stems = []string{"acme", "borealis", "cobalt", "dynamo", "ember", "fathom", "gizmo", "helix", "indigo", "jasper",
	"kestrel", "lumen", "mantle", "nimbus", "onyx", "pylon", "quartz", "raptor", "sable", "tundra", "umbra", "vertex",
	"wombat", "xenon", "yonder", "zephyr"}

var unrelatedImports = []string{"java.util.List", "java.util.Map", "java.io.File", "java.io.IOException",
	"java.time.Instant", "java.util.function.Function", "javax.annotation.Nullable", "java.util.concurrent.atomic.AtomicInteger"}

// decoy group ids: used in sections of a manifest that are not the dependencies block
const (
	decoyMgmt    = "org.decoy.mgmt"
	decoyPlugin  = "org.decoy.plugin"
	decoyExcl    = "org.decoy.excl"
	decoyParent  = "org.decoy.parent"
	decoyProfile = "org.decoy.profile"
	decoySelf    = "org.decoy.self"
	decoyScript  = "org.decoy.script"
)

var decoys = []string{decoyMgmt, decoyPlugin, decoyExcl, decoyParent, decoyProfile, decoySelf, decoyScript}

func init() {
	// self-test of the name tables: a stem inside another word would make "occurs in" ambiguous
	words := append(append([]string{}, unrelatedImports...), decoys...)
	words = append(words, "org.", "com.", "io.", "net.", "javax.", "jakarta.", ".core", ".boot", ".ext", "-kit", ".x2", "second", "Client", "core.Engine", "api.v1.Service", "util.Helper.run", "com.example.app", "shaded.")
	// words of the audit round: further affixes, the near-miss imports and the texts written into Java files
	words = append(words, "org.apache.", "com.github.", "io.github.", "4j", "_2", "zz.", ".unrelated.Thing", ".kit.", "Other", "TestDataFactory", "testdata", "import", "String", "hint", "legacy", "Mode", "Marker", "Nested", "Inner", "Local", "Base", "Comparable", "Serializable", "Runnable", "Deprecated", "SuppressWarnings", "unchecked", "lorem ipsum dolor sit amet")
	for i, s := range stems {
		for j, o := range stems {
			if i != j && strings.Contains(o, s) {
				panic("c19: stem " + s + " occurs in stem " + o)
			}
		}
		for _, w := range words {
			if strings.Contains(w, s) {
				panic("c19: stem " + s + " occurs in " + w)
			}
		}
	}
}

// namer hands out group ids and artifact ids; all its choices come from the drawn specs
type namer struct {
	off   int
	used  int
	art   int
	reuse *Dep // when set: the coordinates the first dependency of the next manifest re-declares
}

var (
	groupPrefixes = []string{"org.", "com.", "io.", "net.", "", "javax.", "jakarta.", "org.apache.", "com.github.", "io.github."}
	groupSuffixes = []string{"", ".core", ".boot", ".ext", "-kit", ".x2", "4j", "_2"}
	artifactKinds = []string{"core", "api", "starter-web", "test", "bom", "client", "core.api", "lib_2.12"}
	pomVersions   = []string{"1.2.3", "4.12", "2.0.0.RELEASE", "0.9-SNAPSHOT", "[1.0,2.0)", "${lib.version}", "${project.version}"}
	pomScopes     = []string{"test", "compile", "provided", "runtime", "system", "import"}
)

func (n *namer) group(prefix, suffix int) string {
	stem := stems[(n.off+n.used)%len(stems)]
	n.used++
	if n.used > len(stems) {
		panic("c19: out of stems")
	}
	return groupPrefixes[prefix%len(groupPrefixes)] + stem + groupSuffixes[suffix%len(groupSuffixes)]
}

func (n *namer) artifact(group string, kind int) string {
	n.art++
	base := group
	if i := strings.LastIndex(base, "."); i >= 0 {
		base = base[i+1:]
	}
	return fmt.Sprintf("%s-%s%d", base, artifactKinds[kind%len(artifactKinds)], n.art)
}

// ---------------------------------------------------------------------------------------
// pom.xml generator: a drawn specification is rendered deterministically

type depSpec struct {
	SameGroupAs   int // 0 = a fresh group id, k = the group of the (k-1)th earlier dependency (when there is one)
	Prefix        int
	Suffix        int
	ArtKind       int
	Version       int // 0 = none
	Scope         int // 0 = none
	Type          int // 0 = none
	Optional      bool
	Classifier    bool
	Exclusions    int
	ExclArtFirst  bool
	Order         []int // sort keys of the children; all equal = usual order
	PadChild      int
	PadStyle      int
	CommentBefore bool
	CommentedOut  bool
	// added by the widening round (zero value = the plain variant)
	SameArtifactAs int  // k > 0: the artifact id of the (k-1)th earlier dependency when that one has another group id
	EmptyScope     int  // 1 <scope/>, 2 <scope></scope> (only when Scope == 0)
	CommentInside  int  // k > 0: a comment before the (k-1)th child of the <dependency>
	EmptyExcl      bool // <exclusions/> (only when Exclusions == 0)
	// added by the second widening round
	PIBefore bool // a processing instruction (<?SORTPOM IGNORE?>) in front of the <dependency>
	// added by the audit round
	DupOf      int  // k > 0: declares the coordinates (group id and artifact id) of the (k-1)th earlier dependency once more, with children of its own
	SystemPath bool // a <systemPath> child (only next to <scope>system</scope>)
}

var depSpecGen = rapid.Custom(func(t *rapid.T) depSpec {
	d := depSpec{}
	if rapid.IntRange(0, 5).Draw(t, "sameGroup") == 5 {
		d.SameGroupAs = rapid.IntRange(1, 4).Draw(t, "sameGroupAs")
	}
	d.Prefix = rapid.IntRange(0, len(groupPrefixes)-1).Draw(t, "groupPrefix")
	d.Suffix = rapid.IntRange(0, len(groupSuffixes)-1).Draw(t, "groupSuffix")
	d.ArtKind = rapid.IntRange(0, len(artifactKinds)-1).Draw(t, "artifactKind")
	if rapid.IntRange(0, 3).Draw(t, "hasVersion") > 0 {
		d.Version = rapid.IntRange(1, len(pomVersions)).Draw(t, "version")
	}
	if rapid.IntRange(0, 2).Draw(t, "hasScope") > 0 {
		d.Scope = rapid.IntRange(1, len(pomScopes)).Draw(t, "scope")
	}
	if rapid.IntRange(0, 4).Draw(t, "hasType") == 4 {
		d.Type = rapid.IntRange(1, 3).Draw(t, "type")
	}
	d.Optional = rapid.IntRange(0, 4).Draw(t, "optional") == 4
	d.Classifier = rapid.IntRange(0, 6).Draw(t, "classifier") == 6
	if rapid.IntRange(0, 3).Draw(t, "hasExclusions") == 3 {
		d.Exclusions = rapid.IntRange(1, 2).Draw(t, "exclusions")
		d.ExclArtFirst = rapid.Bool().Draw(t, "exclusionArtifactFirst")
	}
	if rapid.IntRange(0, 2).Draw(t, "shuffleChildren") == 2 {
		d.Order = rapid.SliceOfN(rapid.IntRange(0, 7), 8, 8).Draw(t, "childOrder")
	}
	if rapid.IntRange(0, 3).Draw(t, "pad") == 3 {
		d.PadChild = rapid.IntRange(0, 7).Draw(t, "padChild")
		d.PadStyle = rapid.IntRange(1, 5).Draw(t, "padStyle")
	}
	d.CommentBefore = rapid.IntRange(0, 4).Draw(t, "commentBefore") == 4
	d.CommentedOut = rapid.IntRange(0, 9).Draw(t, "commentedOut") == 9
	if rapid.IntRange(0, 6).Draw(t, "sameArtifact") == 6 {
		d.SameArtifactAs = rapid.IntRange(1, 4).Draw(t, "sameArtifactAs")
	}
	if d.Scope == 0 && rapid.IntRange(0, 4).Draw(t, "emptyScope") == 4 {
		d.EmptyScope = rapid.IntRange(1, 2).Draw(t, "emptyScopeForm")
	}
	if rapid.IntRange(0, 5).Draw(t, "commentInside") == 5 {
		d.CommentInside = rapid.IntRange(1, 8).Draw(t, "commentInsideAt")
	}
	if d.Exclusions == 0 {
		d.EmptyExcl = rapid.IntRange(0, 9).Draw(t, "emptyExclusions") == 9
	}
	d.PIBefore = rapid.IntRange(0, 11).Draw(t, "processingInstructionBefore") == 11
	if rapid.IntRange(0, 7).Draw(t, "sameCoordinates") == 7 {
		d.DupOf = rapid.IntRange(1, 4).Draw(t, "sameCoordinatesAs")
	}
	d.SystemPath = rapid.Bool().Draw(t, "systemPath")
	return d
})

const (
	pomSections    = 15
	pomOldSections = 8 // the sections of the first rounds: present in two cases of three
)

// ---- free content of the sections that are not the dependencies block (second widening round) ----
//
// The element names under <properties> and under a plugin's <configuration> are not fixed by the POM
// schema: any XML name may occur there, among them names that mean something elsewhere (HTML element
// names, the names the dependency extraction looks for). Texts and attributes are free as well.

// classes of element names; class 0 is the plain one (shrinking moves towards it)
const (
	ncPlain = iota
	ncHTMLVoid
	ncHTMLOther
	ncPomLike
	ncPunctuated
	ncCaseVariant
	nameClassCount
)

var nameClassLabels = []string{"plain", "html_void_element", "html_other_element", "pom_vocabulary", "punctuated", "case_variant_of_html_void_element"}

var cfgNames = [nameClassCount][]string{
	ncPlain: {"source", "target", "encoding", "skip", "outputDirectory", "argLine", "includes", "include", "excludes", "exclude",
		"compilerArgs", "arg", "mainClass", "archive", "manifest", "descriptorRefs", "descriptorRef", "rules", "rule", "limits", "limit",
		"transformers", "transformer", "resources", "resource", "filters", "filter", "tags", "tag", "name", "value", "echo", "copy", "mkdir"},
	// HTML elements without content model (HTML 4 and 5) and the plural wrappers plug-ins use around them
	// (maven-javadoc-plugin: <links><link>..</link></links>, <tags><tag>; maven-antrun: <input/>, <param name= value=/>)
	ncHTMLVoid: {"link", "links", "param", "params", "base", "meta", "input", "col", "cols", "frame", "area", "br", "hr", "img",
		"basefont", "isindex", "embed", "track", "wbr", "keygen", "command", "menuitem"},
	ncHTMLOther: {"p", "li", "ul", "td", "tr", "th", "option", "body", "head", "html", "title", "a", "b", "i", "table", "form", "script",
		"style", "div", "span", "dd", "dt", "tbody", "colgroup"},
	// names the extraction itself looks for, nested where they do not describe a dependency of the project
	ncPomLike: {"dependencies", "dependency", "dependencySets", "dependencySet", "artifactItems", "artifactItem", "groupId", "artifactId",
		"scope", "version", "project", "exclusions", "bannedDependencies", "dependencyManagement"},
	ncPunctuated:  {"maven.compiler.source", "project.build.sourceEncoding", "my-prop", "my_prop", "x509", "_private", "v1.2-beta", "a"},
	ncCaseVariant: {"Link", "BR", "Param", "META", "Img", "Base"},
}

var htmlVoid = map[string]bool{"link": true, "param": true, "base": true, "meta": true, "input": true, "col": true, "frame": true,
	"area": true, "br": true, "hr": true, "img": true, "basefont": true, "isindex": true, "embed": true, "track": true, "wbr": true,
	"keygen": true, "command": true, "menuitem": true, "source": true}

// texts of free elements; index 0-2 are the plain ones. All are well-formed XML character data.
var xmlTexts = []struct{ label, text string }{
	{"", "1.8"},
	{"", "true"},
	{"", "${project.build.directory}/generated"},
	{"text:url", "https://docs.example.org/javase/8/docs/api/"},
	{"text:predefined_entities", "-Xlint:all &amp;&amp; a &lt; b &gt; c &quot;q&quot; &apos;s&apos;"},
	{"text:url_with_escaped_ampersand", "https://ci.example.org/job?name=app&amp;branch=main"},
	{"text:character_reference", "&#169; 2020 Example &#x2014; all rights reserved"},
	{"text:cdata_holding_a_dependencies_element", "<![CDATA[<dependencies><dependency><groupId>" + decoyScript + "</groupId><artifactId>in-cdata</artifactId></dependency></dependencies> & more]]>"},
	{"text:cdata_between_text", "before <![CDATA[a < b && c > d]]> after"},
	{"text:non_ascii", "J\u00fcrgen M\u00fcller \u2014 \u6784\u5efa\u6a21\u5757 \u2713"},
	{"text:multi_line", "first line\n        second line\n    third"},
	{"text:unescaped_gt_and_quotes", "a > b \"quoted\" 'single' ]] >"},
	{"text:comment_inside_text", "value<!-- <scope>test</scope> -->more"},
}

// attributes of free elements (index+1 is drawn; 0 = none)
var xmlAttrs = []struct{ label, text string }{
	{"attr:combine_children", ` combine.children="append"`},
	{"attr:single_quoted", ` combine.self='override'`},
	{"attr:implementation", ` implementation="` + decoyPlugin + `.Impl"`},
	{"attr:with_entities", ` message="a &amp; b &lt;c&gt; &quot;d&quot;"`},
	{"attr:with_gt_and_other_quote", ` if="x > y" unless='say "no"'`},
	{"attr:id", ` id="cfg-1"`},
	{"attr:several_on_two_lines", " file=\"a.txt\"\n        todir=\"out\""},
	{"attr:namespaced", ` xml:space="preserve"`},
	{"attr:whitespace_around_equals", ` name = "x"`},
}

// xnode is one free element
type xnode struct {
	Class  int
	Name   int
	Form   int // 0 <a>text</a>, 1 element content, 2 <a/>, 3 <a></a>, 4 mixed content (text, children, text)
	Text   int
	Attr   int  // 0 = none
	TagPad bool // white space before the '>' of the start and of the end tag
	Kids   []xnode
}

func (x xnode) name() string {
	names := cfgNames[x.Class%nameClassCount]
	return names[x.Name%len(names)]
}

var nameClassGen = rapid.SampledFrom([]int{ncPlain, ncPlain, ncPlain, ncPlain, ncHTMLVoid, ncHTMLVoid, ncHTMLVoid, ncHTMLOther, ncPomLike, ncPomLike, ncPunctuated, ncCaseVariant})

// xnodeGen: depth = levels of children allowed below this element (0: a leaf, as under <properties>)
func xnodeGen(depth int) *rapid.Generator[xnode] {
	return rapid.Custom(func(t *rapid.T) xnode {
		x := xnode{}
		x.Class = nameClassGen.Draw(t, "nameClass")
		x.Name = rapid.IntRange(0, 33).Draw(t, "elementName")
		forms := []int{0, 0, 0, 0, 2, 3}
		if depth > 0 {
			forms = []int{0, 0, 0, 1, 1, 1, 2, 3, 4}
		}
		x.Form = rapid.SampledFrom(forms).Draw(t, "contentForm")
		if rapid.IntRange(0, 2).Draw(t, "specialText") == 2 {
			x.Text = rapid.IntRange(0, len(xmlTexts)-1).Draw(t, "text")
		} else {
			x.Text = rapid.IntRange(0, 2).Draw(t, "plainText")
		}
		if rapid.IntRange(0, 4).Draw(t, "hasAttribute") == 4 {
			x.Attr = rapid.IntRange(1, len(xmlAttrs)).Draw(t, "attribute")
		}
		x.TagPad = rapid.IntRange(0, 9).Draw(t, "spaceInsideTags") == 9
		if x.Form == 1 || x.Form == 4 {
			x.Kids = rapid.SliceOfN(xnodeGen(depth-1), 1, 3).Draw(t, "children")
		}
		return x
	})
}

// pluginSpec is one additional plug-in with a free <configuration>
type pluginSpec struct {
	Where  int  // 0 build/plugins, 1 build/pluginManagement/plugins, 2 reporting/plugins, 3 profiles/profile/build/plugins
	Exec   int  // 0 configuration under <plugin>, 1 under executions/execution, 2 both
	PI     bool // <?m2e ignore?> in the execution
	Deps   bool // the plug-in has <dependencies> of its own
	Config []xnode
}

var pluginSpecGen = rapid.Custom(func(t *rapid.T) pluginSpec {
	pl := pluginSpec{}
	pl.Where = rapid.SampledFrom([]int{0, 0, 0, 1, 2, 3}).Draw(t, "pluginWhere")
	pl.Exec = rapid.SampledFrom([]int{0, 0, 1, 2}).Draw(t, "pluginExecutions")
	pl.PI = rapid.IntRange(0, 5).Draw(t, "m2eInstruction") == 5
	pl.Deps = rapid.IntRange(0, 4).Draw(t, "pluginOwnDependencies") == 4
	pl.Config = rapid.SliceOfN(xnodeGen(2), 1, 4).Draw(t, "configuration")
	return pl
})

// host sections of the free content: when such a section is not placed by Place, Fallback places it
const (
	hostProperties = iota
	hostBuild
	hostReporting
	hostProfiles
	hostCount
)

type pomSpec struct {
	Prolog     int
	Namespaces bool
	Indent     int
	CRLF       bool
	OneLine    bool
	Place      []int // per section: 0 absent, 1 before, 2 after the dependencies block
	Reverse    bool
	MgmtTwo    bool
	PluginDeps bool
	OmitBlock  bool // only honoured when there is no dependency
	EndComment bool
	Deps       []depSpec
	// added by the second widening round (zero value = the plain variant)
	BOM      bool         // the file starts with a UTF-8 byte order mark
	Texts    []int        // texts of the descriptive sections (index into xmlTexts)
	Props    []xnode      // additional properties with free names
	Plugins  []pluginSpec // additional plug-ins with free configuration
	Fallback []int        // per host section: 1 before / 2 after the dependencies block, used when Place leaves the host out
	// added by the audit round (zero value = the plain variant)
	PrologQuote bool // the pseudo-attributes of the XML declaration are written in single quotes
	Tail        int  // what follows </project>: 0 a line end, 1 nothing, 2 blank lines, a comment and a processing instruction
	EmptyForm   bool // a dependencies block without dependency is written <dependencies/>
	Bulk        int  // further plain dependencies after the drawn ones (they re-use the group ids declared so far)
	Filler      int  // a comment of 1: 5 000, 2: 70 000 characters on one line ...
	FillerAt    int  // ... 0 in front of the dependencies block, 1 inside it
}

func drawPomSpec(t *rapid.T, maxDeps int) pomSpec {
	p := pomSpec{}
	p.Prolog = rapid.IntRange(0, 3).Draw(t, "prolog")
	p.Namespaces = rapid.Bool().Draw(t, "namespaces")
	p.Indent = rapid.IntRange(0, 2).Draw(t, "indent")
	p.CRLF = rapid.IntRange(0, 3).Draw(t, "crlf") == 3
	p.OneLine = rapid.IntRange(0, 7).Draw(t, "oneLine") == 7
	p.Place = rapid.SliceOfN(rapid.IntRange(0, 2), pomOldSections, pomOldSections).Draw(t, "sections")
	p.Reverse = rapid.IntRange(0, 2).Draw(t, "sectionOrder") == 2
	p.MgmtTwo = rapid.Bool().Draw(t, "mgmtTwo")
	p.PluginDeps = rapid.Bool().Draw(t, "pluginDeps")
	p.OmitBlock = rapid.Bool().Draw(t, "omitDependenciesElement")
	p.EndComment = rapid.IntRange(0, 5).Draw(t, "trailingComment") == 5
	p.Deps = rapid.SliceOfN(depSpecGen, 0, maxDeps).Draw(t, "dependencies")
	p.Place = append(p.Place, rapid.SliceOfN(rapid.SampledFrom([]int{0, 0, 0, 1, 1, 2}), pomSections-pomOldSections, pomSections-pomOldSections).Draw(t, "moreSections")...)
	p.BOM = rapid.IntRange(0, 11).Draw(t, "byteOrderMark") == 11
	p.Texts = rapid.SliceOfN(rapid.SampledFrom([]int{0, 0, 0, 3, 4, 5, 6, 7, 8, 9, 10, 11, 12}), 8, 8).Draw(t, "sectionTexts")
	if rapid.IntRange(0, 2).Draw(t, "freeProperties") == 2 {
		p.Props = rapid.SliceOfN(xnodeGen(0), 1, 4).Draw(t, "properties")
	}
	if rapid.IntRange(0, 1).Draw(t, "freePlugins") == 1 {
		p.Plugins = rapid.SliceOfN(pluginSpecGen, 1, 3).Draw(t, "plugins")
	}
	p.Fallback = rapid.SliceOfN(rapid.IntRange(1, 2), hostCount, hostCount).Draw(t, "hostPlacement")
	p.PrologQuote = rapid.IntRange(0, 3).Draw(t, "declarationInSingleQuotes") == 3
	if rapid.IntRange(0, 3).Draw(t, "afterRootElement") == 3 {
		p.Tail = rapid.IntRange(1, 2).Draw(t, "afterRootElementForm")
	}
	p.EmptyForm = rapid.Bool().Draw(t, "emptyBlockSelfClosing")
	if rapid.IntRange(0, 9).Draw(t, "manyDependencies") == 9 {
		p.Bulk = rapid.SampledFrom([]int{3, 7, 12, 23, 30, 40, 57, 63, 66, 90}).Draw(t, "furtherDependencies")
	}
	if rapid.IntRange(0, 9).Draw(t, "longLine") == 9 {
		p.Filler = rapid.SampledFrom([]int{1, 2, 2}).Draw(t, "longLineSize")
		p.FillerAt = rapid.IntRange(0, 1).Draw(t, "longLineAt")
	}
	return p
}

type xw struct {
	b      strings.Builder
	unit   string // one indentation step
	nl     string
	oneRow bool
}

func (w *xw) line(depth int, s string) {
	if w.oneRow {
		w.b.WriteString(s)
		return
	}
	w.b.WriteString(strings.Repeat(w.unit, depth))
	w.b.WriteString(s)
	w.b.WriteString(w.nl)
}

func (w *xw) leafPad(depth int, name, text string, style int) {
	switch style {
	case 1:
		text = " " + text + "  "
	case 2:
		text = w.nl + strings.Repeat(w.unit, depth+1) + text + w.nl + strings.Repeat(w.unit, depth)
	case 3:
		text = "\t" + text
	case 4:
		text = "<![CDATA[" + text + "]]>"
	case 5:
		w.line(depth, "<"+name+" >"+text+"</"+name+"\t>")
		return
	}
	w.line(depth, "<"+name+">"+text+"</"+name+">")
}

func (w *xw) leaf(depth int, name, text string) { w.leafPad(depth, name, text, 0) }
func (w *xw) open(depth int, name string)       { w.line(depth, "<"+name+">") }
func (w *xw) close(depth int, name string)      { w.line(depth, "</"+name+">") }
func (w *xw) comment(depth int, text string)    { w.line(depth, "<!-- "+text+" -->") }

// coords writes a groupId/artifactId(/version) triple of something that is not a dependency of the project
func (w *xw) coords(depth int, group, artifact, ver string) {
	w.leaf(depth, "groupId", group)
	w.leaf(depth, "artifactId", artifact)
	if ver != "" {
		w.leaf(depth, "version", ver)
	}
}

func (w *xw) foreignDependency(depth int, group, artifact string) {
	w.open(depth, "dependency")
	w.coords(depth+1, group, artifact, "9.9")
	w.leaf(depth+1, "scope", "import")
	w.close(depth, "dependency")
}

type pomOut struct {
	Text     string
	Deps     []Dep
	Features []string
}

func renderPom(p pomSpec, n *namer) pomOut {
	w := &xw{unit: []string{"    ", "  ", "\t"}[p.Indent%3], nl: "\n", oneRow: p.OneLine}
	if p.CRLF {
		w.nl = "\r\n"
	}
	feats := map[string]bool{}
	var out pomOut

	if p.BOM {
		w.b.WriteString("\uFEFF")
		feats["utf8_byte_order_mark"] = true
	}
	phase := "before" // which side of the dependencies block is being written
	tx := func(k int) string {
		i := 0
		if k < len(p.Texts) {
			i = p.Texts[k] % len(xmlTexts)
		}
		if xmlTexts[i].label != "" {
			feats[xmlTexts[i].label] = true
		}
		return xmlTexts[i].text
	}
	// node writes one free element and records what it is
	var node func(depth int, x xnode)
	node = func(depth int, x xnode) {
		name := x.name()
		feats["free_name:"+nameClassLabels[x.Class%nameClassCount]] = true
		attr, pad := "", ""
		if x.Attr > 0 {
			a := xmlAttrs[(x.Attr-1)%len(xmlAttrs)]
			attr = a.text
			feats[a.label] = true
		}
		if x.TagPad {
			pad = " "
			feats["white_space_inside_tags"] = true
		}
		text := xmlTexts[x.Text%len(xmlTexts)]
		switch name { // keep the vocabulary of the extraction meaningful where it is nested
		case "groupId":
			text = xmlTexts[0]
			text.text = decoyPlugin
		case "artifactId":
			text = xmlTexts[0]
			text.text = "configured-artifact"
		case "scope":
			text = xmlTexts[0]
			text.text = "test"
		}
		hasContent := x.Form == 0 || x.Form == 1 || x.Form == 4
		if htmlVoid[strings.ToLower(name)] {
			if hasContent {
				feats["html_void_name_with_content_"+phase+"_dependencies"] = true
			} else {
				feats["html_void_name_empty_element"] = true
			}
		}
		if (name == "dependencies" || name == "dependency") && x.Form == 1 {
			feats["free_dependencies_element_nested_"+phase+"_dependencies"] = true
		}
		start, end := "<"+name+attr+pad+">", "</"+name+pad+">"
		switch x.Form {
		case 0:
			if text.label != "" {
				feats[text.label] = true
			}
			w.line(depth, start+text.text+end)
		case 1:
			w.line(depth, start)
			for _, k := range x.Kids {
				node(depth+1, k)
			}
			w.line(depth, end)
		case 2:
			w.line(depth, "<"+name+attr+pad+"/>")
			feats["free_self_closing_element"] = true
		case 3:
			w.line(depth, start+end)
			feats["free_empty_element_pair"] = true
		default:
			if text.label != "" {
				feats[text.label] = true
			}
			feats["free_mixed_content"] = true
			w.line(depth, start+text.text)
			for _, k := range x.Kids {
				node(depth+1, k)
			}
			w.line(depth, "tail"+end)
		}
	}
	// plugins writes the additional plug-ins destined for one place
	pluginNo := 0
	plugins := func(depth, where int) {
		for _, pl := range p.Plugins {
			if pl.Where != where {
				continue
			}
			pluginNo++
			feats["free_plugin_configuration:"+[]string{"build", "pluginManagement", "reporting", "profile"}[where%4]] = true
			w.open(depth, "plugin")
			w.coords(depth+1, decoyPlugin, fmt.Sprintf("free-maven-plugin-%d", pluginNo), "3.2.0")
			if pl.Exec > 0 && where != 2 {
				w.open(depth+1, "executions")
				w.open(depth+2, "execution")
				w.leaf(depth+3, "id", "default-run")
				if pl.PI {
					w.line(depth+3, "<?m2e ignore?>")
					feats["processing_instruction"] = true
				}
				w.leaf(depth+3, "phase", "package")
				w.open(depth+3, "goals")
				w.leaf(depth+4, "goal", "run")
				w.close(depth+3, "goals")
				w.open(depth+3, "configuration")
				for _, x := range pl.Config {
					node(depth+4, x)
				}
				w.close(depth+3, "configuration")
				w.close(depth+2, "execution")
				w.close(depth+1, "executions")
				feats["free_configuration_in_execution"] = true
			}
			if pl.Exec != 1 || where == 2 {
				w.open(depth+1, "configuration")
				for _, x := range pl.Config {
					node(depth+2, x)
				}
				w.close(depth+1, "configuration")
			}
			if pl.Deps && where != 2 {
				feats["plugin_with_dependencies"] = true
				w.open(depth+1, "dependencies")
				w.foreignDependency(depth+2, decoyPlugin, "free-plugin-extension")
				w.close(depth+1, "dependencies")
			}
			w.close(depth, "plugin")
		}
	}
	hasPlugins := func(wheres ...int) bool {
		for _, pl := range p.Plugins {
			for _, wh := range wheres {
				if pl.Where == wh {
					return true
				}
			}
		}
		return false
	}

	decl := func(text string) string {
		if p.PrologQuote {
			feats["xml_declaration_in_single_quotes"] = true
			return strings.ReplaceAll(text, `"`, `'`)
		}
		return text
	}
	switch p.Prolog {
	case 1:
		w.line(0, decl(`<?xml version="1.0" encoding="UTF-8"?>`))
	case 2:
		w.line(0, decl(`<?xml version="1.0" encoding="utf-8" standalone="no"?>`))
	case 3:
		w.line(0, decl(`<?xml version="1.0"?>`))
		w.comment(0, "generated pom")
	}
	if p.Namespaces {
		w.line(0, `<project xmlns="http://maven.apache.org/POM/4.0.0" xmlns:xsi="http://www.w3.org/2001/XMLSchema-instance" xsi:schemaLocation="http://maven.apache.org/POM/4.0.0 http://maven.apache.org/xsd/maven-4.0.0.xsd">`)
	} else {
		w.line(0, "<project>")
	}

	type section struct {
		name  string
		write func()
	}
	sections := []section{
		{"self_coordinates", func() {
			w.leaf(1, "modelVersion", "4.0.0")
			w.coords(1, decoySelf, "self-app", "0.0.1-SNAPSHOT")
			w.leaf(1, "packaging", "jar")
		}},
		{"parent", func() {
			w.open(1, "parent")
			w.coords(2, decoyParent, "parent-pom", "2.2.2.RELEASE")
			w.line(2, "<relativePath/>")
			w.close(1, "parent")
		}},
		{"properties", func() {
			w.open(1, "properties")
			w.leaf(2, "java.version", "11")
			w.leaf(2, "lib.version", "3.1.4")
			for _, x := range p.Props {
				node(2, x)
				feats["free_property_names"] = true
			}
			w.close(1, "properties")
		}},
		{"dependencyManagement", func() {
			w.open(1, "dependencyManagement")
			w.open(2, "dependencies")
			w.foreignDependency(3, decoyMgmt, "mgmt-bom")
			if p.MgmtTwo {
				w.foreignDependency(3, decoyMgmt, "mgmt-bom-two")
			}
			w.close(2, "dependencies")
			w.close(1, "dependencyManagement")
		}},
		{"build_plugins", func() {
			w.open(1, "build")
			w.open(2, "plugins")
			w.open(3, "plugin")
			w.coords(4, decoyPlugin, "some-maven-plugin", "")
			if p.PluginDeps {
				feats["plugin_with_dependencies"] = true
				w.open(4, "dependencies")
				w.foreignDependency(5, decoyPlugin, "plugin-extension")
				w.close(4, "dependencies")
			}
			w.close(3, "plugin")
			plugins(3, 0)
			w.close(2, "plugins")
			if hasPlugins(1) {
				w.open(2, "pluginManagement")
				w.open(3, "plugins")
				plugins(4, 1)
				w.close(3, "plugins")
				w.close(2, "pluginManagement")
			}
			w.close(1, "build")
		}},
		{"profiles", func() {
			w.open(1, "profiles")
			w.open(2, "profile")
			w.leaf(3, "id", "ci")
			w.open(3, "dependencies")
			w.foreignDependency(4, decoyProfile, "profile-only")
			w.close(3, "dependencies")
			if hasPlugins(3) {
				w.open(3, "build")
				w.open(4, "plugins")
				plugins(5, 3)
				w.close(4, "plugins")
				w.close(3, "build")
			}
			w.close(2, "profile")
			w.close(1, "profiles")
		}},
		{"repositories", func() {
			w.open(1, "repositories")
			w.open(2, "repository")
			w.leaf(3, "id", "central")
			w.leaf(3, "url", "https://repo.example.org/maven2")
			w.close(2, "repository")
			w.close(1, "repositories")
		}},
		{"comment_section", func() {
			w.comment(1, "<dependencies><dependency><groupId>"+decoyScript+"</groupId><artifactId>in-comment</artifactId></dependency></dependencies>")
		}},
		// sections added by the second widening round; their texts are drawn (p.Texts)
		{"description_block", func() {
			w.leaf(1, "name", tx(0))
			w.leaf(1, "description", tx(1))
			w.leaf(1, "url", "https://www.example.org/self-app")
			w.leaf(1, "inceptionYear", "2019")
			w.open(1, "prerequisites")
			w.leaf(2, "maven", "3.0.5")
			w.close(1, "prerequisites")
		}},
		{"people", func() {
			w.open(1, "organization")
			w.leaf(2, "name", tx(2))
			w.leaf(2, "url", "https://www.example.org")
			w.close(1, "organization")
			w.open(1, "licenses")
			w.open(2, "license")
			w.leaf(3, "name", "Apache License, Version 2.0")
			w.leaf(3, "url", "https://www.apache.org/licenses/LICENSE-2.0.txt")
			w.leaf(3, "distribution", "repo")
			w.leaf(3, "comments", tx(3))
			w.close(2, "license")
			w.close(1, "licenses")
			w.open(1, "developers")
			w.open(2, "developer")
			w.leaf(3, "id", "dev1")
			w.leaf(3, "name", tx(4))
			w.leaf(3, "email", "dev1@example.org")
			w.open(3, "roles")
			w.leaf(4, "role", "architect")
			w.leaf(4, "role", "developer")
			w.close(3, "roles")
			w.line(3, "<properties/>")
			w.close(2, "developer")
			w.close(1, "developers")
		}},
		{"scm_and_management", func() {
			w.open(1, "scm")
			w.leaf(2, "connection", "scm:git:https://git.example.org/self-app.git")
			w.leaf(2, "url", tx(5))
			w.leaf(2, "tag", "HEAD")
			w.close(1, "scm")
			w.open(1, "issueManagement")
			w.leaf(2, "system", "jira")
			w.leaf(2, "url", "https://issues.example.org/browse/APP?x=1&amp;y=2")
			w.close(1, "issueManagement")
			w.open(1, "distributionManagement")
			w.open(2, "repository")
			w.leaf(3, "id", "releases")
			w.leaf(3, "url", "https://repo.example.org/releases")
			w.close(2, "repository")
			w.open(2, "relocation")
			w.coords(3, decoySelf, "self-app-moved", "2.0")
			w.leaf(3, "message", tx(6))
			w.close(2, "relocation")
			w.close(1, "distributionManagement")
		}},
		{"modules", func() {
			w.open(1, "modules")
			w.leaf(2, "module", "module-a")
			w.leaf(2, "module", "module-b")
			w.close(1, "modules")
		}},
		{"reporting", func() {
			w.open(1, "reporting")
			w.leaf(2, "outputDirectory", "${project.build.directory}/site")
			w.open(2, "plugins")
			w.open(3, "plugin")
			w.coords(4, decoyPlugin, "some-report-plugin", "3.0")
			w.open(4, "reportSets")
			w.open(5, "reportSet")
			w.open(6, "reports")
			w.leaf(7, "report", "dependencies")
			w.leaf(7, "report", "scm")
			w.close(6, "reports")
			w.close(5, "reportSet")
			w.close(4, "reportSets")
			w.close(3, "plugin")
			plugins(3, 2)
			w.close(2, "plugins")
			w.close(1, "reporting")
		}},
		{"plugin_repositories", func() {
			w.open(1, "pluginRepositories")
			w.open(2, "pluginRepository")
			w.leaf(3, "id", "plugins")
			w.leaf(3, "name", tx(7))
			w.leaf(3, "url", "https://repo.example.org/plugins")
			w.open(3, "snapshots")
			w.leaf(4, "enabled", "false")
			w.close(3, "snapshots")
			w.close(2, "pluginRepository")
			w.close(1, "pluginRepositories")
		}},
		{"processing_instruction", func() {
			w.line(1, "<?SORTPOM IGNORE?>")
			w.comment(1, "kept as written")
			w.line(1, "<?SORTPOM RESUME?>")
			feats["processing_instruction"] = true
		}},
	}
	if len(sections) != pomSections {
		panic("c19: pomSections out of date")
	}
	order := make([]int, len(sections))
	for i := range order {
		order[i] = i
		if p.Reverse {
			order[i] = len(sections) - 1 - i
		}
	}
	fallback := func(h int) int {
		if h < len(p.Fallback) && p.Fallback[h] == 2 {
			return 2
		}
		return 1
	}
	place := func(i int) int {
		if i < len(p.Place) && p.Place[i] != 0 {
			return p.Place[i]
		}
		// a host section that Place leaves out is written all the same when free content was drawn for it
		switch sections[i].name {
		case "properties":
			if len(p.Props) > 0 {
				return fallback(hostProperties)
			}
		case "build_plugins":
			if hasPlugins(0, 1) {
				return fallback(hostBuild)
			}
		case "reporting":
			if hasPlugins(2) {
				return fallback(hostReporting)
			}
		case "profiles":
			if hasPlugins(3) {
				return fallback(hostProfiles)
			}
		}
		return 0
	}
	for _, i := range order {
		if place(i) == 1 {
			sections[i].write()
			feats["before:"+sections[i].name] = true
		}
	}

	phase = "inside"
	filler := func(depth int) {
		size := []int{5000, 70000}[(p.Filler-1)%2]
		w.comment(depth, strings.Repeat("lorem ipsum dolor sit amet ", size/27+1))
		feats[fmt.Sprintf("comment_line_longer_than_%d_bytes", size)] = true
	}
	if p.Filler > 0 && (p.FillerAt == 0 || (len(p.Deps) == 0 && p.Bulk == 0)) {
		filler(1)
	}
	if len(p.Deps) == 0 && p.Bulk == 0 && p.OmitBlock {
		feats["no_dependencies_element"] = true
	} else if len(p.Deps) == 0 && p.Bulk == 0 && p.EmptyForm {
		w.line(1, "<dependencies/>")
		feats["self_closing_dependencies_element"] = true
	} else {
		w.open(1, "dependencies")
		for d, ds := range p.Deps {
			if p.Filler > 0 && p.FillerAt == 1 && d == len(p.Deps)-1 {
				filler(2)
			}
			var group string
			var dep Dep
			if ds.DupOf > 0 && d > 0 {
				o := out.Deps[(ds.DupOf-1)%d]
				group = o.Group
				dep = Dep{Group: o.Group, Artifact: o.Artifact}
				feats["coordinates_declared_twice"] = true
			} else {
				if ds.SameGroupAs > 0 && d > 0 {
					group = out.Deps[(ds.SameGroupAs-1)%d].Group
					feats["group_declared_twice"] = true
				} else {
					group = n.group(ds.Prefix, ds.Suffix)
				}
				dep = Dep{Group: group, Artifact: n.artifact(group, ds.ArtKind)}
				if ds.SameArtifactAs > 0 && d > 0 {
					if o := out.Deps[(ds.SameArtifactAs-1)%d]; !declared(out.Deps, group, o.Artifact) {
						dep.Artifact = o.Artifact
						feats["artifact_id_shared_by_two_groups"] = true
					}
				}
			}
			if d == 0 && n.reuse != nil {
				dep = Dep{Group: n.reuse.Group, Artifact: n.reuse.Artifact}
				n.reuse = nil
				feats["dependency_declared_in_both_manifests"] = true
			}
			if ds.PIBefore {
				w.line(2, "<?SORTPOM IGNORE?>")
				feats["processing_instruction_between_dependencies"] = true
			}
			if ds.CommentBefore {
				w.comment(2, "about "+dep.Artifact)
				feats["comment_between_dependencies"] = true
			}
			if ds.CommentedOut {
				w.comment(2, "<dependency><groupId>"+decoyScript+"</groupId><artifactId>switched-off</artifactId><scope>test</scope></dependency>")
				feats["commented_out_dependency"] = true
			}
			type child struct {
				name string
				text string
				key  int
			}
			children := []child{{name: "groupId", text: dep.Group}, {name: "artifactId", text: dep.Artifact}}
			if ds.Version > 0 {
				children = append(children, child{name: "version", text: pomVersions[(ds.Version-1)%len(pomVersions)]})
			}
			if ds.Scope > 0 {
				dep.Scope = pomScopes[(ds.Scope-1)%len(pomScopes)]
				children = append(children, child{name: "scope", text: dep.Scope})
				feats["scope"] = true
				if dep.Scope == "system" && ds.SystemPath {
					children = append(children, child{name: "systemPath", text: "${basedir}/lib/" + dep.Artifact + ".jar"})
					feats["system_path"] = true
				}
			}
			if ds.Type > 0 {
				children = append(children, child{name: "type", text: []string{"pom", "jar", "test-jar"}[(ds.Type-1)%3]})
				feats["type"] = true
			}
			if ds.Optional {
				children = append(children, child{name: "optional", text: "true"})
				feats["optional"] = true
			}
			if ds.Classifier {
				children = append(children, child{name: "classifier", text: "tests"})
			}
			if ds.Scope == 0 && ds.EmptyScope > 0 {
				children = append(children, child{name: "scope", text: []string{"\x00self-closing", ""}[(ds.EmptyScope-1)%2]})
				feats["empty_scope_element"] = true
			}
			if ds.Exclusions > 0 {
				children = append(children, child{name: "exclusions"})
				feats["exclusions"] = true
			} else if ds.EmptyExcl {
				children = append(children, child{name: "exclusions", text: "\x00self-closing"})
				feats["empty_exclusions_element"] = true
			}
			if len(ds.Order) > 0 {
				for i := range children {
					children[i].key = ds.Order[i%len(ds.Order)]
				}
				sort.SliceStable(children, func(i, j int) bool { return children[i].key < children[j].key })
				if children[0].name != "groupId" || children[1].name != "artifactId" {
					feats["children_not_in_usual_order"] = true
				}
			}
			w.open(2, "dependency")
			for ci, c := range children {
				if ds.CommentInside > 0 && (ds.CommentInside-1)%len(children) == ci {
					w.comment(3, "<"+c.name+">"+decoyScript+"</"+c.name+">")
					feats["comment_inside_dependency"] = true
				}
				if c.text == "\x00self-closing" {
					w.line(3, "<"+c.name+"/>")
					continue
				}
				if c.name != "exclusions" {
					style := 0
					if ds.PadStyle > 0 && ds.PadChild%len(children) == ci {
						style = ds.PadStyle
						feats[[]string{"padded_text", "padded_text", "padded_text", "padded_text", "text_in_cdata_section", "white_space_inside_tags"}[style%6]] = true
					}
					w.leafPad(3, c.name, c.text, style)
					continue
				}
				w.open(3, "exclusions")
				for e := 0; e < ds.Exclusions; e++ {
					w.open(4, "exclusion")
					if ds.ExclArtFirst {
						w.leaf(5, "artifactId", fmt.Sprintf("excluded-%d", e))
						w.leaf(5, "groupId", decoyExcl)
					} else {
						w.leaf(5, "groupId", decoyExcl)
						w.leaf(5, "artifactId", fmt.Sprintf("excluded-%d", e))
					}
					w.close(4, "exclusion")
				}
				w.close(3, "exclusions")
			}
			w.close(2, "dependency")
			out.Deps = append(out.Deps, dep)
		}
		if p.Bulk > 0 {
			// many further dependencies, written plainly; they share the group ids declared so far
			var pool []string
			for _, d := range out.Deps {
				pool = append(pool, d.Group)
			}
			if len(pool) == 0 {
				pool = append(pool, n.group(0, 0))
			}
			for b := 0; b < p.Bulk; b++ {
				if p.Filler > 0 && p.FillerAt == 1 && len(p.Deps) == 0 && b == p.Bulk-1 {
					filler(2)
				}
				group := pool[b%len(pool)]
				dep := Dep{Group: group, Artifact: n.artifact(group, b)}
				w.open(2, "dependency")
				w.leaf(3, "groupId", dep.Group)
				w.leaf(3, "artifactId", dep.Artifact)
				if b%3 == 0 {
					dep.Scope = "test"
					w.leaf(3, "scope", dep.Scope)
				}
				w.close(2, "dependency")
				out.Deps = append(out.Deps, dep)
			}
			feats["dependencies_total="+bucketMany(len(out.Deps))] = true
		}
		if len(p.Deps) > 0 && p.EndComment {
			w.comment(2, "end of dependencies")
		}
		w.close(1, "dependencies")
	}
	phase = "after"
	for _, i := range order {
		if place(i) == 2 {
			sections[i].write()
			feats["after:"+sections[i].name] = true
		}
	}
	w.line(0, "</project>")
	out.Text = w.b.String()
	switch p.Tail {
	case 1:
		if strings.HasSuffix(out.Text, w.nl) {
			out.Text = strings.TrimSuffix(out.Text, w.nl)
			feats["no_line_end_after_root_element"] = true
		}
	case 2:
		out.Text += w.nl + w.nl + "<!-- end of file -->" + w.nl + "<?SORTPOM RESUME?>" + w.nl + " " + w.nl
		feats["comment_and_instruction_after_root_element"] = true
	}
	if p.OneLine {
		feats["single_line_xml"] = true
	}
	for f := range feats {
		out.Features = append(out.Features, f)
	}
	sort.Strings(out.Features)
	return out
}

func drawNamer(t *rapid.T) *namer {
	return &namer{off: rapid.IntRange(0, len(stems)-1).Draw(t, "stemOffset")}
}

type PomCase struct {
	Pom      string   `json:"pom"`
	Expect   []Dep    `json:"expect"`
	Features []string `json:"features"`
	Again    bool     `json:"again,omitempty"` // analyse the same file a second time: same result
}

func genPomCase(t *rapid.T) PomCase {
	n := drawNamer(t)
	p := renderPom(drawPomSpec(t, 10), n)
	again := rapid.IntRange(0, 3).Draw(t, "analyseTwice") == 3
	return PomCase{Pom: p.Text, Expect: p.Deps, Features: p.Features, Again: again}
}

func checkPom(c PomCase) pbt.Verdict {
	dir := cli.Scratch("c19pom")
	defer os.RemoveAll(dir)
	cli.WriteTree(dir, map[string]string{"pom.xml": c.Pom})
	var got []core_domain.CodeDependency
	if p := call(func() { got = deps.AnalysisMaven(filepath.Join(dir, "pom.xml")) }); p != "" {
		return pbt.Fail("AnalysisMaven panicked on a well-formed pom.xml: %s\n%s", p, c.Pom)
	}
	if msg := matchSeq(fromCoca(got), c.Expect); msg != "" {
		return pbt.Fail("AnalysisMaven: %s\n got  %s\n want %s\n%s", msg, depList(fromCoca(got)), depList(c.Expect), c.Pom)
	}
	if c.Again {
		var second []core_domain.CodeDependency
		if p := call(func() { second = deps.AnalysisMaven(filepath.Join(dir, "pom.xml")) }); p != "" {
			return pbt.Fail("AnalysisMaven panicked when the same pom.xml was analysed again: %s\n%s", p, c.Pom)
		}
		if msg := matchSeq(fromCoca(second), c.Expect); msg != "" {
			return pbt.Fail("AnalysisMaven, second analysis of the same file: %s\n got  %s\n want %s\n%s", msg, depList(fromCoca(second)), depList(c.Expect), c.Pom)
		}
		if msg := matchSeq(fromCoca(got), c.Expect); msg != "" {
			return pbt.Fail("AnalysisMaven: the first result changed when the file was analysed again: %s\n now  %s\n want %s\n%s", msg, depList(fromCoca(got)), depList(c.Expect), c.Pom)
		}
	}
	v := pbt.Verdict{}
	if c.Again {
		v.Classes = append(v.Classes, "analysed_twice")
	}
	decoySection := false
	for _, f := range c.Features {
		v.Classes = append(v.Classes, f)
		if strings.HasSuffix(f, ":dependencyManagement") || strings.HasSuffix(f, ":profiles") || f == "plugin_with_dependencies" || f == "exclusions" || f == "children_not_in_usual_order" {
			decoySection = true
		}
	}
	v.Classes = append(v.Classes, fmt.Sprintf("dependencies=%s", bucket(len(c.Expect))))
	v.NonTrivial = len(c.Expect) >= 3 && decoySection
	return v
}

// bucketMany labels a size by the slice-growth thresholds it lies beyond
func bucketMany(n int) string {
	switch {
	case n <= 8:
		return "up_to_8"
	case n <= 16:
		return "9-16"
	case n <= 32:
		return "17-32"
	case n <= 64:
		return "33-64"
	}
	return "65+"
}

func bucket(n int) string {
	switch {
	case n == 0:
		return "0"
	case n <= 2:
		return "1-2"
	case n <= 5:
		return "3-5"
	}
	return "6+"
}

// ---------------------------------------------------------------------------------------
// build.gradle generator

type gradleOut struct {
	Text      string
	Entries   []Dep // string-notation entries (must) and open entries, in declaration order
	Notations []string
	Features  []string
}

var gradleConfs = []string{"implementation", "api", "compileOnly", "runtimeOnly", "testImplementation", "testRuntimeOnly",
	"annotationProcessor", "developmentOnly", "compile", "testCompile",
	// any identifier may name a configuration (plugin-defined and user-defined ones)
	"kapt", "integrationTestImplementation", "testFixturesApi", "provided", "compileClasspath", "checkstyle",
	// audit round: digits, an underscore, a one-letter and a very long name
	"java11Implementation", "jmh", "integTest_runtimeOnly", "i", "functionalTestFixturesRuntimeOnlyDependenciesMetadataForTheLegacyBuildVariant"}

// blocks that surround the dependencies block; every one of them was seen to be accepted by the shipped parser
var gradleBlocks = []string{
	"plugins {\n    id 'java'\n    id 'org.springframework.boot' version '2.2.2.RELEASE'\n}\n",
	"apply plugin: 'io.spring.dependency-management'\n",
	"group = 'org.decoy.self'\nversion = '1.0.0'\nsourceCompatibility = JavaVersion.VERSION_11\n",
	"repositories {\n    mavenCentral()\n    jcenter()\n}\n",
	"configurations {\n    developmentOnly\n    runtimeClasspath {\n        extendsFrom developmentOnly\n    }\n}\n",
	"test {\n    useJUnitPlatform()\n}\n",
	"buildscript {\n    repositories {\n        mavenCentral()\n    }\n    dependencies {\n        classpath 'org.decoy.script:build-plugin:1.0'\n    }\n}\n",
	"ext {\n    libVersion = '5.0'\n}\n",
	"task cleanAll(type: Delete) {\n    delete rootProject.buildDir\n}\n",
	"tasks.withType(JavaCompile) {\n    options.encoding = 'UTF-8'\n}\n",
	"jar {\n    manifest {\n        attributes 'Main-Class': 'org.decoy.self.Main'\n    }\n}\n",
	"allprojects {\n    repositories {\n        jcenter()\n    }\n}\n",
	"// build file of the sample\n",
	"def libVersion = '5.0'\n",
	"/*\n * Licensed under the Apache License, Version 2.0\n */\n",
	// blocks whose names resemble "dependencies" or which hold entries that look like dependencies
	"dependencyManagement {\n    imports {\n        mavenBom 'org.decoy.mgmt:mgmt-bom:1.0'\n    }\n}\n",
	"dependencyManagement {\n    dependencies {\n        dependency 'org.decoy.mgmt:mgmt-bom-two:1.0'\n    }\n}\n",
	"dependencyLocking {\n    lockAllConfigurations()\n}\n",
	"subprojects {\n    apply plugin: 'java'\n    repositories {\n        mavenCentral()\n    }\n}\n",
	"configurations.all {\n    exclude group: 'org.decoy.excl', module: 'excluded-2'\n}\n",
	// audit round: further statements of real build scripts; texts that look like the syntax the extraction is after
	"import org.gradle.api.tasks.testing.logging.TestLogEvent\n",
	"apply from: 'gradle/extra.gradle'\n",
	"ext.libVersion = '5.0'\n",
	"description = \"sample with dependencies { compile 'org.decoy.script:in-string:1.0' }\"\n",
	"// dependencies { compile 'org.decoy.script:in-comment:1.0' }\n",
	"repositories {\n    maven {\n        url 'https://repo.example.org/maven2' // mirror\n    }\n}\n",
	"sourceSets {\n    main {\n        java {\n            srcDirs = ['src/main/java', 'src/generated/java']\n        }\n    }\n}\n",
	"def coordinate(String name) {\n    return \"org.decoy.script:${name}:1.0\"\n}\n",
	"if (project.hasProperty('ci')) {\n    version = '1.0-ci'\n}\n",
	"tasks.register('hello') {\n    doLast {\n        println 'dependencies { }'\n    }\n}\n",
	"tasks.named('test') {\n    useJUnitPlatform()\n}\n",
	"dependenciesInfo {\n    includeInApk = false\n}\n",
	"dependencyCheck {\n    failBuildOnCVSS = 7\n}\n",
	"java {\n    toolchain {\n        languageVersion = JavaLanguageVersion.of(17)\n    }\n}\n",
	"version '1.0'\n",
	"println \"configuring ${project.name}\"\n",
	"publishing {\n    publications {\n        maven(MavenPublication) {\n            from components.java\n        }\n    }\n}\n",
}

const gradleOldBlocks = 20 // the blocks of the earlier rounds; the later ones are labelled one by one

const blockCommentIndex = 14 // index of the block comment in gradleBlocks

var gradleVersions = []string{"1.2.3", "4.12", "2.0.0.RELEASE", "0.9-SNAPSHOT", "[1.0,2.0)", "1.+", "latest.release"}

// notations of one entry of the dependencies block
const (
	nSingle = iota
	nDouble
	nParenSingle
	nParenDouble
	nSpaceParen
	nExcludeClosure
	nPropertyClosure
	nProject
	nFileTree
	nOtherRef
	nMap
	nInterpolated
	nPlatform
	nCatalog
	nTrailingClosure
	nNonEntry
	notationCount
)

var notationNames = []string{"single_quoted", "double_quoted", "parenthesised_single", "parenthesised_double", "parenthesised_single",
	"parenthesised_with_exclude_closure", "parenthesised_with_closure", "project_reference", "file_tree",
	"project_reference_in_parentheses_or_gradleApi", "map_notation(open)", "interpolated_version(open)", "platform(open)",
	"version_catalog_or_testFixtures_reference", "string_with_trailing_closure_argument", "statement_that_is_no_entry(def/if/constraints)"}

// feature switch per notation (known_findings.json can exclude a notation from the search)
var notationFeature = map[int]string{nDouble: "gradle_double_quoted", nParenDouble: "gradle_double_quoted",
	nProject: "gradle_non_string_notation", nFileTree: "gradle_non_string_notation", nOtherRef: "gradle_non_string_notation",
	nMap: "gradle_non_string_notation", nInterpolated: "gradle_non_string_notation", nPlatform: "gradle_non_string_notation",
	nCatalog: "gradle_non_string_notation", nNonEntry: "gradle_non_entry_statement"}

type entrySpec struct {
	Conf            int
	Notation        int
	Variant         int
	SameGroupAs     int
	Prefix          int
	Suffix          int
	ArtKind         int
	CoordForm       int // 0 g:a:v, 1 g:a, 2 g:a:v:classifier, 3 g:a:v@jar
	Version         int
	CommentBefore   bool
	TrailingComment bool
	BlankAfter      bool
	// added by the widening round (zero value = the plain variant)
	SameArtifactAs int // k > 0: the artifact id of the (k-1)th earlier entry when that one has another group id
	Semi           int // 1 = the entry ends in ';', 2 = '; ' and the next entry follows on the same line
	// added by the audit round
	DupOf         int  // k > 0: the coordinates of the (k-1)th earlier string-notation entry once more (own configuration and notation)
	Layout        int  // 1 run of blanks, 2 tab, 4 line continuation between configuration and string; 3 blanks inside the parentheses
	OffBefore     int  // a switched-off entry in a comment on the line(s) before: 1,5 line comment, 2 block comment, 3 block comment over several lines, 4 doc comment
	TrailingBlock bool // a block comment behind the entry on its line
}

var entrySpecGen = rapid.Custom(func(t *rapid.T) entrySpec {
	e := entrySpec{}
	e.Conf = rapid.IntRange(0, len(gradleConfs)-1).Draw(t, "conf")
	// weights: plain notations are the most frequent
	e.Notation = rapid.SampledFrom([]int{nSingle, nSingle, nSingle, nSingle, nSingle, nDouble, nDouble, nDouble, nParenSingle, nParenSingle,
		nParenDouble, nSpaceParen, nExcludeClosure, nPropertyClosure, nProject, nFileTree, nOtherRef, nMap, nInterpolated, nPlatform,
		nCatalog, nTrailingClosure, nNonEntry}).Draw(t, "notation")
	e.Variant = rapid.IntRange(0, 2).Draw(t, "variant")
	if rapid.IntRange(0, 5).Draw(t, "sameGroup") == 5 {
		e.SameGroupAs = rapid.IntRange(1, 4).Draw(t, "sameGroupAs")
	}
	e.Prefix = rapid.IntRange(0, len(groupPrefixes)-1).Draw(t, "groupPrefix")
	e.Suffix = rapid.IntRange(0, len(groupSuffixes)-1).Draw(t, "groupSuffix")
	e.ArtKind = rapid.IntRange(0, len(artifactKinds)-1).Draw(t, "artifactKind")
	e.CoordForm = rapid.SampledFrom([]int{0, 0, 0, 1, 2, 3}).Draw(t, "coordForm")
	e.Version = rapid.IntRange(0, len(gradleVersions)-1).Draw(t, "version")
	e.CommentBefore = rapid.IntRange(0, 5).Draw(t, "lineCommentBefore") == 5
	e.TrailingComment = rapid.IntRange(0, 6).Draw(t, "trailingComment") == 6
	e.BlankAfter = rapid.IntRange(0, 4).Draw(t, "blankAfter") == 4
	if rapid.IntRange(0, 6).Draw(t, "sameArtifact") == 6 {
		e.SameArtifactAs = rapid.IntRange(1, 4).Draw(t, "sameArtifactAs")
	}
	if rapid.IntRange(0, 7).Draw(t, "semicolon") == 7 {
		e.Semi = rapid.IntRange(1, 2).Draw(t, "semicolonForm")
	}
	if rapid.IntRange(0, 7).Draw(t, "sameCoordinates") == 7 {
		e.DupOf = rapid.IntRange(1, 4).Draw(t, "sameCoordinatesAs")
	}
	if rapid.IntRange(0, 4).Draw(t, "layout") == 4 {
		e.Layout = rapid.IntRange(1, 4).Draw(t, "layoutForm")
	}
	if rapid.IntRange(0, 5).Draw(t, "switchedOffEntryBefore") == 5 {
		e.OffBefore = rapid.IntRange(1, 5).Draw(t, "switchedOffForm")
	}
	e.TrailingBlock = rapid.IntRange(0, 9).Draw(t, "trailingBlockComment") == 9
	return e
})

type gradleSpec struct {
	Indent  int
	Place   []int  // per surrounding block: 1 before, 2 after, other = absent
	Blank   []bool // blank line next to the block
	CRLF    bool
	Entries []entrySpec
	// added by the widening round (zero value = the plain variant)
	Header  int  // 1 "dependencies{", 2 the whole block on one line (only with at most one plain entry)
	NoBlock bool // the script has no dependencies block at all (the entries are not written)
	// added by the audit round
	Edge   int // 1 no line end after the last line, 2 blank lines before the first and blanks and blank lines after the last line
	Bulk   int // further plain entries after the drawn ones (they re-use the group ids declared so far)
	Filler int // a line comment of 1: 5 000, 2: 70 000 characters in front of the dependencies block
}

func drawGradleSpec(t *rapid.T, maxEntries int) gradleSpec {
	g := gradleSpec{}
	g.Indent = rapid.IntRange(0, 2).Draw(t, "indent")
	g.Place = rapid.SliceOfN(rapid.IntRange(0, 5), gradleOldBlocks, gradleOldBlocks).Draw(t, "blocks")
	g.Blank = rapid.SliceOfN(rapid.Bool(), len(gradleBlocks), len(gradleBlocks)).Draw(t, "blankLines")
	g.CRLF = rapid.IntRange(0, 9).Draw(t, "crlf") == 9
	g.Entries = rapid.SliceOfN(entrySpecGen, 0, maxEntries).Draw(t, "entries")
	if rapid.IntRange(0, 5).Draw(t, "header") == 5 {
		g.Header = rapid.IntRange(1, 2).Draw(t, "headerForm")
	}
	g.NoBlock = rapid.IntRange(0, 11).Draw(t, "noDependenciesBlock") == 11
	// the blocks of the audit round: each one present in one script of five
	g.Place = append(g.Place, rapid.SliceOfN(rapid.SampledFrom([]int{0, 0, 0, 0, 0, 0, 0, 0, 1, 2}), len(gradleBlocks)-gradleOldBlocks, len(gradleBlocks)-gradleOldBlocks).Draw(t, "moreBlocks")...)
	if rapid.IntRange(0, 4).Draw(t, "fileEdge") == 4 {
		g.Edge = rapid.IntRange(1, 2).Draw(t, "fileEdgeForm")
	}
	if rapid.IntRange(0, 11).Draw(t, "manyEntries") == 11 {
		g.Bulk = rapid.SampledFrom([]int{3, 7, 12, 23, 30, 40, 57, 66}).Draw(t, "furtherEntries")
	}
	if rapid.IntRange(0, 7).Draw(t, "longLine") == 7 {
		g.Filler = rapid.SampledFrom([]int{1, 2, 2}).Draw(t, "longLineSize")
	}
	// generator features tied to recorded (unrepaired) findings are left out
	if pbt.Excluded("gradle_block_comment_top_level") {
		g.Place[blockCommentIndex] = 0
	}
	kept := g.Entries[:0]
	for _, e := range g.Entries {
		if f, ok := notationFeature[e.Notation]; ok && pbt.Excluded(f) {
			continue
		}
		kept = append(kept, e)
	}
	g.Entries = kept
	if len(g.Entries) == 0 && pbt.Excluded("gradle_empty_block") {
		g.Entries = append(g.Entries, entrySpec{})
	}
	return g
}

func renderGradle(g gradleSpec, n *namer) gradleOut {
	var out gradleOut
	feats := map[string]bool{}
	notes := map[string]bool{}
	var b strings.Builder
	ind := []string{"    ", "  ", "\t"}[g.Indent%3]
	place := func(i int) int {
		if i < len(g.Place) && g.Place[i] <= 2 {
			return g.Place[i]
		}
		return 0
	}
	blank := func(i int) bool { return i < len(g.Blank) && g.Blank[i] }
	for i, blk := range gradleBlocks {
		if place(i) == 1 {
			b.WriteString(blk)
			if blank(i) {
				b.WriteString("\n")
			}
			feats["block_before"] = true
			if i == blockCommentIndex {
				feats["block_comment_at_top_level"] = true
			}
			if i >= gradleOldBlocks {
				feats["block_before:"+blockLabel(blk)] = true
			}
		}
	}
	if g.Filler > 0 {
		size := []int{5000, 70000}[(g.Filler-1)%2]
		b.WriteString("// " + strings.Repeat("lorem ipsum dolor sit amet ", size/27+1) + "\n")
		feats[fmt.Sprintf("comment_line_longer_than_%d_bytes", size)] = true
	}

	entries := g.Entries
	if g.NoBlock {
		entries = nil
		feats["no_dependencies_block"] = true
	}
	oneLine := false
	switch {
	case g.NoBlock:
	case g.Header == 1:
		b.WriteString("dependencies{\n")
		feats["header_without_space"] = true
	case g.Header == 2 && len(entries) <= 1 && (len(entries) == 0 || entries[0].Notation <= nSpaceParen):
		b.WriteString("dependencies {")
		oneLine = true
		feats["block_on_one_line"] = true
	default:
		b.WriteString("dependencies {\n")
	}
	joined := false // the previous entry ended in "; " on this line
	for ei, e := range entries {
		conf := gradleConfs[e.Conf%len(gradleConfs)]
		var group string
		if e.SameGroupAs > 0 && len(out.Entries) > 0 {
			group = out.Entries[(e.SameGroupAs-1)%len(out.Entries)].Group
			feats["group_declared_twice"] = true
		} else {
			group = n.group(e.Prefix, e.Suffix)
		}
		art := n.artifact(group, e.ArtKind)
		if e.SameArtifactAs > 0 && len(out.Entries) > 0 {
			if o := out.Entries[(e.SameArtifactAs-1)%len(out.Entries)]; !declared(out.Entries, group, o.Artifact) {
				art = o.Artifact
				feats["artifact_id_shared_by_two_groups"] = true
			}
		}
		firmNotation := e.Notation <= nPropertyClosure || e.Notation == nTrailingClosure
		if e.DupOf > 0 && firmNotation {
			// the same coordinates in a second configuration (compileOnly + annotationProcessor ...)
			var firm []Dep
			for _, o := range out.Entries {
				if !o.Open {
					firm = append(firm, o)
				}
			}
			if len(firm) > 0 {
				o := firm[(e.DupOf-1)%len(firm)]
				group, art = o.Group, o.Artifact
				feats["coordinates_declared_twice"] = true
			}
		}
		if n.reuse != nil && (e.Notation <= nPropertyClosure || e.Notation == nTrailingClosure) {
			group, art = n.reuse.Group, n.reuse.Artifact
			n.reuse = nil
			feats["dependency_declared_in_both_manifests"] = true
		}
		ver := gradleVersions[e.Version%len(gradleVersions)]
		coord := group + ":" + art
		switch e.CoordForm {
		case 0:
			coord += ":" + ver
		case 1:
			feats["coordinate_without_version"] = true
		case 2:
			coord += ":" + ver + ":tests"
		case 3:
			coord += ":" + ver + "@jar"
		}
		if e.CommentBefore && !joined && !oneLine {
			b.WriteString(ind + "// " + art + "\n")
			feats["comment_in_block"] = true
		}
		if e.OffBefore > 0 && !joined && !oneLine {
			off := fmt.Sprintf("%s:off-%d:1.0", decoyScript, ei)
			form := e.OffBefore
			if form >= 2 && form <= 4 && pbt.Excluded("gradle_block_comment_top_level") {
				form = 1
			}
			switch form {
			case 2:
				b.WriteString(ind + "/* " + conf + " '" + off + "' */\n")
				feats["switched_off_entry_in_block_comment"] = true
			case 3:
				b.WriteString(ind + "/*\n" + ind + " * " + conf + " '" + off + "'\n" + ind + " */\n")
				feats["switched_off_entry_in_block_comment"] = true
			case 4:
				b.WriteString(ind + "/** kept for reference: " + conf + "('" + off + "') */\n")
				feats["switched_off_entry_in_block_comment"] = true
			case 5:
				b.WriteString(ind + "//" + conf + "(\"" + off + "\")\n")
				feats["switched_off_entry_in_line_comment"] = true
			default:
				b.WriteString(ind + "// " + conf + " '" + off + "'\n")
				feats["switched_off_entry_in_line_comment"] = true
			}
		}
		// layout of the entry: what stands between configuration name and string, inside the parentheses, around the string
		sep, lp, rp := " ", "(", ")"
		switch {
		case e.Layout == 1 && (e.Notation == nSingle || e.Notation == nDouble || e.Notation == nTrailingClosure):
			sep = "     "
			feats["run_of_blanks_before_string"] = true
		case e.Layout == 2 && (e.Notation == nSingle || e.Notation == nDouble || e.Notation == nTrailingClosure):
			sep = "\t"
			feats["tab_before_string"] = true
		case e.Layout == 4 && !oneLine && (e.Notation == nSingle || e.Notation == nDouble):
			sep = " \\\n" + ind + ind + ind
			feats["line_continuation_before_string"] = true
		case e.Layout == 3 && e.Notation >= nParenSingle && e.Notation <= nPropertyClosure:
			lp, rp = "( ", " )"
			feats["blanks_inside_parentheses"] = true
		}
		line := ""
		must, open := true, false
		v := e.Variant
		switch e.Notation {
		case nSingle:
			line = conf + sep + "'" + coord + "'"
		case nDouble:
			line = conf + sep + "\"" + coord + "\""
		case nParenSingle:
			line = conf + lp + "'" + coord + "'" + rp
		case nParenDouble:
			line = conf + lp + "\"" + coord + "\"" + rp
		case nSpaceParen:
			line = conf + " " + lp + "'" + coord + "'" + rp
		case nExcludeClosure:
			q := []string{"'", "'", "\""}[v%3]
			if q == "\"" && pbt.Excluded("gradle_double_quoted") {
				q = "'"
			}
			line = conf + lp + q + coord + q + rp + " {\n" + ind + ind + "exclude group: '" + decoyExcl + "', module: 'excluded-0'\n" + ind + ind + "exclude module: 'excluded-1'\n" + ind + "}"
		case nPropertyClosure:
			if v%3 == 2 {
				line = conf + lp + "'" + coord + "'" + rp + " {\n" + ind + ind + "because 'see " + decoyExcl + ":excluded-0:1.0'\n" + ind + ind + "version {\n" + ind + ind + ind + "strictly '1.0'\n" + ind + ind + "}\n" + ind + "}"
			} else {
				line = conf + lp + "'" + coord + "'" + rp + " { transitive = false }"
			}
		case nTrailingClosure:
			if v%2 == 1 {
				line = conf + sep + "'" + coord + "', {\n" + ind + ind + "exclude group: '" + decoyExcl + "'\n" + ind + "}"
			} else {
				line = conf + sep + "'" + coord + "', { transitive = false }"
			}
		case nNonEntry:
			// statements of the dependencies block that are no entries: they must not disturb the entries around them;
			// whether an entry nested in them is extracted is left open
			must = false
			switch v % 3 {
			case 0:
				line = "def " + strings.NewReplacer("-", "_", ".", "_").Replace(art) + " = '" + ver + "'"
			case 1:
				open = true
				line = "if (project.hasProperty('extra')) {\n" + ind + ind + conf + " '" + coord + "'\n" + ind + "}"
			default:
				open = true
				line = "constraints {\n" + ind + ind + conf + " '" + coord + "'\n" + ind + "}"
			}
		case nCatalog:
			must = false
			line = conf + []string{" libs.guava", "(libs.junit.jupiter)", " testFixtures(project(':core'))"}[v%3]
		case nProject:
			must = false
			line = conf + " " + []string{"project(':core')", "project(\":shared:util\")", "project(path: ':core', configuration: 'testArtifacts')"}[v%3]
		case nFileTree:
			must = false
			line = conf + " " + []string{"fileTree(dir: 'libs', include: ['*.jar'])", "fileTree(dir: \"libs\", include: \"*.jar\")", "files('libs/local.jar')"}[v%3]
		case nOtherRef:
			must = false
			line = conf + []string{"(project(':core'))", "(project(\":core\"))", " gradleApi()"}[v%3]
		case nMap:
			must, open = false, true
			if v%2 == 1 {
				line = conf + "(group: '" + group + "', name: '" + art + "', version: '1.0')"
			} else {
				line = conf + " group: '" + group + "', name: '" + art + "', version: '1.0'"
			}
		case nInterpolated:
			must, open = false, true
			line = conf + " \"" + group + ":" + art + ":${libVersion}\""
		case nPlatform:
			must, open = false, true
			line = conf + []string{" platform('", " platform('", " enforcedPlatform('"}[v%3] + coord + "')"
		default:
			panic("c19: unknown notation")
		}
		notes[notationNames[e.Notation]] = true
		switch {
		case oneLine:
			b.WriteString(" " + line + " ")
		case e.Semi == 2 && ei+1 < len(entries) && !strings.Contains(line, "\n"):
			if !joined {
				b.WriteString(ind)
			}
			b.WriteString(line + "; ")
			joined = true
			feats["two_entries_on_one_line"] = true
		default:
			if e.Semi > 0 {
				line += ";"
				feats["entry_ends_in_semicolon"] = true
			}
			if e.TrailingBlock && e.Semi == 0 && e.Notation <= nSpaceParen && !strings.Contains(line, "\n") && !pbt.Excluded("gradle_block_comment_top_level") {
				if e.Notation <= nDouble {
					line += " /* keep */"
					feats["block_comment_behind_entry"] = true
				} else if !pbt.Excluded("gradle_block_comment_behind_parenthesised_entry") {
					line += " /* keep */"
					feats["block_comment_behind_parenthesised_entry"] = true
				}
			}
			if e.TrailingComment {
				line += " // keep, see https://example.org/why"
				feats["comment_in_block"] = true
			}
			if !joined {
				b.WriteString(ind)
			}
			b.WriteString(line + "\n")
			joined = false
			if e.BlankAfter {
				b.WriteString("\n")
			}
		}
		if must || open {
			out.Entries = append(out.Entries, Dep{Group: group, Artifact: art, Scope: conf, Open: open})
		}
	}
	bulkWritten := false
	if g.Bulk > 0 && !g.NoBlock && !oneLine {
		bulkWritten = true
		// many further entries, written plainly; they share the group ids declared so far
		var pool []string
		for _, d := range out.Entries {
			pool = append(pool, d.Group)
		}
		if len(pool) == 0 {
			pool = append(pool, n.group(0, 0))
		}
		if joined {
			b.WriteString("\n")
		}
		for k := 0; k < g.Bulk; k++ {
			group := pool[k%len(pool)]
			art := n.artifact(group, k)
			conf := []string{"implementation", "testImplementation", "runtimeOnly"}[k%3]
			b.WriteString(ind + conf + " '" + group + ":" + art + ":1.0'\n")
			out.Entries = append(out.Entries, Dep{Group: group, Artifact: art, Scope: conf})
		}
		feats["entries_total="+bucketMany(len(out.Entries))] = true
	}
	if !g.NoBlock {
		b.WriteString("}\n")
	}
	for i, blk := range gradleBlocks {
		if place(i) == 2 {
			if blank(i) {
				b.WriteString("\n")
			}
			b.WriteString(blk)
			feats["block_after"] = true
			if i == blockCommentIndex {
				feats["block_comment_at_top_level"] = true
			}
			if i >= gradleOldBlocks {
				feats["block_after:"+blockLabel(blk)] = true
			}
		}
	}
	if len(g.Entries) == 0 && !g.NoBlock && !bulkWritten {
		feats["empty_dependencies_block"] = true
	}
	out.Text = b.String()
	switch g.Edge {
	case 1:
		if strings.HasSuffix(out.Text, "\n") {
			out.Text = strings.TrimSuffix(out.Text, "\n")
			feats["no_line_end_after_last_line"] = true
		}
	case 2:
		out.Text = "\n\n" + out.Text + "  \n\n\t\n"
		feats["blank_lines_at_both_ends"] = true
	}
	if g.CRLF {
		out.Text = strings.ReplaceAll(out.Text, "\n", "\r\n")
		feats["crlf"] = true
	}
	for f := range feats {
		out.Features = append(out.Features, f)
	}
	for f := range notes {
		out.Notations = append(out.Notations, f)
	}
	sort.Strings(out.Features)
	sort.Strings(out.Notations)
	return out
}

// blockLabel names a surrounding block by its first word(s)
func blockLabel(blk string) string {
	l := strings.SplitN(blk, "\n", 2)[0]
	l = strings.TrimSuffix(strings.TrimSpace(l), "{")
	if len(l) > 34 {
		l = l[:34]
	}
	return strings.TrimSpace(l)
}

// syntax errors reported by the shipped Groovy parser
type errCounter struct {
	*antlr.DefaultErrorListener
	n     int
	first string
}

func (e *errCounter) SyntaxError(_ antlr.Recognizer, _ interface{}, line, column int, msg string, _ antlr.RecognitionException) {
	if e.n == 0 {
		e.first = fmt.Sprintf("line %d:%d %s", line, column, msg)
	}
	e.n++
}

func groovyRejects(text string) string {
	ec := &errCounter{DefaultErrorListener: antlr.NewDefaultErrorListener()}
	var rejected string
	if p := call(func() {
		lexer := groovy.NewGroovyLexer(antlr.NewInputStream(text))
		lexer.RemoveErrorListeners()
		lexer.AddErrorListener(ec)
		parser := groovy.NewGroovyParser(antlr.NewCommonTokenStream(lexer, 0))
		parser.RemoveErrorListeners()
		parser.AddErrorListener(ec)
		parser.CompilationUnit()
	}); p != "" {
		rejected = "parser panicked: " + p
	}
	if ec.n > 0 {
		rejected = ec.first
	}
	return rejected
}

type GradleCase struct {
	Text      string   `json:"text"`
	Expect    []Dep    `json:"expect"`
	Notations []string `json:"notations"`
	Features  []string `json:"features"`
	// Follow: what is analysed next in the same process, without resetting anything in between:
	// 1 a script with one other dependency, 2 a script without dependencies block, 3 the same script again.
	// Each analysis must give the result of its own script and leave earlier results untouched.
	Follow int `json:"follow,omitempty"`
}

const (
	followScript      = "plugins {\n    id 'java'\n}\ndependencies {\n    runtimeOnly 'org.decoy.second:second-art:1.0'\n}\n"
	followNoBlock     = "plugins {\n    id 'java'\n}\nrepositories {\n    mavenCentral()\n}\n"
	followScriptGroup = "org.decoy.second"
)

func genGradleCase(t *rapid.T) GradleCase {
	n := drawNamer(t)
	g := renderGradle(drawGradleSpec(t, 8), n)
	follow := 0
	if rapid.IntRange(0, 2).Draw(t, "followUp") == 2 {
		follow = rapid.IntRange(1, 3).Draw(t, "followUpKind")
	}
	return GradleCase{Text: g.Text, Expect: g.Entries, Notations: g.Notations, Features: g.Features, Follow: follow}
}

func checkGradle(c GradleCase) pbt.Verdict {
	ast_groovy.VerifResetAstGroovy()
	if why := groovyRejects(c.Text); why != "" {
		pbt.Count("gradle_rejected_by_shipped_parser", 1)
		return pbt.Verdict{Skip: true}
	}
	ast_groovy.VerifResetAstGroovy()
	var got []core_domain.CodeDependency
	if p := call(func() { got = deps.AnalysisGradleString(c.Text) }); p != "" {
		return pbt.Fail("AnalysisGradleString panicked on a build script its parser accepts: %s\n%s", p, c.Text)
	}
	if msg := matchSeq(fromCoca(got), c.Expect); msg != "" {
		return pbt.Fail("AnalysisGradleString: %s\n got  %s\n want %s\n%s", msg, depList(fromCoca(got)), depList(c.Expect), c.Text)
	}
	if c.Follow > 0 {
		text, want, what := followScript, []Dep{{Group: followScriptGroup, Artifact: "second-art", Scope: "runtimeOnly"}}, "a script with one other dependency"
		switch c.Follow {
		case 2:
			text, want, what = followNoBlock, nil, "a script without dependencies block"
		case 3:
			text, want, what = c.Text, c.Expect, "the same script again"
		}
		var next []core_domain.CodeDependency
		if p := call(func() { next = deps.AnalysisGradleString(text) }); p != "" {
			return pbt.Fail("AnalysisGradleString panicked on %s analysed after the script below: %s\n%s", what, p, c.Text)
		}
		if msg := matchSeq(fromCoca(next), want); msg != "" {
			return pbt.Fail("AnalysisGradleString on %s, analysed after the script below: %s\n got  %s\n want %s\n%s", what, msg, depList(fromCoca(next)), depList(want), c.Text)
		}
		if msg := matchSeq(fromCoca(got), c.Expect); msg != "" {
			return pbt.Fail("AnalysisGradleString: the result of the script below changed when %s was analysed afterwards: %s\n now  %s\n want %s\n%s", what, msg, depList(fromCoca(got)), depList(c.Expect), c.Text)
		}
	}
	v := pbt.Verdict{}
	if c.Follow > 0 {
		v.Classes = append(v.Classes, fmt.Sprintf("follow_up=%d", c.Follow))
	}
	for _, f := range c.Features {
		v.Classes = append(v.Classes, f)
	}
	for _, f := range c.Notations {
		v.Classes = append(v.Classes, "notation:"+f)
	}
	v.Classes = append(v.Classes, "entries="+bucket(len(c.Expect)))
	v.NonTrivial = len(c.Expect) >= 3 && len(c.Notations) >= 2
	return v
}

// ---------------------------------------------------------------------------------------
// projects: manifest(s) + Java sources

type Import struct {
	Text  string `json:"text"`  // what follows "import " / "import static ", without ".*" and ";"
	Group string `json:"group"` // the declared group it was written for; "" = unrelated to every declared group
}

type Manifest struct {
	Path    string `json:"path"`
	Entries []Dep  `json:"entries"`
}

type ProjCase struct {
	Files     map[string]string `json:"files"`
	Manifests []Manifest        `json:"manifests"`
	Imports   []Import          `json:"imports"`
	Features  []string          `json:"features"`
	// CliForm: how the deps command is given the project directory (cwd is the project for 0-4 and 7):
	// 0 "-p .", 1 "--path .", 2 no option (the default), 3 "-p <absolute directory>", 4 "--path=./", 7 "-p=.";
	// 5 "-p <name>" with the directory above the project as cwd, 6 "--path ../<name>/" with an empty directory next to the project as cwd
	CliForm int `json:"cli_form,omitempty"`
	// PathForm: how the in-process pipeline names the directory: 0 as it is, 1 with a trailing "/", 2 with a trailing "/."
	PathForm int `json:"path_form,omitempty"`
	// NotImports: texts inside Java files that name a declared group without being an import (comments, string literals)
	NotImports []string `json:"not_imports,omitempty"`
	// Past (cli sub-check, eighth seed batch): the working directory is the directory above the project and has a past:
	// `coca analysis -p .` was run there over the project AND a second code base next to it whose classes import every
	// declared group; coca_reporter/ holds its model when `deps -p <project>` starts. The report is about the project alone.
	Past bool `json:"past,omitempty"`
}

type importSpec struct {
	File int
	Form int
}

type groupUse struct {
	Used    bool
	Imports []importSpec
	// added by the audit round: imports and other texts that come close to the group id without containing it as an import would
	Near []importSpec
}

type javaFileSpec struct {
	Pkg       int
	Test      bool
	InModule  bool
	Kind      int
	Unrelated []int
	Decoy     int // 0 = none, k = decoy group k-1
	// added by the audit round (zero value = the plain variant)
	Shape    int // shape of the type declaration(s) of a class file, see javaShapes
	Layout   int // layout of the file text, see javaLayouts
	NameForm int // 1 a type name that is a case variant of the directory name the file walk skips (TestData...), 2 the simple name of the first file
	Root     int // 1 src/it/java, 2 a directory named testdata
}

const maxGroupsPerProject = 16

// near misses: imports that come close to a declared group id without containing it, and texts of a Java file
// that contain it without being an import. Neither makes the group "occur in an import".
const (
	nearCase           = iota // the group id in another letter case
	nearParentWildcard        // on-demand import of the package above the group id (the import is a part of the group id, not the reverse)
	nearSibling               // a sibling package of the group id
	nearOtherPrefix           // the rest of the group id under another first name
	nearHyphenAsDot           // the hyphen of the group id written as a dot
	nearLineComment           // a switched-off import in a line comment
	nearBlockComment          // a switched-off import in a block comment
	nearStringLiteral         // the package name in a string constant
	nearFormCount
)

var nearFormLabels = []string{"import_in_other_letter_case", "on_demand_import_of_the_parent_package", "import_of_sibling_package",
	"import_with_other_first_name", "import_with_dot_for_hyphen", "import_inside_line_comment", "import_inside_block_comment", "package_name_in_string_literal"}

// nearMiss builds the text for one declared group id; "" when the form does not apply to it
func nearMiss(g string, form int) (text string, wildcard bool) {
	stem := ""
	for _, s := range stems {
		if strings.Contains(g, s) {
			stem = s
		}
	}
	last := strings.LastIndex(g, ".")
	switch form % nearFormCount {
	case nearCase:
		if stem == "" || strings.Contains(g, "-") {
			return "", false
		}
		return strings.Replace(g, stem, strings.ToUpper(stem[:1])+stem[1:], 1) + ".Client", false
	case nearParentWildcard:
		if last <= 0 || !strings.Contains(g[:last], ".") {
			return "", false
		}
		return g[:last], true
	case nearSibling:
		if last <= 0 {
			return "", false
		}
		return g[:last] + ".unrelated.Thing", false
	case nearOtherPrefix:
		first := strings.Index(g, ".")
		if first <= 0 || strings.Contains(g, "-") {
			return "", false
		}
		return "zz." + g[first+1:] + ".Client", false
	case nearHyphenAsDot:
		if !strings.Contains(g, "-") {
			return "", false
		}
		return strings.ReplaceAll(g, "-", ".") + ".Client", false
	default:
		if strings.Contains(g, "-") {
			return "", false
		}
		return g + ".Client", false
	}
}

// shapes of the type declarations of a class file (index 0 = the plain class); every file keeps a class or interface as
// a top-level type, because a file that declares only an enum or an annotation type gives no model node at all
var javaShapes = []string{"plain", "inner_class", "static_nested_class_with_methods", "nested_enum", "anonymous_class", "generic_class_with_extends_and_implements",
	"annotated_final_class", "top_level_enum_before_the_class", "top_level_enum_after_the_class", "annotation_type_before_the_class", "three_top_level_types",
	"empty_class_body", "local_class_and_initialiser_blocks", "classes_nested_three_deep", "lambdas_and_method_references", "abstract_class"}

// the shapes that declare further types are drawn twice as often as the others
var javaShapeGen = rapid.SampledFrom([]int{1, 1, 2, 2, 3, 3, 4, 4, 5, 6, 7, 7, 8, 8, 9, 9, 10, 10, 11, 12, 12, 13, 13, 14, 15})

// layouts of the text of a Java file (index 0 = the plain one)
var javaLayouts = []string{"plain", "crlf", "package_and_imports_on_one_line", "blanks_tabs_and_comments_inside_import_statements",
	"licence_header_naming_an_import", "no_line_end_after_last_line", "default_package", "stray_semicolons"}

func renderJava(pkg, name, kind string, imports, remarks, consts []string, shape, layout int) string {
	var b strings.Builder
	if layout == 4 {
		b.WriteString("/*\n * Licensed under the Apache License, Version 2.0.\n * import " + decoyScript + ".Header;\n */\n")
	}
	for _, r := range remarks {
		b.WriteString(r + "\n")
	}
	imps := append([]string{}, imports...)
	if layout == 3 {
		for i, imp := range imps {
			q := strings.TrimSuffix(strings.TrimPrefix(imp, "import "), ";")
			static := ""
			if strings.HasPrefix(q, "static ") {
				static, q = "static\t", strings.TrimPrefix(q, "static ")
			}
			if k := strings.LastIndex(q, "."); k > 0 {
				q = q[:k] + " . " + q[k+1:]
			}
			imps[i] = "import   " + static + []string{"", "/* used */ "}[i%2] + q + " ;"
		}
	}
	if layout == 7 && len(imps) > 0 {
		imps[len(imps)-1] += ";"
	}
	switch {
	case layout == 2:
		b.WriteString("package " + pkg + "; " + strings.Join(imps, " ") + "\n")
	default:
		if layout != 6 {
			b.WriteString("package " + pkg + ";\n\n")
		}
		for _, imp := range imps {
			b.WriteString(imp + "\n")
		}
		if len(imps) > 0 {
			b.WriteString("\n")
		}
	}
	if layout == 4 {
		b.WriteString("/**\n * Generated sample; see {@link " + decoyScript + ".Linked}.\n */\n")
	}
	if layout == 7 {
		b.WriteString(";\n")
	}
	member := ""
	for i, c := range consts {
		if kind == "interface" {
			member += fmt.Sprintf("    String HINT%d = \"%s\";\n", i, c)
		} else {
			member += fmt.Sprintf("    static final String HINT%d = \"%s\";\n", i, c)
		}
	}
	plainBody := member + "    private int count;\n\n    public int getCount() {\n        return count;\n    }\n"
	switch {
	case kind == "interface":
		b.WriteString("public interface " + name + " {\n" + member + "    void run();\n}\n")
	case kind == "two_types":
		b.WriteString("interface " + name + "Port {\n" + member + "    void run();\n}\n\npublic class " + name + " implements " + name + "Port {\n    public void run() {\n    }\n}\n")
	default:
		switch javaShapes[shape%len(javaShapes)] {
		case "inner_class":
			b.WriteString("public class " + name + " {\n" + member + "    private int count;\n\n    class Inner {\n        int depth;\n    }\n\n    public int getCount() {\n        return count;\n    }\n}\n")
		case "static_nested_class_with_methods":
			b.WriteString("public class " + name + " {\n" + member + "    static class Nested {\n        int depth;\n\n        void dive() {\n        }\n    }\n\n    static class Second {\n    }\n\n    void surface() {\n    }\n}\n")
		case "nested_enum":
			b.WriteString("public class " + name + " {\n" + member + "    enum Mode { ON, OFF }\n\n    private Mode mode;\n}\n")
		case "anonymous_class":
			b.WriteString("public class " + name + " {\n" + member + "    private final Runnable task = new Runnable() {\n        public void run() {\n        }\n    };\n\n    void start() {\n        Runnable other = new Runnable() {\n            public void run() {\n            }\n        };\n        other.run();\n    }\n}\n")
		case "generic_class_with_extends_and_implements":
			b.WriteString("public class " + name + "<T extends Comparable<T>> extends Base<T> implements Comparable<" + name + "<T>>, java.io.Serializable {\n" + member + "    public int compareTo(" + name + "<T> other) {\n        return 0;\n    }\n}\n")
		case "annotated_final_class":
			b.WriteString("@Deprecated\n@SuppressWarnings(\"unchecked\")\npublic final class " + name + " {\n" + plainBody + "}\n")
		case "top_level_enum_before_the_class":
			b.WriteString("enum " + name + "Mode { ON, OFF }\n\npublic class " + name + " {\n" + plainBody + "}\n")
		case "top_level_enum_after_the_class":
			b.WriteString("public class " + name + " {\n" + plainBody + "}\n\nenum " + name + "Mode { ON, OFF }\n")
		case "annotation_type_before_the_class":
			b.WriteString("@interface " + name + "Marker {\n    String value() default \"\";\n}\n\npublic class " + name + " {\n" + plainBody + "}\n")
		case "three_top_level_types":
			b.WriteString("class " + name + " {\n" + plainBody + "}\n\ninterface " + name + "Port {\n    void run();\n}\n\nclass " + name + "Other {\n    int other;\n}\n")
		case "empty_class_body":
			if member == "" {
				b.WriteString("class " + name + " {}\n")
			} else {
				b.WriteString("class " + name + " {\n" + member + "}\n")
			}
		case "local_class_and_initialiser_blocks":
			b.WriteString("public class " + name + " {\n" + member + "    static {\n        System.out.println(\"static\");\n    }\n\n    {\n        System.out.println(\"instance\");\n    }\n\n    void work() {\n        class Local {\n            int z;\n        }\n        new Local();\n    }\n}\n")
		case "classes_nested_three_deep":
			b.WriteString("public class " + name + " {\n" + member + "    class B {\n        class C {\n            class D {\n                int z;\n            }\n        }\n    }\n\n    int after;\n}\n")
		case "lambdas_and_method_references":
			b.WriteString("public class " + name + " {\n" + member + "    private final java.util.function.Function<String, String> trim = s -> s.trim();\n\n    void each() {\n        Runnable r = () -> { };\n        java.util.Arrays.asList(\"a\").forEach(System.out::println);\n        r.run();\n    }\n}\n")
		case "abstract_class":
			b.WriteString("public abstract class " + name + " {\n" + member + "    abstract void run();\n}\n")
		default:
			b.WriteString("public class " + name + " {\n" + plainBody + "}\n")
		}
	}
	if layout == 7 {
		b.WriteString(";\n")
	}
	text := b.String()
	switch layout {
	case 1:
		text = strings.ReplaceAll(text, "\n", "\r\n")
	case 5:
		text = strings.TrimSuffix(text, "\n")
	}
	return text
}

func genProject(t *rapid.T) ProjCase {
	n := drawNamer(t)
	c := ProjCase{Files: map[string]string{}}
	feats := map[string]bool{}
	layout := rapid.IntRange(0, 11).Draw(t, "layout")
	redeclare := 0 // k > 0: the second manifest starts with the (k-1)th dependency of the first one
	if rapid.IntRange(0, 1).Draw(t, "redeclareInSecondManifest") == 1 {
		redeclare = rapid.IntRange(1, 4).Draw(t, "redeclareWhich")
	}
	// audit round: the second manifest may lie three directories deep
	moduleDir, toolingDir := "module-b/", "tooling/"
	if rapid.IntRange(0, 3).Draw(t, "moduleDepth") == 3 {
		moduleDir, toolingDir = "services/billing/api/", "gradle/tooling/scripts/"
	}
	second := func() {
		if redeclare == 0 || len(c.Manifests) != 1 {
			return
		}
		var firm []Dep
		for _, d := range c.Manifests[0].Entries {
			if !d.Open {
				firm = append(firm, d)
			}
		}
		if len(firm) > 0 {
			d := firm[(redeclare-1)%len(firm)]
			n.reuse = &d
		}
	}
	addPom := func(path string, max int) {
		spec := drawPomSpec(t, max)
		if n.reuse != nil && len(spec.Deps) == 0 {
			spec.Deps = append(spec.Deps, depSpec{})
		}
		p := renderPom(spec, n)
		n.reuse = nil
		c.Files[path] = p.Text
		c.Manifests = append(c.Manifests, Manifest{Path: path, Entries: p.Deps})
		feats["pom"] = true
		for _, f := range p.Features { // the free content of the other sections reaches the report checks as well
			if strings.HasPrefix(f, "html_void_name_") || strings.HasPrefix(f, "free_name:") || strings.HasPrefix(f, "free_dependencies_element_") || f == "utf8_byte_order_mark" || f == "text_in_cdata_section" ||
				strings.HasPrefix(f, "comment_line_longer_than_") || f == "no_line_end_after_root_element" || f == "xml_declaration_in_single_quotes" {
				feats["pom:"+f] = true
			}
		}
	}
	addGradle := func(path string, max int, noBlock bool) {
		spec := drawGradleSpec(t, max)
		if noBlock {
			spec.NoBlock = true
		}
		if n.reuse != nil {
			spec.NoBlock = false
			takes := false
			for _, e := range spec.Entries {
				takes = takes || e.Notation <= nPropertyClosure || e.Notation == nTrailingClosure
			}
			if !takes {
				spec.Entries = append([]entrySpec{{}}, spec.Entries...)
			}
		}
		g := renderGradle(spec, n)
		n.reuse = nil
		c.Files[path] = g.Text
		c.Manifests = append(c.Manifests, Manifest{Path: path, Entries: g.Entries})
		feats["gradle"] = true
		if len(g.Notations) >= 2 {
			feats["gradle_notations>=2"] = true
		}
		for _, f := range g.Features {
			if strings.HasPrefix(f, "comment_line_longer_than_") || strings.HasPrefix(f, "switched_off_entry_") || f == "no_line_end_after_last_line" {
				feats["gradle:"+f] = true
			}
		}
	}
	switch {
	case layout <= 4:
		addPom("pom.xml", 8)
	case layout <= 7:
		addGradle("build.gradle", 7, false)
	case layout == 8:
		addPom("pom.xml", 4)
		second()
		addPom(moduleDir+"pom.xml", 4)
		feats["two_manifests"] = true
	case layout == 9:
		addPom("pom.xml", 4)
		second()
		addGradle(toolingDir+"build.gradle", 4, false)
		feats["two_manifests"] = true
	case layout == 10:
		addGradle("build.gradle", 4, false)
		second()
		addGradle(moduleDir+"build.gradle", 4, false)
		feats["two_manifests"] = true
		feats["two_gradle_scripts"] = true
	default:
		// a multi-project build in which one script declares nothing: the root script (the usual case) or a module's
		moduleIsBare := rapid.Bool().Draw(t, "bareScriptIsTheModule")
		addGradle("build.gradle", 5, !moduleIsBare)
		addGradle(moduleDir+"build.gradle", 5, moduleIsBare)
		feats["two_manifests"] = true
		feats["two_gradle_scripts"] = true
		feats["gradle_script_without_dependencies_block"] = true
	}

	if len(c.Manifests) == 2 && strings.Count(c.Manifests[1].Path, "/") >= 3 {
		feats["second_manifest_three_directories_deep"] = true
	}

	uses := rapid.SliceOfN(rapid.Custom(func(t *rapid.T) groupUse {
		u := groupUse{Used: rapid.IntRange(0, 9).Draw(t, "used") >= 4}
		u.Imports = rapid.SliceOfN(rapid.Custom(func(t *rapid.T) importSpec {
			return importSpec{File: rapid.IntRange(0, 5).Draw(t, "importingFile"), Form: rapid.IntRange(0, 6).Draw(t, "importForm")}
		}), 1, 2).Draw(t, "imports")
		if rapid.IntRange(0, 2).Draw(t, "nearMiss") == 2 {
			u.Near = rapid.SliceOfN(rapid.Custom(func(t *rapid.T) importSpec {
				return importSpec{File: rapid.IntRange(0, 5).Draw(t, "nearMissFile"), Form: rapid.IntRange(0, nearFormCount-1).Draw(t, "nearMissForm")}
			}), 1, 2).Draw(t, "nearMisses")
		}
		return u
	}), maxGroupsPerProject, maxGroupsPerProject).Draw(t, "groupUse")
	fileSpecs := rapid.SliceOfN(rapid.Custom(func(t *rapid.T) javaFileSpec {
		f := javaFileSpec{}
		f.Pkg = rapid.IntRange(0, 2).Draw(t, "javaPkg")
		f.Test = rapid.IntRange(0, 3).Draw(t, "testFile") == 3
		f.InModule = rapid.Bool().Draw(t, "inModule")
		f.Kind = rapid.IntRange(0, 5).Draw(t, "javaKind")
		f.Unrelated = rapid.SliceOfN(rapid.IntRange(0, len(unrelatedImports)-1), 0, 2).Draw(t, "unrelatedImports")
		if rapid.IntRange(0, 5).Draw(t, "decoyImport") == 5 {
			f.Decoy = rapid.IntRange(1, len(decoys)).Draw(t, "decoy")
		}
		if rapid.IntRange(0, 1).Draw(t, "typeShape") == 1 {
			f.Shape = javaShapeGen.Draw(t, "typeShapeForm")
		}
		if rapid.IntRange(0, 2).Draw(t, "fileLayout") == 2 {
			f.Layout = rapid.IntRange(1, len(javaLayouts)-1).Draw(t, "fileLayoutForm")
		}
		if rapid.IntRange(0, 4).Draw(t, "typeName") == 4 {
			f.NameForm = rapid.IntRange(1, 2).Draw(t, "typeNameForm")
		}
		if rapid.IntRange(0, 5).Draw(t, "sourceRoot") == 5 {
			f.Root = rapid.IntRange(1, 2).Draw(t, "sourceRootForm")
		}
		return f
	}), 0, 5).Draw(t, "javaFiles")
	// one case in five has a house style: every class file in the same drawn shape, one in five every file in the same layout,
	// so that the shape decides about every import of the project
	if rapid.IntRange(0, 4).Draw(t, "houseShape") == 4 {
		hs := javaShapeGen.Draw(t, "houseShapeForm")
		for i := range fileSpecs {
			fileSpecs[i].Shape = hs
		}
	}
	if rapid.IntRange(0, 4).Draw(t, "houseLayout") == 4 {
		hl := rapid.IntRange(1, len(javaLayouts)-1).Draw(t, "houseLayoutForm")
		for i := range fileSpecs {
			fileSpecs[i].Layout = hl
		}
	}

	// distinct declared groups, in declaration order
	var groups []string
	seen := map[string]bool{}
	for _, m := range c.Manifests {
		for _, d := range m.Entries {
			if !seen[d.Group] {
				seen[d.Group] = true
				groups = append(groups, d.Group)
			}
		}
	}
	if len(groups) > maxGroupsPerProject {
		panic("c19: more groups than maxGroupsPerProject")
	}
	anyUsed := false
	for gi, g := range groups {
		if uses[gi].Used && !strings.Contains(g, "-") {
			anyUsed = true
		}
		if len(uses[gi].Near) > 0 {
			anyUsed = true // a near miss needs a file to stand in as well
		}
	}
	if anyUsed && len(fileSpecs) == 0 {
		fileSpecs = append(fileSpecs, javaFileSpec{})
	}
	type jf struct {
		path    string
		pkg     string
		name    string
		kind    string
		imports []string
		shape   int
		layout  int
		remarks []string // comment lines in front of the imports
		consts  []string // string constants of the first type
	}
	var files []jf
	for i, fs := range fileSpecs {
		pkg := "com.example.app" + []string{"", ".web", ".domain.model"}[fs.Pkg%3]
		name := fmt.Sprintf("Type%d", i)
		root := "src/main/java/"
		if fs.Test {
			root = "src/test/java/"
			name += "Test"
			feats["test_source_file"] = true
		}
		if len(c.Manifests) == 2 && fs.InModule {
			root = filepath.ToSlash(filepath.Dir(c.Manifests[1].Path)) + "/" + root
		}
		kind := []string{"class", "class", "class", "interface", "two_types", "class"}[fs.Kind%6]
		if fs.Kind%6 == 5 && !fs.Test {
			// a source directory that does not follow the Maven layout
			root = strings.TrimSuffix(root, "src/main/java/") + "legacy/src/"
			feats["java_file_outside_src_main_java"] = true
		} else if fs.Root > 0 && !fs.Test {
			root = strings.TrimSuffix(root, "src/main/java/") + []string{"src/it/java/", "src/test/resources/testdata/"}[(fs.Root-1)%2]
			feats[[]string{"java_file_under_src_it_java", "java_file_under_a_directory_named_testdata"}[(fs.Root-1)%2]] = true
		}
		if kind == "two_types" {
			feats["java_file_with_two_top_level_types"] = true
		}
		switch {
		case fs.NameForm == 1:
			name = fmt.Sprintf("TestDataFactory%d", i)
			if fs.Test {
				name += "Test"
			}
			feats["java_type_named_TestData..."] = true
		case fs.NameForm == 2 && i > 0:
			name = files[0].name
		}
		path := root + strings.ReplaceAll(pkg, ".", "/") + "/" + name + ".java"
		for _, o := range files {
			if o.path == path { // the drawn name is taken in this directory: back to the numbered one
				name = fmt.Sprintf("Type%d", i)
				path = root + strings.ReplaceAll(pkg, ".", "/") + "/" + name + ".java"
			}
		}
		if i > 0 && name == files[0].name {
			if pkg == files[0].pkg {
				feats["same_qualified_type_name_in_two_source_roots"] = true
			} else {
				feats["same_simple_type_name_in_two_packages"] = true
			}
		}
		f := jf{path: path, pkg: pkg, name: name, kind: kind, layout: fs.Layout % len(javaLayouts)}
		if kind == "class" {
			f.shape = fs.Shape % len(javaShapes)
		}
		if f.shape > 0 {
			feats["java_shape:"+javaShapes[f.shape]] = true
		}
		if f.layout > 0 {
			feats["java_layout:"+javaLayouts[f.layout]] = true
		}
		files = append(files, f)
	}
	addImport := func(fi int, text, group string, static, wildcard bool) {
		line := "import "
		if static {
			line += "static "
		}
		line += text
		if wildcard {
			line += ".*"
		}
		files[fi].imports = append(files[fi].imports, line+";")
		c.Imports = append(c.Imports, Import{Text: text, Group: group})
	}
	for gi, g := range groups {
		if !uses[gi].Used || strings.Contains(g, "-") { // no Java import can contain a hyphen
			continue
		}
		for _, is := range uses[gi].Imports {
			fi := is.File % len(files)
			switch is.Form {
			case 0:
				addImport(fi, g+".Client", g, false, false)
				feats["import_exact_package"] = true
			case 1:
				addImport(fi, g+".api.v1.Service", g, false, false)
				feats["import_sub_package"] = true
			case 2:
				addImport(fi, g+".util.Helper.run", g, true, false)
				feats["import_static"] = true
			case 3:
				addImport(fi, g+".core", g, false, true)
				feats["import_wildcard"] = true
			case 4:
				addImport(fi, g+".util.Helper", g, true, true)
				feats["import_static"] = true
			case 6:
				// on-demand import of the group's own package: import org.mockito.*;
				addImport(fi, g, g, false, true)
				feats["import_wildcard_of_group_package"] = true
			default:
				addImport(fi, "shaded."+g+".Client", g, false, false)
				feats["import_of_relocated_package"] = true
			}
		}
	}
	for gi, g := range groups {
		for _, ns := range uses[gi].Near {
			fi := ns.File % len(files)
			text, wildcard := nearMiss(g, ns.Form)
			form := ns.Form % nearFormCount
			if text == "" || (strings.Contains(text, g) != (form >= nearLineComment)) {
				continue
			}
			label := nearFormLabels[form]
			switch form {
			case nearLineComment:
				files[fi].remarks = append(files[fi].remarks, "// import "+text+";")
				c.NotImports = append(c.NotImports, text)
			case nearBlockComment:
				files[fi].remarks = append(files[fi].remarks, "/*\n * was: import "+text+";\n */")
				c.NotImports = append(c.NotImports, text)
			case nearStringLiteral:
				files[fi].consts = append(files[fi].consts, text)
				c.NotImports = append(c.NotImports, text)
			default:
				addImport(fi, text, "", false, wildcard)
			}
			feats["near_miss:"+label] = true
		}
	}
	for fi, fs := range fileSpecs {
		for _, u := range fs.Unrelated {
			addImport(fi, unrelatedImports[u%len(unrelatedImports)], "", false, false)
		}
		if fs.Decoy > 0 {
			addImport(fi, decoys[(fs.Decoy-1)%len(decoys)]+".Thing", "", false, false)
			feats["import_of_a_group_named_only_outside_the_dependencies_block"] = true
		}
	}
	for _, f := range files {
		c.Files[f.path] = renderJava(f.pkg, f.name, f.kind, f.imports, f.remarks, f.consts, f.shape, f.layout)
	}
	if rapid.IntRange(0, 5).Draw(t, "gitignore") == 5 {
		// an ignore file naming single files; the ignored file sorts before every manifest and source directory
		c.Files[".gitignore"] = "*.iml\n.idea/\n"
		c.Files["app.iml"] = "<module type=\"JAVA_MODULE\" version=\"4\"/>\n"
		feats["gitignore_matching_a_file"] = true
	}
	if rapid.IntRange(0, 3).Draw(t, "filesNamedLikeManifests") == 3 {
		// files whose names merely contain the manifest names: a backup copy of the pom, of the build script, the
		// pom.properties Maven writes below target/. None of them is a manifest of the project.
		which := rapid.IntRange(1, 7).Draw(t, "filesNamedLikeManifestsWhich")
		if which&1 != 0 {
			c.Files["pom.xml.bak"] = "<project>\n    <dependencies>\n        <dependency>\n            <groupId>" + decoyScript + "</groupId>\n            <artifactId>backup-copy</artifactId>\n        </dependency>\n    </dependencies>\n</project>\n"
			feats["file_named_like_a_manifest:pom.xml.bak"] = true
		}
		if which&2 != 0 {
			c.Files["build.gradle.orig"] = "dependencies {\n    implementation '" + decoyScript + ":before-merge:1.0'\n}\n"
			feats["file_named_like_a_manifest:build.gradle.orig"] = true
		}
		if which&4 != 0 {
			c.Files["target/classes/META-INF/maven/"+decoySelf+"/self-app/pom.properties"] = "groupId=" + decoySelf + "\nartifactId=self-app\nversion=0.0.1-SNAPSHOT\n"
			feats["file_named_like_a_manifest:pom.properties"] = true
		}
	}
	if rapid.IntRange(0, 1).Draw(t, "cliOptionDrawn") == 1 {
		c.CliForm = rapid.IntRange(0, 4).Draw(t, "cliForm")
	}
	if rapid.IntRange(0, 2).Draw(t, "cliOptionOfTheAuditRound") == 2 {
		c.CliForm = rapid.SampledFrom([]int{5, 6, 6, 7}).Draw(t, "cliFormOfTheAuditRound")
	}
	if rapid.IntRange(0, 3).Draw(t, "directorySpelling") == 3 {
		c.PathForm = rapid.IntRange(1, 2).Draw(t, "directorySpellingForm")
	}
	c.Past = rapid.IntRange(0, 3).Draw(t, "workingDirectoryWithAPast") == 3
	for f := range feats {
		c.Features = append(c.Features, f)
	}
	sort.Strings(c.Features)
	return c
}

// expectedUnused applies the statement: declared entries whose group id occurs in no import.
// It also re-checks the generator's promise that "occurs in" is unambiguous.
func expectedUnused(c ProjCase) (perManifest [][]Dep, used, unused int, pattern string) {
	var groups []string
	for _, m := range c.Manifests {
		// coordinates may be declared twice in one manifest (another scope, type or configuration), but never by an entry
		// whose extraction is left open: the walks below rely on open entries being unmistakable
		declared := map[string]int{}
		for _, d := range m.Entries {
			declared[d.Group+":"+d.Artifact]++
		}
		for _, d := range m.Entries {
			if d.Open && declared[d.Group+":"+d.Artifact] > 1 {
				panic("c19 generator bug: " + d.Group + ":" + d.Artifact + " declared twice in " + m.Path + ", once by an extract-or-skip entry")
			}
			groups = append(groups, d.Group)
		}
	}
	for _, g := range groups {
		for _, o := range groups {
			if g != o && strings.Contains(o, g) {
				panic("c19 generator bug: group " + g + " is a substring of group " + o)
			}
		}
		for _, imp := range c.Imports {
			if strings.Contains(imp.Text, g) != (imp.Group == g) {
				panic("c19 generator bug: group " + g + " vs import " + imp.Text + " written for group '" + imp.Group + "'")
			}
		}
	}
	for _, m := range c.Manifests {
		var list []Dep
		for _, d := range m.Entries {
			occurs := false
			for _, imp := range c.Imports {
				if strings.Contains(imp.Text, d.Group) {
					occurs = true
				}
			}
			if occurs {
				used++
				pattern += "u"
			} else {
				unused++
				pattern += "n"
				list = append(list, d)
			}
		}
		perManifest = append(perManifest, list)
	}
	return
}

// judgeUnused: the report must be the expected sub-list of each manifest, in the order of that manifest;
// how the lists of two manifests are put together is left open (any interleaving), and an entry declared
// identically in both manifests is expected once per declaration.
func judgeUnused(c ProjCase, got []Dep, what string) string {
	want, _, _, _ := expectedUnused(c)
	switch len(want) {
	case 0:
		want = [][]Dep{nil, nil}
	case 1:
		want = append(want, nil)
	case 2:
	default:
		panic("c19: more than two manifests")
	}
	a, b := want[0], want[1]
	// reach[i][j] = set of gi such that got[:gi] is an interleaving of a[:i] and b[:j] (open entries may be left out)
	type state struct{ gi, i, j int }
	seen := map[state]bool{}
	best := 0
	var walk func(s state) bool
	walk = func(s state) bool {
		if seen[s] {
			return false
		}
		seen[s] = true
		if s.gi > best {
			best = s.gi
		}
		if s.gi == len(got) {
			rest := true
			for _, d := range a[s.i:] {
				rest = rest && d.Open
			}
			for _, d := range b[s.j:] {
				rest = rest && d.Open
			}
			if rest {
				return true
			}
		}
		if s.i < len(a) {
			if s.gi < len(got) && same(a[s.i], got[s.gi]) && walk(state{s.gi + 1, s.i + 1, s.j}) {
				return true
			}
			if a[s.i].Open && walk(state{s.gi, s.i + 1, s.j}) {
				return true
			}
		}
		if s.j < len(b) {
			if s.gi < len(got) && same(b[s.j], got[s.gi]) && walk(state{s.gi + 1, s.i, s.j + 1}) {
				return true
			}
			if b[s.j].Open && walk(state{s.gi, s.i, s.j + 1}) {
				return true
			}
		}
		return false
	}
	if walk(state{}) {
		return ""
	}
	var msg string
	if best < len(got) {
		msg = fmt.Sprintf("entry #%d %s does not belong there", best, got[best])
	} else {
		msg = "entries are missing"
	}
	var exp []string
	for mi, m := range c.Manifests {
		exp = append(exp, fmt.Sprintf("%s: %s", m.Path, depList(want[mi])))
	}
	return fmt.Sprintf("%s: %s\n reported %s\n expected per manifest (declared, group in no import; each list in its order) %s", what, msg, depList(got), strings.Join(exp, "; "))
}

func renderProject(c ProjCase) string {
	var paths []string
	for p := range c.Files {
		paths = append(paths, p)
	}
	sort.Strings(paths)
	var b strings.Builder
	for _, p := range paths {
		b.WriteString("--- " + p + "\n" + c.Files[p])
		if !strings.HasSuffix(c.Files[p], "\n") {
			b.WriteString("\n")
		}
	}
	return b.String()
}

func projVerdict(c ProjCase) pbt.Verdict {
	_, used, unused, pattern := expectedUnused(c)
	v := pbt.Verdict{}
	for _, f := range c.Features {
		v.Classes = append(v.Classes, f)
	}
	if len(c.Manifests) == 2 {
		both := false
		for _, a := range c.Manifests[0].Entries {
			for _, b := range c.Manifests[1].Entries {
				both = both || (a.Group == b.Group && a.Artifact == b.Artifact)
			}
		}
		if both {
			v.Classes = append(v.Classes, "dependency_declared_in_both_manifests")
		}
	}
	for _, m := range c.Manifests {
		shared := false
		for i, a := range m.Entries {
			for _, b := range m.Entries[:i] {
				shared = shared || (a.Artifact == b.Artifact && a.Group != b.Group)
			}
		}
		if shared {
			v.Classes = append(v.Classes, "artifact_id_shared_by_two_groups")
			break
		}
	}
	mixed := strings.Contains(pattern, "un") && strings.Contains(pattern, "nu")
	if mixed {
		v.Classes = append(v.Classes, "used_and_unused_interleaved")
	}
	if used == 0 {
		v.Classes = append(v.Classes, "nothing_used")
	}
	if unused == 0 {
		v.Classes = append(v.Classes, "nothing_unused")
	}
	if c.PathForm%3 > 0 {
		v.Classes = append(v.Classes, fmt.Sprintf("directory_spelling=%d", c.PathForm%3))
	}
	for _, m := range c.Manifests {
		twice := false
		for i, a := range m.Entries {
			for _, b := range m.Entries[:i] {
				twice = twice || (a.Artifact == b.Artifact && a.Group == b.Group)
			}
		}
		if twice {
			v.Classes = append(v.Classes, "coordinates_declared_twice_in_one_manifest")
			break
		}
	}
	total := 0
	for _, m := range c.Manifests {
		total += len(m.Entries)
	}
	if total > 16 {
		v.Classes = append(v.Classes, "declared_total="+bucketMany(total))
	}
	gradleOK := true
	hasGradle := false
	for _, f := range c.Features {
		if f == "gradle" {
			hasGradle = true
		}
	}
	if hasGradle {
		gradleOK = false
		for _, f := range c.Features {
			if f == "gradle_notations>=2" {
				gradleOK = true
			}
		}
	}
	v.NonTrivial = used+unused >= 3 && mixed && gradleOK
	return v
}

func resetJava() {
	ast_java.VerifResetAstJava()
	java_identify.VerifResetJavaIdentify()
	ast_groovy.VerifResetAstGroovy()
}

// gradleFilesRejected: a generated build.gradle the shipped parser rejects puts the case outside the domain
func gradleFilesRejected(c ProjCase) bool {
	for p, text := range c.Files {
		if strings.HasSuffix(p, "build.gradle") && groovyRejects(text) != "" {
			return true
		}
	}
	return false
}

func checkUnused(c ProjCase) pbt.Verdict {
	resetJava()
	if gradleFilesRejected(c) {
		pbt.Count("gradle_rejected_by_shipped_parser", 1)
		return pbt.Verdict{Skip: true}
	}
	resetJava()
	dir := cli.Scratch("c19proj")
	defer os.RemoveAll(dir)
	cli.WriteTree(dir, c.Files)
	var got, again []core_domain.CodeDependency
	if p := call(func() {
		// the pipeline of analysis/dep/app/dep_analysis.go
		files := cocafile.GetFilesWithFilter(dir, cocafile.JavaFileFilter)
		identifierApp := javaapp.NewJavaIdentifierApp()
		iNodes := identifierApp.AnalysisFiles(files)
		callApp := javaapp.NewJavaFullApp()
		classNodes := callApp.AnalysisFiles(iNodes, files)
		app := deps.NewDepApp()
		got = app.AnalysisPath(dir+[]string{"", "/", "/."}[c.PathForm%3], classNodes)
		// the same report asked for again on the same model, this time through the instance exported for plug-ins
		again = deps.DepApp.AnalysisPath(dir, classNodes)
	}); p != "" {
		return pbt.Fail("unused-dependency analysis panicked: %s\n%s", p, renderProject(c))
	}
	if msg := judgeUnused(c, fromCoca(got), "DepAnalysisApp.AnalysisPath"); msg != "" {
		return pbt.Fail("%s\n%s", msg, renderProject(c))
	}
	if msg := judgeUnused(c, fromCoca(again), "deps.DepApp.AnalysisPath, second call on the same model"); msg != "" {
		return pbt.Fail("%s\n%s", msg, renderProject(c))
	}
	if msg := judgeUnused(c, fromCoca(got), "DepAnalysisApp.AnalysisPath, first result re-read after the second call"); msg != "" {
		return pbt.Fail("%s\n%s", msg, renderProject(c))
	}
	return projVerdict(c)
}

// parseTable reads the table the deps command prints after the line "unused".
func parseTable(stdout string) ([]Dep, string) {
	lines := strings.Split(strings.ReplaceAll(stdout, "\r\n", "\n"), "\n")
	start := -1
	for i, l := range lines {
		if strings.TrimSpace(l) == "unused" {
			start = i
		}
	}
	if start < 0 {
		return nil, "no line 'unused' in the output"
	}
	var rows [][]string
	for _, l := range lines[start+1:] {
		l = strings.TrimSpace(l)
		if l == "" {
			continue
		}
		if !strings.HasPrefix(l, "|") || !strings.HasSuffix(l, "|") {
			return nil, "unexpected line after 'unused': " + l
		}
		if strings.HasPrefix(l, "|--") {
			continue
		}
		cells := strings.Split(l[1:len(l)-1], "|")
		for i := range cells {
			cells[i] = strings.TrimSpace(cells[i])
		}
		rows = append(rows, cells)
	}
	if len(rows) == 0 {
		return nil, "no table header"
	}
	if len(rows[0]) != 3 || !strings.EqualFold(rows[0][0], "GroupId") || !strings.EqualFold(rows[0][1], "ArtifactId") || !strings.EqualFold(rows[0][2], "Scope") {
		return nil, fmt.Sprintf("unexpected table header %v", rows[0])
	}
	var out []Dep
	for _, r := range rows[1:] {
		if len(r) != 3 {
			return nil, fmt.Sprintf("row with %d cells: %v", len(r), r)
		}
		out = append(out, Dep{Group: r[0], Artifact: r[1], Scope: r[2]})
	}
	return out, ""
}

func checkCLI(c ProjCase) pbt.Verdict {
	resetJava()
	if gradleFilesRejected(c) {
		pbt.Count("gradle_rejected_by_shipped_parser", 1)
		return pbt.Verdict{Skip: true}
	}
	dir := cli.Scratch("c19cli")
	defer os.RemoveAll(dir)
	if c.Past {
		// parent/{proj, elsewhere}: analysis of both, then the deps command for proj from the parent
		parent := dir
		dir = filepath.Join(parent, "proj")
		cli.WriteTree(dir, c.Files)
		var sb strings.Builder
		sb.WriteString("package elsewhere;\n\n")
		k := 0
		for _, m := range c.Manifests {
			for _, d := range m.Entries {
				k++
				fmt.Fprintf(&sb, "import %s.Used%d;\n", d.Group, k)
			}
		}
		sb.WriteString("\npublic class Other {\n}\n")
		cli.WriteTree(parent, map[string]string{"elsewhere/src/main/java/elsewhere/Other.java": sb.String()})
		pre, err := cli.Run("coca", parent, nil, "analysis", "-p", ".")
		if err != nil {
			panic("c19: cannot run coca: " + err.Error())
		}
		if pre.ExitCode != 0 || pre.TimedOut {
			return pbt.Fail("`coca analysis -p .` in the directory above the project failed (exit %d)\n%s", pre.ExitCode, tail(pre.Stderr, 800))
		}
		res, err := cli.Run("coca_dep", parent, nil, "deps", "-p", "proj")
		if err != nil {
			panic("c19: cannot run coca_dep: " + err.Error())
		}
		if res.TimedOut || res.ExitCode != 0 || strings.Contains(res.Stderr, "panic:") {
			return pbt.Fail("the deps command failed after an analysis in the same working directory (exit %d)\nstderr: %s\n%s", res.ExitCode, tail(res.Stderr, 1500), renderProject(c))
		}
		got, why := parseTable(res.Stdout)
		if why != "" {
			return pbt.Fail("the deps command printed no unused table after an analysis in the same working directory: %s\nstdout: %s\n%s", why, tail(res.Stdout, 800), renderProject(c))
		}
		if msg := judgeUnused(c, got, "table of the deps command (working directory holds the model of an earlier `coca analysis -p .` over the project and a second code base)"); msg != "" {
			return pbt.Fail("%s\n%s", msg, renderProject(c))
		}
		v := projVerdict(c)
		v.Classes = append(v.Classes, "cli_working_directory_with_a_past")
		return v
	}
	cli.WriteTree(dir, c.Files)
	base := filepath.Base(dir)
	args := [][]string{{"deps", "-p", "."}, {"deps", "--path", "."}, {"deps"}, {"deps", "-p", dir}, {"deps", "--path=./"},
		{"deps", "-p", base}, {"deps", "--path", "../" + base + "/"}, {"deps", "-p=."}}[c.CliForm%8]
	cwd := dir
	switch c.CliForm % 8 {
	case 5:
		cwd = filepath.Dir(dir)
	case 6:
		cwd = dir + "-elsewhere"
		if err := os.MkdirAll(cwd, 0o755); err != nil {
			panic("c19: " + err.Error())
		}
		defer os.RemoveAll(cwd)
	}
	res, err := cli.Run("coca_dep", cwd, nil, args...)
	if err != nil {
		panic("c19: cannot run coca_dep: " + err.Error())
	}
	if res.TimedOut {
		return pbt.Fail("the deps command did not finish within 120 s\n%s", renderProject(c))
	}
	if res.ExitCode != 0 || strings.Contains(res.Stderr, "panic:") || strings.Contains(res.Stderr, "goroutine ") {
		return pbt.Fail("the deps command failed (exit %d)\nstderr: %s\nstdout: %s\n%s", res.ExitCode, tail(res.Stderr, 1500), tail(res.Stdout, 600), renderProject(c))
	}
	got, why := parseTable(res.Stdout)
	if why != "" {
		return pbt.Fail("the deps command printed no unused table: %s\nstdout: %s\nstderr: %s\n%s", why, tail(res.Stdout, 800), tail(res.Stderr, 800), renderProject(c))
	}
	if msg := judgeUnused(c, got, "table of the deps command"); msg != "" {
		return pbt.Fail("%s\n%s", msg, renderProject(c))
	}
	v := projVerdict(c)
	v.Classes = append(v.Classes, fmt.Sprintf("cli_form=%d", c.CliForm%8))
	return v
}

func tail(s string, n int) string {
	if len(s) > n {
		return "…" + s[len(s)-n:]
	}
	return s
}

func init() {
	pbt.SetProperty("C19")
	pbt.Describe("rapid-generated manifests with ground truth. pom.xml: prolog variants, namespaces, 0-10 <dependency> with children in usual or shuffled order (version incl. ${property}, scope incl. an empty <scope/> element, type, optional, classifier, exclusions with own groupId/artifactId, empty <exclusions/>), artifact ids shared by two group ids, artifact ids with dots and underscores, comments between dependencies and between the children of one, commented-out dependencies and children, a child text wrapped in a CDATA section or written with white space inside its tags, a processing instruction between two dependencies, an optional UTF-8 byte order mark, and parent / properties / dependencyManagement / build-plugins(-with-dependencies) / profiles / repositories / name+description+prerequisites / organization+licenses+developers / scm+issueManagement+distributionManagement(with relocation coordinates) / modules / reporting / pluginRepositories / processing instructions before or after. The content of those other sections is drawn as well: texts (predefined entities, character references, CDATA sections incl. one holding a <dependencies> element, non-ASCII UTF-8, several lines, unescaped > and quotes, a comment inside text), 0-4 additional properties and 0-3 additional plug-ins (build/plugins, build/pluginManagement, reporting, a profile's build; configuration under the plug-in and/or an execution, <?m2e?> instruction, own <dependencies>) whose <configuration> is a free element tree of depth <= 3 (text, element, self-closing, empty and mixed content; attributes in 9 forms; white space inside tags) with element names from six classes: plain plug-in parameters, HTML void elements (link, param, base, meta, input, col, br, img ... and their plural wrappers, as in the maven-javadoc-plugin's <links><link>), other HTML elements, the vocabulary of the extraction itself (dependencies, dependency, groupId, artifactId, scope, artifactItems ...), punctuated names, case variants (Link, BR); one case in four analyses the same file twice. Added by the audit round: the coordinates of an earlier dependency declared once more (other scope / type / classifier), <systemPath> next to scope system, group ids under two-segment first names (org.apache., com.github., io.github.) and with digits or an underscore at the end (acme4j, acme_2), one case in ten with 3-90 further plain dependencies (11-100 in all, past the 16/32/64 marks), one in twelve with a comment line of 5 000 or 70 000 bytes in front of or inside the dependencies block, the XML declaration in single quotes, nothing / blank lines + comment + processing instruction after </project>, <dependencies/>. build.gradle: 0-8 entries in single-quoted, double-quoted, parenthesised (both quotes, with exclude / property / because+version closures) and trailing-closure string notation, project()/fileTree()/files()/gradleApi()/libs.x/testFixtures() entries (must be skipped), statements that are no entries (def, if block, constraints block; an entry nested in them: extract-or-skip), map notation / ${} interpolation / platform() / enforcedPlatform() (extract-or-skip), 16 configuration names incl. plugin- and user-defined ones, comments, entries ending in ';' or sharing a line, `dependencies{`, a one-line block, no dependencies block at all, 20 kinds of surrounding blocks incl. dependencyManagement (imports / dependencies) / dependencyLocking / subprojects; one case in three analyses a second script (one other dependency / no dependencies block / the same script) in the same process without a reset and re-reads the first result. Added by the audit round: the coordinates of an earlier string-notation entry once more in another configuration (compileOnly + annotationProcessor), a run of blanks / a tab / a line continuation between configuration and string, blanks inside the parentheses, switched-off entries in // and /* */ and /** */ comments on lines of their own (one or several lines), a block comment behind an entry on its line (behind a parenthesised entry: feature gradle_block_comment_behind_parenthesised_entry), 21 configuration names (digits, underscore, one letter, 75 letters), no line end after the last line, blank lines at both ends, 3-66 further plain entries, a // line of 5 000 or 70 000 bytes in front of the block, and 17 more kinds of surrounding statements: import, apply from:, ext.x =, a description string and a // comment that spell out a dependencies block, repositories { maven { url 'https://...' } }, sourceSets, a method definition, a top-level if, tasks.register (printing 'dependencies { }') / tasks.named, dependenciesInfo { } and dependencyCheck { } (names that begin like 'dependencies'), java toolchain, version '1.0', println of a GString, publishing. Projects: one or two manifests (pom, gradle, pom+pom, pom+gradle, gradle+gradle, a script without dependencies block next to one with; the second manifest may re-declare a dependency of the first) plus 0-5 Java files (main and test, classes, interfaces, two top-level types in one file, a source directory outside src/main/java, optionally a .gitignore naming single files) importing a drawn subset of the declared groups by exact-package, sub-package, wildcard and static imports, plus unrelated imports. Added by the audit round: class files in 15 further shapes (inner / static nested / three-deep nested classes, nested enum, anonymous and local classes, initialiser blocks, lambdas, generic class with extends + implements, annotations, abstract, empty body, a top-level enum or annotation type before or after the class, three top-level types), 7 file layouts (CRLF, package and imports on one line, blanks / tabs / comments inside the import statements, a licence header and a Javadoc comment naming imports, no final line end, default package, stray semicolons), type names TestDataFactoryN (case variant of the directory name testData that the file walk skips), the same simple or qualified type name twice, source roots src/it/java and .../testdata/, near misses of a declared group id which are no import of it (import in another letter case, on-demand import of the parent package, sibling package, the same tail under another first name, dot for the hyphen; a switched-off import in a line or block comment, the package name in a string constant), the second manifest three directories deep, files named like manifests (pom.xml.bak, build.gradle.orig, target/.../pom.properties), the directory handed over with a trailing / or /., and the deps command run with -p=. or from another directory (-p <name> from the directory above, --path ../<name>/ from an empty directory next to the project). Oracles: extraction = exactly the declared (group, artifact, scope/configuration) list in order; unused report (in-process pipeline of the deps command asked twice on one model, and the binary of analysis/dep with -p/--path/default/absolute path) = exactly the sub-list whose group id occurs in no import. Non-trivial: extraction: >= 3 dependencies and (pom) a decoy dependency section / exclusions / shuffled children, (gradle) >= 2 notations; unused report: >= 3 declared dependencies, used and unused ones interleaved, for gradle >= 2 notations. Distinct = hash of the case.",
		"group ids are drawn so that none is a substring of another, of a decoy group or of an unrelated import (re-checked inside the oracle)",
		"map notation, \"g:a:${v}\", platform('g:a:v') and enforcedPlatform('g:a:v') may be extracted (correctly) or skipped; project()/fileTree()/files()/gradleApi()/libs.x/testFixtures(project()) must be skipped",
		"a build.gradle rejected by the shipped Groovy parser (syntax error listener) is skipped and counted",
		"with two manifests only the order inside each manifest is asserted (any interleaving of the two lists is accepted); a dependency declared in both manifests is expected once per declaration",
		"dependencies blocks nested in buildscript / dependencyManagement are not the project's dependencies block: their entries must not be extracted",
		"comments are placed between elements, never inside the text of groupId/artifactId/scope; XML encodings other than UTF-8 are not generated",
		"free sections of a pom.xml stay well-formed XML 1.0 without DTD: only the five predefined entities and numeric character references, no XHTML entities (&nbsp;), no duplicate top-level sections; mixed content only inside a plug-in's <configuration>",
		"not generated because the statement leaves the expected value open or the shipped front-end cannot read the text: Java files without a top-level class or interface (enum-only, annotation-only, package-info.java, records: no model node, so their imports never reach the analysis), Java files with a byte order mark, Java files below a directory named testData (the file walk skips them on purpose), several coordinates in one entry (conf 'a:b:1', 'c:d:2'), a second top-level dependencies block / project.dependencies { } / dependencies.add(...), an entry spread over several lines inside its parentheses and [..].each { } inside the block (rejected by the shipped Groovy parser), a byte order mark in build.gradle, triple-quoted coordinates (with two of them in one script the shipped Groovy lexer swallows the entries in between), files whose names end in pom.xml or build.gradle without being the manifest (dependency-reduced-pom.xml)",
		"block comments between the tokens of one gradle entry (conf /* c */ 'g:a:v', conf('g:a:v' /* c */)) are not generated: the shipped Groovy lexer has no regex-allowed predicate and reads /* c */ as a slashy string, which turns the entry into another expression; block comments on lines of their own and behind a complete entry are generated",
		"a fully qualified use of a dependency's package without import (private org.acme.Client c;) is not generated: the statement defines usage by imports only; comments and string literals naming the package are generated and do not count as imports")
	// quick counts are per shard; settings.json runs the quick tier in two shards
	pbt.Register("maven", 250, 3000, genPomCase, checkPom)
	pbt.Register("gradle", 80, 600, genGradleCase, checkGradle)
	pbt.Register("unused", 90, 900, genProject, checkUnused)
	pbt.Register("cli", 12, 60, genProject, checkCLI)
}

func TestProp(t *testing.T)   { pbt.Main(t) }
func TestReplay(t *testing.T) { pbt.Replay(t) }
