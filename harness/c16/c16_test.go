// C16 — per-directory line counts add up and agree with the whole-tree count; the top-file
// report lists the files of each language in non-increasing order of code lines, truncated.
//
// Every case is a generated directory tree whose files consist of lines with an unambiguous
// classification (code without comment markers or quotes / whole-line comment / blank), so
// the number of code lines of every file is known by construction. The built coca binary is
// run as a sub-process with a working directory next to (not inside) the tree.
package c16

import (
	"time"
	"encoding/csv"
	"encoding/json"
	"fmt"
	"os"
	"path/filepath"
	"regexp"
	"sort"
	"strconv"
	"strings"
	"sync"
	"testing"

	"pgregory.net/rapid"

	"verif/internal/cli"
	"verif/internal/pbt"
)

// ---- case --------------------------------------------------------------------------------

const (
	kindCode    = 0
	kindComment = 1
	kindBlank   = 2
)

type Line struct {
	Kind int    `json:"k"`
	Text string `json:"t"`
}

type File struct {
	Path           string `json:"path"` // relative to the tree root, slash separated
	Lang           string `json:"lang"` // scc language name, "" = not a source file of a counted language
	Lines          []Line `json:"lines"`
	NoFinalNewline bool   `json:"no_final_newline,omitempty"`
	CRLF           bool   `json:"crlf,omitempty"`
	// Ext: the file's extension as written in Path when it is not the language's first extension in
	// lower case ("" = langExt[Lang]): another extension of the language (cc, kts, mjs ...) or a
	// spelling with capital letters (JAVA, Py). The counter maps extensions to languages without
	// regard to letter case, and --include-ext compares with the lower-case extension.
	Ext string `json:"ext,omitempty"`
}

type Tree struct {
	Name       string   `json:"name"`  // name of the tree's root directory
	Dirs       []string `json:"dirs"`  // every directory below the root (relative), empty ones included
	Files      []File   `json:"files"` //
	IncludeExt []string `json:"include_ext,omitempty"`
	TopSize    int      `json:"top_size"`
	DirForm    int      `json:"dir_form"` // 0 NAME, 1 absolute path, 2 NAME/, 3 ./NAME, 4 "." (cwd = the tree), 5 up/NAME (tree one level down), 6 ../NAME (cwd = a sibling directory)
	// ArgStyle: spelling of the command line. bit 0: flags before DIR; bits 1-2: include-ext as
	// "--include-ext a,b" (0), "-i a,b" (1), "--include-ext=a,b" (2), one --include-ext per value (3);
	// bit 3: --top-size=N instead of --top-size N.
	// bits 4-5: --sort as "--sort X" (0), "-s X" (1), "--sort=X" (2, 3).
	ArgStyle int `json:"arg_style,omitempty"`
	// TopSizeOmitted: no --top-size on the command line (the tool's default, 30, applies; TopSize is 30).
	TopSizeOmitted bool `json:"top_size_omitted,omitempty"`
	// Sort: value of scc's --sort option ("" = not given, the default is files). It decides the order
	// in which the languages are reported, not what is counted.
	Sort string `json:"sort,omitempty"`
	// Extra: further options that concern scc's own presentation only (each element is one option,
	// "-f csv" = two words).
	Extra []string `json:"extra,omitempty"`
	// BoolEq: the mode flag is spelled --by-directory=true / --top-file=true.
	BoolEq bool `json:"bool_eq,omitempty"`
	// Neutral: further options that change nothing for a tree of this kind (no ignore files, no
	// symlinks, no binary files; limits that only apply together with --no-large); spelled as in Extra.
	Neutral []string `json:"neutral,omitempty"`
	// Second, when set, is reported after this tree by a second invocation in the same working
	// directory (so the coca_reporter directory of the first run is still there).
	Second *Tree `json:"second,omitempty"`
	// Backdated: every file and directory of the tree carries a modification time one hour back when the first
	// report is made (an existing code base, not one written a moment ago)
	Backdated bool `json:"backdated,omitempty"`
}

type Sweep struct {
	Trees []Tree `json:"trees"`
}

var langExt = map[string]string{"Java": "java", "Go": "go", "Python": "py", "JavaScript": "js", "Kotlin": "kt",
	"C": "c", "C Header": "h", "C++": "cpp", "C#": "cs", "TypeScript": "ts", "Ruby": "rb", "Rust": "rs", "Shell": "sh",
	"C Shell": "csh", "C++ Header": "hpp", "JSON": "json"}

// altExt: further extensions that the counter maps to the same language.
var altExt = map[string][]string{"C": {"ec"}, "C++": {"cc", "cxx", "c++"}, "C#": {"csx"}, "JavaScript": {"mjs"}, "Kotlin": {"kts"},
	"TypeScript": {"tsx"}, "C++ Header": {"hh", "hxx"}}

// the first five are the original pool (shrinking moves towards them); the others bring language
// names that are prefixes of one another (C, C Header, C++, C#; Java, JavaScript; TypeScript) and
// names with blanks and symbols into the header.
// The last three add a name that ends in another one (C Shell / Shell; C++ Header / C Header end
// alike), a name that extends another by a word (C++ / C++ Header), and a language without any
// comment syntax whose files are named like the tool's own result files (JSON).
var allLangs = []string{"Java", "Go", "Python", "JavaScript", "Kotlin", "C", "C Header", "C++", "C#", "TypeScript", "Ruby", "Rust", "Shell", "C Shell", "C++ Header", "JSON"}

// langFamilies: languages whose names are prefixes, suffixes or parts of one another.
var langFamilies = [][]string{
	{"C", "C++", "C Header", "C#"},
	{"Java", "JavaScript"},
	{"Shell", "C Shell", "C"},
	{"C++", "C++ Header", "C Header"},
	{"JavaScript", "TypeScript", "Java"},
}

// hashLangs: languages whose only comment form is the hash line comment.
var hashLangs = map[string]bool{"Python": true, "Ruby": true, "Shell": true, "C Shell": true}

// noCommentLangs: languages without comment syntax: every non-blank line is code.
var noCommentLangs = map[string]bool{"JSON": true}
var ignoredNames = []string{".git", ".svn", ".hg", ".idea", "coca_reporter"}

func isIgnoredName(n string) bool {
	for _, x := range ignoredNames {
		if x == n {
			return true
		}
	}
	return false
}

// ---- generator ---------------------------------------------------------------------------

var codeTemplates = map[string][]string{
	"Java":       {"int %s = 1;", "class %s {", "}", "return %s + 1;", "if (%s < 3) {", "%s++;", "@Override", "import java.util.%s;", "%s.run();"},
	"Go":         {"package %s", "func %s() {", "}", "%s := 1", "return %s", "if %s < 3 {", "var %s int", "%s.Run()"},
	"Python":     {"%s = 1", "def %s(a, b):", "    return %s + 1", "if %s < 3:", "pass", "import %s", "%s.run()"},
	"JavaScript": {"var %s = 1;", "function %s(a) {", "}", "return %s - 2;", "if (%s < 3) {", "%s.run();", "let %s = [1, 2];"},
	"Kotlin":     {"val %s = 1", "fun %s(a: Int): Int {", "}", "return %s + 1", "if (%s < 3) {", "%s.run()", "var %s: Int = 2"},
	"C":          {"int %s = 1;", "int %s(void) {", "}", "return %s + 1;", "if (%s < 3) {", "%s++;", "%s();"},
	"C Header":   {"int %s(void);", "extern int %s;", "struct %s;", "typedef int %s;", "void %s(int a, int b);"},
	"C++":        {"int %s = 1;", "class %s {", "};", "return %s + 1;", "if (%s < 3) {", "%s++;", "namespace %s {", "%s.run();"},
	"C#":         {"int %s = 1;", "class %s {", "}", "return %s + 1;", "if (%s < 3) {", "%s++;", "using %s;", "%s.Run();"},
	"TypeScript": {"let %s = 1;", "function %s(a: number) {", "}", "return %s - 2;", "if (%s < 3) {", "%s.run();", "const %s = [1, 2];"},
	"Ruby":       {"%s = 1", "def %s(a, b)", "end", "return %s + 1", "if %s < 3", "%s.run", "puts %s"},
	"Rust":       {"let %s = 1;", "fn %s(a: i32) -> i32 {", "}", "return %s + 1;", "if %s < 3 {", "%s.run();", "let mut %s = 2;"},
	"Shell":      {"%s=1", "echo $%s", "fi", "done", "if [ $%s -lt 3 ]; then", "cd %s", "export %s"},
	"C Shell":    {"set %s = 1", "echo $%s", "endif", "end", "if ($%s < 3) then", "cd %s", "setenv %s 1"},
	"C++ Header": {"int %s(void);", "class %s;", "namespace %s {", "}", "extern int %s;", "struct %s {", "};"},
	"JSON":       {"{", "}", "[", "]", "1,", "true,", "null", "[1, 2],", "{},"},
}

func genWords(t *rapid.T, label string) string {
	return rapid.StringMatching(`[a-z]{1,6}( [a-z0-9]{1,5}){0,3}`).Draw(t, label)
}

func genLines(t *rapid.T, lang string) []Line {
	n := rapid.IntRange(0, 9).Draw(t, "nLines")
	// now and then a longer file, so that per-file figures have two or three digits
	switch rapid.IntRange(0, 15).Draw(t, "longFile") {
	case 13, 14:
		n = rapid.IntRange(10, 40).Draw(t, "nLinesLong")
	case 15:
		n = rapid.IntRange(190, 260).Draw(t, "nLinesVeryLong")
	}
	return genLinesN(t, lang, n)
}

func genLinesN(t *rapid.T, lang string, n int) []Line {
	var out []Line
	for len(out) < n {
		k := rapid.IntRange(0, 9).Draw(t, "lineKind")
		if noCommentLangs[lang] && k > 4 && k <= 6 {
			k = 0
		}
		switch {
		case k <= 4: // code
			tpl := rapid.SampledFrom(codeTemplates[lang]).Draw(t, "tpl")
			text := tpl
			if strings.Contains(tpl, "%s") {
				text = fmt.Sprintf(tpl, rapid.StringMatching(`[a-z][a-zA-Z0-9]{0,4}`).Draw(t, "ident"))
			}
			indent := rapid.SampledFrom([]string{"", "", "  ", "    ", "\t"}).Draw(t, "indent")
			if lang == "Python" && strings.HasPrefix(tpl, " ") {
				indent = ""
			}
			out = append(out, Line{kindCode, indent + text})
		case k <= 6: // whole-line comment
			indent := rapid.SampledFrom([]string{"", "", "  ", "\t"}).Draw(t, "cindent")
			if hashLangs[lang] {
				out = append(out, Line{kindComment, indent + "#" + rapid.SampledFrom([]string{" ", "", "  "}).Draw(t, "csp") + genWords(t, "ctext")})
				break
			}
			switch rapid.IntRange(0, 5).Draw(t, "commentShape") {
			case 0, 1, 2:
				out = append(out, Line{kindComment, indent + "//" + rapid.SampledFrom([]string{" ", "", "  "}).Draw(t, "csp") + genWords(t, "ctext")})
			case 3:
				out = append(out, Line{kindComment, indent + "/* " + genWords(t, "ctext") + " */"})
			default: // block comment over several lines, no blank line inside
				out = append(out, Line{kindComment, indent + "/*"})
				m := rapid.IntRange(1, 2).Draw(t, "blockLines")
				for i := 0; i < m; i++ {
					lead := rapid.SampledFrom([]string{" * ", "   ", ""}).Draw(t, "blockLead")
					out = append(out, Line{kindComment, indent + lead + genWords(t, "ctext")})
				}
				out = append(out, Line{kindComment, indent + " */"})
			}
		default:
			out = append(out, Line{kindBlank, rapid.SampledFrom([]string{"", "", "", "  ", "\t"}).Draw(t, "blank")})
		}
	}
	return out
}

var stems = []string{"a", "b", "Main", "util", "x1", "Foo", "bar_baz", "T", "mod", "App", "v1.x", "my file"}

// unusualStems: "" stands for a very long name (drawn).
var unusualStems = []string{"Gr\u00f6\u00dfe", "$x", "7", ".hidden", "", "\u6e90", "a  b", "_"}

// toolFileStems: names of the tool's own result files (they are JSON files).
var toolFileStems = []string{"base_cloc", "top_cloc", "sort_cloc", "debug_cloc", "package"}

// longName draws a name of 90-180 letters and digits (no blank: see addLines).
func longName(t *rapid.T, label string) string {
	min, max := 90, 180
	if label == "Dir" {
		// a directory name may be as long as the file system lets the result file `<name>.json` be (255 bytes)
		switch rapid.IntRange(0, 2).Draw(t, "lenClass"+label) {
		case 1:
			min, max = 181, 250
		case 2:
			min, max = 246, 250
		}
	}
	n := rapid.IntRange(min, max).Draw(t, "len"+label)
	unit := rapid.SampledFrom([]string{"Long", "abcdefghij", "x9_"}).Draw(t, "unit"+label)
	return strings.Repeat(unit, n/len(unit)+1)[:n]
}

type dirFiller struct {
	t     *rapid.T
	used  map[string]bool
	files *[]File
	// altBoost: languages that --include-ext names by one of their extensions: their files get
	// another extension more often (so that the filter separates files of one language)
	altBoost map[string]bool
}

func (f dirFiller) add(dir, lang string) {
	f.addLines(dir, lang, -1)
}

// addLines adds one file of the language to dir; n < 0 = a length drawn by genLines.
func (f dirFiller) addLines(dir, lang string, n int) {
	stem := rapid.SampledFrom(stems).Draw(f.t, "stem")
	// now and then an unusual stem: non-ASCII letters, `$`, digits only, a hidden file, a very long
	// name, (for JSON) the names of the tool's own result files
	if rapid.IntRange(0, 11).Draw(f.t, "unusualStem") == 11 {
		if lang == "JSON" {
			stem = rapid.SampledFrom(toolFileStems).Draw(f.t, "toolFileStem")
		} else {
			stem = rapid.SampledFrom(unusualStems).Draw(f.t, "stemUnusual")
			if stem == "" {
				stem = longName(f.t, "Stem")
			}
		}
	}
	// a location of more than 80 characters that contains a blank would be wrapped over several
	// table lines by the tool's table writer: long paths get blank-free file names
	if len(dir)+len(stem) > 60 {
		stem = strings.ReplaceAll(stem, " ", "_")
		if strings.Contains(dir, " ") && len(stem) > 8 {
			stem = stem[:8]
		}
	}
	ext := langExt[lang]
	fileExt := ""
	switch rapid.IntRange(0, 11).Draw(f.t, "extVariant") {
	case 10: // capital letters
		fileExt = strings.ToUpper(ext)
		if rapid.Bool().Draw(f.t, "extMixedCase") {
			fileExt = strings.ToUpper(ext[:1]) + ext[1:]
		}
	case 11: // another extension of the language
		if alts := altExt[lang]; len(alts) > 0 {
			fileExt = rapid.SampledFrom(alts).Draw(f.t, "altExt")
		}
	}
	if f.altBoost[lang] && fileExt == "" && rapid.IntRange(0, 2).Draw(f.t, "extVariantOfFilteredLang") == 2 {
		fileExt = rapid.SampledFrom(append([]string{langExt[lang]}, altExt[lang]...)).Draw(f.t, "altExtOfFilteredLang")
	}
	if fileExt == ext {
		fileExt = ""
	}
	if fileExt != "" {
		ext = fileExt
	}
	name := ""
	for i := 0; ; i++ {
		name = stem
		if i > 0 {
			name = stem + strconv.Itoa(i)
		}
		name += "." + ext
		if !f.used[dir+"/"+name] {
			break
		}
	}
	f.used[dir+"/"+name] = true
	path := name
	if dir != "" {
		path = dir + "/" + name
	}
	file := File{Path: path, Lang: lang, Ext: fileExt}
	// now and then a byte-for-byte copy of an earlier file of the language (same content in two
	// places: both count in full)
	if rapid.IntRange(0, 9).Draw(f.t, "copyOfEarlier") == 9 {
		var earlier []File
		for _, x := range *f.files {
			if x.Lang == lang && len(x.Lines) > 0 {
				earlier = append(earlier, x)
			}
		}
		if len(earlier) > 0 {
			src := earlier[rapid.IntRange(0, len(earlier)-1).Draw(f.t, "copiedFile")]
			file.Lines = append([]Line{}, src.Lines...)
			file.NoFinalNewline, file.CRLF = src.NoFinalNewline, src.CRLF
			*f.files = append(*f.files, file)
			return
		}
	}
	if n < 0 {
		file.Lines = genLines(f.t, lang)
	} else {
		file.Lines = genLinesN(f.t, lang, n)
	}
	if n := len(file.Lines); n > 0 && file.Lines[n-1].Kind != kindBlank {
		file.NoFinalNewline = rapid.IntRange(0, 5).Draw(f.t, "noFinalNewline") == 0
	}
	if len(file.Lines) > 0 {
		file.CRLF = rapid.IntRange(0, 11).Draw(f.t, "crlf") == 0
	}
	*f.files = append(*f.files, file)
}

// plainDirNames: ordinary directory names. Among them: dotted and hidden names, names that extend
// or end in an ignored name without being one (coca_reporter_old, my_coca_reporter, old.idea, idea,
// .hgx, .svn2), names that differ only in letter case, a name with a blank, a non-ASCII name, names
// of the tool's own report files. (Names ending in .git/.hg/.svn are left out: scc's deny list
// matches by suffix.)
var plainDirNames = []string{"a", "b", "src", "lib", "pkg", "core", "v1.2", "x.json", "Docs", "test_data", "m-1", ".cfg", "cloc", "tree", "x", ".github", "coca_reporter_old", "idea", ".hgx", ".svn2",
	"docs", "A", "my dir", "d\u00f6nner", "old.idea", "my_coca_reporter", "base_cloc", "cloc.csv", "x.json.json", "java"}

// unusualDirNames: further ordinary names, used in one tree in four (so that the names above keep
// their frequency): the words of the report's header (package, summary) and names of languages;
// parts and beginnings of the ignored names (git, hg, svn, coca, reporter, .g, .ide: none of them is
// an ignored name); names with `$`, digits only, one underscore; two blanks in a row, a blank at the
// end; CJK letters; a name that looks like a line of the top-file report; a name that extends another
// one by a character (src2, ab); "" stands for a very long name (drawn, 90-180 characters); names of
// the tool's result files and of their extension; directories that build tools and package managers
// make (node_modules, vendor, target, build, bin, dist, out: neither VCS nor IDE nor report
// directories, so each has its row).
var unusualDirNames = []string{"package", "summary", "Java", "Go", "C++", "git", "hg", "svn", "coca", "reporter", ".g", ".ide", "$x", "7", "_",
	"a  b", "lib ", "\u6e90\u7801", "Language: Go", "src2", "ab", "", "json", ".json", "cloc.json", "top_cloc",
	"node_modules", "vendor", "target", "build", "bin", "dist", "out"}

// nestedNames: names of directories below an immediate subdirectory. .idea and coca_reporter are
// ignored only as immediate subdirectories: deeper down they are ordinary directories whose files
// count for the row of the subdirectory they are in. a, b, src, lib also occur as immediate ones.
var nestedNames = []string{"n1", "inner", "x", "sub.d", "a", "b", "src", "lib", ".idea", "coca_reporter"}

// fillSubdir puts 1..4 files into subdirectory name, some of them nested one to three levels deep.
func fillSubdir(t *rapid.T, tr *Tree, f dirFiller, name string, langs []string) {
	n := rapid.IntRange(1, 4).Draw(t, "nFilesInDir")
	// a subdirectory tends to use a subset of the languages so that language sets differ
	k := rapid.IntRange(1, len(langs)).Draw(t, "nLangsInDir")
	off := rapid.IntRange(0, len(langs)-1).Draw(t, "langOffset")
	for i := 0; i < n; i++ {
		dir := name
		depth := rapid.IntRange(0, 5).Draw(t, "depth")
		if depth > 3 {
			depth = 0
		}
		for d := 0; d < depth; d++ {
			dir += "/" + rapid.SampledFrom(nestedNames).Draw(t, "nested")
			addDir(tr, dir)
		}
		lang := langs[(off+rapid.IntRange(0, k-1).Draw(t, "langInDir"))%len(langs)]
		f.add(dir, lang)
	}
	// now and then many small files of one language in one place: more files than any --top-size
	// (when --top-size is left out the default of 30 applies: then more often, and around 30)
	odds, lo, hi := 19, 9, 33
	if tr.TopSizeOmitted {
		odds, lo, hi = 3, 26, 36
	}
	if rapid.IntRange(0, odds).Draw(t, "manyFiles") == odds {
		m := rapid.IntRange(lo, hi).Draw(t, "nMany")
		lang := rapid.SampledFrom(langs).Draw(t, "manyLang")
		for i := 0; i < m; i++ {
			f.addLines(name, lang, rapid.IntRange(0, 6).Draw(t, "nLinesMany"))
		}
	}
	// rarely a huge directory: more than 200 tiny files of one language, so that the counter's
	// result with one entry per file (a single line of JSON, which the tool reads back) passes 64 KiB
	if rapid.IntRange(0, 7).Draw(t, "hugeDir") == 7 && rapid.IntRange(0, 5).Draw(t, "hugeDirReally") == 5 {
		m := rapid.IntRange(215, 250).Draw(t, "nHuge")
		lang := rapid.SampledFrom(langs).Draw(t, "hugeLang")
		for i := 0; i < m; i++ {
			f.addLines(name, lang, rapid.IntRange(0, 2).Draw(t, "nLinesHuge"))
		}
	}
}

func addDir(tr *Tree, d string) {
	for _, x := range tr.Dirs {
		if x == d {
			return
		}
	}
	tr.Dirs = append(tr.Dirs, d)
}

// genLangs: 2..5 languages; a permutation of the pool, so that shrinking moves towards the first ones.
func genLangs(t *rapid.T) []string {
	k := rapid.IntRange(2, 5).Draw(t, "nLangs")
	// now and then more than five: the by-directory report has no limit (the top-file table on
	// stdout is printed for up to five languages only and is not judged above that)
	if rapid.IntRange(0, 11).Draw(t, "manyLangs") == 11 {
		k = rapid.SampledFrom([]int{6, 6, 7, 9, 12, 16}).Draw(t, "nLangsMany")
	}
	perm := rapid.Permutation(allLangs).Draw(t, "langPerm")
	// now and then a single language
	if rapid.IntRange(0, 15).Draw(t, "oneLang") == 15 {
		k = 1
	}
	// now and then two or three languages whose names are prefixes / suffixes / parts of one another
	if rapid.IntRange(0, 5).Draw(t, "langFamily") == 5 {
		fam := rapid.Permutation(rapid.SampledFrom(langFamilies).Draw(t, "family")).Draw(t, "familyPerm")
		fam = fam[:rapid.IntRange(2, len(fam)).Draw(t, "nFamily")]
		if len(fam) > 3 {
			fam = fam[:3]
		}
		merged := append([]string{}, fam...)
		for _, l := range perm {
			if !containsStr(merged, l) {
				merged = append(merged, l)
			}
		}
		perm = merged
		if k < len(fam) {
			k = len(fam)
		}
	}
	return perm[:k]
}

func genOptions(t *rapid.T, tr *Tree, langs []string) {
	tr.Name = rapid.SampledFrom([]string{"tree", "t", "src", "proj-1", "java", "my proj", "cloc"}).Draw(t, "treeName")
	tr.TopSize = rapid.SampledFrom([]int{1, 2, 3, 30, 0, 4, 5, 7, 10}).Draw(t, "topSize")
	tr.DirForm = rapid.SampledFrom([]int{0, 0, 1, 2, 3, 4, 5, 6}).Draw(t, "dirForm")
	if rapid.IntRange(0, 3).Draw(t, "useIncludeExt") == 0 {
		n := rapid.IntRange(1, 3).Draw(t, "nExt")
		// mostly extensions of the tree's languages, now and then one that no file has
		pool := append([]string{}, langs...)
		if rapid.IntRange(0, 3).Draw(t, "foreignExt") == 0 {
			pool = append(pool, rapid.SampledFrom(allLangs).Draw(t, "foreignLang"))
		}
		perm := rapid.Permutation(pool).Draw(t, "extPerm")
		seen := map[string]bool{}
		for _, l := range perm {
			if len(tr.IncludeExt) < n && !seen[l] {
				seen[l] = true
				e := langExt[l]
				// now and then another extension of the language instead of (or next to) the first:
				// files of that language with the other extension are then filtered out / kept
				if alts := altExt[l]; len(alts) > 0 {
					switch rapid.IntRange(0, 5).Draw(t, "includeAltExt") {
					case 4:
						e = rapid.SampledFrom(alts).Draw(t, "includedAltExt")
					case 5:
						tr.IncludeExt = append(tr.IncludeExt, rapid.SampledFrom(alts).Draw(t, "includedAltExt"))
					}
				}
				tr.IncludeExt = append(tr.IncludeExt, e)
			}
		}
	}
	if rapid.IntRange(0, 2).Draw(t, "respell") == 0 {
		tr.ArgStyle = rapid.IntRange(0, 63).Draw(t, "argStyle")
	}
	// --top-size: now and then any value up to 40, now and then left out (default 30)
	switch rapid.IntRange(0, 9).Draw(t, "topSizeForm") {
	case 8:
		tr.TopSize = rapid.IntRange(0, 40).Draw(t, "topSizeFree")
	case 9:
		tr.TopSize, tr.TopSizeOmitted = defaultTopSize, true
	}
	genPresentation(t, tr)
	tr.BoolEq = rapid.IntRange(0, 7).Draw(t, "boolFlagWithValue") == 7
	if rapid.IntRange(0, 5).Draw(t, "neutralOptions") == 5 {
		n := rapid.IntRange(1, 3).Draw(t, "nNeutral")
		tr.Neutral = append([]string{}, rapid.Permutation(neutralOptions).Draw(t, "neutralPerm")[:n]...)
	}
}

const defaultTopSize = 30

// sortValues: the documented values of --sort. The option changes the order in which scc reports the
// languages (default: files = number of files, descending), so with it a language with few files
// can be reported before one with many.
var sortValues = []string{"", "", "", "", "", "", "", "code", "name", "lines", "complexity", "comments", "blanks", "files"}

// presentationOptions: options of the cloc command that concern scc's own output only (the two
// reports are built from scc's JSON result, which coca requests itself); none of them selects what
// is counted.
var presentationOptions = []string{"--no-complexity", "-c", "--no-cocomo", "--no-size", "--ci", "--by-file", "--format=csv", "-f tabular", "--format json", "--size-unit=binary", "--avg-wage=1000"}

// neutralOptions: options that select or limit what is counted in other trees but change nothing for
// the generated ones: there are no .gitignore/.ignore files, no symlinks, no files with NUL bytes, no
// generated/minified marks are asked for; the limits apply only together with --no-large (not given);
// --exclude-dir is given with its default value; --count-as maps an extension that no file has.
var neutralOptions = []string{"--binary", "--no-ignore", "--no-gitignore", "--include-symlinks", "--file-gc-count=1", "--file-gc-count 100000",
	"--large-line-count=3", "--large-byte-count 10", "--min-gen-line-length=1", "--exclude-dir=.git,.hg,.svn", "--exclude-dir .git,.hg,.svn",
	"--count-as zzq:java", "--generated-markers=zzq"}

func genPresentation(t *rapid.T, tr *Tree) {
	tr.Sort = rapid.SampledFrom(sortValues).Draw(t, "sort")
	tr.Extra = nil
	if rapid.IntRange(0, 3).Draw(t, "presentationOptions") == 3 {
		n := rapid.IntRange(1, 2).Draw(t, "nExtra")
		tr.Extra = append([]string{}, rapid.Permutation(presentationOptions).Draw(t, "extraPerm")[:n]...)
	}
}

// genShape builds a tree with nCounted non-empty ordinary subdirectories, the given ignored
// directory names, nEmpty empty subdirectories and nRoot files in the root. prefer lists directory
// names to use first (those of an earlier tree reported in the same working directory).
func genShape(t *rapid.T, nCounted int, ignored []string, nEmpty, nRoot int, prefer []string) Tree {
	tr := Tree{Dirs: []string{}, Files: []File{}}
	langs := genLangs(t)
	genOptions(t, &tr, langs)
	f := dirFiller{t: t, used: map[string]bool{}, files: &tr.Files, altBoost: map[string]bool{}}
	for _, e := range tr.IncludeExt {
		for l, alts := range altExt {
			if e == langExt[l] || containsStr(alts, e) {
				f.altBoost[l] = true
			}
		}
	}
	names := rapid.Permutation(plainDirNames).Draw(t, "dirNames")
	if rapid.IntRange(0, 3).Draw(t, "unusualDirNames") == 3 {
		n := rapid.IntRange(1, 4).Draw(t, "nUnusualDirNames")
		var front []string
		for _, x := range rapid.Permutation(unusualDirNames).Draw(t, "unusualDirPerm")[:n] {
			if x == "" {
				x = longName(t, "Dir")
			}
			front = append(front, x)
		}
		names = append(front, names...)
	}
	if rapid.IntRange(0, 7).Draw(t, "longDirName") == 7 {
		names = append([]string{longName(t, "Dir")}, names...)
	}
	// a very wide tree needs more names than the pools have
	for i := 0; len(names) < nCounted+nEmpty; i++ {
		names = append(names, "w"+strconv.Itoa(i))
	}
	if len(prefer) > 0 {
		seen := map[string]bool{}
		var merged []string
		for _, n := range append(append([]string{}, prefer...), names...) {
			if !seen[n] && !isIgnoredName(n) {
				seen[n] = true
				merged = append(merged, n)
			}
		}
		names = merged
	}
	for i := 0; i < nCounted; i++ {
		addDir(&tr, names[i])
		if rapid.IntRange(0, 11).Draw(t, "onlyUnknownFiles") == 11 {
			// a subdirectory that holds nothing the counter knows
			tr.Files = append(tr.Files, File{Path: names[i] + "/data.xyz", Lines: []Line{{kindCode, "not a source file"}}})
			continue
		}
		fillSubdir(t, &tr, f, names[i], langs)
	}
	for i := 0; i < nEmpty; i++ {
		addDir(&tr, names[nCounted+i])
	}
	for _, ig := range ignored {
		addDir(&tr, ig)
		n := rapid.IntRange(0, 2).Draw(t, "nFilesInIgnored")
		for i := 0; i < n; i++ {
			// one of the tree's languages, or (while the tree stays within five languages, above
			// which the tool prints no top-file table) another one: a language that occurs only
			// here is "optional" in the header
			pool := langs
			if len(langs) < 5 {
				pool = allLangs[:5]
			}
			l := rapid.SampledFrom(pool).Draw(t, "ignoredLang")
			if !containsStr(langs, l) {
				if len(langs) >= 5 {
					l = langs[0]
				} else {
					langs = append(append([]string{}, langs...), l)
				}
			}
			f.add(ig, l)
		}
		if rapid.IntRange(0, 3).Draw(t, "noiseInIgnored") == 0 {
			tr.Files = append(tr.Files, File{Path: ig + "/HEAD", Lines: []Line{{kindCode, "ref"}}})
		}
	}
	for i := 0; i < nRoot; i++ {
		f.add("", rapid.SampledFrom(langs).Draw(t, "rootLang"))
	}
	if rapid.IntRange(0, 4).Draw(t, "noise") == 0 && nCounted > 0 {
		tr.Files = append(tr.Files, File{Path: names[0] + "/notes.xyz", Lines: []Line{{kindCode, "not a source file"}}})
	}
	if len(langs) > 5 {
		// a tree drawn with more than five languages really has them all
		have := map[string]bool{}
		for _, x := range tr.Files {
			have[x.Lang] = true
		}
		for i, l := range langs {
			if !have[l] {
				dir := ""
				if nCounted > 0 {
					dir = names[i%nCounted]
				}
				f.add(dir, l)
			}
		}
	}
	return tr
}

func containsStr(list []string, s string) bool {
	for _, x := range list {
		if x == s {
			return true
		}
	}
	return false
}

func genCounts(t *rapid.T) (nCounted int, ignored []string, nEmpty, nRoot int) {
	nCounted = rapid.IntRange(0, 5).Draw(t, "nCounted")
	nIgn := rapid.SampledFrom([]int{0, 0, 1, 1, 1, 2, 3}).Draw(t, "nIgnored")
	perm := rapid.Permutation(ignoredNames).Draw(t, "ignoredPerm")
	ignored = perm[:nIgn]
	nEmpty = rapid.SampledFrom([]int{0, 0, 0, 1, 1, 2}).Draw(t, "nEmpty")
	for nCounted+nIgn+nEmpty > 6 {
		nCounted--
	}
	// now and then a wide tree
	if rapid.IntRange(0, 14).Draw(t, "wide") == 14 {
		nCounted = rapid.IntRange(7, 12).Draw(t, "nCountedWide")
	}
	nRoot = rapid.SampledFrom([]int{0, 0, 1, 2}).Draw(t, "nRoot")
	// now and then a very wide tree (past 16 and 32 subdirectories)
	if rapid.IntRange(0, 29).Draw(t, "veryWide") == 29 {
		nCounted = rapid.IntRange(17, 40).Draw(t, "nCountedVeryWide")
	}
	return
}

func genTree(t *rapid.T) Tree {
	nCounted, ignored, nEmpty, nRoot := genCounts(t)
	tr := genShape(t, nCounted, ignored, nEmpty, nRoot, nil)
	// a quarter of the cases: a second report in the same working directory, either of the same
	// tree under other options or of another tree that shares directory names with the first
	if tr.DirForm != 4 {
		switch rapid.IntRange(0, 7).Draw(t, "second") {
		case 4:
			// eighth seed batch: the same report once more, same options, after one to three files of the tree have
			// grown in place (no directory gets or loses an entry); the tree is an hour old when the first report is made
			sec := tr
			sec.Second = nil
			sec.Files = append([]File(nil), tr.Files...)
			if len(sec.Files) > 0 {
				for k := rapid.IntRange(1, 3).Draw(t, "grownFiles"); k > 0; k-- {
					i := rapid.IntRange(0, len(sec.Files)-1).Draw(t, "grownFile")
					f := sec.Files[i]
					f.Lines = append(append([]Line(nil), f.Lines...), f.Lines...)
					sec.Files[i] = f
				}
				tr.Backdated = true
				tr.Second = &sec
			}
		case 5:
			sec := tr
			sec.Second = nil
			sec.IncludeExt = nil
			langs := tr.languages()
			if len(langs) > 0 && rapid.IntRange(0, 2).Draw(t, "secondExt") > 0 {
				sec.IncludeExt = []string{langExt[rapid.SampledFrom(langs).Draw(t, "secondExtLang")]}
			}
			sec.TopSize = rapid.SampledFrom([]int{1, 2, 3, 30, 0, 5}).Draw(t, "secondTopSize")
			sec.TopSizeOmitted = false
			genPresentation(t, &sec)
			tr.Second = &sec
		case 6, 7:
			nCounted, ignored, nEmpty, nRoot := genCounts(t)
			sec := genShape(t, nCounted, ignored, nEmpty, nRoot, tr.immediateSubdirs())
			if sec.DirForm == 4 {
				sec.DirForm = 0
			}
			if sec.Name == tr.Name {
				sec.Name += "2"
			}
			tr.Second = &sec
		}
	}
	return tr
}

// genSweep: one tree for every combination of (0..3 counted subdirectories) x (ignored name
// present) x (empty directory present); the ignored name cycles through all five names.
func genSweep(t *rapid.T) Sweep {
	var s Sweep
	rot := rapid.IntRange(0, len(ignoredNames)-1).Draw(t, "ignoredRotation")
	i := 0
	for n := 0; n <= 3; n++ {
		for ign := 0; ign <= 1; ign++ {
			for emp := 0; emp <= 1; emp++ {
				var ignored []string
				if ign == 1 {
					ignored = []string{ignoredNames[(rot+i)%len(ignoredNames)]}
					i++
				}
				s.Trees = append(s.Trees, genShape(t, n, ignored, emp, rapid.IntRange(0, 1).Draw(t, "nRoot"), nil))
			}
		}
	}
	return s
}

// ---- ground truth ------------------------------------------------------------------------

func (f File) content() string {
	nl := "\n"
	if f.CRLF {
		nl = "\r\n"
	}
	var sb strings.Builder
	for i, l := range f.Lines {
		sb.WriteString(l.Text)
		// a final blank line always keeps its terminator (without one it would not exist)
		if i < len(f.Lines)-1 || !f.NoFinalNewline || l.Kind == kindBlank {
			sb.WriteString(nl)
		}
	}
	return sb.String()
}

func (f File) count(kind int) int {
	n := 0
	for _, l := range f.Lines {
		if l.Kind == kind {
			n++
		}
	}
	return n
}

func (f File) top() string { // first path element, "" for a file in the root
	if i := strings.Index(f.Path, "/"); i >= 0 {
		return f.Path[:i]
	}
	return ""
}

// counted: a source file of one of the languages that passes the include-ext filter.
func (tr Tree) counted(f File) bool {
	if f.Lang == "" {
		return false
	}
	if len(tr.IncludeExt) == 0 {
		return true
	}
	for _, e := range tr.IncludeExt {
		if e == f.ext() {
			return true
		}
	}
	return false
}

// ext: the file's extension in lower case (what --include-ext is compared with).
func (f File) ext() string {
	if f.Ext != "" {
		return strings.ToLower(f.Ext)
	}
	return langExt[f.Lang]
}

func (tr Tree) immediateSubdirs() []string {
	var out []string
	for _, d := range tr.Dirs {
		if !strings.Contains(d, "/") {
			out = append(out, d)
		}
	}
	sort.Strings(out)
	return out
}

// ---- running the tool ----------------------------------------------------------------------

// layout: where the tree is written and how the tool is started. base is a directory of this
// run alone; the working directory of the tool is base/w except for form 4, where it is the
// tree's root. (A second tree of the same case is placed relative to the same working directory.)
func (tr Tree) layout(base string) (root, cwd, arg string) {
	cwd = filepath.Join(base, "w")
	switch tr.DirForm {
	case 1:
		root = filepath.Join(cwd, tr.Name)
		arg = root
	case 2:
		root = filepath.Join(cwd, tr.Name)
		arg = tr.Name + "/"
	case 3:
		root = filepath.Join(cwd, tr.Name)
		arg = "./" + tr.Name
	case 4:
		root = filepath.Join(cwd, tr.Name)
		cwd = root
		arg = "."
	case 5:
		root = filepath.Join(cwd, "up", tr.Name)
		arg = "up/" + tr.Name
	case 6:
		root = filepath.Join(base, tr.Name)
		arg = "../" + tr.Name
	default:
		root = filepath.Join(cwd, tr.Name)
		arg = tr.Name
	}
	return
}

func (tr Tree) write(base string) {
	root, cwd, _ := tr.layout(base)
	for _, d := range []string{cwd, root} {
		if err := os.MkdirAll(d, 0755); err != nil {
			panic(err)
		}
	}
	for _, d := range tr.Dirs {
		if err := os.MkdirAll(filepath.Join(root, filepath.FromSlash(d)), 0755); err != nil {
			panic(err)
		}
	}
	files := map[string]string{}
	for _, f := range tr.Files {
		files[f.Path] = f.content()
	}
	cli.WriteTree(root, files)
}

// cmdline assembles the arguments: mode flags (and --top-size), DIR, include-ext, spelled as
// ArgStyle says.
func (tr Tree) cmdline(arg string, mode ...string) []string {
	var flags []string
	for i := 0; i < len(mode); i++ {
		if mode[i] == "--top-size" && tr.TopSizeOmitted && i+1 < len(mode) {
			i++
			continue
		}
		if mode[i] == "--top-size" && tr.ArgStyle&8 != 0 && i+1 < len(mode) {
			flags = append(flags, "--top-size="+mode[i+1])
			i++
			continue
		}
		if tr.BoolEq && (mode[i] == "--by-directory" || mode[i] == "--top-file") {
			flags = append(flags, mode[i]+"=true")
			continue
		}
		flags = append(flags, mode[i])
	}
	if len(tr.IncludeExt) > 0 {
		joined := strings.Join(tr.IncludeExt, ",")
		switch (tr.ArgStyle >> 1) & 3 {
		case 1:
			flags = append(flags, "-i", joined)
		case 2:
			flags = append(flags, "--include-ext="+joined)
		case 3:
			for _, e := range tr.IncludeExt {
				flags = append(flags, "--include-ext", e)
			}
		default:
			flags = append(flags, "--include-ext", joined)
		}
	}
	if tr.Sort != "" {
		switch (tr.ArgStyle >> 4) & 3 {
		case 0:
			flags = append(flags, "--sort", tr.Sort)
		case 1:
			flags = append(flags, "-s", tr.Sort)
		default:
			flags = append(flags, "--sort="+tr.Sort)
		}
	}
	for _, e := range tr.Extra {
		flags = append(flags, strings.Fields(e)...)
	}
	for _, e := range tr.Neutral {
		flags = append(flags, strings.Fields(e)...)
	}
	if tr.ArgStyle&1 != 0 {
		return append(append([]string{"cloc"}, flags...), arg)
	}
	return append([]string{"cloc", arg}, flags...)
}

// languages: the languages of the tree's source files, sorted.
func (tr Tree) languages() []string {
	set := map[string]bool{}
	for _, f := range tr.Files {
		if f.Lang != "" {
			set[f.Lang] = true
		}
	}
	return sortedKeys(set)
}

func noise(line string) bool {
	return strings.HasPrefix(line, "results written to ") || strings.HasPrefix(line, "App elapsed:")
}

func payloadLines(stdout string) []string {
	var out []string
	for _, l := range strings.Split(stdout, "\n") {
		l = strings.TrimRight(l, "\r")
		if l == "" || noise(l) {
			continue
		}
		out = append(out, l)
	}
	return out
}

func describeRun(args []string, res cli.Result) string {
	return fmt.Sprintf("coca %s\nexit %d\nstdout:\n%s\nstderr:\n%s", strings.Join(args, " "), res.ExitCode, res.Stdout, res.Stderr)
}

// timedOut: the sub-process was stopped by the harness after 120 s. The statement says nothing about
// run time, and on a loaded machine a process can stall: such a case is inconclusive (counted as
// skipped), not a violation (DESIGN.md section 5).
const timedOut = "TIMEOUT"

// ---- oracle: by-directory ------------------------------------------------------------------

func checkByDirectory(tr Tree, base, ws string) string {
	_, _, arg := tr.layout(base)
	args := tr.cmdline(arg, "--by-directory")
	res, err := cli.Run("coca", ws, nil, args...)
	if err != nil {
		return "HARNESS: cannot run coca: " + err.Error()
	}
	if res.TimedOut {
		return timedOut
	}
	if res.ExitCode != 0 {
		return "by-directory run did not complete normally\n" + describeRun(args, res)
	}
	raw, err := os.ReadFile(filepath.Join(ws, "coca_reporter", "cloc.csv"))
	if err != nil {
		return fmt.Sprintf("coca_reporter/cloc.csv was not written: %v\n%s", err, describeRun(args, res))
	}
	r := csv.NewReader(strings.NewReader(string(raw)))
	r.FieldsPerRecord = -1
	records, err := r.ReadAll()
	if err != nil {
		return fmt.Sprintf("cloc.csv is not CSV: %v\n%s", err, raw)
	}
	ctx := fmt.Sprintf("\ncloc.csv:\n%s\n%s", raw, describeRun(args, res))
	if len(records) == 0 {
		return "cloc.csv has no header row" + ctx
	}
	header := records[0]
	if len(header) < 2 || header[0] != "package" || header[1] != "summary" {
		return fmt.Sprintf("header %v does not start with package,summary", header) + ctx
	}
	// header languages: every language with a counted file outside the ignored directories must
	// be named; a language whose only files sit in an ignored directory may be named (the
	// statement does not say whether "the whole tree" includes those); nothing else.
	must, may := map[string]bool{}, map[string]bool{}
	for _, f := range tr.Files {
		if !tr.counted(f) {
			continue
		}
		may[f.Lang] = true
		if !isIgnoredName(f.top()) {
			must[f.Lang] = true
		}
	}
	col := map[string]int{}
	for i, l := range header[2:] {
		if _, dup := col[l]; dup {
			return fmt.Sprintf("header names language %q twice", l) + ctx
		}
		if !may[l] {
			return fmt.Sprintf("header names language %q, which has no counted file in the tree", l) + ctx
		}
		col[l] = i + 2
	}
	for _, l := range sortedKeys(must) {
		if _, ok := col[l]; !ok {
			return fmt.Sprintf("header %v lacks language %q, which has files in the tree", header, l) + ctx
		}
	}
	// rows: exactly one per non-ignored immediate subdirectory
	var wantNames []string
	for _, d := range tr.immediateSubdirs() {
		if !isIgnoredName(d) {
			wantNames = append(wantNames, d)
		}
	}
	var gotNames []string
	for _, rec := range records[1:] {
		if len(rec) == 0 {
			return "empty record in cloc.csv" + ctx
		}
		gotNames = append(gotNames, rec[0])
	}
	sort.Strings(gotNames)
	if strings.Join(gotNames, "\x00") != strings.Join(wantNames, "\x00") {
		return fmt.Sprintf("rows are for %q, the non-ignored immediate subdirectories are %q", gotNames, wantNames) + ctx
	}
	for _, rec := range records[1:] {
		if len(rec) != len(header) {
			return fmt.Sprintf("row %v has %d cells, header has %d", rec, len(rec), len(header)) + ctx
		}
		sum := 0
		for _, l := range header[2:] {
			want := 0
			for _, f := range tr.Files {
				if tr.counted(f) && f.Lang == l && f.top() == rec[0] {
					want += f.count(kindCode)
				}
			}
			if rec[col[l]] != strconv.Itoa(want) {
				return fmt.Sprintf("row %q: %s figure is %s, the files under that subdirectory have %d code lines of %s", rec[0], l, rec[col[l]], want, l) + ctx
			}
			sum += want
		}
		if rec[1] != strconv.Itoa(sum) {
			return fmt.Sprintf("row %q: summary is %s, its per-language figures add up to %d", rec[0], rec[1], sum) + ctx
		}
	}
	// stdout rows = csv rows (header first, data rows in any order)
	lines := payloadLines(res.Stdout)
	var csvLines []string
	for _, rec := range records {
		csvLines = append(csvLines, strings.Join(rec, ","))
	}
	if len(lines) == 0 || lines[0] != csvLines[0] {
		return fmt.Sprintf("first report line on stdout is not the csv header %q", csvLines[0]) + ctx
	}
	a, b := append([]string{}, lines[1:]...), append([]string{}, csvLines[1:]...)
	sort.Strings(a)
	sort.Strings(b)
	if strings.Join(a, "\n") != strings.Join(b, "\n") {
		return fmt.Sprintf("rows on stdout %q differ from the rows of cloc.csv %q", a, b) + ctx
	}
	return ""
}

func sortedKeys(m map[string]bool) []string {
	var out []string
	for k := range m {
		out = append(out, k)
	}
	sort.Strings(out)
	return out
}

// ---- oracle: top-file ------------------------------------------------------------------------

type sccFile struct {
	Language string
	Location string
	Lines    int64
	Code     int64
	Comment  int64
	Blank    int64
}

type sccSummary struct {
	Name  string
	Files []sccFile
}

type topRow struct {
	code     int
	location string
}

// parseTopStdout splits the stdout of --top-file into one block of rows per "Language:" line.
func parseTopStdout(stdout string) (map[string][]topRow, []string, string) {
	blocks := map[string][]topRow{}
	var order []string
	cur := ""
	for _, l := range payloadLines(stdout) {
		if strings.HasPrefix(l, "Language: ") {
			cur = strings.TrimPrefix(l, "Language: ")
			if _, dup := blocks[cur]; dup {
				return nil, nil, fmt.Sprintf("language %q is printed twice", cur)
			}
			blocks[cur] = []topRow{}
			order = append(order, cur)
			continue
		}
		if !strings.HasPrefix(l, "|") {
			return nil, nil, fmt.Sprintf("unexpected line %q", l)
		}
		if cur == "" {
			return nil, nil, fmt.Sprintf("table line %q before any Language: line", l)
		}
		cells := strings.Split(strings.Trim(l, "|"), "|")
		if len(cells) != 3 {
			return nil, nil, fmt.Sprintf("table line %q does not have three cells", l)
		}
		c0 := strings.TrimSpace(cells[0])
		if c0 == "LENGTH" || strings.HasPrefix(c0, "---") {
			continue
		}
		n, err := strconv.Atoi(c0)
		if err != nil {
			return nil, nil, fmt.Sprintf("table line %q: length is not a number", l)
		}
		blocks[cur] = append(blocks[cur], topRow{n, strings.TrimSpace(cells[2])})
	}
	return blocks, order, ""
}

// obs receives class labels that describe the report as printed (they depend on the order in which
// the tool reports the languages, which the ground truth does not fix).
func checkTopFile(tr Tree, base, ws string, obs *[]string) (msg string, mismatchCommentBlank int) {
	root, _, arg := tr.layout(base)
	args := tr.cmdline(arg, "--top-file", "--top-size", strconv.Itoa(tr.TopSize))
	res, err := cli.Run("coca", ws, nil, args...)
	if err != nil {
		return "HARNESS: cannot run coca: " + err.Error(), 0
	}
	if res.TimedOut {
		return timedOut, 0
	}
	if res.ExitCode != 0 {
		return "top-file run did not complete normally\n" + describeRun(args, res), 0
	}
	raw, err := os.ReadFile(filepath.Join(ws, "coca_reporter", "sort_cloc.json"))
	if err != nil {
		return fmt.Sprintf("coca_reporter/sort_cloc.json was not written: %v\n%s", err, describeRun(args, res)), 0
	}
	if st, err := os.Stat(filepath.Join(ws, "coca_reporter", "top_cloc.json")); err == nil && st.Size() > 65536 {
		*obs = append(*obs, "top_file:counter_result_read_back_is_larger_than_64KiB")
	}
	var sums []sccSummary
	if err := json.Unmarshal(raw, &sums); err != nil {
		return fmt.Sprintf("sort_cloc.json is not a JSON list of language summaries: %v\n%s", err, raw), 0
	}
	ctx := "\n" + describeRun(args, res)
	truth := map[string]File{}
	for _, f := range tr.Files {
		truth[f.Path] = f
	}
	// (a) sort_cloc.json: every counted file outside the ignored directories is listed once under
	// its language with its number of code lines; counted files inside ignored directories may be
	// listed (the statement does not say); nothing else is listed.
	listed := map[string]bool{}
	universe := map[string][]File{} // language -> files that the report covers
	for _, s := range sums {
		for _, sf := range s.Files {
			loc := sf.Location
			if !filepath.IsAbs(loc) {
				loc = filepath.Join(ws, loc)
			}
			rel, err := filepath.Rel(root, filepath.Clean(loc))
			if err != nil {
				return fmt.Sprintf("sort_cloc.json lists %q, which is not below the tree", sf.Location) + ctx, 0
			}
			rel = filepath.ToSlash(rel)
			f, ok := truth[rel]
			if !ok || !tr.counted(f) {
				return fmt.Sprintf("sort_cloc.json lists %q, which is not a counted source file of the tree", sf.Location) + ctx, 0
			}
			if listed[rel] {
				return fmt.Sprintf("sort_cloc.json lists %q twice", sf.Location) + ctx, 0
			}
			listed[rel] = true
			if s.Name != f.Lang {
				return fmt.Sprintf("sort_cloc.json lists %q under %q, it is a %s file", sf.Location, s.Name, f.Lang) + ctx, 0
			}
			if int(sf.Code) != f.count(kindCode) {
				return fmt.Sprintf("sort_cloc.json gives %q %d code lines, it has %d", sf.Location, sf.Code, f.count(kindCode)) + ctx, 0
			}
			if int(sf.Comment) != f.count(kindComment) || int(sf.Blank) != f.count(kindBlank) {
				mismatchCommentBlank++
			}
			universe[f.Lang] = append(universe[f.Lang], f)
		}
	}
	for _, f := range tr.Files {
		if tr.counted(f) && !isIgnoredName(f.top()) && !listed[f.Path] {
			return fmt.Sprintf("sort_cloc.json does not list %q", f.Path) + ctx, mismatchCommentBlank
		}
	}
	// (b) stdout: per language the first min(N, files) files in non-increasing order of code lines
	if len(sums) > 5 {
		return "", mismatchCommentBlank // above five languages the tool prints no table (not judged)
	}
	blocks, order, perr := parseTopStdout(res.Stdout)
	if perr != "" {
		return "stdout of --top-file: " + perr + ctx, mismatchCommentBlank
	}
	for i := range order {
		for j := i + 1; j < len(order); j++ {
			ni, nj := len(universe[order[i]]), len(universe[order[j]])
			if ni > 0 && ni < nj {
				*obs = append(*obs, "top_file:language_with_fewer_files_printed_before_one_with_more")
				if ni < tr.TopSize {
					*obs = append(*obs, "top_file:earlier_language_has_fewer_files_than_top_size_and_a_later_one_has_more")
				}
			}
		}
	}
	for lang := range blocks {
		if len(universe[lang]) == 0 {
			return fmt.Sprintf("stdout has a block for language %q, which has no file in the report", lang) + ctx, mismatchCommentBlank
		}
	}
	for _, lang := range allLangs {
		files := universe[lang]
		if len(files) == 0 {
			continue
		}
		rows, ok := blocks[lang]
		if !ok {
			return fmt.Sprintf("stdout has no block for language %q (%d files)", lang, len(files)) + ctx, mismatchCommentBlank
		}
		k := tr.TopSize
		if len(files) < k {
			k = len(files)
		}
		if len(rows) != k {
			return fmt.Sprintf("language %q: %d rows printed, want min(top-size %d, %d files) = %d", lang, len(rows), tr.TopSize, len(files), k) + ctx, mismatchCommentBlank
		}
		for i := 1; i < len(rows); i++ {
			if rows[i].code > rows[i-1].code {
				return fmt.Sprintf("language %q: rows are not in non-increasing order of code lines (%d after %d)", lang, rows[i].code, rows[i-1].code) + ctx, mismatchCommentBlank
			}
		}
		var codes []int
		for _, f := range files {
			codes = append(codes, f.count(kindCode))
		}
		sort.Sort(sort.Reverse(sort.IntSlice(codes)))
		for i, r := range rows {
			if r.code != codes[i] {
				return fmt.Sprintf("language %q: printed lengths %v, the %d largest files have %v code lines", lang, rowCodes(rows), k, codes[:k]) + ctx, mismatchCommentBlank
			}
		}
		// every printed row is one distinct file: same code lines, location a suffix of its path
		if !matchRows(rows, files, root) {
			return fmt.Sprintf("language %q: the printed rows %v cannot be assigned to distinct files with those code lines whose path ends with the printed location", lang, rows) + ctx, mismatchCommentBlank
		}
	}
	return "", mismatchCommentBlank
}

func rowCodes(rows []topRow) []int {
	var out []int
	for _, r := range rows {
		out = append(out, r.code)
	}
	return out
}

// matchRows: bipartite matching rows -> files (same code count, printed location is a suffix of
// the file's absolute path).
func matchRows(rows []topRow, files []File, root string) bool {
	ok := func(r topRow, f File) bool {
		return r.code == f.count(kindCode) && strings.HasSuffix(filepath.ToSlash(filepath.Join(root, f.Path)), r.location)
	}
	owner := make([]int, len(files))
	for i := range owner {
		owner[i] = -1
	}
	var try func(r int, seen []bool) bool
	try = func(r int, seen []bool) bool {
		for j, f := range files {
			if seen[j] || !ok(rows[r], f) {
				continue
			}
			seen[j] = true
			if owner[j] < 0 || try(owner[j], seen) {
				owner[j] = r
				return true
			}
		}
		return false
	}
	for r := range rows {
		if !try(r, make([]bool, len(files))) {
			return false
		}
	}
	return true
}

// ---- check -------------------------------------------------------------------------------------

func checkTree(tr Tree) pbt.Verdict {
	scratch := cli.Scratch("c16-")
	defer os.RemoveAll(scratch)
	// The two reports are produced concurrently, each in its own working directory with its own
	// copy of the tree (an invocation mostly sleeps: the binary's CPU profiler needs ~0.2 s to stop).
	// A second tree of the case is reported afterwards in the same two working directories.
	base1, base2 := filepath.Join(scratch, "by-directory"), filepath.Join(scratch, "top-file")
	seq := []Tree{tr}
	if tr.Second != nil && tr.DirForm != 4 {
		sec := *tr.Second
		sec.Second = nil
		if sec.DirForm == 4 {
			sec.DirForm = 0
		}
		seq = append(seq, sec)
	}
	_, cwd1, _ := tr.layout(base1)
	_, cwd2, _ := tr.layout(base2)
	// every tree is written right before it is reported (a second state of the same tree replaces the first one
	// in place after the first report)
	prepare := func(i int, base string) {
		seq[i].write(base)
		if i == 0 && tr.Backdated {
			root, _, _ := tr.layout(base)
			old := time.Now().Add(-time.Hour)
			_ = filepath.Walk(root, func(p string, _ os.FileInfo, err error) error {
				if err == nil {
					_ = os.Chtimes(p, old, old)
				}
				return nil
			})
		}
	}
	var msgTop string
	var mism int
	var obs []string
	done := make(chan struct{})
	go func() {
		defer close(done)
		for i, x := range seq {
			prepare(i, base2)
			m, n := checkTopFile(x, base2, cwd2, &obs)
			mism += n
			if m != "" {
				msgTop = m
				if i > 0 {
					msgTop = "second report in the same working directory: " + m + "\nfirst report: coca " + strings.Join(seq[0].cmdline("DIR", "--top-file", "--top-size", strconv.Itoa(seq[0].TopSize)), " ")
				}
				return
			}
		}
	}()
	msgDir := ""
	for i, x := range seq {
		prepare(i, base1)
		m := checkByDirectory(x, base1, cwd1)
		if m != "" {
			msgDir = m
			if i > 0 {
				msgDir = "second report in the same working directory: " + m + "\nfirst report: coca " + strings.Join(seq[0].cmdline("DIR", "--by-directory"), " ")
			}
			break
		}
	}
	<-done
	// the scratch directory has a random name: keep it out of the message (rapid wants the same
	// message for the same case)
	clean := func(m string) string {
		m = strings.ReplaceAll(m, scratch, "<scratch>")
		return reProfile.ReplaceAllString(m, "profile…")
	}
	isTimeout := func(m string) bool { return strings.HasSuffix(strings.SplitN(m, "\n", 2)[0], timedOut) }
	if msgDir != "" && !isTimeout(msgDir) {
		return pbt.Fail("%s", clean(msgDir))
	}
	if msgTop != "" && !isTimeout(msgTop) {
		return pbt.Fail("%s", clean(msgTop))
	}
	if isTimeout(msgDir) || isTimeout(msgTop) {
		pbt.Count("cases_with_a_run_stopped_after_120s(inconclusive, skipped)", 1)
		return pbt.Verdict{Skip: true}
	}
	if mism > 0 {
		pbt.Count("files_whose_comment_or_blank_count_differs_from_ground_truth(not asserted)", mism)
	}
	v := classify(tr)
	have := map[string]bool{}
	for _, c := range v.Classes {
		have[c] = true
	}
	for _, c := range obs {
		if !have[c] {
			have[c] = true
			v.Classes = append(v.Classes, c)
		}
	}
	return v
}

var reProfile = regexp.MustCompile(`profile\d+|\d{4}/\d\d/\d\d \d\d:\d\d:\d\d|App elapsed: +[0-9.]+[a-zµ]+`)

func classify(tr Tree) pbt.Verdict {
	v := pbt.Verdict{}
	langSets := map[string]bool{}
	counted, ignored, empty, nested, rootFiles, optional := 0, false, false, false, false, false
	must, may := map[string]bool{}, map[string]bool{}
	perLang := map[string][]int{}
	for _, f := range tr.Files {
		if !tr.counted(f) {
			continue
		}
		may[f.Lang] = true
		if !isIgnoredName(f.top()) {
			must[f.Lang] = true
			perLang[f.Lang] = append(perLang[f.Lang], f.count(kindCode))
		}
		if f.top() == "" {
			rootFiles = true
		}
		if strings.Count(f.Path, "/") >= 2 && !isIgnoredName(f.top()) {
			nested = true
		}
	}
	for l := range may {
		if !must[l] {
			optional = true
		}
	}
	for _, d := range tr.immediateSubdirs() {
		if isIgnoredName(d) {
			ignored = true
			continue
		}
		set := map[string]bool{}
		files := 0
		for _, f := range tr.Files {
			if f.top() == d {
				files++
				if tr.counted(f) {
					set[f.Lang] = true
				}
			}
		}
		if files == 0 {
			empty = true
		}
		add0 := files > 0 && len(set) == 0
		if add0 {
			v.Classes = append(v.Classes, "subdir_with_files_but_nothing_counted")
		}
		if strings.ContainsAny(d, " \u00f6\u6e90") {
			v.Classes = append(v.Classes, "subdir_name_with_blank_or_non_ascii")
		}
		if d == "package" || d == "summary" || containsStr(allLangs, d) {
			v.Classes = append(v.Classes, "subdir_named_like_a_word_of_the_header")
		}
		for _, ig := range ignoredNames {
			if d != ig && len(d) >= 2 && strings.Contains(ig, d) {
				v.Classes = append(v.Classes, "subdir_name_is_part_of_an_ignored_name")
			}
		}
		if len(d) >= 90 {
			v.Classes = append(v.Classes, "subdir_name_of_90+_characters")
		}
		if strings.HasSuffix(d, " ") || strings.Contains(d, "  ") {
			v.Classes = append(v.Classes, "subdir_name_with_trailing_blank_or_two_blanks")
		}
		if containsStr([]string{"node_modules", "vendor", "target", "build", "bin", "dist", "out"}, d) {
			v.Classes = append(v.Classes, "subdir_named_like_a_build_or_dependency_directory")
		}
		if containsStr(unusualDirNames, d) {
			v.Classes = append(v.Classes, "subdir_name_from_the_unusual_pool")
		}
		if len(set) > 0 {
			counted++
			langSets[strings.Join(sortedKeys(set), ",")] = true
		}
	}
	v.NonTrivial = counted >= 2 && len(langSets) >= 2
	add := func(cond bool, name string) {
		if cond {
			v.Classes = append(v.Classes, name)
		}
	}
	add(v.NonTrivial, "counted_subdirs>=2_with_different_language_sets")
	add(counted == 0, "no_counted_subdir")
	add(len(tr.immediateSubdirs()) == 0, "no_subdirectory_at_all")
	add(ignored, "ignored_dir_present")
	add(empty, "empty_subdir_present")
	add(nested, "nested_files")
	add(rootFiles, "files_in_root")
	add(optional, "language_only_in_ignored_dir")
	add(len(tr.IncludeExt) > 0, "include_ext")
	add(len(must) >= 3, "languages>=3")
	add(len(may) > 5, "more_than_5_languages(top-file table not judged)")
	add(tr.DirForm == 1, "absolute_dir_argument")
	add(tr.DirForm == 4, "dir_argument_is_dot(cwd_inside)")
	add(tr.DirForm == 5, "dir_argument_two_levels")
	add(tr.DirForm == 6, "dir_argument_dotdot")
	add(tr.ArgStyle != 0, "command_line_respelled")
	add(tr.Second != nil && tr.Second.Name == tr.Name, "second_report_same_tree_other_options")
	add(tr.Second != nil && tr.Second.Name != tr.Name, "second_report_other_tree")
	add(tr.TopSize == 0, "top_size_0")
	add(tr.TopSizeOmitted, "top_size_omitted(default 30)")
	add(tr.Sort != "", "sort_option_given")
	add(tr.Sort != "" && tr.Sort != "files", "sort_by_"+tr.Sort)
	add(len(tr.Extra) > 0, "presentation_options_given")
	for _, e := range tr.Extra {
		add(e == "--by-file", "presentation_option_by_file")
	}
	add(tr.Second != nil && tr.Second.Name == tr.Name && tr.Second.Sort != tr.Sort, "second_report_same_tree_other_sort")
	add(len(tr.immediateSubdirs()) > 6, "more_than_6_subdirs")
	add(len(tr.immediateSubdirs()) > 16, "more_than_16_subdirs")
	add(len(tr.immediateSubdirs()) > 32, "more_than_32_subdirs")
	add(tr.BoolEq, "mode_flag_spelled_=true")
	add(len(tr.Neutral) > 0, "neutral_options_given")
	add(len(must) == 1, "exactly_one_language")
	add(len(may) == 5, "exactly_5_languages")
	add(len(may) == 6, "exactly_6_languages")
	add(len(may) > 8, "more_than_8_languages")
	inSubdirs := map[string]bool{}
	extVariant, extCapital, stemUnusual, longPath := false, false, false, false
	for _, f := range tr.Files {
		if f.Lang == "" {
			continue
		}
		for _, e := range tr.IncludeExt {
			if e != f.ext() && (e == langExt[f.Lang] || containsStr(altExt[f.Lang], e)) {
				v.Classes = append(v.Classes, "include_ext_names_one_extension_of_a_language_and_a_file_has_another")
			}
		}
		if !tr.counted(f) {
			continue
		}
		if f.top() != "" && !isIgnoredName(f.top()) {
			inSubdirs[f.Lang] = true
		}
		if f.Ext != "" {
			if strings.ToLower(f.Ext) == langExt[f.Lang] {
				extCapital = true
			} else {
				extVariant = true
			}
		}
		base := f.Path[strings.LastIndex(f.Path, "/")+1:]
		for _, u := range append(append([]string{}, unusualStems...), toolFileStems...) {
			if u != "" && strings.HasPrefix(base, u) && !containsStr(stems, u) {
				stemUnusual = true
			}
		}
		if len(base) > 90 {
			stemUnusual = true
		}
		if len(f.Path) > 100 {
			longPath = true
		}
	}
	onlyRoot := false
	for l := range must {
		if !inSubdirs[l] {
			onlyRoot = true
		}
	}
	add(onlyRoot, "language_only_in_root_files")
	add(extVariant, "file_with_another_extension_of_its_language")
	add(extCapital, "file_extension_with_capital_letters")
	add(stemUnusual, "unusual_file_name")
	add(longPath, "file_path_of_100+_characters")
	maxCode, maxFiles, newLang, nestedIgnored, prefixPair, suffixPair := 0, 0, false, false, false, false
	for l, codes := range perLang {
		if len(codes) > maxFiles {
			maxFiles = len(codes)
		}
		for _, c := range codes {
			if c > maxCode {
				maxCode = c
			}
		}
		for i, x := range allLangs {
			if x == l && i >= 5 {
				newLang = true
			}
		}
		for m := range perLang {
			if m != l && strings.HasPrefix(m, l) {
				prefixPair = true
			}
			if m != l && strings.HasSuffix(m, l) {
				suffixPair = true
			}
		}
	}
	for _, d := range tr.Dirs {
		if i := strings.Index(d, "/"); i >= 0 && !isIgnoredName(d[:i]) {
			for _, part := range strings.Split(d[i+1:], "/") {
				if isIgnoredName(part) {
					nestedIgnored = true
				}
			}
		}
	}
	add(maxCode >= 10, "file_with_10+_code_lines")
	add(maxCode >= 100, "file_with_100+_code_lines")
	add(maxFiles > 8, "more_than_8_files_of_one_language")
	add(maxFiles > 64, "more_than_64_files_of_one_language")
	add(maxFiles > 200, "more_than_200_files_of_one_language")
	add(newLang, "language_beyond_the_first_five")
	contents := map[string]bool{}
	for _, f := range tr.Files {
		if tr.counted(f) && len(f.Lines) > 0 && !isIgnoredName(f.top()) {
			key := f.Lang + "\x00" + f.content()
			add(contents[key], "two_files_with_identical_content")
			contents[key] = true
		}
	}
	add(prefixPair, "language_name_prefix_of_another")
	add(suffixPair, "language_name_suffix_of_another")
	add(nestedIgnored, "ignored_name_below_a_subdirectory")
	truncates, tie := false, false
	for _, codes := range perLang {
		add(len(codes) == tr.TopSize, "language_with_exactly_top_size_files")
		add(len(codes) == tr.TopSize+1, "language_with_top_size+1_files")
		if len(codes) > tr.TopSize {
			truncates = true
			sort.Sort(sort.Reverse(sort.IntSlice(codes)))
			if tr.TopSize >= 1 && codes[tr.TopSize-1] == codes[tr.TopSize] {
				tie = true
			}
		}
	}
	add(truncates, "top_size_truncates")
	add(truncates && tr.TopSizeOmitted, "default_top_size_truncates")
	add(tie, "tie_at_the_cut")
	seenClass := map[string]bool{}
	var uniq []string
	for _, c := range v.Classes {
		if !seenClass[c] {
			seenClass[c] = true
			uniq = append(uniq, c)
		}
	}
	v.Classes = uniq
	// canonical form: shape and figures, not the texts
	var parts []string
	for _, f := range tr.Files {
		parts = append(parts, fmt.Sprintf("%s:%s:%d", f.Path, f.Lang, f.count(kindCode)))
	}
	sort.Strings(parts)
	v.Canon = strings.Join(tr.immediateSubdirs(), ",") + "|" + strings.Join(parts, ";") + "|" + strings.Join(tr.IncludeExt, ",") + "|" + strconv.Itoa(tr.TopSize) + "|" + tr.Sort
	return v
}

func checkSweep(s Sweep) pbt.Verdict {
	out := pbt.Verdict{}
	seen := map[string]bool{}
	verdicts := make([]pbt.Verdict, len(s.Trees))
	var wg sync.WaitGroup
	for i := range s.Trees {
		wg.Add(1)
		go func(i int) {
			defer wg.Done()
			verdicts[i] = checkTree(s.Trees[i])
		}(i)
	}
	wg.Wait()
	for i, v := range verdicts {
		if v.Violation != "" {
			return pbt.Fail("sweep tree %d: %s", i, v.Violation)
		}
		if v.NonTrivial {
			out.NonTrivial = true
		}
		for _, c := range v.Classes {
			if !seen[c] {
				seen[c] = true
				out.Classes = append(out.Classes, c)
			}
		}
		out.Canon += v.Canon + "\n"
	}
	pbt.Count("exhaustive_subspace_trees(subdirs 0..3 x ignored name x empty dir)", len(s.Trees))
	return out
}

func init() {
	pbt.SetProperty("C16")
	pbt.Describe("rapid-generated directory trees: 0-6 (now and then 7-12, one tree in twenty 17-40: past 16 and 32) immediate subdirectories (ordinary names incl. dotted and hidden ones, names with a blank or a non-ASCII letter, names differing only in letter case, names that extend or end in an ignored name without being one (coca_reporter_old, my_coca_reporter, old.idea), names of the tool's own report files; in one tree in four also one to four names of a second pool: the words of the report's header (package, summary) and names of languages, parts and beginnings of the ignored names (git, hg, svn, coca, reporter, .g, .ide), names of build and dependency directories (node_modules, vendor, target, build, bin, dist, out), `$x`, `7`, `_`, two blanks in a row, a blank at the end, CJK letters, 'Language: Go', src2/ab, json/.json/cloc.json/top_cloc, a name of 90-180 characters; 0-3 of the ignored names .git/.svn/.hg/.idea/coca_reporter; empty ones; ones holding only files of unknown type; files nested up to three levels, also below directories named .idea / coca_reporter / like another immediate subdirectory), 0-2 files in the root, 2-5 (one tree in sixteen: exactly one; one in twelve: 6, 7, 9, 12 or all 16) of 16 languages (Java, Go, Python, JavaScript, Kotlin, C, C Header, C++, C#, TypeScript, Ruby, Rust, Shell, C Shell, C++ Header, JSON: names that are prefixes or suffixes of one another, names with blanks and symbols, a language without comment syntax; in one tree in six two or three languages of one such family are put first: C/C++/C Header/C#, Java/JavaScript, Shell/C Shell/C, C++/C++ Header/C Header, JavaScript/TypeScript/Java); file names from a pool of stems (incl. a dotted one and one with a blank), one in twelve from a second pool (non-ASCII letters, `$x`, digits only, a hidden file, two blanks, 90-180 characters; for JSON the names of the tool's own result files: base_cloc, top_cloc, sort_cloc, debug_cloc, package); the extension is the language's first one, in one file in twelve written with capital letters (JAVA, Py) and in one in twelve another extension of the language (ec, cc, cxx, c++, csx, mjs, kts, tsx, hh, hxx; more often for a language that --include-ext names); every file is 0-9 (now and then 10-40 or 190-260) lines that are unambiguously code (no comment marker, no quote), whole-line comment (line, one-line block, multi-line block without blank lines) or blank, optionally CRLF / no final newline, so code lines per file are known by construction (one, two and three digits); now and then 9-33 small files of one language in one directory, rarely (a few trees per hundred) 215-250 tiny files of one language in one directory (the counter's per-file result, one line of JSON that the tool reads back, then passes 64 KiB); one file in ten is a byte-for-byte copy of an earlier file of its language; --include-ext subsets in a quarter of the cases (mostly of the tree's languages, now and then an absent one; for a language with several extensions now and then another extension instead of or next to the first, so that the filter keeps some files of a language and drops others; spelled --include-ext a,b / -i a,b / --include-ext=a,b / one option per value); --top-size in {0,1,2,3,4,5,7,10,30}, in one case in ten any value 0-40, in one in ten left out (default 30; such trees get a directory of 26-36 files of one language in one subdirectory in four); in half of the cases scc's --sort option with one of its documented values code/name/lines/complexity/comments/blanks/files (spelled --sort X / -s X / --sort=X), which changes the order in which the languages are reported (so that a language with few files can come before one with many) but not what is counted; in a quarter of the cases one or two further options that concern scc's own presentation only (--no-complexity/-c, --no-cocomo, --no-size, --ci, --by-file, --format/-f csv|tabular|json, --size-unit, --avg-wage); in one case in six one to three options that change nothing for trees of this kind (--binary, --no-ignore, --no-gitignore, --include-symlinks, --file-gc-count, --large-line-count / --large-byte-count without --no-large, --min-gen-line-length, --generated-markers, --exclude-dir with its default value, --count-as for an extension no file has); in one case in eight the mode flag spelled --by-directory=true / --top-file=true; flags before or after DIR; DIR given as NAME, NAME/, ./NAME, an absolute path, '.' (working directory = the tree), up/NAME or ../NAME. A quarter of the 'tree' cases are a sequence: after the first tree a second report is produced in the same working directory (coca_reporter of the first run still there), either of the same tree under other options or of another tree sharing directory names with the first; both reports are judged. The sub-check 'sweep' builds, per case, all 16 combinations of (0..3 counted subdirectories) x (an ignored name present) x (an empty directory present). Oracle: the coca binary as a sub-process: cloc DIR --by-directory -> cloc.csv header/rows/cells/summary against the ground truth, stdout rows = csv rows; cloc DIR --top-file --top-size N -> sort_cloc.json lists every counted file with its code lines, stdout has per language min(N, files) rows in non-increasing order whose lengths are the N largest and which can be assigned to distinct files. Non-trivial = at least two counted subdirectories with different language sets; distinct = hash of (subdirectories, path:language:code-lines of every file, include-ext, top-size, sort).",
		"row order, language column order and the order of equal-sized files are free; stdout rows and csv rows are compared as multisets after the header",
		"files inside .git/.svn/.hg/.idea/coca_reporter as immediate subdirectories: a language that occurs only there may or may not be named in the header, and such files may or may not be listed by --top-file (the statement does not say); stdout of --top-file is judged against the files that sort_cloc.json lists. Deeper down .idea and coca_reporter are ordinary directories (their files count for the row they are under); .git/.hg/.svn are not generated below the first level (scc's deny list drops them)",
		"the printed location is only required to be a suffix of the file's path (the tool strips the DIR prefix with TrimLeft, which can eat more)",
		"a location of more than 80 characters that contains a blank is wrapped over several table lines by the tool's table writer (the statement does not define the layout): files whose path is that long get names without blanks, and the very long directory names have none",
		"file contents are read by the counter (scc) only, never by coca's own code: byte order marks, very long lines, deeper nesting than three levels and files recognised by full name or #! line are not generated",
		"a run that the harness has to stop after 120 s is inconclusive (the case is counted as skipped): the statement says nothing about run time",
		"comment and blank counts of sort_cloc.json are compared with the ground truth but only counted, not asserted (the statement speaks of code lines)",
		"with DIR = '.' the tool's own coca_reporter directory appears inside the tree while it runs: it is an ignored directory; that form is used for single reports only (a second run would count the first run's JSON/CSV report files as source files of the tree)",
		"not generated: directory names ending in .git/.hg/.svn (scc's deny list matches by suffix), letter-case variants of the ignored names, names of other VCS/IDE/report directories (.bzr, CVS, .vscode, .settings, .gradle, reports: the statement does not say whether they count as such), .gitignore/.ignore files, symlinks, names with a comma, a double quote, a leading blank or a line break (cloc.csv quotes such a name, stdout does not: the statement does not say how the row is spelled), names with `|`, names that are not valid UTF-8, names of more than 250 bytes (the per-directory result file NAME.json could not be created), negative --top-size; options that select what is counted (--exclude-dir, --not-match, --no-duplicates, --no-large, --no-min-gen, --count-as, --remap-*) since the statement defines the figures without them; --wide/-w, --output, --debug/--verbose/--trace (they replace or interleave scc's result, from which the reports are built)",
		"--sort and the presentation options are taken to be configurations of the quantifier: the statement's figures, row set and per-language order and truncation do not depend on them, and the oracle is the same with and without them",
		"one tree in twelve has 6-16 languages: the by-directory report and sort_cloc.json are judged as usual, the top-file table on stdout is not (the tool prints it for up to five languages only")
	pbt.Register("tree", 110, 400, genTree, checkTree)
	pbt.Register("sweep", 3, 6, genSweep, checkSweep)
}

func TestProp(t *testing.T)   { pbt.Main(t) }
func TestReplay(t *testing.T) { pbt.Replay(t) }
