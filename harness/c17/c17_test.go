// C17 — every TODO/FIXME comment is reported once with its line; nothing else is.
//
// A case is a small directory of source files. Every file is a list of segments (code tokens,
// Java-style string literals, one-character char literals, line / block / hash comments,
// whitespace, optionally an unterminated block comment at the very end), so the set of
// comments, the line each one starts on and the text of each one are known by construction.
package c17

import (
	"encoding/json"
	"fmt"
	"os"
	"path/filepath"
	"regexp"
	"sort"
	"strings"
	"testing"
	"unicode"
	"unicode/utf8"

	"github.com/antlr/antlr4/runtime/Go/antlr/v4"
	comment "github.com/modernizing/coca/languages/comment"
	"github.com/modernizing/coca/pkg/application/todo"
	"github.com/modernizing/coca/pkg/application/todo/astitodo"
	"pgregory.net/rapid"

	"verif/internal/cli"
	"verif/internal/pbt"
)

// ---- case ----------------------------------------------------------------------------------

// Segment kinds.
const (
	kCode  = "code"  // T = one code token
	kWs    = "ws"    // T = blanks and line breaks
	kStr   = "str"   // T = text between the double quotes
	kChr   = "chr"   // T = text between the single quotes (one character or one escape)
	kLine  = "line"  // // comment
	kBlock = "block" // /* comment */
	kHash  = "hash"  // # comment
	kOpen  = "open"  // unterminated /* comment, last segment only; T = its text
	kTpl   = "tpl"   // T = text between two back-ticks (template / raw string literal, may span lines)
)

// Seg is one piece of a source text. For the three comment kinds the text after the comment
// marker is Lead + Mark + Sep + Gap + Body:
//
//	Lead  blanks (space, tab); in a block comment also line breaks: the text of the comment then
//	      starts on a later line than the comment marker ("/*\n  TODO: x\n*/")
//	Mark  "" (an ordinary comment) or TODO / FIXME in some letter case
//	Sep   "" | ":" | "(name)" | "(name):"   directly after the mark; the name may be padded with
//	      spaces inside the parentheses ("( bob )") and the colon may stand off by blanks
//	      ("TODO :", "TODO(bob) :"), in a block comment also by a line break
//	Gap   blanks; in a block comment also line breaks (the message starts on a later line than the mark)
//	Body  the remaining text (the message when Mark != "")
type Seg struct {
	K    string `json:"k"`
	T    string `json:"t,omitempty"`
	Lead string `json:"lead,omitempty"`
	Mark string `json:"mark,omitempty"`
	Sep  string `json:"sep,omitempty"`
	Gap  string `json:"gap,omitempty"`
	Body string `json:"body,omitempty"`
	// Fill (absent in older replay files): so many letters 'x' follow the text of the segment (after T
	// of an identifier, a string or a template literal, after Body of a comment): very long tokens and
	// lines; in a white-space segment so many further line breaks.
	Fill int `json:"fill,omitempty"`
}

func (s Seg) filler() string {
	if s.Fill <= 0 {
		return ""
	}
	if s.K == kWs {
		return strings.Repeat("\n", s.Fill)
	}
	return strings.Repeat("x", s.Fill)
}

// body: the remaining text of a comment (Body and the filler).
func (s Seg) body() string { return s.Body + s.filler() }

type SrcFile struct {
	Path string `json:"path"` // relative, slash separated
	Segs []Seg  `json:"segs"`
	// Bom (absent in older replay files): the text starts with a byte order mark (U+FEFF).
	Bom bool `json:"bom,omitempty"`
}

type Case struct {
	Files   []SrcFile `json:"files"`
	Filters []string  `json:"filters"`
	// optional parts (absent in older replay files):
	// Twice: the same scan is run a second time and judged again.
	Twice bool `json:"twice,omitempty"`
	// Filters2: after the first scan the same directory is scanned with these filters (same
	// process for the API, same working directory for the CLI), then once more with Filters.
	Filters2 []string `json:"filters2,omitempty"`
	// Single: path of one file of the case (with a selected extension) that is afterwards scanned
	// on its own, the file's path being given instead of the directory.
	Single string `json:"single,omitempty"`
	// PathForm: how the directory is named. API: absolute, with a trailing slash when 3.
	// CLI: 0 "src", 1 absolute, 2 "./src", 3 "src/", 4 "." with the directory as working
	// directory, 5 no -p at all (the default is ".") with the directory as working directory.
	PathForm int `json:"path_form,omitempty"`
	// OmitExt (CLI): no -e option; only when Filters is the documented default list.
	OmitExt bool `json:"omit_ext,omitempty"`
	// LongFlags (CLI): --path / --ext=... instead of -p / -e.
	LongFlags bool `json:"long_flags,omitempty"`
	// FlagForm (CLI), when not 0 it overrides LongFlags: 2 "--path=v --ext v", 3 "-p=v -e=v",
	// 4 "-pv -ev" (value attached to the short option).
	FlagForm int `json:"flag_form,omitempty"`
	// ExtFirst (CLI): the extension option stands before the path option.
	ExtFirst bool `json:"ext_first,omitempty"`
	// Files2: after all other scans the directory is emptied, these files are written into it
	// (possibly under the same paths, with other content) and it is scanned again with Filters.
	Files2 []SrcFile `json:"files2,omitempty"`
	// SameApp (API): all scans of the case use one TodoApp value instead of a new one each.
	SameApp bool `json:"same_app,omitempty"`
}

func (s Seg) isComment() bool { return s.K == kLine || s.K == kBlock || s.K == kHash }

func (s Seg) inner() string { return s.Lead + s.Mark + s.Sep + s.Gap + s.body() }

func (s Seg) text() string {
	switch s.K {
	case kCode, kWs:
		return s.T + s.filler()
	case kStr:
		return `"` + s.T + s.filler() + `"`
	case kChr:
		return `'` + s.T + `'`
	case kLine:
		return "//" + s.inner()
	case kHash:
		return "#" + s.inner()
	case kBlock:
		return "/*" + s.inner() + "*/"
	case kOpen:
		return "/*" + s.T
	case kTpl:
		return "`" + s.T + s.filler() + "`"
	}
	return ""
}

const bom = "\uFEFF"

func (f SrcFile) text() string {
	var sb strings.Builder
	if f.Bom {
		sb.WriteString(bom)
	}
	for _, s := range f.Segs {
		sb.WriteString(s.text())
	}
	return sb.String()
}

// ---- domain guard ----------------------------------------------------------------------------
// The generators only produce cases inside the statement's input domain; the guard re-checks it
// so that hand-written replay files and fuzz inputs are judged by the same rules (a case outside
// the domain is skipped, never judged).

var (
	reCodeToken = regexp.MustCompile(`^([\p{L}_$][\p{L}\p{N}_$]*|[0-9][0-9a-zA-Z_.]*|\.[0-9]+|[-+*/=<>!~?:&|^%@.]+|[(){}\[\];,])$`)
	reStrInner  = regexp.MustCompile(`^([^"\\\r\n]|\\[btnfr"'\\]|\\[0-3]?[0-7]?[0-7]|\\u+[0-9a-fA-F]{4})*$`)
	reChrInner  = regexp.MustCompile(`^([^'\\\r\n]|\\[btnfr"'\\]|\\[0-3]?[0-7]?[0-7]|\\u+[0-9a-fA-F]{4})$`)
	reWs        = regexp.MustCompile(`^[ \t\r\n\f]*$`)
	reIdent     = regexp.MustCompile(`^[\p{L}_$][\p{L}\p{N}_$]*$`)
	reBlanks    = regexp.MustCompile(`^[ \t]*$`)
	reBlanksNl  = regexp.MustCompile(`^[ \t\r\n]*$`) // block comments: blanks and line breaks
	reSep       = regexp.MustCompile(`^(|[ \t]*:|\( *[A-Za-z0-9_.+\-@]([A-Za-z0-9_ .+\-@]*[A-Za-z0-9_.+\-@])? *\)([ \t]*:)?)$`)
	reSepBlock  = regexp.MustCompile(`^(|[ \t\r\n]*:|\( *[A-Za-z0-9_.+\-@]([A-Za-z0-9_ .+\-@]*[A-Za-z0-9_.+\-@])? *\)([ \t\r\n]*:)?)$`)
	reOpenText  = regexp.MustCompile(`^[A-Za-z0-9 :().\n]*$`)
	rePathPart  = regexp.MustCompile(`^\.?[\p{L}\p{N}_$-]([\p{L}\p{N}_$ -]*[\p{L}\p{N}_$-])?(\.[A-Za-z0-9_]+)*$`)
	reFileName  = regexp.MustCompile(`^\.?[\p{L}\p{N}_$-]([\p{L}\p{N}_$ -]*[\p{L}\p{N}_$-])?(\.[A-Za-z0-9_~+]+)+$`)
	reFilter    = regexp.MustCompile(`^\.[a-z0-9+]+$`)
)

// punctAfterMark: characters that may follow the mark directly ("TODO- x", "FIXME. y"): the text
// begins with the mark under every reading, unlike a letter or digit (TODOS, TODO1).
const punctAfterMark = "-.!,;?/=>"

func isMark(s string) bool {
	u := asciiUpper(s)
	return u == "TODO" || u == "FIXME"
}

func asciiUpper(s string) string {
	b := []byte(s)
	for i, c := range b {
		if c >= 'a' && c <= 'z' {
			b[i] = c - 32
		}
	}
	return string(b)
}

// beginsLikeMark: the text would be read as starting with TODO / FIXME under some reading of
// "letter case" or "blanks" (Unicode upper-casing, Unicode white space).
func beginsLikeMark(s string) bool {
	s = strings.TrimLeftFunc(s, unicode.IsSpace)
	u := strings.ToUpper(s)
	a := asciiUpper(s)
	return strings.HasPrefix(u, "TODO") || strings.HasPrefix(u, "FIXME") || strings.HasPrefix(a, "TODO") || strings.HasPrefix(a, "FIXME")
}

func firstRune(s string) rune {
	r, _ := utf8.DecodeRuneInString(s)
	return r
}

func guardComment(s Seg) string {
	blanks, sep := reBlanks, reSep
	if s.K == kBlock { // the only kind that can hold a line break
		blanks, sep = reBlanksNl, reSepBlock
	}
	if !blanks.MatchString(s.Lead) || !blanks.MatchString(s.Gap) {
		return "lead/gap must be blanks"
	}
	in := s.inner()
	if !utf8.ValidString(in) {
		return "comment text is not UTF-8"
	}
	switch s.K {
	case kLine:
		if strings.ContainsAny(in, "\r\n\u2028\u2029") {
			return "line break inside a line comment"
		}
	case kHash:
		if strings.ContainsAny(in, "\r\n\f") {
			return "line break inside a hash comment"
		}
	case kBlock:
		if strings.Contains(in, "*/") {
			return "terminator inside a block comment"
		}
		if strings.HasPrefix(in, "*") {
			return "doc comment (/**) is outside the domain"
		}
		if strings.Contains(in, "\r") && strings.Contains(strings.ReplaceAll(in, "\r\n", ""), "\r") {
			return "lone carriage return"
		}
	}
	if s.Mark == "" {
		if s.Sep != "" || s.Gap != "" {
			return "sep/gap without mark"
		}
		if beginsLikeMark(s.body()) {
			return "unmarked comment whose text begins like a mark"
		}
		return ""
	}
	if !isMark(s.Mark) {
		return "mark is not TODO/FIXME"
	}
	if !sep.MatchString(s.Sep) {
		return "separator form outside the domain"
	}
	if s.body() != "" {
		r := firstRune(s.body())
		if unicode.IsSpace(r) || r == ':' || r == '(' {
			return "message starts with blank, colon or parenthesis (ambiguous)"
		}
		if s.Sep == "" && s.Gap == "" && !strings.ContainsRune(punctAfterMark, r) {
			return "mark directly followed by text (ambiguous: TODOS)"
		}
	}
	return ""
}

// guardFile returns "" when the file is inside the domain.
func guardFile(f SrcFile) string {
	for i, s := range f.Segs {
		var next *Seg
		if i+1 < len(f.Segs) {
			next = &f.Segs[i+1]
		}
		if s.Fill != 0 {
			switch {
			case s.Fill < 0 || s.Fill > 70000:
				return fmt.Sprintf("segment %d: filler length outside 0..70000", i)
			case s.K == kWs && s.Fill > 2000:
				return fmt.Sprintf("segment %d: more than 2000 further line breaks", i)
			case s.K == kChr || s.K == kOpen:
				return fmt.Sprintf("segment %d: filler in a %s segment", i, s.K)
			case s.K == kCode && !reIdent.MatchString(s.T):
				return fmt.Sprintf("segment %d: filler after a code token that is not an identifier", i)
			}
		}
		switch s.K {
		case kCode:
			if !reCodeToken.MatchString(s.T) || strings.Contains(s.T, "//") || strings.Contains(s.T, "/*") {
				return fmt.Sprintf("segment %d: not a code token: %q", i, s.T)
			}
			if next != nil && strings.HasSuffix(s.T, "/") {
				if nt := next.text(); strings.HasPrefix(nt, "/") || strings.HasPrefix(nt, "*") {
					return fmt.Sprintf("segment %d: token %q joined with %q forms a comment marker", i, s.T, nt)
				}
			}
		case kWs:
			if !reWs.MatchString(s.T) || strings.Contains(strings.ReplaceAll(s.T, "\r\n", ""), "\r") {
				return fmt.Sprintf("segment %d: not white space", i)
			}
		case kStr:
			if !reStrInner.MatchString(s.T) || !utf8.ValidString(s.T) {
				return fmt.Sprintf("segment %d: not a string literal body: %q", i, s.T)
			}
		case kChr:
			if !reChrInner.MatchString(s.T) || !utf8.ValidString(s.T) {
				return fmt.Sprintf("segment %d: not a char literal body: %q", i, s.T)
			}
		case kLine, kHash, kBlock:
			if msg := guardComment(s); msg != "" {
				return fmt.Sprintf("segment %d: %s", i, msg)
			}
			if s.K != kBlock && next != nil {
				if next.K != kWs || !(strings.HasPrefix(next.T, "\n") || strings.HasPrefix(next.T, "\r\n")) {
					return fmt.Sprintf("segment %d: a line/hash comment must be followed by a line break", i)
				}
			}
		case kTpl:
			if strings.ContainsAny(s.T, "`\\") || strings.Contains(strings.ReplaceAll(s.T, "\r\n", ""), "\r") || !utf8.ValidString(s.T) {
				return fmt.Sprintf("segment %d: not a template literal body: %q", i, s.T)
			}
		case kOpen:
			if next != nil {
				return "unterminated block comment must be the last segment"
			}
			if !reOpenText.MatchString(s.T) || strings.HasPrefix(s.T, "*") {
				return "unterminated block comment text outside its alphabet"
			}
		default:
			return fmt.Sprintf("segment %d: unknown kind %q", i, s.K)
		}
	}
	return ""
}

func guardCase(c Case) string {
	if len(c.Filters) == 0 {
		return "no filter"
	}
	for _, f := range c.Filters {
		if !reFilter.MatchString(f) {
			return "filter is not a plain extension: " + f
		}
	}
	for _, f := range c.Filters2 {
		if !reFilter.MatchString(f) {
			return "filter is not a plain extension: " + f
		}
	}
	if c.OmitExt && strings.Join(c.Filters, ",") != strings.Join(selExts, ",") {
		return "-e may only be left out for the default list"
	}
	if c.Single != "" {
		ok := false
		for _, f := range c.Files {
			if f.Path == c.Single && selected(f.Path, c.Filters) {
				ok = true
			}
		}
		if !ok {
			return "single-file scan of a file that is not in the case or not selected"
		}
	}
	if c.FlagForm != 0 && (c.FlagForm < 2 || c.FlagForm > 4) {
		return "unknown spelling of the options"
	}
	if msg := guardFiles(c.Files); msg != "" {
		return msg
	}
	return guardFiles(c.Files2)
}

// guardFiles: the files of one state of the directory.
func guardFiles(files []SrcFile) string {
	seen := map[string]bool{}
	for _, f := range files {
		parts := strings.Split(f.Path, "/")
		for i, p := range parts {
			if strings.Contains(p, "testData") {
				return "path mentions testData (skipped by the tool's file walker by design)"
			}
			if len(p) > 255 {
				return "name longer than 255 bytes"
			}
			if i < len(parts)-1 && !rePathPart.MatchString(p) {
				return "directory name outside the domain: " + p
			}
		}
		if !reFileName.MatchString(parts[len(parts)-1]) {
			return "file name outside the domain: " + f.Path
		}
		for prefix := range seen { // a path may not be both a file and a directory
			if strings.HasPrefix(f.Path, prefix+"/") || strings.HasPrefix(prefix, f.Path+"/") {
				return "path is both file and directory"
			}
		}
		if seen[f.Path] {
			return "duplicate path"
		}
		seen[f.Path] = true
		if msg := guardFile(f); msg != "" {
			return f.Path + ": " + msg
		}
	}
	return ""
}

// ---- ground truth ----------------------------------------------------------------------------

type Entry struct {
	File     string
	Line     int
	Assignee string
	Message  string // normalised
	Block    bool   // expectation stems from a block comment
	// Padded (expectations only): the name stands between the parentheses with blanks next to a
	// parenthesis ("( bob )"). Assignee is the name without them; whether the report keeps those
	// outer blanks is left open by the statement, so they are not compared.
	Padded bool
}

// sepName: the text between the parentheses of a separator that has them.
func sepName(sep string) string { return sep[1:strings.LastIndex(sep, ")")] }

// sameAssignee: exact, except for the outer blanks of a padded name.
func sameAssignee(w, got Entry) bool {
	if w.Assignee == got.Assignee {
		return true
	}
	return w.Padded && w.Assignee == strings.Trim(got.Assignee, " ")
}

func (e Entry) String() string {
	if e.Padded {
		return fmt.Sprintf("{file %s line %d assignee %q (outer blanks free) message %q}", e.File, e.Line, e.Assignee, clip(e.Message))
	}
	return fmt.Sprintf("{file %s line %d assignee %q message %q}", e.File, e.Line, e.Assignee, clip(e.Message))
}

// normMessage: white space collapsed and trimmed. In block comments an asterisk counts as white
// space on both sides (the decoration of continuation lines is not message text, and the
// terminator is removed); in line and hash comments it is ordinary text.
func normMessage(s string, block bool) string {
	if block {
		s = strings.ReplaceAll(s, "*", " ")
	}
	return strings.Join(strings.Fields(s), " ")
}

func selected(path string, filters []string) bool {
	ext := path[strings.LastIndex(path, "."):]
	for _, f := range filters {
		if f == ext {
			return true
		}
	}
	return false
}

// expected returns the entries the statement demands and, per file, the line from which on
// entries are don't-care (the unterminated block comment at the end of the file; 0 = none).
func expected(c Case) ([]Entry, map[string]int) {
	var out []Entry
	open := map[string]int{}
	for _, f := range c.Files {
		if !selected(f.Path, c.Filters) {
			continue
		}
		line := 1
		for _, s := range f.Segs {
			if s.isComment() && s.Mark != "" {
				e := Entry{File: f.Path, Line: line, Message: normMessage(s.body(), s.K == kBlock), Block: s.K == kBlock}
				if strings.HasPrefix(s.Sep, "(") {
					name := sepName(s.Sep)
					e.Assignee = strings.Trim(name, " ")
					e.Padded = e.Assignee != name
				}
				out = append(out, e)
			}
			if s.K == kOpen {
				open[f.Path] = line
			}
			line += strings.Count(s.text(), "\n")
		}
	}
	return out, open
}

func sortEntries(es []Entry) {
	sort.Slice(es, func(i, j int) bool {
		a, b := es[i], es[j]
		if a.File != b.File {
			return a.File < b.File
		}
		if a.Line != b.Line {
			return a.Line < b.Line
		}
		if a.Assignee != b.Assignee {
			return a.Assignee < b.Assignee
		}
		return a.Message < b.Message
	})
}

// compare judges the reported entries (File relative, Message raw) against the expectation.
func compare(c Case, got []Entry) string {
	want, open := expected(c)
	known := map[string]SrcFile{}
	for _, f := range c.Files {
		known[f.Path] = f
	}
	var kept []Entry
	for _, e := range got {
		f, ok := known[e.File]
		if !ok {
			return fmt.Sprintf("entry %v names a file that is not in the scanned directory", e)
		}
		if !selected(f.Path, c.Filters) {
			return fmt.Sprintf("entry %v: the file's extension is not among the selected %v, it must not be scanned\n%s", e, c.Filters, show(f))
		}
		e.Message = normMessage(e.Message, false)
		kept = append(kept, e)
	}
	// match reported to expected entries: a reported entry fits an expectation of its file and line
	// when the assignee is the same (outer blanks of a padded name aside) and the message is the
	// same, or, for expectations that stem from a block comment, the same with asterisks in the
	// reported message read as white space. Several comments may share a line, and a padded
	// expectation fits more reports than a plain one, so the pairing is a maximum matching
	// (augmenting paths), not a greedy one.
	used := make([]bool, len(want))
	matched := make([]bool, len(kept))
	sortEntries(kept)
	fits := func(k, i int) bool {
		e, w := kept[k], want[i]
		if w.File != e.File || w.Line != e.Line || !sameAssignee(w, e) {
			return false
		}
		return w.Message == e.Message || (w.Block && w.Message == normMessage(e.Message, true))
	}
	owner := make([]int, len(want)) // expectation -> reported entry
	for i := range owner {
		owner[i] = -1
	}
	var try func(k int, seen []bool) bool
	try = func(k int, seen []bool) bool {
		for i := range want {
			if seen[i] || !fits(k, i) {
				continue
			}
			seen[i] = true
			if owner[i] < 0 || try(owner[i], seen) {
				owner[i] = k
				return true
			}
		}
		return false
	}
	for k := range kept {
		try(k, make([]bool, len(want)))
	}
	for i, k := range owner {
		if k >= 0 {
			used[i], matched[k] = true, true
		}
	}
	var unexpected []Entry
	for k, e := range kept {
		if matched[k] {
			continue
		}
		if from, has := open[e.File]; has && e.Line >= from {
			continue // produced by the unterminated tail: not judged
		}
		unexpected = append(unexpected, e)
	}
	var missing []Entry
	for i, w := range want {
		if !used[i] {
			missing = append(missing, w)
		}
	}
	if len(missing) == 0 && len(unexpected) == 0 {
		return ""
	}
	var sb strings.Builder
	file := ""
	if len(missing) > 0 {
		file = missing[0].File
		fmt.Fprintf(&sb, "missing entry %v", missing[0])
		for _, u := range unexpected {
			if u.File == file && u.Line == missing[0].Line {
				fmt.Fprintf(&sb, "; reported instead: %v", u)
			}
		}
	} else {
		file = unexpected[0].File
		fmt.Fprintf(&sb, "unexpected entry %v (no comment on that line begins with TODO/FIXME with this assignee and message)", unexpected[0])
	}
	fmt.Fprintf(&sb, " [%d missing, %d unexpected in all]\n%s", len(missing), len(unexpected), show(known[file]))
	return sb.String()
}

func show(f SrcFile) string {
	return fmt.Sprintf("--- %s ---\n%s\n--- as Go string: %q", f.Path, clip(f.text()), clip(f.text()))
}

var (
	reLongRun = regexp.MustCompile(`x{100,}|\n{40,}`)
)

// clip: long runs of the filler letter / of line breaks are abbreviated (messages stay readable
// and remain a pure function of the case).
func clip(s string) string {
	return reLongRun.ReplaceAllStringFunc(s, func(m string) string {
		if m[0] == '\n' {
			return fmt.Sprintf("\n<%d line breaks>\n", len(m)-2)
		}
		return fmt.Sprintf("xx<%d times x>", len(m)-2)
	})
}

// ---- validation with the shipped lexer -------------------------------------------------------

type errCounter struct {
	*antlr.DefaultErrorListener
	n     int
	first string
}

func (e *errCounter) SyntaxError(_ antlr.Recognizer, _ interface{}, line, column int, msg string, _ antlr.RecognitionException) {
	if e.n == 0 {
		e.first = fmt.Sprintf("line %d:%d %s", line, column, msg)
	}
	e.n++
}

// lexerRejects: the shipped lexer reports a token recognition error on the text (a generator
// problem by the framework's rules: the case is skipped and counted).
func lexerRejects(text string) (msg string) {
	defer func() {
		if r := recover(); r != nil {
			msg = "" // a crash is the scan's business, not a rejection
		}
	}()
	lexer := comment.NewCommentLexer(antlr.NewInputStream(text))
	lexer.RemoveErrorListeners()
	ec := &errCounter{DefaultErrorListener: antlr.NewDefaultErrorListener()}
	lexer.AddErrorListener(ec)
	lexer.GetAllTokens()
	if ec.n > 0 {
		return ec.first
	}
	return ""
}

// ---- running the tool --------------------------------------------------------------------------

func writeCase(c Case, root string) {
	if err := os.MkdirAll(root, 0755); err != nil {
		panic(err)
	}
	files := map[string]string{}
	for _, f := range c.Files {
		files[f.Path] = f.text()
	}
	cli.WriteTree(root, files)
}

var devNull, _ = os.OpenFile(os.DevNull, os.O_WRONLY, 0)

func relTo(root, name string) string {
	rel, err := filepath.Rel(root, name)
	if err != nil {
		return name
	}
	return filepath.ToSlash(rel)
}

func precheck(c Case) (pbt.Verdict, bool) {
	if msg := guardCase(c); msg != "" {
		if i := strings.Index(msg, ": "); i >= 0 && strings.Contains(msg[:i], ".") {
			msg = msg[i+2:] // drop the file name
		}
		if i := strings.Index(msg, ": "); i >= 0 && strings.HasPrefix(msg, "segment ") {
			msg = msg[i+2:]
		}
		if len(msg) > 60 {
			msg = msg[:60]
		}
		pbt.Count("outside_domain: "+msg, 1)
		return pbt.Verdict{Skip: true, Classes: []string{"outside_domain"}}, false
	}
	for _, f := range append(append([]SrcFile{}, c.Files...), c.Files2...) {
		if msg := lexerRejects(f.text()); msg != "" {
			pbt.Count("skipped_because_the_shipped_lexer_rejects_the_text", 1)
			return pbt.Verdict{Skip: true}, false
		}
	}
	return pbt.Verdict{}, true
}

// scanAPI runs one AnalysisPath call; file names are reported relative to root.
func scanAPI(app *todo.TodoApp, root, path string, filters []string) (got []Entry, crash string) {
	var todos []*astitodo.TODO
	stdout := os.Stdout
	os.Stdout = devNull // the scan prints one line per file
	p := pbt.Call(func() {
		if app == nil {
			fresh := todo.NewTodoApp()
			app = &fresh
		}
		todos = app.AnalysisPath(path, filters)
	})
	os.Stdout = stdout
	if p != "" {
		return nil, p
	}
	for _, t := range todos {
		if t == nil {
			return nil, "AnalysisPath returned a nil entry"
		}
		got = append(got, Entry{File: relTo(root, t.Filename), Line: t.Line, Assignee: t.Assignee, Message: t.Message})
	}
	return got, ""
}

// singleCase: the case reduced to the file named by Single.
func singleCase(c Case) Case {
	out := Case{Filters: c.Filters}
	for _, f := range c.Files {
		if f.Path == c.Single {
			out.Files = append(out.Files, f)
		}
	}
	return out
}

func checkAPI(c Case) pbt.Verdict {
	if v, ok := precheck(c); !ok {
		return v
	}
	scratch := cli.Scratch("c17-")
	defer os.RemoveAll(scratch)
	root := filepath.Join(scratch, "src")
	writeCase(c, root)
	dirArg := root
	if c.PathForm == 3 {
		dirArg = root + string(filepath.Separator)
	}
	// the sequence of scans: (what is scanned, with which filters, the case that says what to expect)
	type step struct {
		what    string
		path    string
		filters []string
		expect  Case
	}
	var app *todo.TodoApp // nil: a new one for every scan
	if c.SameApp {
		shared := todo.NewTodoApp()
		app = &shared
	}
	steps := []step{{"AnalysisPath(dir, %v)", dirArg, c.Filters, c}}
	if c.Twice {
		steps = append(steps, step{"second AnalysisPath(dir, %v) on the same directory", dirArg, c.Filters, c})
	}
	if len(c.Filters2) > 0 {
		c2 := Case{Files: c.Files, Filters: c.Filters2}
		steps = append(steps, step{"AnalysisPath(dir, %v) after a scan of the same directory with " + fmt.Sprint(c.Filters), dirArg, c.Filters2, c2})
		steps = append(steps, step{"AnalysisPath(dir, %v) after a scan of the same directory with " + fmt.Sprint(c.Filters2), dirArg, c.Filters, c})
	}
	if c.Single != "" {
		steps = append(steps, step{"AnalysisPath(" + c.Single + ", %v) (the file's own path instead of the directory)", filepath.Join(root, filepath.FromSlash(c.Single)), c.Filters, singleCase(c)})
	}
	for _, st := range steps {
		what := fmt.Sprintf(st.what, st.filters)
		got, crash := scanAPI(app, root, st.path, st.filters)
		if crash != "" {
			return pbt.Fail("%s crashed: %s\n%s", what, crash, showAll(c))
		}
		if msg := compare(st.expect, got); msg != "" {
			return pbt.Fail("%s: %s", what, msg)
		}
	}
	if len(c.Files2) > 0 {
		c3 := rewritten(c)
		os.RemoveAll(root)
		writeCase(c3, root)
		what := fmt.Sprintf("AnalysisPath(dir, %v) after the directory had been scanned, emptied and filled with other files", c.Filters)
		got, crash := scanAPI(app, root, dirArg, c.Filters)
		if crash != "" {
			return pbt.Fail("%s crashed: %s\n%s", what, crash, showAll(c3))
		}
		if msg := compare(c3, got); msg != "" {
			return pbt.Fail("%s: %s\nbefore:\n%s", what, msg, showAll(c))
		}
	}
	return classify(c)
}

// rewritten: the second state of the directory, scanned with the same filters.
func rewritten(c Case) Case { return Case{Files: c.Files2, Filters: c.Filters} }

// cliLayout: working directory, the -p argument ("" = none) and the base that reported file
// names are relative to.
func cliLayout(c Case, ws string) (cwd, arg, base string) {
	src := filepath.Join(ws, "src")
	switch c.PathForm {
	case 1:
		return ws, src, src
	case 2:
		return ws, "./src", "src"
	case 3:
		return ws, "src/", "src"
	case 4:
		return src, ".", "."
	case 5:
		return src, "", "."
	}
	return ws, "src", "src"
}

func cliArgs(c Case, arg string, filters []string, omitExt bool) []string {
	form := c.FlagForm
	if form == 0 && c.LongFlags {
		form = 1
	}
	var path, ext []string
	list := strings.Join(filters, ",")
	switch form {
	case 1:
		path, ext = []string{"--path", arg}, []string{"--ext=" + list}
	case 2:
		path, ext = []string{"--path=" + arg}, []string{"--ext", list}
	case 3:
		path, ext = []string{"-p=" + arg}, []string{"-e=" + list}
	case 4:
		path, ext = []string{"-p" + arg}, []string{"-e" + list}
	default:
		path, ext = []string{"-p", arg}, []string{"-e", list}
	}
	if arg == "" {
		path = nil
	}
	if omitExt {
		ext = nil
	}
	args := []string{"todo"}
	if c.ExtFirst {
		return append(append(args, ext...), path...)
	}
	return append(append(args, path...), ext...)
}

var reTableLine = regexp.MustCompile(`^\|.*\|$`)

// tableLines: the numbers in the last column of the table on stdout (one per entry; continuation
// lines of a wrapped cell have an empty last column), and the number of the "Todos Count" line.
func tableLines(stdout string) (lines []int, count int, msg string) {
	count = -1
	for _, l := range strings.Split(stdout, "\n") {
		l = strings.TrimRight(l, "\r ")
		if strings.HasPrefix(l, "Todos Count ") {
			if _, err := fmt.Sscanf(l, "Todos Count %d", &count); err != nil {
				return nil, 0, "unreadable line " + l
			}
			continue
		}
		if !reTableLine.MatchString(l) {
			continue
		}
		inner := strings.TrimSuffix(l, "|")
		last := strings.TrimSpace(inner[strings.LastIndex(inner, "|")+1:])
		var n int
		if _, err := fmt.Sscanf(last, "%d", &n); err == nil && fmt.Sprint(n) == last {
			lines = append(lines, n)
		}
	}
	return lines, count, ""
}

// runCLI runs one `coca todo` and judges simple-todos.json and the table against expect.
func runCLI(c Case, ws string, filters []string, omitExt bool, expect Case, pathOverride string) string {
	cwd, arg, base := cliLayout(c, ws)
	if pathOverride != "" {
		arg = pathOverride
	}
	args := cliArgs(c, arg, filters, omitExt)
	res, err := cli.Run("coca", cwd, nil, args...)
	if err != nil {
		return fmt.Sprintf("HARNESS: cannot run coca: %v", err)
	}
	clean := func(s string) string { return reUnstable.ReplaceAllString(strings.ReplaceAll(s, ws, "<ws>"), "…") }
	ctx := clean(fmt.Sprintf("coca %s\nexit %d\nstdout:\n%s\nstderr:\n%s\n%s", strings.Join(args, " "), res.ExitCode, tail(res.Stdout), tail(res.Stderr), showAll(expect)))
	if res.TimedOut || res.ExitCode != 0 {
		return fmt.Sprintf("`coca todo` did not complete normally (crash?)\n%s", ctx)
	}
	raw, err := os.ReadFile(filepath.Join(cwd, "coca_reporter", "simple-todos.json"))
	if err != nil {
		return fmt.Sprintf("coca_reporter/simple-todos.json was not written\n%s", ctx)
	}
	var todos []struct {
		Assignee string
		Filename string
		Line     int
		Message  string
	}
	if err := json.Unmarshal(raw, &todos); err != nil {
		return fmt.Sprintf("simple-todos.json is not a JSON list: %v\n%s", err, raw)
	}
	var got []Entry
	var jsonLines []int
	for _, t := range todos {
		got = append(got, Entry{File: relTo(base, t.Filename), Line: t.Line, Assignee: t.Assignee, Message: t.Message})
		jsonLines = append(jsonLines, t.Line)
	}
	if msg := compare(expect, got); msg != "" {
		return fmt.Sprintf("coca %s (simple-todos.json): %s", clean(strings.Join(args, " ")), msg)
	}
	// the table on stdout lists the same entries: as many rows as entries, the same line numbers
	tl, count, msg := tableLines(res.Stdout)
	if msg != "" {
		return msg + "\n" + ctx
	}
	if count != len(todos) {
		return fmt.Sprintf("stdout says 'Todos Count %d', simple-todos.json has %d entries\n%s", count, len(todos), ctx)
	}
	sort.Ints(tl)
	sort.Ints(jsonLines)
	if fmt.Sprint(tl) != fmt.Sprint(jsonLines) {
		return fmt.Sprintf("the table on stdout has rows for lines %v, simple-todos.json has entries for lines %v\n%s", tl, jsonLines, ctx)
	}
	return ""
}

var reUnstable = regexp.MustCompile(`profile\d+|\d{4}/\d\d/\d\d \d\d:\d\d:\d\d`)

func checkCLI(c Case) pbt.Verdict {
	if v, ok := precheck(c); !ok {
		return v
	}
	scratch := cli.Scratch("c17-")
	defer os.RemoveAll(scratch)
	ws := filepath.Join(scratch, "ws")
	writeCase(c, filepath.Join(ws, "src"))
	if msg := runCLI(c, ws, c.Filters, c.OmitExt, c, ""); msg != "" {
		return pbt.Fail("%s", msg)
	}
	if len(c.Filters2) > 0 {
		c2 := Case{Files: c.Files, Filters: c.Filters2}
		if msg := runCLI(c, ws, c.Filters2, false, c2, ""); msg != "" {
			return pbt.Fail("second run in the same working directory (first: -e %s): %s", strings.Join(c.Filters, ","), msg)
		}
	}
	if c.Single != "" && c.PathForm <= 3 {
		_, arg, _ := cliLayout(c, ws)
		if msg := runCLI(c, ws, c.Filters, false, singleCase(c), strings.TrimSuffix(arg, "/")+"/"+c.Single); msg != "" {
			return pbt.Fail("the file's own path instead of the directory: %s", msg)
		}
	}
	if len(c.Files2) > 0 {
		c3 := rewritten(c)
		os.RemoveAll(filepath.Join(ws, "src"))
		writeCase(c3, filepath.Join(ws, "src"))
		if msg := runCLI(c, ws, c.Filters, c.OmitExt, c3, ""); msg != "" {
			return pbt.Fail("run after the directory had been scanned, emptied and filled with other files: %s", msg)
		}
	}
	return classify(c)
}

func tail(s string) string {
	if len(s) > 1500 {
		return "…" + s[len(s)-1500:]
	}
	return s
}

func showAll(c Case) string {
	var sb strings.Builder
	for _, f := range c.Files {
		sb.WriteString(show(f))
		sb.WriteString("\n")
	}
	return sb.String()
}

// ---- classification ----------------------------------------------------------------------------

var reMention = regexp.MustCompile(`(?i)todo|fixme`)

// reSameLine: a comment marker (also one inside a literal) followed on the same line by blanks and
// TODO / FIXME. Only used to label files in which no reportable comment has that look.
var reSameLine = regexp.MustCompile(`(?i)(//|/\*|#)[ \t]*(todo|fixme)`)

// reLaterLineMark: inside a block comment, a later line that begins (after blanks and decoration) with a mark.
var reLaterLineMark = regexp.MustCompile(`(?i)\n[ \t*]*(//|#)?[ \t]*(todo|fixme)`)

// longLines: the numbers of the first line longer than 4096 and of the first longer than 65536 bytes (0 = none).
func longLines(text string) (past4k, past64k int) {
	for i, l := range strings.Split(text, "\n") {
		if len(l) > 4096 && past4k == 0 {
			past4k = i + 1
		}
		if len(l) > 65536 && past64k == 0 {
			past64k = i + 1
		}
	}
	return
}

func classify(c Case) pbt.Verdict {
	v := pbt.Verdict{}
	set := map[string]bool{}
	add := func(cond bool, name string) {
		if cond && !set[name] {
			set[name] = true
			v.Classes = append(v.Classes, name)
		}
	}
	var canon []string
	for _, f := range c.Files {
		sel := selected(f.Path, c.Filters)
		reportable, decoys, nlTodos := 0, 0, 0
		line := 1
		lastTodoLine := 0
		text := f.text()
		past4k, past64k := longLines(text)
		add(past4k > 0, "line_longer_than_4096_bytes")
		add(past64k > 0, "line_longer_than_65536_bytes")
		seenTodo := map[string]bool{}
		for _, s := range f.Segs {
			switch {
			case s.isComment() && s.Mark != "":
				if sel {
					reportable++
					add(true, "todo_in_"+s.K+"_comment")
					add(strings.HasPrefix(s.Sep, "("), "with_assignee")
					add(strings.HasSuffix(s.Sep, ":"), "with_colon")
					if strings.HasPrefix(s.Sep, "(") {
						name := sepName(s.Sep)
						add(!inList(names, strings.Trim(name, " ")), "assignee_built_from_the_alphabet")
						add(strings.HasPrefix(name, " "), "assignee_padded_left")
						add(strings.HasSuffix(name, " "), "assignee_padded_right")
						add(strings.HasPrefix(name, " ") && strings.HasSuffix(name, " "), "assignee_padded_on_both_sides")
						add(name != strings.Trim(name, " ") && s.Gap == "" && s.Body != "", "padded_assignee_directly_followed_by_text")
						add(strings.HasSuffix(s.Sep, ":") && !strings.HasSuffix(s.Sep, "):"), "blanks_between_assignee_and_colon")
					} else {
						add(len(s.Sep) > 1, "blanks_between_mark_and_colon")
					}
					add(s.Sep == "" && s.Gap == "" && s.Body == "", "marker_only")
					add(s.Lead == "", "no_blank_after_comment_marker")
					add(s.Mark != asciiUpper(s.Mark), "mark_not_upper_case")
					add(asciiUpper(s.Mark) == "FIXME", "fixme")
					add(line > 1, "todo_below_line_1")
					add(s.K == kBlock && strings.Contains(s.Body, "\n"), "multi_line_block_todo")
					add(strings.IndexFunc(s.Body, func(r rune) bool { return r > 127 }) >= 0, "non_ascii_message")
					add(strings.Contains(s.Body, "*") && s.K != kBlock, "asterisk_in_line_or_hash_message")
					add(s.Sep == "" && s.Gap == "" && s.Body != "", "punctuation_directly_after_mark")
					add(line >= 10, "todo_on_line_10_or_later")
					add(lastTodoLine == line, "two_todos_on_one_line")
					add(strings.Contains(s.Lead, "\n"), "block_todo_text_starts_on_a_later_line_than_the_marker")
					add(strings.Contains(s.Lead, "\r\n"), "block_todo_text_starts_after_crlf")
					add(strings.Count(s.Lead, "\n") > 1, "block_todo_text_starts_two_or_more_lines_below_the_marker")
					add(strings.Contains(s.Gap, "\n"), "block_todo_message_starts_on_a_later_line_than_the_mark")
					add(strings.Contains(s.Lead, "\n") && strings.Contains(s.Gap, "\n"), "block_todo_marker_mark_and_message_on_three_lines")
					add(strings.Contains(s.Sep, "\n"), "line_break_between_mark_and_colon")
					add(strings.Contains(s.Lead, "\n") && s.Sep == "" && s.Gap == "" && s.Body == "", "marker_only_on_a_later_line")
					add(len(s.Lead) >= 4 && !strings.Contains(s.Lead, "\n"), "four_or_more_blanks_after_comment_marker")
					add(len(s.Lead) > 8 && !strings.Contains(s.Lead, "\n"), "more_than_8_blanks_after_comment_marker")
					add(len(s.Gap) > 8 && !strings.Contains(s.Gap, "\n"), "more_than_8_blanks_before_the_message")
					add(line >= 100, "todo_on_line_100_or_later")
					add(line >= 1000, "todo_on_line_1000_or_later")
					add(s.Fill > 4096, "todo_message_longer_than_4096_bytes")
					add(s.Fill > 65536, "todo_message_longer_than_65536_bytes")
					add(s.Fill > 46341 && len(strings.Fields(s.body())) > 1, "todo_message_with_a_word_wider_than_46341_columns_and_another_word")
					add(past4k > 0 && line > past4k, "todo_below_a_line_longer_than_4096_bytes")
					add(past64k > 0 && line > past64k, "todo_below_a_line_longer_than_65536_bytes")
					add(s.K == kBlock && reLaterLineMark.MatchString(s.Body), "block_todo_with_a_mark_at_the_start_of_a_later_line")
					add(strings.HasPrefix(s.Sep, "(") && reMention.MatchString(s.Sep), "assignee_named_like_a_mark")
					add(seenTodo[s.text()], "same_todo_comment_twice_in_one_file")
					seenTodo[s.text()] = true
					add(reportable > 16, "more_than_16_todos_in_one_file")
					add(reportable > 64, "more_than_64_todos_in_one_file")
					if strings.Contains(s.Lead, "\n") {
						nlTodos++
					}
					lastTodoLine = line
				} else {
					add(true, "todo_in_file_with_unselected_extension")
				}
			case s.isComment():
				add(s.inner() == "", "empty_comment")
				add(s.K == kBlock && strings.Contains(s.Lead, "\n"), "ordinary_block_comment_opening_with_a_line_break")
				add(s.K == kBlock && s.Body == "" && strings.Contains(s.Lead, "\n"), "block_comment_of_blanks_and_line_breaks_only")
				add(utf8.RuneCountInString(s.inner()) == 1, "one_character_comment")
				add(s.K == kBlock && reLaterLineMark.MatchString(s.Body), "ordinary_block_comment_with_a_mark_at_the_start_of_a_later_line")
				add(s.Fill > 4096, "ordinary_comment_longer_than_4096_bytes")
				if reMention.MatchString(s.Body) {
					decoys++
					add(true, "comment_mentions_todo_later")
				}
			case s.K == kStr || s.K == kChr:
				if reMention.MatchString(s.T) || strings.Contains(s.T, "//") || strings.Contains(s.T, "/*") || strings.Contains(s.T, "#") {
					decoys++
					add(s.K == kStr, "string_literal_decoy")
					add(s.K == kChr, "char_literal_decoy")
				}
			case s.K == kTpl:
				if reMention.MatchString(s.T) || strings.Contains(s.T, "//") || strings.Contains(s.T, "/*") || strings.Contains(s.T, "#") {
					decoys++
					add(true, "template_literal_decoy")
				}
				add(strings.Contains(s.T, "\n"), "multi_line_template_literal")
			case s.K == kOpen:
				add(true, "unterminated_block_comment_at_end")
			case s.K == kCode:
				add(reMention.MatchString(s.T), "identifier_named_todo")
			case s.K == kWs:
				add(strings.Contains(s.T, "\r\n"), "crlf")
				add(strings.Contains(s.T, "\f"), "form_feed_between_tokens")
			}
			line += strings.Count(s.text(), "\n")
		}
		if sel && reportable > 0 && decoys > 0 {
			v.NonTrivial = true
		}
		add(len(f.Segs) == 0, "empty_file")
		add(f.Bom, "byte_order_mark")
		add(f.Bom && sel && len(f.Segs) > 0 && f.Segs[0].isComment() && f.Segs[0].Mark != "", "byte_order_mark_directly_before_a_todo_comment")
		add(sel && reportable > 0 && strings.Count(text, "\n") > 1 && strings.Count(text, "\n") == strings.Count(text, "\r\n"), "file_with_todos_whose_only_line_break_is_crlf")
		add(sel && reportable > 0 && nlTodos == reportable, "file_whose_every_todo_starts_on_a_later_line_than_its_marker")
		add(sel && reportable > 0 && !reSameLine.MatchString(f.text()), "file_with_todos_but_no_marker_followed_by_the_mark_on_its_own_line_anywhere")
		canon = append(canon, fmt.Sprintf("%v|%s|%s", sel, f.Path[strings.LastIndex(f.Path, "."):], f.text()))
	}
	add(v.NonTrivial, "reportable_and_decoy_in_one_file")
	add(len(c.Files) > 1, "several_files")
	add(len(c.Files) > 3, "more_than_3_files")
	add(len(c.Files) > 8, "more_than_8_files")
	add(len(c.Files) > 32, "more_than_32_files")
	bases := map[string]bool{}
	twins := map[string]bool{}
	anySelected := false
	for _, f := range c.Files {
		parts := strings.Split(f.Path, "/")
		add(bases[parts[len(parts)-1]], "same_file_name_in_two_directories")
		bases[parts[len(parts)-1]] = true
		base := parts[len(parts)-1]
		if selected(f.Path, c.Filters) {
			anySelected = true
			if e, _ := expected(Case{Files: []SrcFile{f}, Filters: c.Filters}); len(e) > 0 {
				add(twins[base+"\x00"+f.text()], "identical_file_with_todos_in_two_directories")
				twins[base+"\x00"+f.text()] = true
			}
		}
		stem := base[:strings.LastIndex(base, ".")]
		add(strings.Contains(strings.TrimPrefix(stem, "."), "."), "file_name_with_several_dots")
		add(strings.HasPrefix(base, "."), "hidden_file")
		add(strings.Contains(base, " "), "file_name_with_blank")
		add(strings.Contains(base, "$"), "file_name_with_dollar")
		add(len(base) > 200, "file_name_longer_than_200_bytes")
		add(strings.IndexFunc(f.Path, func(r rune) bool { return r > 127 }) >= 0, "non_ascii_file_or_directory_name")
		add(strings.Contains(strings.Join(parts[:len(parts)-1], "/"), " "), "directory_name_with_blank")
		add(reMention.MatchString(f.Path), "path_mentions_todo")
		add(len(parts) > 6, "directory_six_or_more_levels_deep")
		for _, d := range parts[:len(parts)-1] {
			add(strings.HasPrefix(d, "."), "hidden_directory")
			add(d == "vendor" || d == "node_modules" || d == "build" || d == "target" || d == "testdata", "directory_that_tools_often_skip")
			for _, e := range c.Filters {
				add(strings.HasSuffix(d, e), "directory_named_like_a_selected_file")
			}
		}
		add(len(parts) > 4, "deep_directory")
	}
	add(c.Twice, "scanned_twice")
	add(len(c.Filters2) > 0, "second_scan_with_other_filters")
	add(c.Single != "", "single_file_path")
	add(c.PathForm != 0, "path_respelled")
	add(c.OmitExt, "default_extension_list(-e omitted)")
	add(c.LongFlags, "long_flags")
	add(!anySelected, "no_file_selected")
	add(len(dedup(c.Filters)) < len(c.Filters), "one_extension_twice_in_the_filter_list")
	add(c.SameApp, "one_TodoApp_value_for_all_scans")
	add(len(c.Files2) > 0, "directory_rewritten_between_scans")
	for _, f2 := range c.Files2 {
		for _, f := range c.Files {
			add(f.Path == f2.Path && f.text() != f2.text() && selected(f.Path, c.Filters), "selected_file_rewritten_under_the_same_path")
		}
	}
	add(c.FlagForm == 2, "options_spelled_--path=v_--ext_v")
	add(c.FlagForm == 3, "options_spelled_-p=v_-e=v")
	add(c.FlagForm == 4, "options_spelled_-pv_-ev")
	add(c.ExtFirst, "ext_option_before_path_option")
	for _, e := range c.Filters {
		add(!strings.Contains(strings.Join(selExts, ",")+",", e+","), "filter_outside_the_default_list")
	}
	sort.Strings(canon)
	v.Canon = strings.Join(canon, "\x00")
	return v
}

// ---- generator ---------------------------------------------------------------------------------
// All choices go through the chooser interface so that the same construction is driven by rapid
// (property runs, shrinking towards 0 = the plain variant) and by raw bytes (native fuzzing).

type chooser interface {
	n(max int) int // a number in 0..max
}

type rapidChooser struct{ t *rapid.T }

func (r rapidChooser) n(max int) int {
	if max <= 0 {
		return 0
	}
	return rapid.IntRange(0, max).Draw(r.t, "n")
}

type byteChooser struct {
	data []byte
	pos  int
}

func (b *byteChooser) n(max int) int {
	if max <= 0 || b.pos >= len(b.data) {
		return 0
	}
	v := int(b.data[b.pos])
	b.pos++
	return v % (max + 1)
}

func pick(ch chooser, list []string) string { return list[ch.n(len(list)-1)] }

// signatureIdents: identifiers (and one operator run) whose first bytes are the magic numbers content sniffers know
var signatureIdents = []string{"BMI_LIMIT", "BM", "ID3_HEADER", "OTTO", "ttcf", "wOFF2", "GIF89a", "GIF87a", "RIFFxxxxWAVEfmt", "RIFFxxxxAVI", "PK", "MZ", "Rar", "FORMxxxxAIFF", "MThd", "OggS", "fLaC", "FWS", "ustar", "II", "MM"}

var (
	idents     = []string{"x", "foo", "TODO", "todo", "FIXME", "i1", "$v", "_a", "naïve", "变量", "class", "return", "true", "null"}
	numbers    = []string{"0", "42", "3.14", "0x1F", "1e9", "1_000", "10L", ".5", "07"}
	operators  = []string{"=", "+", "-", "*", "/", "==", "<=", "->", "::", "&&", "/=", "*=", "%", "!", "~", "?", ":", "++", "...", "@", ">>>=", "|"}
	separators = []string{";", "(", ")", "{", "}", "[", "]", ",", "."}
	wsList     = []string{" ", "\n", "", "\t", "  ", "\n\n", " \n", "\n    ", "\r\n", "\n\t", "\n\n\n\n\n\n\n\n\n\n\n"}
	leads      = []string{" ", "", "\t", "  ", " \t ", "    ", "\t\t", "        ", " \t  \t ", "                 ", "\t\t\t\t\t\t\t\t\t\t", strings.Repeat(" ", 70)}
	// block comments only: line breaks between the comment marker and the text, between the mark
	// (or its separator) and the message, between the mark or '(name)' and the colon
	nlLeads     = []string{"\n", "\n ", "\n  ", "\n\t", " \n", "\r\n", "\n\n", "\n    ", " \t\n \t", "\r\n  ", "\n\n\n", "  \n"}
	nlGaps      = []string{"\n", "\n ", "\n   ", " \n", "\r\n", "\n\t", "\n\n", " \n  "}
	nlColonGaps = []string{"\n", " \n", "\n ", "\r\n"}
	nameChars   = []string{"a", "Z", "7", "_", ".", "+", "-", "@"}
	pads        = []string{" ", "  ", "   "}                       // blanks of the assignee alphabet (space only)
	colonGaps   = []string{"", "", "", "", " ", "\t", "  ", " \t"} // between the mark or '(name)' and the colon
	marks       = []string{"TODO", "FIXME", "todo", "fixme", "Todo", "FixMe", "tOdO", "ToDo", "FIXme", "toDO"}
	names       = []string{"bob", "a", "phodal", "j.doe", "a b", "x@y.z", "me+you", "A_1", "k-9", "a  b", "Bob", "B", "9lives", "QA", "very.long_name-with+all@kinds.of.chars", "_", "007", "a.b.c", "todo", "FIXME", "todo.bot"}
	strPieces   = []string{"a", " ", "//", "/*", "*/", "#", "TODO", "TODO: x", "FIXME(bob): y", "// TODO: z", "/* todo */", "# fixme", `\n`, `\"`, `\\`, `\'`, `\u0041`, `\0`, `\177`, "'", "é", "x=1;", "%s", "😀"}
	chrList     = []string{"a", "#", "/", "*", `"`, `\'`, `\\`, `\n`, `\u0041`, "é", " ", `\7`, "T"}
	// message / comment text pieces; line breaks are added for block comments only
	textPieces = []string{"fix", " ", "this", "  ", "a", "TODO", "todo:", "FIXME", " later", "(x)", ":", "/*", "//", "#", `"`, "'", "é", "日本語", "—", "b1", ".", ",", "(bob)", "@", "-", "+", `\`, "`", "{}", "x=1;", "\t", "see TODO", "not a fixme", "!", "/", "T", "TOD", "FIX ME", "xTODO", "_FIXME", "to do", "|", "// TODO: z", "# FIXME y", "TODO(bob): w", "FIXM", "TODo", "😀"}
	starPieces = []string{"*", " * ", "**", "a*b", "*/"}
	nlPieces   = []string{"\n", "\n * ", "\n\t", "\n *", "\r\n", "\n\n", "\n * TODO: y", "\nFIXME(x): z", "\n// todo: w", "\n# TODO"}
	openPieces = []string{"a", " ", "TODO", "TODO: x", "\n", "fixme(b) y", ".", "(", ")", "1"}
	selExts    = []string{".java", ".py", ".go", ".ts", ".js", ".kt", ".groovy", ".gradle"}
	otherExts  = []string{".txt", ".ajava", ".mjs", ".javax", ".java~", ".java.txt", ".jav", ".kts", ".gradle.kts", ".c", ".rb", ".md", ".pyc", ".tsx", ".json", ".cc", ".hh", ".f90x", ".c+", ".h2"}
	extraExts  = []string{".c", ".rb", ".txt", ".h", ".f90", ".c++", ".m4", ".s"}
	stemList   = []string{"a", "Main", "b_1", "Todo", "x", "util", "java", "my-file", "py", "a.min", "Foo.test", "x.py", "My File", "naïve", "变量", "A$1", ".eslintrc", "TODO", "v1.2.3", longStem}
	// dirList: "" = the scanned directory itself. Hidden directories, directories that tools
	// commonly skip (vendor, node_modules, build, target, testdata), deep nesting, and directories
	// whose name ends in a selected extension (highlight.js, pkg.java, x.py, app.go) are directories
	// like any other: the files in them are scanned, the directories themselves are not files.
	dirList   = []string{"", "", "pkg", "pkg/inner", "src", "java", ".hidden", "vendor/lib", "node_modules/highlight.js", "build", "target/classes", "testdata", "test-data", "a/b/c/d", "pkg.java", "x.py", "app.go/cmd", "v1.2", "my dir", "módulo/TODO", "src/main/java/com/example/app"}
	tplPieces = []string{"a", " ", "//", "/*", "*/", "#", "TODO", "TODO: x", "// FIXME(bob): y", "\n", "\n# todo: z\n", "/* todo */", "'", "\"", "${x}", "é", "\n// TODO: in a raw string"}
)

// longStem: a file name near the usual limit of 255 bytes.
var longStem = "long_" + strings.Repeat("n", 200)

// fills: lengths of the filler: past 128, past 4096 (a common buffer size) and past 65536 (a common
// limit on the length of one line); lineFills: further line breaks, so that line numbers pass 100 and 1000.
var (
	fills     = []int{130, 4100, 4100, 66000}
	lineFills = []int{120, 1100}
)

// dotDirsAllowed: directories whose name ends in a selected extension (feature switch of a finding).
func dotDirsAllowed() bool { return !pbt.Excluded("directory_named_like_a_selected_file") }

// starAllowed: an asterisk inside the message of a line or hash comment (feature switch of a
// finding; see known_findings.json).
func starAllowed() bool { return !pbt.Excluded("asterisk_in_line_or_hash_message") }

// hugeWordAllowed: a word of more than 46341 characters in the message of a reportable comment
// (feature switch of a finding: the table of `coca todo` never finishes on it).
func hugeWordAllowed() bool { return !pbt.Excluded("word_wider_than_46341_columns_in_todo_message") }

// hashAllowed: hash comments at all (feature switch of a finding).
func hashAllowed() bool { return !pbt.Excluded("hash_comment") }

func genText(ch chooser, kind string, maxPieces int, star bool) string {
	var sb strings.Builder
	n := ch.n(maxPieces)
	for i := 0; i < n; i++ {
		switch k := ch.n(11); {
		case k <= 7:
			sb.WriteString(pick(ch, textPieces))
		case k <= 9:
			if kind == kBlock {
				sb.WriteString(pick(ch, nlPieces))
			} else {
				sb.WriteString(pick(ch, textPieces))
			}
		default:
			if kind == kBlock || star {
				sb.WriteString(pick(ch, starPieces))
			} else {
				sb.WriteString(pick(ch, textPieces))
			}
		}
	}
	s := sb.String()
	if kind == kBlock {
		// no terminator inside (also not one formed by two adjacent pieces)
		for strings.Contains(s, "*/") {
			s = strings.ReplaceAll(s, "*/", "* /")
		}
	}
	return s
}

// genName: a name from the list, now and then padded with spaces inside the parentheses on the
// left, on the right or on both sides (0 = the bare name).
func genName(ch chooser) string {
	name := pick(ch, names)
	if ch.n(5) == 5 { // built from 1-5 characters of the assignee alphabet, no outer blank
		var sb strings.Builder
		sb.WriteString(pick(ch, nameChars))
		for i, m := 0, ch.n(4); i < m; i++ {
			if i == m-1 {
				sb.WriteString(pick(ch, nameChars))
			} else {
				sb.WriteString(pick(ch, append([]string{" "}, nameChars...)))
			}
		}
		name = sb.String()
	}
	switch ch.n(7) {
	case 4:
		name = pick(ch, pads) + name
	case 5:
		name = name + pick(ch, pads)
	case 6, 7:
		name = pick(ch, pads) + name + pick(ch, pads)
	}
	return name
}

func genComment(ch chooser, kind string) Seg {
	s := Seg{K: kind}
	s.Lead = pick(ch, leads)
	shape := ch.n(9)
	star := starAllowed()
	switch {
	case shape <= 4: // reportable
		s.Mark = pick(ch, marks)
		switch ch.n(4) {
		case 0:
			s.Sep = ":"
		case 1:
			s.Sep = ""
		case 2:
			s.Sep = "(" + genName(ch) + ")"
		case 3:
			s.Sep = "(" + genName(ch) + ")" + pick(ch, colonGaps) + ":"
		default:
			s.Sep = pick(ch, colonGaps) + ":"
		}
		s.Gap = pick(ch, leads)
		s.Body = genText(ch, kind, 5, star)
		shape2 := ch.n(9)
		if shape2 == 9 { // marker only
			s.Sep, s.Gap, s.Body = "", "", ""
		}
		// keep the message inside the unambiguous forms
		s.Body = strings.TrimLeftFunc(s.Body, func(r rune) bool { return unicode.IsSpace(r) || r == ':' || r == '(' })
		if shape2 == 8 { // punctuation directly after the mark: "TODO- x", "FIXME. y"
			s.Sep, s.Gap = "", ""
			punct := string(punctAfterMark[ch.n(len(punctAfterMark)-1)])
			if kind == kBlock && punct == "/" && s.Body == "" {
				punct = "-" // "TODO/" + "*/" would read "TODO/*/"; harmless, but keep the text plain
			}
			s.Body = punct + s.Body
		}
		if s.Sep == "" && s.Gap == "" && s.Body != "" && !strings.ContainsRune(punctAfterMark, firstRune(s.Body)) {
			s.Gap = " "
		}
	case shape <= 7: // ordinary comment, possibly mentioning TODO later
		s.Body = genText(ch, kind, 5, true)
		s.Body = strings.TrimLeft(s.Body, " \t")
		for beginsLikeMark(s.Body) {
			s.Body = "see " + strings.TrimLeftFunc(s.Body, unicode.IsSpace)
		}
	case shape == 8: // empty or one character
		s.Lead = ""
		if ch.n(1) == 1 {
			s.Body = pick(ch, []string{"x", "T", ":", "(", "/", "#", "é", "!", "t"})
		}
	default: // blanks only
		s.Lead = pick(ch, leads)
	}
	if kind == kBlock && shape != 8 {
		// line breaks inside the comment, before the text / the message / the colon (0 = none):
		// the comment still starts on the line of its marker, and its text still begins with the mark
		nl := ch.n(7)
		if nl == 4 || nl == 5 || nl == 7 {
			s.Lead = pick(ch, nlLeads)
		}
		if (nl == 3 || nl == 5) && s.Mark != "" && !(s.Sep == "" && s.Gap == "" && s.Body != "") {
			s.Gap = pick(ch, nlGaps)
		}
		if (nl == 6 || nl == 7) && strings.HasSuffix(s.Sep, ":") {
			s.Sep = strings.TrimRight(strings.TrimSuffix(s.Sep, ":"), " \t") + pick(ch, nlColonGaps) + ":"
		}
	}
	if kind == kBlock && strings.HasPrefix(s.inner(), "*") {
		s.Lead = " " + s.Lead
	}
	return s
}

func genStr(ch chooser) Seg {
	var sb strings.Builder
	n := ch.n(4)
	for i := 0; i < n; i++ {
		sb.WriteString(pick(ch, strPieces))
	}
	return Seg{K: kStr, T: sb.String()}
}

func genSegs(ch chooser, maxSegs int) []Seg {
	var segs []Seg
	n := ch.n(maxSegs)
	for i := 0; i < n; i++ {
		var s Seg
		switch k := ch.n(15); {
		case k <= 1:
			s = Seg{K: kCode, T: pick(ch, idents)}
		case k == 2:
			if ch.n(2) == 2 {
				var sb strings.Builder
				m := ch.n(4)
				for i := 0; i < m; i++ {
					sb.WriteString(pick(ch, tplPieces))
				}
				s = Seg{K: kTpl, T: sb.String()}
			} else {
				s = Seg{K: kCode, T: pick(ch, idents)}
			}
		case k == 3:
			s = Seg{K: kCode, T: pick(ch, numbers)}
		case k == 4:
			s = Seg{K: kCode, T: pick(ch, operators)}
		case k == 5:
			s = Seg{K: kCode, T: pick(ch, separators)}
		case k <= 7:
			s = genStr(ch)
		case k == 8:
			s = Seg{K: kChr, T: pick(ch, chrList)}
		case k <= 11:
			s = genComment(ch, kLine)
		case k <= 13:
			s = genComment(ch, kBlock)
		default:
			if hashAllowed() {
				s = genComment(ch, kHash)
			} else {
				s = genComment(ch, kLine)
			}
		}
		// separator before the segment
		ws := pick(ch, wsList)
		if len(segs) > 0 {
			prev := segs[len(segs)-1]
			if prev.K == kLine || prev.K == kHash {
				if !strings.HasPrefix(ws, "\n") && !strings.HasPrefix(ws, "\r\n") {
					ws = "\n" + ws
				}
			}
			if prev.K == kCode && strings.HasSuffix(prev.T, "/") && ws == "" {
				if t := s.text(); strings.HasPrefix(t, "/") || strings.HasPrefix(t, "*") {
					ws = " "
				}
			}
		}
		if ws != "" {
			segs = append(segs, Seg{K: kWs, T: ws})
		}
		segs = append(segs, s)
	}
	segs = genExtras(ch, segs)
	// end of file: nothing, a line break, or an unterminated block comment
	switch ch.n(7) {
	case 0, 1, 2, 3:
		segs = append(segs, Seg{K: kWs, T: "\n"})
	case 4:
		if len(segs) > 0 && (segs[len(segs)-1].K == kLine || segs[len(segs)-1].K == kHash) {
			segs = append(segs, Seg{K: kWs, T: "\n"})
		} else if len(segs) > 0 && segs[len(segs)-1].K == kCode && strings.HasSuffix(segs[len(segs)-1].T, "/") {
			segs = append(segs, Seg{K: kWs, T: " "})
		}
		var sb strings.Builder
		m := ch.n(4)
		for i := 0; i < m; i++ {
			sb.WriteString(pick(ch, openPieces))
		}
		segs = append(segs, Seg{K: kOpen, T: strings.TrimLeft(sb.String(), "*")})
	}
	return segs
}

// sepAfter: white space that may follow the last segment so far: it begins with a line break
// when that segment is a line or hash comment.
func sepAfter(segs []Seg, ws string) string {
	if len(segs) > 0 && (segs[len(segs)-1].K == kLine || segs[len(segs)-1].K == kHash) && !strings.HasPrefix(ws, "\n") {
		return "\n" + ws
	}
	return ws
}

func toCRLF(s string) string {
	return strings.ReplaceAll(strings.ReplaceAll(s, "\r\n", "\n"), "\n", "\r\n")
}

// genExtras: rarer shapes of one file, each behind its own draw (0 = the file stays as it is):
// an earlier comment once more, a long list of reportable comments, one very long segment, one long
// run of line breaks, CRLF as the file's only line break.
func genExtras(ch chooser, segs []Seg) []Seg {
	// the same comment once more, on a later line or (after a block comment) on the same line
	if ch.n(11) == 11 {
		var comments []int
		for i, s := range segs {
			if s.isComment() {
				comments = append(comments, i)
			}
		}
		if len(comments) > 0 {
			dup := segs[comments[ch.n(len(comments)-1)]]
			ws := pick(ch, []string{"\n", " ", "\n\n", ""})
			if last := segs[len(segs)-1]; last.K == kCode && strings.HasSuffix(last.T, "/") && ws == "" {
				ws = " "
			}
			if ws = sepAfter(segs, ws); ws != "" {
				segs = append(segs, Seg{K: kWs, T: ws})
			}
			segs = append(segs, dup)
		}
	}
	// many reportable comments, one per line: 9 to 100 of them
	if ch.n(29) == 29 {
		n := 9 + ch.n(91)
		kinds := []string{kLine, kBlock, kHash}
		if !hashAllowed() {
			kinds[2] = kLine
		}
		for i := 0; i < n; i++ {
			segs = append(segs, Seg{K: kWs, T: "\n"})
			segs = append(segs, Seg{K: kinds[ch.n(2)], Lead: " ", Mark: pick(ch, marks), Sep: ":", Gap: " ", Body: fmt.Sprintf("item %d", i)})
		}
	}
	// one very long segment
	if ch.n(24) == 24 && len(segs) > 0 {
		i := ch.n(len(segs) - 1)
		s := &segs[i]
		switch {
		case s.K == kWs:
			s.Fill = lineFills[ch.n(len(lineFills)-1)]
		case s.K == kStr || s.K == kTpl || s.isComment() || (s.K == kCode && reIdent.MatchString(s.T)):
			s.Fill = fills[ch.n(len(fills)-1)]
			if s.isComment() && s.Mark != "" && s.Fill > 46000 && !hugeWordAllowed() {
				s.Fill = 4100
			}
			if s.isComment() && s.Mark != "" && s.Sep == "" && s.Gap == "" && s.Body == "" {
				s.Gap = " " // "TODO xxx", not "TODOxxx"
			}
		}
	}
	// a form feed at the end of one run of white space (a line break that must follow a line or
	// hash comment stays in front of it)
	if ch.n(14) == 14 {
		var wss []int
		for i, s := range segs {
			if s.K == kWs {
				wss = append(wss, i)
			}
		}
		if len(wss) > 0 {
			i := wss[ch.n(len(wss)-1)]
			segs[i].T += pick(ch, []string{"\f", "\f\n", " \f "})
		}
	}
	// CRLF throughout
	if ch.n(14) == 14 {
		for i := range segs {
			s := &segs[i]
			switch s.K {
			case kWs, kTpl:
				s.T = toCRLF(s.T)
			case kBlock:
				s.Lead, s.Sep, s.Gap, s.Body = toCRLF(s.Lead), toCRLF(s.Sep), toCRLF(s.Gap), toCRLF(s.Body)
			}
		}
	}
	return segs
}

// genFilters: the CLI's default list, or a subset, possibly with an extra extension.
func genFilters(ch chooser) []string {
	var out []string
	switch ch.n(3) {
	case 0:
		out = append(out, selExts...)
	default:
		k := 1 + ch.n(3)
		off := ch.n(len(selExts) - 1)
		for i := 0; i < k; i++ {
			out = append(out, selExts[(off+i*3)%len(selExts)])
		}
		if ch.n(5) == 0 {
			out = append(out, pick(ch, extraExts))
		}
	}
	out = dedup(out)
	if ch.n(9) == 9 { // one extension named twice ("-e .java,.py,.java")
		out = append(out, out[ch.n(len(out)-1)])
	}
	return out
}

func genCase(ch chooser, maxFiles, maxSegs int) Case {
	return genCaseFor(ch, maxFiles, maxSegs, false)
}

// genCaseFor: forCLI adds the choices that only the command line has (spelling and order of the options).
func genCaseFor(ch chooser, maxFiles, maxSegs int, forCLI bool) Case {
	c := Case{}
	c.Filters = genFilters(ch)
	nFiles := 1 + ch.n(maxFiles-1)
	if ch.n(7) == 7 {
		nFiles += 2
	}
	used := map[string]bool{}
	clash := func(path string) bool { // taken, or file and directory at once
		if used[path] {
			return true
		}
		for u := range used {
			if strings.HasPrefix(u, path+"/") || strings.HasPrefix(path, u+"/") {
				return true
			}
		}
		return false
	}
	dotDirs := dotDirsAllowed()
	for i := 0; i < nFiles; i++ {
		var ext string
		switch k := ch.n(9); {
		case k <= 5:
			ext = pick(ch, c.Filters)
		case k <= 7:
			ext = pick(ch, otherExts)
		default:
			ext = pick(ch, selExts)
		}
		dir := pick(ch, dirList)
		if !dotDirs {
			for _, part := range strings.Split(dir, "/") {
				if strings.Contains(strings.TrimPrefix(part, "."), ".") && part != "v1.2" {
					dir = "pkg"
				}
			}
		}
		name := pick(ch, stemList)
		mk := func() string {
			if dir != "" {
				return dir + "/" + name + ext
			}
			return name + ext
		}
		path := mk()
		for tries := 0; clash(path); tries++ {
			name += "x"
			if tries >= 2 { // the directory itself is taken by a file (x.py and x.py/...)
				dir = "alt"
			}
			path = mk()
		}
		used[path] = true
		f := SrcFile{Path: path, Segs: genSegs(ch, maxSegs), Bom: ch.n(19) == 19}
		if f.Bom && len(f.Segs) > 1 && f.Segs[0].K == kWs && ch.n(1) == 1 {
			f.Segs = f.Segs[1:] // the first token directly after the byte order mark
		}
		// seventh seed batch: a source text whose first bytes read like the signature of a binary format
		// (a script that opens with the constant BMI_LIMIT, ID3_HEADER, GIF89a ...) is still a source text
		if !f.Bom && ch.n(9) == 9 {
			f.Segs = append([]Seg{{K: kCode, T: pick(ch, signatureIdents)}, {K: kWs, T: pick(ch, []string{" ", "\n", " = 1\n"})}}, f.Segs...)
		}
		c.Files = append(c.Files, f)
	}
	// the same file (name and text) once more in another directory
	if ch.n(14) == 14 {
		src := c.Files[ch.n(len(c.Files)-1)]
		if path := "copy/" + src.Path; !clash(path) {
			used[path] = true
			c.Files = append(c.Files, SrcFile{Path: path, Segs: append([]Seg{}, src.Segs...), Bom: src.Bom})
		}
	}
	// many files: 7 to 40 more, small ones
	if ch.n(39) == 39 {
		n := 7 + ch.n(33)
		for i := 0; i < n; i++ {
			ext := pick(ch, c.Filters)
			if ch.n(3) == 3 {
				ext = pick(ch, otherExts)
			}
			path := fmt.Sprintf("%sf%d%s", pick(ch, []string{"", "many/", "many/more/", "pkg/"}), i, ext)
			if clash(path) {
				continue
			}
			used[path] = true
			segs := []Seg{{K: kLine, Lead: " ", Mark: pick(ch, marks), Sep: ":", Gap: " ", Body: fmt.Sprintf("file %d", i)}, {K: kWs, T: "\n"}}
			c.Files = append(c.Files, SrcFile{Path: path, Segs: append(segs, genSegs(ch, 2)...)})
		}
	}
	// sequences and spellings (0 = the plain variant: one scan of the directory)
	if ch.n(5) == 5 {
		c.Twice = true
	}
	if ch.n(4) == 4 {
		c.Filters2 = genFilters(ch)
	}
	if ch.n(4) == 4 {
		var sel []string
		for _, f := range c.Files {
			if selected(f.Path, c.Filters) {
				sel = append(sel, f.Path)
			}
		}
		if len(sel) > 0 {
			c.Single = pick(ch, sel)
		}
	}
	if ch.n(1) == 1 {
		c.PathForm = ch.n(5)
	}
	if strings.Join(c.Filters, ",") == strings.Join(selExts, ",") && ch.n(1) == 1 {
		c.OmitExt = true
	}
	if ch.n(3) == 3 {
		c.LongFlags = true
	}
	// the directory in a second state: one or two files, under paths of the first state (other
	// content) or under new ones
	if ch.n(9) == 9 {
		n := 1 + ch.n(1)
		used2 := map[string]bool{}
		for i := 0; i < n; i++ {
			path := c.Files[ch.n(len(c.Files)-1)].Path
			if ch.n(2) == 2 || used2[path] {
				path = fmt.Sprintf("second/%s%d%s", pick(ch, stemList), i, pick(ch, c.Filters))
			}
			ok := !used2[path]
			for u := range used2 {
				if strings.HasPrefix(u, path+"/") || strings.HasPrefix(path, u+"/") {
					ok = false
				}
			}
			if !ok {
				continue
			}
			used2[path] = true
			c.Files2 = append(c.Files2, SrcFile{Path: path, Segs: genSegs(ch, maxSegs/2)})
		}
	}
	if !forCLI && (c.Twice || len(c.Filters2) > 0 || c.Single != "" || len(c.Files2) > 0) && ch.n(1) == 1 {
		c.SameApp = true
	}
	if forCLI {
		if ch.n(2) == 2 {
			c.FlagForm = 2 + ch.n(2)
		}
		if ch.n(3) == 3 {
			c.ExtFirst = true
		}
	}
	return c
}

func inList(list []string, s string) bool {
	for _, x := range list {
		if x == s {
			return true
		}
	}
	return false
}

func dedup(in []string) []string {
	seen := map[string]bool{}
	var out []string
	for _, s := range in {
		if !seen[s] {
			seen[s] = true
			out = append(out, s)
		}
	}
	return out
}

func sizes() (files, segs int) {
	if pbt.Tier() == "thorough" {
		return 3, 18
	}
	return 2, 12
}

func genAPI(t *rapid.T) Case {
	f, s := sizes()
	return genCase(rapidChooser{t}, f, s)
}

func genCLI(t *rapid.T) Case {
	return genCaseFor(rapidChooser{t}, 3, 14, true)
}

// genDefaults: `coca todo` without -e. One file for every extension of the documented default
// list (each starting with a reportable comment, so that a dropped extension shows) plus files
// with other extensions; the directory is named in one of the six ways.
func genDefaults(t *rapid.T) Case {
	ch := rapidChooser{t}
	c := Case{Filters: append([]string{}, selExts...), OmitExt: true}
	head := []Seg{{K: kLine, Lead: " ", Mark: "TODO", Sep: ":", Gap: " ", Body: "first"}, {K: kWs, T: "\n"}}
	exts := append(append([]string{}, selExts...), pick(ch, otherExts), pick(ch, otherExts))
	for i, ext := range exts {
		dir := pick(ch, []string{"", "pkg", "a/b/c/d", ".hidden", "vendor/lib"})
		path := fmt.Sprintf("%s%d%s", pick(ch, stemList), i, ext)
		if dir != "" {
			path = dir + "/" + path
		}
		c.Files = append(c.Files, SrcFile{Path: path, Segs: append(append([]Seg{}, head...), genSegs(ch, 6)...)})
	}
	c.PathForm = ch.n(5)
	c.LongFlags = ch.n(3) == 3
	if ch.n(2) == 2 {
		c.FlagForm = 2 + ch.n(2)
	}
	return c
}

func init() {
	pbt.SetProperty("C17")
	pbt.Describe("rapid-generated directories of 1-3 (now and then up to 5) files in the directory itself or in sub-directories (plain, hidden, vendor / node_modules / build / target / testdata, four levels deep, and directories whose own name ends in a selected extension: node_modules/highlight.js, pkg.java, x.py, app.go); a file is 0-12 (thorough 0-18) segments: code tokens (identifiers incl. TODO/FIXME, numbers, operators incl. / and *, separators), Java-style string literals, one-character char literals and back-tick template / raw string literals (possibly multi-line) containing //, /*, */, #, TODO, escapes, line / block / hash comments, white space (incl. CRLF and runs of line breaks, so that comments start on lines >= 10), optionally an unterminated block comment as last segment. Comment text = blanks (none, 1-8 spaces and tabs) + [TODO|FIXME in 10 letter cases] + ['' | ':' | '(name)' | '(name):' | a punctuation character -.!,;?/=> directly after the mark; the name may be padded with 1-3 spaces inside the parentheses on the left, on the right or on both sides ('( bob )'), and the colon may stand off from the mark or from '(name)' by blanks ('TODO :', 'TODO(bob) \t:')] + blanks + text built from hostile pieces (comment markers, quotes, parentheses, colons, non-ASCII, words that mention TODO/FIXME, in block comments line breaks with and without ' * ' decoration); names from the tool's assignee alphabet incl. upper case, leading digit or underscore, long, and names of 1-5 characters built from that alphabet (letters, digit, _ . + - @, inner spaces); also empty, one-character and blanks-only comments. In block comments each of the three runs of blanks may instead hold line breaks (LF, CRLF, several, with indentation): between '/*' and the text, so that the text (marked or ordinary) starts one or more lines below the comment marker ('/*\\n  TODO(bob): x\\n*/', also marker only and blanks-and-line-breaks only), between the mark or its separator and the message ('/* TODO:\\n   x */'), and between the mark or '(name)' and the colon; the comment's line stays the line of '/*'. Files therefore occur whose only reportable comments have no TODO/FIXME on the line of their comment marker. File extensions from the selected list, from the CLI's default list, and near misses (.javax, .java.txt, .java~, .kts, .gradle.kts, .cc, .hh ...); filters from the default list plus .c .rb .txt .h .f90 .c++ .m4 .s. Sequences: the same scan twice; a second scan of the same directory with other filters (same process / same working directory) and then the first again; a scan of one selected file by its own path. Entry points: todo.TodoApp.AnalysisPath (absolute path, with and without trailing slash) and `coca todo` with -p src | absolute | ./src | src/ | . | no -p (working directory = the directory), -p/-e or --path/--ext=, and without -e (documented default list; sub-check cli_default puts a reportable comment into one file per default extension). Expected entries (file, start line, assignee, message) are computed from the segments; for the CLI the table on stdout must have one row per entry of simple-todos.json with the same line numbers and 'Todos Count' must be their number. Non-trivial = a file with a selected extension holds at least one reportable comment and at least one decoy (literal containing a comment marker or TODO/FIXME, or comment mentioning TODO/FIXME later); distinct = hash of the sorted (selected?, extension, text) of the files. Widened by the checklist audit, every shape behind its own draw: file names with several dots (a.min.js, Foo.test.java, x.py.java, v1.2.3.go), with a blank, a dollar sign, non-ASCII letters, a leading dot (.eslintrc.js), the name TODO and a name of more than 200 bytes, directories with a blank / non-ASCII letters / six levels deep; a byte order mark at the start of a file (the shipped lexer reads it as an identifier character), also directly before the first token; one segment of a file made very long (an identifier, a string or template literal, an ordinary or a reportable comment followed by 130, 4100 or 66000 letters: lines past 4096 and past 65536 bytes, with reportable comments below them) or one run of white space extended by 120 or 1100 line breaks (line numbers past 100 and 1000); a form feed in a run of white space between tokens; files whose only line break is CRLF; runs of 17, 10 (tabs) and 70 blanks after the comment marker and before the message; the same comment a second time in the same file; the same file (name and text) a second time in another directory; 9-100 further reportable comments in one file and 7-40 further small files in one directory (past 8, 16, 32, 64); an extension named twice in the filter list; assignees named todo / FIXME / todo.bot; block comments (ordinary and reportable) with a later line that begins with TODO / FIXME, with or without ' * ' decoration or a line / hash comment marker in front (one comment, one entry at most); an emoji in messages and literals. Sequences: after all other scans the directory is emptied and filled with one or two other files, partly under the paths of the first state, and scanned again with the same filters; the API scans of one case use, by a draw, one TodoApp value for all of them. CLI: the options also as --path=v --ext v, -p=v -e=v and -pv -ev (value attached), and -e before -p.",
		"messages are compared after collapsing white space and trimming; in block comments an asterisk counts as white space on both sides (continuation-line decoration and terminator), in line and hash comments it is ordinary text",
		"forms the statement leaves open are not generated: mark directly followed by a letter, digit or underscore (TODOS, TODO1), message starting with ':' or '(' , blank between mark and '(name)', colon before '(name)', more than one colon, names outside [A-Za-z0-9_ .+-@], names that are blanks only, tabs inside the parentheses, /** doc comments, block comments whose first text line carries a ' * ' decoration before the mark (generated only as ordinary comments: their text begins with an asterisk), white space other than space, tab, LF and CRLF (form feed, vertical tab, NBSP and other Unicode white space) or letters that upper-case to ASCII directly after the comment marker or the mark, form feed / U+2028 line ends, back-slashes inside template strings, Python single-quoted and triple-quoted strings, .gitignore files, paths containing testData, extensions that differ from a filter only in letter case, filters with more than one dot, filters without a leading dot or with blanks, empty elements of the filter list, files without any extension or whose whole name is the extension (.java), `coca todo --git` (it needs a git repository and ends the process outside one), a byte order mark anywhere but at the start of the file, invalid UTF-8, a lone carriage return as line break (also inside template literals)",
		"a name padded with spaces inside the parentheses ('( bob )'): the expected assignee is the name; the statement does not say whether the report keeps the blanks next to the parentheses, so the reported assignee is compared after trimming them (for an unpadded name the comparison is exact); the message must be the remaining text either way",
		"in a block comment a line break (LF or CRLF) counts among the blanks after the comment marker: a block comment whose text starts on a later line and begins there with TODO/FIXME is a reportable comment, reported with the line of its '/*' (the statement: 'the line where the comment starts'); likewise the message may start on a later line than the mark (messages are compared with white space collapsed)",
		"without -e the selected extensions are the default list documented by `coca todo --help` (.java,.py,.go,.ts,.js,.kt,.groovy,.gradle)",
		"a file named by its own path is only scanned that way when its extension is selected (the walker applies no filter to a single file; the statement does not say)",
		"entries on or after the line of an unterminated block comment at the end of a file are not judged (only crash-freedom)",
		"every generated text is also lexed with the shipped CommentLexer under an error listener; a text it rejects is skipped and counted (expected: none)")
	pbt.Register("api", 5000, 50000, genAPI, checkAPI)
	pbt.Register("cli", 50, 60, genCLI, checkCLI)
	pbt.Register("cli_default", 4, 6, genDefaults, checkCLI)
}

func TestProp(t *testing.T)   { pbt.Main(t) }
func TestReplay(t *testing.T) { pbt.Replay(t) }

// FuzzTodo: native fuzzing of the segment encoder (bytes => segments => text => same oracle).
// Run by hand / in long campaigns:  go test -tags verif -run '^$' -fuzz FuzzTodo ./c17
func FuzzTodo(f *testing.F) {
	f.Add([]byte{})
	f.Add([]byte{0, 1, 14, 0, 0, 0, 0, 0, 0, 0, 0})
	f.Add([]byte{1, 0, 0, 2, 0, 3, 9, 1, 0, 0, 1, 3, 1, 2, 14, 1, 8, 0, 0, 0, 12, 0, 0, 3, 1, 2, 3, 4, 5, 6, 7, 8, 9})
	f.Add([]byte("\x00\x02\x01\x00\x05\x0e\x00\x08\x00\x00\x0e\x00\x08\x01\x03\x00\x0e\x01\x00\x02\x01\x00\x01\x00"))
	f.Add([]byte("// TODO(bob): fix\n/* fixme */ # todo x \"// TODO\" '#'"))
	f.Fuzz(func(t *testing.T, data []byte) {
		c := genCase(&byteChooser{data: data}, 2, 16)
		v := checkAPI(c)
		if v.Violation != "" {
			pbt.FuzzFail(t, "api", c, v.Violation)
		}
	})
}
