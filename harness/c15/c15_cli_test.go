// C15, entry point `coca git -b -t -a -o -m`: the tables and the change-log sections a user sees.
package c15

import (
	"encoding/json"
	"fmt"
	"math"
	"os"
	"path/filepath"
	"strconv"
	"strings"
	"time"

	"github.com/modernizing/coca/pkg/application/git"
	"pgregory.net/rapid"

	"verif/internal/cli"
	"verif/internal/ggen"
	"verif/internal/pbt"
)

// CliCase: the history is built with real git, `coca git` runs inside the repository.
// Omit is a bit set of the flags left out (1 -b, 2 -t, 4 -a, 8 -o, 16 -m); 0 = all five given.
type CliCase struct {
	History ggen.History `json:"history"`
	Omit    int          `json:"omit,omitempty"`
	// Spelling of the flags: 0 `-b -t -a -o -m`, 1 the long names, 2 one group `-btaom`, 3 `--basic=true ..`
	// with the flags left out given as `--team=false`, 4 the short flags in reverse order
	Spelling int `json:"spelling,omitempty"`
}

func genCli(t *rapid.T) CliCase {
	o := parsedOptions()
	o.MaxCommits = 8
	c := CliCase{History: genHistory(t, o, 20)}
	if rapid.IntRange(0, 2).Draw(t, "flagSubset") == 2 {
		c.Omit = rapid.IntRange(1, 30).Draw(t, "omit")
	}
	if rapid.Bool().Draw(t, "otherSpelling") {
		c.Spelling = rapid.IntRange(1, 4).Draw(t, "spelling")
	}
	return c
}

// lastTable returns the body rows of the last table printed (every section re-renders the
// one table the command keeps, so the last rendering holds all rows in order).
func lastTable(out string) [][]string {
	lines := strings.Split(out, "\n")
	rule := -1
	for i, l := range lines {
		if strings.HasPrefix(l, "|-") {
			rule = i
		}
	}
	if rule < 0 {
		return nil
	}
	var rows [][]string
	for _, l := range lines[rule+1:] {
		if !strings.HasPrefix(l, "|") {
			break
		}
		cells := strings.Split(strings.TrimSuffix(strings.TrimPrefix(l, "|"), "|"), "|")
		for i := range cells {
			cells[i] = strings.TrimSpace(cells[i])
		}
		rows = append(rows, cells)
	}
	return rows
}

func checkCli(c CliCase) pbt.Verdict {
	if c.Omit < 0 || c.Omit > 30 {
		ggen.HarnessFatal("omit = %d", c.Omit)
	}
	sim, err := ggen.Simulate(c.History)
	if err != nil {
		ggen.HarnessFatal("case does not simulate: %v", err)
	}
	base := cli.Scratch("c15-")
	defer os.RemoveAll(base)
	repo, err := ggen.Build(base, sim)
	if err != nil {
		ggen.HarnessFatal("cannot build the repository: %v", err)
	}
	if err := ggen.Validate(sim, repo); err != nil {
		ggen.HarnessFatal("%v", err)
	}
	exp := ggen.Expect(sim, repo.Hashes)
	var syn SynCase
	for _, e := range exp {
		sc := SynCommit{Rev: e.Rev, Author: e.Author, Date: e.Date, Subject: e.Subject, Type: e.Type}
		for _, d := range e.Entries {
			sc.Changes = append(sc.Changes, SynChange{Kind: string(d.Kind), Old: d.Old, New: d.New, Added: d.Added, Deleted: d.Deleted})
		}
		syn.Commits = append(syn.Commits, sc)
	}
	ref := fold(syn)
	if ref.problem != "" || strings.Join(sortedKeys(ref.live), "\n") != strings.Join(sim.HeadTree().Paths(), "\n") {
		ggen.HarnessFatal("reference fold leaves %v, the final tree has %v (%s)", sortedKeys(ref.live), sim.HeadTree().Paths(), ref.problem)
	}
	// tablewriter folds a cell of more than 80 columns into several lines
	for _, s := range append(sortedKeys(ref.live), sortedKeys(ref.authors)...) {
		if len(s) > 70 {
			pbt.Count("cli_cell_too_wide_skipped", 1)
			return pbt.Verdict{Skip: true}
		}
	}

	flags := []string{"-b", "-t", "-a", "-o", "-m"}
	long := []string{"--basic", "--team", "--age", "--top", "--summary"}
	has := map[string]bool{}
	args := []string{"git"}
	group := "-"
	for i, f := range flags {
		given := c.Omit&(1<<i) == 0
		has[f] = given
		switch {
		case c.Spelling == 3:
			args = append(args, fmt.Sprintf("%s=%v", long[i], given))
		case !given:
		case c.Spelling == 0:
			args = append(args, f)
		case c.Spelling == 1:
			args = append(args, long[i])
		case c.Spelling == 2:
			group += f[1:]
		case c.Spelling == 4:
			args = append([]string{"git", f}, args[1:]...)
		default:
			ggen.HarnessFatal("spelling = %d", c.Spelling)
		}
	}
	if c.Spelling == 2 && group != "-" {
		args = append(args, group)
	}
	res, err := cli.Run("coca", repo.Dir, ggen.HermeticEnv(repo.Home), args...)
	if err != nil {
		ggen.HarnessFatal("cannot run coca: %v", err)
	}
	if res.TimedOut {
		return pbt.Verdict{Skip: true}
	}
	cmdline := "coca " + strings.Join(args, " ")
	fail := func(format string, a ...interface{}) pbt.Verdict {
		return pbt.Fail("`%s`: %s\n-- stdout --\n%s-- git log --\n%s", cmdline, fmt.Sprintf(format, a...), res.Stdout, repo.LogOut)
	}
	if res.ExitCode != 0 {
		return fail("exit status %d in a valid repository\nstderr: %s", res.ExitCode, res.Stderr)
	}
	// C15 speaks about correctly parsed histories; the parser is C14's subject
	data, err := os.ReadFile(filepath.Join(repo.Dir, "coca_reporter", "commits.json"))
	var parsed []git.CommitMessage
	if err == nil && (json.Unmarshal(data, &parsed) != nil || !sameAsExpected(parsed, exp)) {
		pbt.Count("parser_output_differs_from_history_skipped", 1)
		return pbt.Verdict{Skip: true}
	}
	// no commits.json at all: the command did not get as far as its first step (it prints `Error: unknown
	// flag` and ends with status 0 when it does not know a flag); what it printed is judged as it is

	// change-log sections come first, then the tables
	text := res.Stdout
	if strings.HasPrefix(text, "|") {
		text = ""
	} else if i := strings.Index(text, "\n|"); i >= 0 {
		text = text[:i+1]
	}
	// the line `App elapsed:  1.2ms` main() prints last
	if i := strings.LastIndex(text, "App elapsed: "); i >= 0 && (i == 0 || text[i-1] == '\n') {
		text = text[:i]
	}
	if has["-m"] {
		if d := checkChangeLogText(text, ref.change); d != "" {
			return fail("change-log summary: %s", d)
		}
	} else if strings.Contains(text, "=====================") {
		return fail("change-log sections printed without -m")
	}

	rows := lastTable(res.Stdout)
	files, authors := len(ref.live), len(ref.authors)
	want := 0
	if has["-b"] {
		want += 4
	}
	if has["-t"] {
		want += files
	}
	if has["-a"] {
		want += files
	}
	if has["-o"] {
		want += authors
	}
	if len(rows) != want {
		return fail("the last table has %d rows; expected %d (4 statistics with -b, %d files with -t, %d files with -a, %d authors with -o)", len(rows), want, files, files, authors)
	}
	take := func(n int) [][]string {
		r := rows[:n]
		rows = rows[n:]
		return r
	}
	if has["-b"] {
		r := take(4)
		names := []string{"Commits", "Entities", "Changes", "Authors"}
		num := map[string]int{}
		for i, row := range r {
			if len(row) != 2 || row[0] != names[i] {
				return fail("basic summary row %d is %q, expected the statistic %q and a number", i, row, names[i])
			}
			n, err := strconv.Atoi(row[1])
			if err != nil {
				return fail("basic summary: %q is not a number", row[1])
			}
			num[row[0]] = n
		}
		if num["Commits"] != len(syn.Commits) {
			return fail("basic summary: %d commits, the history has %d commits with file changes", num["Commits"], len(syn.Commits))
		}
		if num["Authors"] != authors {
			return fail("basic summary: %d authors, the history has %d (%v)", num["Authors"], authors, sortedKeys(ref.authors))
		}
		if ref.renames == 0 {
			if num["Entities"] != len(ref.strings) {
				return fail("basic summary: %d paths, the history (without renames) has %d distinct paths", num["Entities"], len(ref.strings))
			}
		} else if num["Entities"] < files {
			return fail("basic summary: %d paths, but %d files exist at the end", num["Entities"], files)
		}
	}
	if has["-t"] {
		r := take(files)
		var got, exp []string
		last := math.MaxInt
		for _, row := range r {
			if len(row) != 3 {
				return fail("team summary row %q has %d cells, expected file, revisions, authors", row, len(row))
			}
			got = append(got, fmt.Sprintf("%q revisions=%s authors=%s", row[0], row[1], row[2]))
			n, err := strconv.Atoi(row[1])
			if err != nil {
				return fail("team summary: %q is not a number", row[1])
			}
			if n > last {
				return fail("team summary is not in non-increasing order of revisions: %d before %d (%q)", last, n, row[0])
			}
			last = n
		}
		for _, f := range sortedKeys(ref.live) {
			exp = append(exp, fmt.Sprintf("%q revisions=%d authors=%d", f, len(ref.live[f].revs), len(ref.live[f].authors)))
		}
		if d := diffSets("team summary table (EntityName, RevsCount, AuthorCount)", got, exp); d != "" {
			return fail("%s", d)
		}
	}
	if has["-a"] {
		r := take(files)
		var got []string
		var month0 float64
		var date0 time.Time
		for i, row := range r {
			if len(row) != 2 {
				return fail("code age row %q has %d cells, expected file and months", row, len(row))
			}
			got = append(got, row[0])
			rec := ref.live[row[0]]
			if rec == nil {
				continue // reported by the set comparison below
			}
			m, err := strconv.ParseFloat(row[1], 64)
			if err != nil {
				return fail("code age: %q is not a number", row[1])
			}
			d, _ := time.Parse("2006-01-02", rec.first)
			if i == 0 {
				month0, date0 = m, d
				continue
			}
			// months are (now - first date) / 2600640 s with two decimals: whatever the clock says,
			// the difference between two rows is fixed by the two dates
			wantDiff := d.Sub(date0).Seconds() / 2600640
			if math.Abs((month0-m)-wantDiff) > 0.021 {
				return fail("code age: %q is shown %.2f months younger than the first row %q, their first commits (%s, %s) are %.2f months apart", row[0], month0-m, r[0][0], rec.first, date0.Format("2006-01-02"), wantDiff)
			}
		}
		if d := diffSets("files in the code age table", got, sortedKeys(ref.live)); d != "" {
			return fail("%s", d)
		}
		for i := 1; i < len(r); i++ {
			a, b := ref.live[r[i-1][0]], ref.live[r[i][0]]
			if a != nil && b != nil && b.first < a.first {
				return fail("code age is not oldest first: %q (first commit %s) before %q (%s)", r[i-1][0], a.first, r[i][0], b.first)
			}
		}
	}
	if has["-o"] {
		r := take(authors)
		var got, exp []string
		sum := 0
		for _, row := range r {
			if len(row) != 3 {
				return fail("top-author row %q has %d cells, expected author, commits, lines", row, len(row))
			}
			got = append(got, fmt.Sprintf("%q commits=%s lines=%s", row[0], row[1], row[2]))
			n, _ := strconv.Atoi(row[1])
			sum += n
		}
		for _, a := range sortedKeys(ref.authors) {
			exp = append(exp, fmt.Sprintf("%q commits=%d lines=%d", a, ref.authors[a][0], ref.authors[a][1]))
		}
		if d := diffSets("top-author table (Author, CommitCount, LineCount)", got, exp); d != "" {
			return fail("%s", d)
		}
		if sum != len(syn.Commits) {
			return fail("commit counts of the top-author table sum to %d, the history has %d commits", sum, len(syn.Commits))
		}
	}

	v := pbt.Verdict{}
	v.NonTrivial = (ref.renames > 0 || ref.deletes > 0) && authors >= 2
	add := func(cond bool, label string) {
		if cond {
			v.Classes = append(v.Classes, label)
		}
	}
	add(c.Omit == 0, "all_five_flags")
	add(c.Omit != 0, "flag_subset")
	add(c.Spelling == 1, "flags_long_names")
	add(c.Spelling == 2, "flags_in_one_group")
	add(c.Spelling == 3, "flags_with_=true_and_=false")
	add(c.Spelling == 4, "flags_in_reverse_order")
	add(ref.renames > 0, "rename")
	add(ref.deletes > 0, "delete")
	add(authors >= 2, "authors>=2")
	v.Classes = append(v.Classes, teamClasses(syn)...)
	add(files > 20, "files_left>20")
	add(files == 0, "no_file_left")
	add(len(ref.change) > 0, "conventional_subjects")
	for _, fs := range ref.change {
		add(len(fs) > 10, "changelog_type_with_files>10")
	}
	v.Classes = dedupe(v.Classes)
	raw, _ := json.Marshal(c)
	v.Canon = "cli:" + string(raw)
	return v
}
