// C15, shapes no seed has asked for yet (checklist audit): abbreviated hashes that share their first seven
// digits or are long, subjects next to the border of the conventional-commit form, names with characters the
// rename notation and the summaries' own patterns use ({ } $ _ => delete create ...), names outside ASCII,
// imports of dozens of files, the summaries on one shared list in a drawn order. All of it is laid over the
// history generator's output in the direct routes ('syn', 'seq'): none of these shapes changes which
// operation list the commit list stands for, so the reference fold needs no change.
package c15

import (
	"fmt"
	"sort"
	"strings"

	"pgregory.net/rapid"

	"verif/internal/ggen"
	"verif/internal/pbt"
)

// ---- hashes -------------------------------------------------------------------------------

var hexDigits = []string{"0", "1", "2", "3", "4", "5", "6", "7", "8", "9", "a", "b", "c", "d", "e", "f"}

// genRevs: the generator's hashes (7-10 hex digits, unrelated) and, one list in four, other shapes `%h`
// prints: a hash that differs from an earlier one of the list in its last digit only (two objects with a
// common prefix get longer abbreviations), hashes of 12, 16 and 40 digits (core.abbrev), hashes of digits
// only or letters only. As with git, the hashes are distinct and none is a prefix of another.
func genRevs(t *rapid.T, n int) []string {
	hashes := ggen.GenHashes(t, n)
	if n == 0 || rapid.IntRange(0, 3).Draw(t, "hashShapes") != 3 {
		return hashes
	}
	usable := func(i int, cand string) bool {
		for j, h := range hashes {
			if j != i && (strings.HasPrefix(h, cand) || strings.HasPrefix(cand, h)) {
				return false
			}
		}
		return true
	}
	for i := range hashes {
		cand := hashes[i]
		switch rapid.IntRange(0, 5).Draw(t, "hashShape") {
		case 2:
			if i > 0 {
				base := hashes[rapid.IntRange(0, i-1).Draw(t, "twinOf")]
				cand = base[:len(base)-1] + rapid.SampledFrom(hexDigits).Draw(t, "lastDigit")
			}
		case 3:
			l := rapid.SampledFrom([]int{12, 16, 40}).Draw(t, "hashLength")
			cand += rapid.StringMatching(fmt.Sprintf("[0-9a-f]{%d}", l-len(cand))).Draw(t, "moreDigits")
		case 4:
			cand = rapid.StringMatching(`[0-9]{7,10}`).Draw(t, "digitHash")
		case 5:
			cand = rapid.StringMatching(`[a-f]{7,10}`).Draw(t, "letterHash")
		}
		if cand != hashes[i] && usable(i, cand) {
			hashes[i] = cand
		}
	}
	return hashes
}

// ---- subjects -----------------------------------------------------------------------------

var (
	// further types: a word that has another type as its prefix, one letter, a digit, an underscore,
	// upper case, a long word
	moreTypes  = []string{"feat", "fix", "feature", "fixup", "fi", "f", "v2", "_", "x1", "FEAT", "feat_", "9", "refactoring_of_the_whole_module_layout"}
	moreScopes = []string{"核心", "deps-dev", "*", "#12", "a b", "x.y", "UI", "a, b"}
	descWords  = []string{"update", "readme", "drop", "the", "old", "parser", "tests", "naïve", "修复", "100%"}
)

func genDescription(t *rapid.T) string {
	s := rapid.SampledFrom(descWords).Draw(t, "word")
	for i, n := 0, rapid.IntRange(0, 2).Draw(t, "moreWords"); i < n; i++ {
		s += " " + rapid.SampledFrom(descWords).Draw(t, "word")
	}
	return s
}

// genSubjectShape draws a subject close to the border of the form `type: text` / `type(scope): text`.
// Returned: the subject, its conventional type ("" = the subject is not of that form) and a label.
//
// Of the form (type = the first word): unusual type words and scopes, two blanks after the colon, a
// description that itself begins with or contains `word: `, that ends with a colon; the form with the mark
// of a breaking change, `type!: text` and `type(scope)!: text` (Conventional Commits 1.0.0).
// Not of the form: no blank after the colon, nothing after the colon, a blank before the colon or before the
// scope, another separator, a second word before the colon; no type at all (`: text`, `(scope): text`).
func genSubjectShape(t *rapid.T) (subject, typ, label string) {
	T := rapid.SampledFrom(moreTypes).Draw(t, "type")
	D := genDescription(t)
	shapes := []int{0, 1, 2, 3, 4, 5, 6, 7}
	if !pbt.Excluded("changelog_breaking_mark") {
		shapes = append(shapes, 8)
	}
	if !pbt.Excluded("changelog_empty_type") {
		shapes = append(shapes, 9)
	}
	switch rapid.SampledFrom(shapes).Draw(t, "subjectShape") {
	case 0:
		return T + ": " + D, T, "unusual_type_word"
	case 1:
		return T + "(" + rapid.SampledFrom(moreScopes).Draw(t, "scope") + "): " + D, T, "unusual_scope"
	case 2:
		return T + ":  " + D, T, "two_blanks_after_colon"
	case 3:
		U := rapid.SampledFrom(moreTypes).Draw(t, "secondType")
		if rapid.Bool().Draw(t, "scoped") {
			return T + "(core): " + U + "(api): " + D, T, "description_begins_with_a_prefix"
		}
		return T + ": " + U + ": " + D, T, "description_begins_with_a_prefix"
	case 4:
		U := rapid.SampledFrom(moreTypes).Draw(t, "secondType")
		return T + ": " + D + " (see " + U + ": " + D + ")", T, "description_contains_a_prefix"
	case 5:
		return T + ": " + D + ":", T, "description_ends_with_colon"
	case 6, 7:
		S := rapid.SampledFrom(moreScopes).Draw(t, "scope")
		forms := []string{T + ":" + D, T + ":", T + " : " + D, T + " (" + S + "): " + D, T + "(" + S + ") : " + D,
			T + "; " + D, T + ", " + D + ": " + D, T + " " + D + ": " + D, T + "(" + S + "):" + D}
		return rapid.SampledFrom(forms).Draw(t, "lookalike"), "", "lookalike_without_type"
	case 8:
		if rapid.Bool().Draw(t, "scoped") {
			return T + "(" + rapid.SampledFrom(moreScopes).Draw(t, "scope") + ")!: " + D, T, "breaking_mark"
		}
		return T + "!: " + D, T, "breaking_mark"
	}
	if rapid.Bool().Draw(t, "scoped") {
		return "(" + rapid.SampledFrom(moreScopes).Draw(t, "scope") + "): " + D, "", "no_type_before_colon"
	}
	return ": " + D, "", "no_type_before_colon"
}

// ---- names --------------------------------------------------------------------------------

var keywordNames = []string{"delete", "create", "mode", "rename", "change", "=>", "->", "="}

// exoticComponent gives another spelling of one path component.
//
//	8  braces: f{1}.txt, ${f.txt}, {{f.txt}}, f{.txt, f}.txt, {f.txt}
//	9  $f.txt, _f.txt, f.txt$1, 9f.txt, f.txt_
//	10 outside ASCII: éf.txt, f.txt漢字, f.txt<U+00A0>x; upper case
//	11 a word of the log format or of the notation (delete, create, mode, rename, change, =>, ->, =),
//	   200 bytes more
func exoticComponent(t *rapid.T, comp string, style int, braces bool) string {
	mid := len(comp) / 2
	for mid > 0 && mid < len(comp) && comp[mid]&0xC0 == 0x80 {
		mid-- // not inside a UTF-8 sequence
	}
	switch style {
	case 8:
		if !braces {
			return comp
		}
		switch rapid.IntRange(0, 5).Draw(t, "braceForm") {
		case 0:
			if i := strings.LastIndex(comp, "."); i > 0 {
				return comp[:i] + "{1}" + comp[i:]
			}
			return comp[:mid] + "{1}" + comp[mid:]
		case 1:
			return "${" + comp + "}"
		case 2:
			return "{{" + comp + "}}"
		case 3:
			return comp[:mid] + "{" + comp[mid:]
		case 4:
			return comp[:mid] + "}" + comp[mid:]
		}
		return "{" + comp + "}"
	case 9:
		switch rapid.IntRange(0, 4).Draw(t, "wordForm") {
		case 0:
			return "$" + comp
		case 1:
			return "_" + comp
		case 2:
			return comp + "$1"
		case 3:
			return "9" + comp
		}
		return comp + "_"
	case 10:
		switch rapid.IntRange(0, 3).Draw(t, "wideForm") {
		case 0:
			return "é" + comp
		case 1:
			return comp + "漢字"
		case 2:
			return comp + "\u00a0x"
		}
		return strings.ToUpper(comp)
	case 11:
		k := rapid.IntRange(0, len(keywordNames)).Draw(t, "keyword")
		if k == len(keywordNames) {
			return comp + strings.Repeat("x", 200)
		}
		return keywordNames[k]
	}
	return comp
}

type reading struct {
	old, new string
	open     int // index of `{`
	close    int // index of `}`
}

// braceReadings lists the ways to read p as git's `prefix{old => new}suffix`: a `{` at the start or behind a
// slash, before the arrow, and a `}` at the end or in front of a slash, behind it (the prefix and the suffix
// of the notation are whole directory components).
func braceReadings(p string) []reading {
	const sep = " => "
	i := strings.Index(p, sep)
	if i < 0 {
		return nil
	}
	var out []reading
	for a := 0; a < i; a++ {
		if p[a] != '{' || (a > 0 && p[a-1] != '/') {
			continue
		}
		for b := i + len(sep); b < len(p); b++ {
			if p[b] != '}' || (b < len(p)-1 && p[b+1] != '/') {
				continue
			}
			pre, from, to, suf := p[:a], p[a+1:i], p[i+len(sep):b], p[b+1:]
			oldSuf, newSuf := suf, suf
			if from == "" {
				oldSuf = strings.TrimPrefix(suf, "/")
			}
			if to == "" {
				newSuf = strings.TrimPrefix(suf, "/")
			}
			out = append(out, reading{old: pre + from + oldSuf, new: pre + to + newSuf, open: a, close: b})
		}
	}
	return out
}

// readable: the printed rename can be read in one way only. A name may contain { and }; then the notation
// `a/{b => c}/d` is no longer unique in general (every brace form can also be read as a full-path rename
// between names with braces). The reading everybody uses is the brace form when the arrow stands inside
// braces at component boundaries; the check keeps a rename only when exactly one such brace pair exists and
// it is the true one, or when none exists and the rename is printed in the full-path form.
func readable(p, old, new string) bool {
	if strings.Count(p, " => ") != 1 {
		return false
	}
	rs := braceReadings(p)
	switch len(rs) {
	case 0:
		return p == old+" => "+new
	case 1:
		return rs[0].old == old && rs[0].new == new
	}
	return false
}

func components(p string) []string {
	if p == "" {
		return nil
	}
	return strings.Split(p, "/")
}

// applyExoticNames respells path components of the whole list, one time in three: every component is a
// string that stands for itself wherever it occurs, the new spellings are distinct from each other and from
// all other components, so the list stands for the same operation list with other names. A spelling with a
// brace is taken back when a rename that involves it could be read in two ways (see readable).
func applyExoticNames(t *rapid.T, c *SynCase) {
	if rapid.IntRange(0, 2).Draw(t, "exoticNames") != 2 {
		return
	}
	braces := !pbt.Excluded("rename_brace_in_name")
	used := map[string]bool{}
	inRename := map[string]bool{}
	for _, sc := range c.Commits {
		for _, ch := range sc.Changes {
			for _, p := range []string{ch.Old, ch.New} {
				if strings.HasPrefix(p, importDir+"/") {
					continue // the files of a big import keep their names
				}
				for _, comp := range components(p) {
					used[comp] = true
					if ch.Kind == "R" {
						inRename[comp] = true
					}
				}
			}
		}
	}
	// the components of renamed paths first: a small index is a component the notation has to carry
	comps := sortedKeys(inRename)
	for _, comp := range sortedKeys(used) {
		if !inRename[comp] {
			comps = append(comps, comp)
		}
	}
	mapping := map[string]string{}
	if len(comps) == 0 {
		return
	}
	for i, n := 0, rapid.IntRange(1, 6).Draw(t, "respelled"); i < n; i++ {
		comp := comps[rapid.IntRange(0, len(comps)-1).Draw(t, "component")]
		cand := exoticComponent(t, comp, rapid.IntRange(8, 11).Draw(t, "nameStyle"), braces)
		if _, done := mapping[comp]; done || cand == comp || used[cand] {
			continue
		}
		used[cand] = true
		mapping[comp] = cand
	}
	mapped := func(p string) string {
		parts := components(p)
		for i, comp := range parts {
			if m, ok := mapping[comp]; ok {
				parts[i] = m
			}
		}
		return strings.Join(parts, "/")
	}
	for again := true; again; {
		again = false
		for _, sc := range c.Commits {
			for _, ch := range sc.Changes {
				if ch.Kind != "R" {
					continue
				}
				m := ch
				m.Old, m.New = mapped(ch.Old), mapped(ch.New)
				if readable(printed(m), m.Old, m.New) {
					continue
				}
				dropped := false
				for _, comp := range append(components(ch.Old), components(ch.New)...) {
					if strings.ContainsAny(mapping[comp], "{}") {
						delete(mapping, comp)
						dropped = true
					}
				}
				if !dropped {
					ggen.HarnessFatal("rename %q -> %q is printed %q, which cannot be read back", m.Old, m.New, printed(m))
				}
				again = true
			}
		}
	}
	for i := range c.Commits {
		for j := range c.Commits[i].Changes {
			ch := &c.Commits[i].Changes[j]
			ch.Old, ch.New = mapped(ch.Old), mapped(ch.New)
		}
	}
}

// ---- imports of dozens of files --------------------------------------------------------------

// importer adds, to one commit of a list, 25-90 files under a directory of their own (past the 32 and 64
// entries a slice grows through), and lets later commits modify, rename (inside the directory) or delete one
// of them now and then.
type importer struct {
	at    int // index of the importing commit among the commits with changes; -1 = no import
	files int
	live  []string
	next  int
}

const importDir = "third_party"

func drawImporter(t *rapid.T, commits int) importer {
	if commits == 0 || rapid.IntRange(0, 11).Draw(t, "bigImport") != 11 {
		return importer{at: -1}
	}
	return importer{at: rapid.IntRange(0, commits-1).Draw(t, "importAt"), files: rapid.IntRange(25, 90).Draw(t, "importFiles")}
}

func (im *importer) fresh() string {
	im.next++
	return fmt.Sprintf("%s/m%d/unit%d.c", importDir, im.next%7, im.next)
}

// changes gives the further changes of the commit with index i.
func (im *importer) changes(t *rapid.T, i int) []SynChange {
	if im.at < 0 || i < im.at {
		return nil
	}
	var out []SynChange
	if i == im.at {
		for k := 0; k < im.files; k++ {
			p := im.fresh()
			im.live = append(im.live, p)
			out = append(out, SynChange{Kind: "A", New: p, Added: 1 + k%9})
		}
		return out
	}
	if len(im.live) == 0 {
		return nil
	}
	what := rapid.IntRange(0, 5).Draw(t, "importedFile")
	if what < 3 {
		return nil
	}
	k := rapid.IntRange(0, len(im.live)-1).Draw(t, "importedAt")
	p := im.live[k]
	switch what {
	case 3:
		out = append(out, SynChange{Kind: "M", Old: p, New: p, Added: 2, Deleted: 1})
	case 4:
		q := im.fresh()
		im.live[k] = q
		out = append(out, SynChange{Kind: "R", Old: p, New: q})
	case 5:
		im.live = append(im.live[:k], im.live[k+1:]...)
		out = append(out, SynChange{Kind: "D", Old: p, Deleted: 3})
	}
	return out
}

// ---- the summaries on one shared list, in a drawn order ------------------------------------------

var summaryNames = []string{"team summary", "code age", "change map", "top authors", "basic summary", "printed change-log summary"}

// defaultOrder is what every case without a drawn order runs (and what was run before orders were drawn).
var defaultOrder = []int{0, 1, 2, 3, 0, 4}

// genOrder: one time in two, every summary twice: a drawn order of the six, then another one.
func genOrder(t *rapid.T) []int {
	if !rapid.Bool().Draw(t, "drawnOrder") {
		return nil
	}
	all := []int{0, 1, 2, 3, 4, 5}
	return append(rapid.Permutation(all).Draw(t, "firstRound"), rapid.Permutation(all).Draw(t, "secondRound")...)
}

// ---- labels -------------------------------------------------------------------------------

func shapeClasses(c SynCase) []string {
	set := map[string]bool{}
	revs := []string{}
	for _, sc := range c.Commits {
		revs = append(revs, sc.Rev)
		if len(sc.Rev) > 10 {
			set["rev_longer_than_10_digits"] = true
		}
		if len(sc.Rev) == 40 {
			set["rev_of_40_digits"] = true
		}
		if strings.Trim(sc.Rev, "0123456789") == "" {
			set["rev_of_digits_only"] = true
		}
		if strings.Trim(sc.Rev, "abcdef") == "" {
			set["rev_of_letters_only"] = true
		}
		if sc.Shape != "" {
			set["subject_"+sc.Shape] = true
		}
		if sc.Subject == "" {
			set["subject_empty"] = true
		}
		if len(sc.Changes) > 32 {
			set["commit_with_changes>32"] = true
		}
		if len(sc.Changes) > 64 {
			set["commit_with_changes>64"] = true
		}
		for _, ch := range sc.Changes {
			for _, p := range []string{ch.Old, ch.New} {
				if strings.ContainsAny(p, "{}") {
					set["path_with_brace"] = true
				}
				if strings.HasSuffix(p, " ") || strings.Contains(p, " /") {
					set["path_component_ends_with_blank"] = true
				}
				if strings.Contains(p, "  ") {
					set["path_with_run_of_blanks"] = true
				}
				for _, r := range p {
					if r > 127 {
						set["path_outside_ascii"] = true
					}
				}
				for _, comp := range components(p) {
					if strings.ContainsAny(comp[:1], "$_") || strings.Contains(comp, "$") {
						set["path_component_with_$_or_leading_underscore"] = true
					}
					if len(comp) >= 200 {
						set["path_component_of_200_bytes"] = true
					}
					for _, k := range keywordNames {
						if comp == k {
							set["path_component_is_word_of_the_log_format"] = true
						}
					}
				}
			}
			if ch.Kind == "R" && strings.ContainsAny(ch.Old+ch.New, "{}") {
				set["rename_of_path_with_brace"] = true
				p := printed(ch)
				if rs := braceReadings(p); len(rs) == 1 && strings.ContainsAny(p[rs[0].open+1:rs[0].close]+p[rs[0].close+1:], "{}") {
					set["rename_with_brace_inside_or_behind_the_braces_of_the_notation"] = true
				}
				if len(braceReadings(p)) == 0 {
					set["rename_of_path_with_brace_full_path_form"] = true
				}
			}
			if strings.HasPrefix(ch.New, importDir+"/") && ch.Kind != "A" || strings.HasPrefix(ch.Old, importDir+"/") && ch.Kind == "D" {
				set["imported_file_touched_later"] = true
			}
		}
	}
	sort.Strings(revs)
	for i := 1; i < len(revs); i++ {
		if len(revs[i]) >= 7 && len(revs[i-1]) >= 7 && revs[i][:7] == revs[i-1][:7] {
			set["revs_share_first_7_digits"] = true
		}
	}
	if len(c.Order) > 0 {
		set["summaries_on_shared_list_in_drawn_order"] = true
	}
	return sortedKeys(set)
}
