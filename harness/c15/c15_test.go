// C15 — git summaries are consistent with the parsed history.
package c15

import (
	"bytes"
	"encoding/json"
	"fmt"
	"os"
	"sort"
	"strings"
	"testing"
	"time"

	"github.com/modernizing/coca/pkg/application/git"
	"pgregory.net/rapid"

	"verif/internal/cli"
	"verif/internal/ggen"
	"verif/internal/pbt"
)

// SynChange is one file change of a directly synthesised commit list. Kind: A add, M modify,
// D delete, R rename. A rename is written in git's notation (`dir/{a => b}/f`, `{ => sub}/f`,
// `{sub => }/f`, `a => b` when the paths share no directory prefix or suffix) or, with Full,
// always as `old => new`.
type SynChange struct {
	Kind    string `json:"kind"`
	Old     string `json:"old,omitempty"`
	New     string `json:"new,omitempty"`
	Added   int    `json:"added"`
	Deleted int    `json:"deleted"`
	Full    bool   `json:"full,omitempty"`
	Liberal bool   `json:"liberal,omitempty"` // brace form with an empty prefix where git itself would print old => new
}

type SynCommit struct {
	Rev     string      `json:"rev"`
	Author  string      `json:"author"`
	Date    string      `json:"date"`
	Subject string      `json:"subject"`
	Type    string      `json:"type,omitempty"` // conventional-commit type of Subject, "" = none
	Changes []SynChange `json:"changes"`
	Shape   string      `json:"shape,omitempty"` // label of a subject drawn by genSubjectShape (evidence only)
}

// SynCase is a commit list given to the summary functions directly.
type SynCase struct {
	Commits []SynCommit `json:"commits"`
	// Order: the summaries computed one after the other on ONE shared commit list (indices into
	// summaryNames); empty = defaultOrder
	Order []int `json:"order,omitempty"`
}

// ParsedCase is a ggen history whose emulated log text goes through the parser first.
type ParsedCase struct {
	History ggen.History `json:"history"`
	Hashes  []string     `json:"hashes"`
}

// feature switches of known findings (none recorded at the time of writing)
func withSwitches(o ggen.Options) ggen.Options {
	o.NoMoveUpRename = pbt.Excluded("rename_move_up")
	o.NoFullPathRename = pbt.Excluded("changelog_full_path_rename")
	return o
}

// widened later (both routes): commits that import 10-30 files at once (more than the ten lines of a
// change-log section, more than the twenty rows the tables cut at with --full), up to 8 authors, names
// that are a prefix / suffix of another name, author names with inner punctuation, files of hundreds
// of lines, executable files and mode-only changes (a revision without any line change)
func widened(o ggen.Options) ggen.Options {
	o.BulkAdds, o.AffixNames, o.PunctAuthors, o.BigFiles, o.ExecFiles, o.ModeChanges = true, true, true, true, true, true
	o.MaxAuthors = 8
	return o
}

func synOptions() ggen.Options {
	o := widened(withSwitches(ggen.Options{MaxCommits: 30, MaxPaths: 8, Empty: true, Binary: true, BracketHex: true, RepeatAuthor: true, RepeatDate: true, NumericSpacePaths: true}))
	o.LeadingBlankPaths = true // the summaries never see the log text, only the commit list
	// for the same reason: components that end with blanks or consist of blanks, runs of blanks, commits
	// without a message, subjects written by git and the hosting services
	o.TrailingBlankPaths, o.BlankRunPaths, o.EmptySubjects, o.ToolSubjects = true, true, true, true
	return o
}

// the parser route stays inside the part of C14's domain in which the pinned parser is
// right (no bracketed hex / repeated author or date in subjects, no number-blank path
// components), so that C15 judges the summaries and not the parser
func parsedOptions() ggen.Options {
	return widened(withSwitches(ggen.Options{MaxCommits: 12, MaxPaths: 5, Empty: true, Binary: true}))
}

// synShape: what genSynWith may add to the history generator's own output (c15_team_test.go).
type synShape struct {
	long        bool // one list in eight: up to 70 commits
	teamCommits int  // bound on the commits of a list with a team of more than 8 (0: the options' bound)
}

func genSyn(t *rapid.T) SynCase {
	return genSynWith(t, synOptions(), synShape{long: true, teamCommits: 40})
}

// SeqCase: the summaries of one commit list, then those of another list in the same process.
type SeqCase struct {
	First  SynCase `json:"first"`
	Second SynCase `json:"second"`
	// SameArray (eighth seed batch): the second list is written into the slice that held the first one (a caller that
	// unifies author aliases or refills a buffer): same backing array; when the lists are equally long and end in the
	// same hash also the same length and last revision
	SameArray bool `json:"sameArray,omitempty"`
}

func genSeq(t *rapid.T) SeqCase {
	o := synOptions()
	o.MaxCommits = 8
	c := SeqCase{First: genSynWith(t, o, synShape{teamCommits: 16}), Second: genSynWith(t, o, synShape{teamCommits: 16})}
	// now and then the second list carries the same abbreviated hashes as the first one
	if rapid.IntRange(0, 2).Draw(t, "sameHashes") == 2 {
		reuse(c.First, &c.Second)
	}
	if rapid.IntRange(0, 3).Draw(t, "sameArray") == 3 {
		c.SameArray = true
		if rapid.Bool().Draw(t, "editedInPlace") && len(c.First.Commits) > 0 {
			// the second list is the first one with a few entries edited: an author renamed everywhere, a date moved,
			// a change turned into a deletion or given other counts
			c.Second = SynCase{Commits: append([]SynCommit(nil), c.First.Commits...)}
			for k := rapid.IntRange(1, 3).Draw(t, "inPlaceEdits"); k > 0; k-- {
				i := rapid.IntRange(0, len(c.Second.Commits)-1).Draw(t, "editedCommit")
				sc := c.Second.Commits[i]
				sc.Changes = append([]SynChange(nil), sc.Changes...)
				switch rapid.IntRange(0, 2).Draw(t, "editKind") {
				case 0:
					// this one commit gets an author nobody else is: every file it touches has one author more
					sc.Author = sc.Author + " (" + fmt.Sprint(i) + ")"
				case 1:
					// every commit a day earlier than any date of the first list: the age of every file changes
					for j := range c.Second.Commits {
						c.Second.Commits[j].Date = "1999-01-" + fmt.Sprintf("%02d", 1+j%28)
					}
					sc.Date = "1999-01-" + fmt.Sprintf("%02d", 1+i%28)
				default:
					if len(sc.Changes) > 0 {
						j := rapid.IntRange(0, len(sc.Changes)-1).Draw(t, "editedChange")
						sc.Changes[j].Added += 3
					}
				}
				c.Second.Commits[i] = sc
			}
		}
	}
	return c
}

func reuse(first SynCase, second *SynCase) {
	revs := make([]string, len(second.Commits))
	seen := map[string]bool{}
	for i, sc := range second.Commits {
		revs[i] = sc.Rev
		if i < len(first.Commits) {
			revs[i] = first.Commits[i].Rev
		}
		if seen[revs[i]] {
			return // would not be distinct: leave the second list as it is
		}
		seen[revs[i]] = true
	}
	for i := range second.Commits {
		second.Commits[i].Rev = revs[i]
	}
}

func genSynWith(t *rapid.T, o ggen.Options, shape synShape) SynCase {
	if shape.long && rapid.IntRange(0, 7).Draw(t, "longHistory") == 7 {
		o.MaxCommits, shape.teamCommits = 70, 70
	}
	h := genHistory(t, o, shape.teamCommits)
	sim, err := ggen.Simulate(h)
	if err != nil {
		panic("c15: generated history does not simulate: " + err.Error())
	}
	log := sim.Log()
	hashes := genRevs(t, len(log))
	byRev := map[string]ggen.Expected{}
	for _, e := range ggen.Expect(sim, hashes) {
		byRev[e.Rev] = e
	}
	var c SynCase
	emptyKept := 0
	freeNumbers := rapid.IntRange(0, 2).Draw(t, "freeNumbers") > 0
	// a hot file: one file (followed through its renames; the next one when it is deleted) gets a further
	// modification in most of the commits that do not touch it anyway
	hot := rapid.IntRange(0, 3).Draw(t, "hotFile") == 3
	hotPath := ""
	live := map[string]bool{}
	subjectShapes := rapid.IntRange(0, 2).Draw(t, "subjectShapes") == 2
	withChanges := 0
	for _, lc := range log {
		if len(lc.Parents) <= 1 && len(lc.Entries) > 0 {
			withChanges++
		}
	}
	imp := drawImporter(t, withChanges)
	for i, lc := range log {
		e, ok := byRev[hashes[i]]
		if !ok {
			// a commit without file changes: the parser never lists one, a synthesised list may
			if rapid.IntRange(0, 3).Draw(t, "keepEmptyCommit") == 3 {
				emptyKept++
				c.Commits = append(c.Commits, SynCommit{Rev: hashes[i], Author: lc.Commit.Author, Date: lc.Commit.Date, Subject: lc.Commit.Subject, Type: lc.Commit.Type})
			}
			continue
		}
		sc := SynCommit{Rev: e.Rev, Author: e.Author, Date: e.Date, Subject: e.Subject, Type: e.Type}
		if subjectShapes && rapid.IntRange(0, 2).Draw(t, "otherSubject") > 0 {
			sc.Subject, sc.Type, sc.Shape = genSubjectShape(t)
		}
		for _, d := range e.Entries {
			ch := SynChange{Kind: string(d.Kind), Old: d.Old, New: d.New, Added: d.Added, Deleted: d.Deleted}
			if freeNumbers {
				ch.Added = rapid.IntRange(0, 40).Draw(t, "added")
				ch.Deleted = rapid.IntRange(0, 40).Draw(t, "deleted")
			}
			if d.Kind == 'R' {
				ch.Full = rapid.IntRange(0, 3).Draw(t, "fullNotation") == 3 && !o.NoFullPathRename
				ch.Liberal = !ch.Full && rapid.Bool().Draw(t, "liberalNotation")
			}
			sc.Changes = append(sc.Changes, ch)
		}
		sc.Changes = append(sc.Changes, imp.changes(t, len(c.Commits)-emptyKept)...)
		touched := map[string]bool{}
		for _, ch := range sc.Changes {
			touched[ch.Old], touched[ch.New] = true, true
			switch ch.Kind {
			case "A":
				live[ch.New] = true
			case "R":
				delete(live, ch.Old)
				live[ch.New] = true
				if hotPath == ch.Old {
					hotPath = ch.New
				}
			case "D":
				delete(live, ch.Old)
			}
		}
		if hot {
			if !live[hotPath] {
				hotPath = ""
				if paths := sortedKeys(live); len(paths) > 0 {
					hotPath = paths[rapid.IntRange(0, len(paths)-1).Draw(t, "hotPath")]
				}
			}
			if hotPath != "" && !touched[hotPath] && rapid.IntRange(0, 3).Draw(t, "touchHot") > 0 {
				sc.Changes = append(sc.Changes, SynChange{Kind: "M", Old: hotPath, New: hotPath, Added: rapid.IntRange(0, 40).Draw(t, "added"), Deleted: rapid.IntRange(0, 40).Draw(t, "deleted")})
			}
		}
		if len(sc.Changes) > 1 && rapid.Bool().Draw(t, "shuffle") {
			sc.Changes = rapid.Permutation(sc.Changes).Draw(t, "order")
		}
		c.Commits = append(c.Commits, sc)
	}
	applyExoticNames(t, &c)
	c.Order = genOrder(t)
	return c
}

func genParsed(t *rapid.T) ParsedCase {
	h := genHistory(t, parsedOptions(), 24)
	sim, err := ggen.Simulate(h)
	if err != nil {
		panic("c15: generated history does not simulate: " + err.Error())
	}
	return ParsedCase{History: h, Hashes: genRevs(t, len(sim.Log()))}
}

// ---- reference model -------------------------------------------------------------------

func printed(ch SynChange) string {
	switch ch.Kind {
	case "R":
		if ch.Full {
			return ch.Old + " => " + ch.New
		}
		// git prints a move between the root and a top-level directory in the full-path form;
		// a synthesised list may as well use the brace form with an empty prefix
		if ch.Liberal {
			if strings.HasSuffix(ch.New, "/"+ch.Old) && !strings.Contains(ch.Old, "/") {
				return "{ => " + strings.TrimSuffix(ch.New, "/"+ch.Old) + "}/" + ch.Old
			}
			if strings.HasSuffix(ch.Old, "/"+ch.New) && !strings.Contains(ch.New, "/") {
				return "{" + strings.TrimSuffix(ch.Old, "/"+ch.New) + " => }/" + ch.New
			}
		}
		return ggen.PrintRename(ch.Old, ch.New)
	case "D":
		return ch.Old
	}
	return ch.New
}

func messages(c SynCase) []git.CommitMessage {
	var out []git.CommitMessage
	for _, sc := range c.Commits {
		m := git.CommitMessage{Rev: sc.Rev, Author: sc.Author, Date: sc.Date, Message: sc.Subject}
		for _, ch := range sc.Changes {
			mode := ""
			switch ch.Kind {
			case "A":
				mode = "create"
			case "D":
				mode = "delete"
			}
			m.Changes = append(m.Changes, git.FileChange{Added: ch.Added, Deleted: ch.Deleted, File: printed(ch), Mode: mode})
		}
		out = append(out, m)
	}
	return out
}

type record struct {
	revs    map[string]bool
	authors map[string]bool
	first   string
}

type reference struct {
	live     map[string]*record
	authors  map[string][2]int         // author -> commits, net lines
	strings  map[string]bool           // distinct change strings
	change   map[string]map[string]int // type -> file -> commits
	renames  int
	deletes  int
	recreate int
	problem  string
}

// fold is the reference: one pass over the operation list (not over the notation).
func fold(c SynCase) reference {
	r := reference{live: map[string]*record{}, authors: map[string][2]int{}, strings: map[string]bool{}, change: map[string]map[string]int{}}
	gone := map[string]bool{}
	for _, sc := range c.Commits {
		a := r.authors[sc.Author]
		a[0]++
		for _, ch := range sc.Changes {
			a[1] += ch.Added - ch.Deleted
			r.strings[printed(ch)] = true
			var rec *record
			name := ch.New
			switch ch.Kind {
			case "A":
				if r.live[ch.New] != nil {
					r.problem = "add of a live path " + ch.New
				}
				if gone[ch.New] {
					r.recreate++
				}
				rec = &record{revs: map[string]bool{}, authors: map[string]bool{}, first: sc.Date}
				r.live[ch.New] = rec
			case "M":
				rec = r.live[ch.New]
			case "R":
				rec = r.live[ch.Old]
				delete(r.live, ch.Old)
				gone[ch.Old] = true
				if r.live[ch.New] != nil {
					r.problem = "rename onto a live path " + ch.New
				}
				r.live[ch.New] = rec
				r.renames++
			case "D":
				rec = r.live[ch.Old]
				delete(r.live, ch.Old)
				gone[ch.Old] = true
				name = ch.Old
				r.deletes++
			}
			if rec == nil {
				r.problem = fmt.Sprintf("%s of a path that is not live: %s %s", ch.Kind, ch.Old, ch.New)
				return r
			}
			rec.revs[sc.Rev] = true
			rec.authors[sc.Author] = true
			if sc.Type != "" {
				if r.change[sc.Type] == nil {
					r.change[sc.Type] = map[string]int{}
				}
				r.change[sc.Type][name]++
			}
		}
		r.authors[sc.Author] = a
	}
	return r
}

func sortedKeys[V any](m map[string]V) []string {
	var out []string
	for k := range m {
		out = append(out, k)
	}
	sort.Strings(out)
	return out
}

func diffSets(what string, got, want []string) string {
	sort.Strings(got)
	sort.Strings(want)
	if strings.Join(got, "\n") == strings.Join(want, "\n") {
		return ""
	}
	return fmt.Sprintf("%s is\n    %s\n  the history gives\n    %s", what, strings.Join(got, "\n    "), strings.Join(want, "\n    "))
}

func render(msgs []git.CommitMessage) string {
	var sb strings.Builder
	for _, m := range msgs {
		fmt.Fprintf(&sb, "  [%s] %s %s %q\n", m.Rev, m.Author, m.Date, m.Message)
		for _, ch := range m.Changes {
			fmt.Fprintf(&sb, "      +%d -%d %q %s\n", ch.Added, ch.Deleted, ch.File, ch.Mode)
		}
	}
	return sb.String()
}

// shareInput: the summaries are handed the caller's slice itself, not a copy of it (set by checkSeq for the cases
// whose second list lives in the first list's array: what a summary keeps about "the list at this address" shows)
var shareInput bool

func copyMessages(msgs []git.CommitMessage) []git.CommitMessage {
	if shareInput {
		return msgs
	}
	out := make([]git.CommitMessage, len(msgs))
	for i, m := range msgs {
		out[i] = m
		out[i].Changes = append([]git.FileChange(nil), m.Changes...)
	}
	return out
}

// judge compares the five summaries of msgs with the reference fold of c.
func judge(c SynCase, msgs []git.CommitMessage) pbt.Verdict {
	ref := fold(c)
	if ref.problem != "" {
		ggen.HarnessFatal("operation list is not a valid history: %s", ref.problem)
	}
	fail := func(format string, a ...interface{}) pbt.Verdict {
		return pbt.Fail("%s\n-- commit list --\n%s", fmt.Sprintf(format, a...), render(msgs))
	}

	// team summary
	var team []git.TeamSummary
	if p := pbt.Call(func() { team = git.GetTeamSummary(copyMessages(msgs)) }); p != "" {
		return fail("GetTeamSummary panicked: %s", p)
	}
	var got, want []string
	for _, t := range team {
		got = append(got, fmt.Sprintf("%q revisions=%d authors=%d", t.EntityName, t.RevsCount, t.AuthorCount))
	}
	for _, f := range sortedKeys(ref.live) {
		want = append(want, fmt.Sprintf("%q revisions=%d authors=%d", f, len(ref.live[f].revs), len(ref.live[f].authors)))
	}
	if d := diffSets("team summary", got, want); d != "" {
		return fail("%s", d)
	}
	for i := 1; i < len(team); i++ {
		if team[i-1].RevsCount < team[i].RevsCount {
			return fail("team summary is not in non-increasing order of revisions: %q (%d) before %q (%d)", team[i-1].EntityName, team[i-1].RevsCount, team[i].EntityName, team[i].RevsCount)
		}
	}

	// code age
	var ages []git.ProjectInfo
	if p := pbt.Call(func() { ages = git.CalculateCodeAge(copyMessages(msgs)) }); p != "" {
		return fail("CalculateCodeAge panicked: %s", p)
	}
	got, want = nil, nil
	for _, a := range ages {
		got = append(got, fmt.Sprintf("%q first commit %s", a.EntityName, a.Age.Format("2006-01-02")))
	}
	for _, f := range sortedKeys(ref.live) {
		d, err := time.Parse("2006-01-02", ref.live[f].first)
		if err != nil {
			ggen.HarnessFatal("bad date %q in the case", ref.live[f].first)
		}
		want = append(want, fmt.Sprintf("%q first commit %s", f, d.Format("2006-01-02")))
	}
	if d := diffSets("code age", got, want); d != "" {
		return fail("%s", d)
	}
	for i := 1; i < len(ages); i++ {
		if ages[i].Age.Before(ages[i-1].Age) {
			return fail("code age is not oldest first: %q (%s) before %q (%s)", ages[i-1].EntityName, ages[i-1].Age.Format("2006-01-02"), ages[i].EntityName, ages[i].Age.Format("2006-01-02"))
		}
	}

	// top authors
	var tops []git.TopAuthor
	if p := pbt.Call(func() { tops = git.GetTopAuthors(copyMessages(msgs)) }); p != "" {
		return fail("GetTopAuthors panicked: %s", p)
	}
	got, want = nil, nil
	sum := 0
	for _, t := range tops {
		got = append(got, fmt.Sprintf("%q commits=%d lines=%d", t.Name, t.CommitCount, t.LineCount))
		sum += t.CommitCount
	}
	for _, a := range sortedKeys(ref.authors) {
		want = append(want, fmt.Sprintf("%q commits=%d lines=%d", a, ref.authors[a][0], ref.authors[a][1]))
	}
	if d := diffSets("top-author list", got, want); d != "" {
		return fail("%s", d)
	}
	if sum != len(c.Commits) {
		return fail("commit counts of the top-author list sum to %d, the history has %d commits", sum, len(c.Commits))
	}

	// basic summary
	var basic *git.GitSummary
	if p := pbt.Call(func() { basic = git.BasicSummary(copyMessages(msgs)) }); p != "" {
		return fail("BasicSummary panicked: %s", p)
	}
	if basic == nil {
		return fail("BasicSummary returned nil")
	}
	if basic.Commits != len(c.Commits) {
		return fail("basic summary: %d commits, the history has %d", basic.Commits, len(c.Commits))
	}
	if basic.Authors != len(ref.authors) {
		return fail("basic summary: %d authors, the history has %d (%v)", basic.Authors, len(ref.authors), sortedKeys(ref.authors))
	}
	if ref.renames == 0 {
		if basic.Entities != len(ref.strings) {
			return fail("basic summary: %d paths, the history (without renames) has %d distinct paths %v", basic.Entities, len(ref.strings), sortedKeys(ref.strings))
		}
	} else if basic.Entities < len(ref.live) {
		return fail("basic summary: %d paths, but %d files exist at the end", basic.Entities, len(ref.live))
	}

	// changelog
	var cm map[string]map[string]int
	if p := pbt.Call(func() { cm = git.BuildChangeMap(copyMessages(msgs)) }); p != "" {
		return fail("BuildChangeMap panicked: %s", p)
	}
	flat := func(m map[string]map[string]int) []string {
		var out []string
		for typ, files := range m {
			for f, n := range files {
				out = append(out, fmt.Sprintf("type %q file %q commits=%d", typ, f, n))
			}
		}
		return out
	}
	if d := diffSets("changelog map", flat(cm), flat(ref.change)); d != "" {
		return fail("%s", d)
	}
	// the printed change-log summary (`coca git -m`)
	var buf bytes.Buffer
	if p := pbt.Call(func() { git.ShowChangeLogSummary(copyMessages(msgs), &buf) }); p != "" {
		return fail("ShowChangeLogSummary panicked: %s", p)
	}
	if d := checkChangeLogText(buf.String(), ref.change); d != "" {
		return fail("change-log summary: %s\n-- printed --\n%s", d, buf.String())
	}

	// classification
	v := pbt.Verdict{}
	authors := len(ref.authors)
	v.NonTrivial = (ref.renames > 0 || ref.deletes > 0) && authors >= 2
	add := func(cond bool, label string) {
		if cond {
			v.Classes = append(v.Classes, label)
		}
	}
	add(len(c.Commits) == 0, "no_commits")
	add(len(c.Commits) >= 10, "commits>=10")
	add(authors >= 2, "authors>=2")
	add(ref.renames > 0, "rename")
	add(ref.renames >= 3, "renames>=3")
	add(ref.deletes > 0, "delete")
	add(ref.recreate > 0, "path_recreated_after_delete_or_rename")
	add(len(ref.live) == 0 && len(c.Commits) > 0, "no_file_left")
	add(len(ref.change) > 0, "conventional_subjects")
	add(len(ref.live) > 20, "files_left>20")
	add(len(ref.authors) >= 5, "authors>=5")
	for _, files := range ref.change {
		add(len(files) > 10, "changelog_type_with_files>10")
	}
	for _, sc := range c.Commits {
		add(len(sc.Changes) == 0, "commit_without_changes")
		add(len(sc.Changes) >= 10, "commit_with_changes>=10")
		for _, ch := range sc.Changes {
			add(ch.Kind == "M" && ch.Added+ch.Deleted == 0, "revision_without_line_change")
		}
	}
	v.Classes = append(v.Classes, teamClasses(c)...)
	v.Classes = append(v.Classes, shapeClasses(c)...)
	add(len(ref.live) > 32, "files_left>32")
	add(len(ref.live) > 64, "files_left>64")
	for _, files := range ref.change {
		add(len(files) == 10, "changelog_type_with_files=10")
	}
	for _, rec := range ref.live {
		revs := sortedKeys(rec.revs)
		for i := 1; i < len(revs); i++ {
			add(len(revs[i]) >= 7 && len(revs[i-1]) >= 7 && revs[i][:7] == revs[i-1][:7], "file_touched_by_commits_whose_hashes_share_7_digits")
		}
	}
	for _, rec := range ref.live {
		add(len(rec.revs) > 8, "file_with_revisions>8")
		add(len(rec.revs) > 16, "file_with_revisions>16")
		add(len(rec.revs) > 32, "file_with_revisions>32")
		add(len(rec.authors) > 8, "file_with_authors>8")
		add(len(rec.authors) > 16, "file_with_authors>16")
	}
	multiRev, multiAuthor, chain := false, false, false
	revTie, dateTie := false, false
	seenRevs, seenDates := map[int]bool{}, map[string]bool{}
	for _, rec := range ref.live {
		multiRev = multiRev || len(rec.revs) >= 2
		multiAuthor = multiAuthor || len(rec.authors) >= 2
		revTie = revTie || seenRevs[len(rec.revs)]
		dateTie = dateTie || seenDates[rec.first]
		seenRevs[len(rec.revs)] = true
		seenDates[rec.first] = true
	}
	renamed := map[string]bool{}
	for _, sc := range c.Commits {
		for _, ch := range sc.Changes {
			if ch.Kind != "R" {
				continue
			}
			chain = chain || renamed[ch.Old]
			renamed[ch.New] = true
			p := printed(ch)
			switch {
			case ch.Full:
				add(true, "notation_full_path_forced")
			case !strings.Contains(p, "{"):
				add(true, "notation_full_path")
			case strings.Contains(p, "{ => "):
				add(true, "notation_into_subdir")
			case strings.Contains(p, " => }"):
				add(true, "notation_move_up")
			default:
				add(true, "notation_braces")
			}
		}
	}
	// the CLI computes several summaries from one parsed list (`coca git -m -b -t -a -o`): a summary
	// must not change what the next one sees. All of them again, on one shared list, in the order
	// of the case; every result must be the one computed on a list of its own.
	order := c.Order
	if len(order) == 0 {
		order = defaultOrder
	}
	canonTeam := func(ts []git.TeamSummary) string {
		var l []string
		for _, t := range ts {
			l = append(l, fmt.Sprintf("%q revisions=%d authors=%d", t.EntityName, t.RevsCount, t.AuthorCount))
		}
		sort.Strings(l)
		return strings.Join(l, "\n")
	}
	canonAges := func(as []git.ProjectInfo) string {
		var l []string
		for _, a := range as {
			l = append(l, fmt.Sprintf("%q first=%s", a.EntityName, a.Age.Format("2006-01-02")))
		}
		sort.Strings(l)
		return strings.Join(l, "\n")
	}
	canonTops := func(ts []git.TopAuthor) string {
		var l []string
		for _, t := range ts {
			l = append(l, fmt.Sprintf("%q commits=%d lines=%d", t.Name, t.CommitCount, t.LineCount))
		}
		sort.Strings(l)
		return strings.Join(l, "\n")
	}
	canonMap := func(m map[string]map[string]int) string {
		l := flat(m)
		sort.Strings(l)
		return strings.Join(l, "\n")
	}
	shared := copyMessages(msgs)
	before := "nothing"
	for _, k := range order {
		if k < 0 || k >= len(summaryNames) {
			ggen.HarnessFatal("order names summary %d", k)
		}
		alone, again := "", ""
		if p := pbt.Call(func() {
			switch k {
			case 0:
				alone, again = canonTeam(team), canonTeam(git.GetTeamSummary(shared))
			case 1:
				alone, again = canonAges(ages), canonAges(git.CalculateCodeAge(shared))
			case 2:
				alone, again = canonMap(cm), canonMap(git.BuildChangeMap(shared))
			case 3:
				alone, again = canonTops(tops), canonTops(git.GetTopAuthors(shared))
			case 4:
				if b := git.BasicSummary(shared); b != nil {
					again = fmt.Sprintf("%+v", *b)
				}
				alone = fmt.Sprintf("%+v", *basic)
			case 5:
				var text bytes.Buffer
				git.ShowChangeLogSummary(shared, &text)
				again = checkChangeLogText(text.String(), ref.change)
			}
		}); p != "" {
			return fail("%s on a commit list that other summaries have read before (%s) panicked: %s", summaryNames[k], before, p)
		}
		if again != alone {
			return fail("%s computed on a commit list that other summaries have read before (%s) differs from the one computed on a list of its own:\nalone:\n%s\non the shared list:\n%s", summaryNames[k], before, alone, again)
		}
		if before == "nothing" {
			before = summaryNames[k]
		} else {
			before += ", " + summaryNames[k]
		}
	}
	add(multiRev, "file_with_revisions>=2")
	add(multiAuthor, "file_with_authors>=2")
	add(chain, "rename_chain")
	add(revTie, "tie_in_revisions")
	add(dateTie, "tie_in_first_date")
	v.Classes = dedupe(v.Classes)
	raw, _ := json.Marshal(c)
	v.Canon = string(raw)
	return v
}

// checkChangeLogText reads what ShowChangeLogSummary printed: per type a section
//
//	<type> :
//	---------------------
//	<file>, <count>          at most ten lines
//	=====================
//
// Every type with files has exactly one section with min(10, files) lines, every line names a
// file of that type with its count, no file twice. Which ten of more files are shown, and the
// order of sections and lines, is not promised.
func checkChangeLogText(text string, want map[string]map[string]int) string {
	const end = "=====================\n"
	parts := strings.Split(text, end)
	if parts[len(parts)-1] != "" {
		return fmt.Sprintf("text after the last section: %q", parts[len(parts)-1])
	}
	seen := map[string]bool{}
	for _, sec := range parts[:len(parts)-1] {
		lines := strings.Split(strings.TrimSuffix(sec, "\n"), "\n")
		if len(lines) < 2 || !strings.HasSuffix(lines[0], " :") || strings.Trim(lines[1], "-") != "" {
			return fmt.Sprintf("section does not start with `<type> :` and a rule: %q", sec)
		}
		typ := strings.TrimSuffix(lines[0], " :")
		if seen[typ] {
			return fmt.Sprintf("type %q has two sections", typ)
		}
		seen[typ] = true
		files := want[typ]
		wantLines := len(files)
		if wantLines > 10 {
			wantLines = 10
		}
		if len(lines)-2 != wantLines {
			return fmt.Sprintf("type %q: %d lines printed, %d files were touched by commits of that type (ten are shown at most)", typ, len(lines)-2, len(files))
		}
		shown := map[string]bool{}
		for _, l := range lines[2:] {
			i := strings.LastIndex(l, ", ")
			if i < 0 {
				return fmt.Sprintf("type %q: line %q is not `<file>, <count>`", typ, l)
			}
			file, count := l[:i], l[i+2:]
			n, ok := files[file]
			if !ok {
				return fmt.Sprintf("type %q: line %q names a file no commit of that type touched", typ, l)
			}
			if count != fmt.Sprint(n) {
				return fmt.Sprintf("type %q: line %q, but %d commits of that type touched the file", typ, l, n)
			}
			if shown[file] {
				return fmt.Sprintf("type %q: file %q is listed twice", typ, file)
			}
			shown[file] = true
		}
	}
	for _, typ := range sortedKeys(want) {
		if len(want[typ]) > 0 && !seen[typ] {
			return fmt.Sprintf("no section for type %q (%d files)", typ, len(want[typ]))
		}
	}
	return ""
}

func dedupe(in []string) []string {
	seen := map[string]bool{}
	var out []string
	for _, s := range in {
		if !seen[s] {
			seen[s] = true
			out = append(out, s)
		}
	}
	return out
}

func checkSyn(c SynCase) pbt.Verdict {
	git.VerifResetGit()
	return judge(c, messages(c))
}

// checkSeq: whatever was summarised before in this process, the summaries of a list are those
// of that list (the statement speaks of every parsed history, not of the first one of a process).
func checkSeq(c SeqCase) pbt.Verdict {
	git.VerifResetGit()
	shareInput = c.SameArray
	defer func() { shareInput = false }()
	first := messages(c.First)
	if v := judge(c.First, first); v.Violation != "" {
		v.Violation = "first commit list: " + v.Violation
		return v
	}
	second := messages(c.Second)
	if c.SameArray {
		// the same backing array: the second list overwrites the first one
		if len(second) <= cap(first) {
			buf := first[:len(second)]
			copy(buf, second)
			second = buf
		}
	}
	v := judge(c.Second, second)
	if v.Violation != "" {
		if c.SameArray {
			v.Violation = "(the second list was written into the slice that held the first one) " + v.Violation
		}
		v.Violation = "second commit list, summarised after another list in the same process: " + v.Violation + "-- the list summarised before --\n" + render(messages(c.First))
	}
	raw, _ := json.Marshal(c)
	v.Canon = string(raw)
	return v
}

func checkParsed(c ParsedCase) pbt.Verdict {
	sim, err := ggen.Simulate(c.History)
	if err != nil {
		ggen.HarnessFatal("case does not simulate: %v", err)
	}
	if len(c.Hashes) != len(sim.Log()) {
		ggen.HarnessFatal("case has %d hashes for %d commits", len(c.Hashes), len(sim.Log()))
	}
	exp := ggen.Expect(sim, c.Hashes)
	git.VerifResetGit()
	var msgs []git.CommitMessage
	if p := pbt.Call(func() { msgs = git.BuildMessageByInput(ggen.Emulate(sim, c.Hashes)) }); p != "" {
		return pbt.Verdict{Skip: true} // the parser is C14's subject
	}
	// C15 speaks about correctly parsed histories: when the parser output is not the
	// history (C14's subject) the case is outside the domain
	if !sameAsExpected(msgs, exp) {
		pbt.Count("parser_output_differs_from_history_skipped", 1)
		return pbt.Verdict{Skip: true}
	}
	var syn SynCase
	for _, e := range exp {
		sc := SynCommit{Rev: e.Rev, Author: e.Author, Date: e.Date, Subject: e.Subject, Type: e.Type}
		for _, d := range e.Entries {
			sc.Changes = append(sc.Changes, SynChange{Kind: string(d.Kind), Old: d.Old, New: d.New, Added: d.Added, Deleted: d.Deleted})
		}
		syn.Commits = append(syn.Commits, sc)
	}
	// the reference must leave exactly the files of the final tree
	ref := fold(syn)
	if ref.problem != "" || strings.Join(sortedKeys(ref.live), "\n") != strings.Join(sim.HeadTree().Paths(), "\n") {
		ggen.HarnessFatal("reference fold leaves %v, the final tree has %v (%s)", sortedKeys(ref.live), sim.HeadTree().Paths(), ref.problem)
	}
	v := judge(syn, msgs)
	v.Canon = "parsed:" + v.Canon
	return v
}

func sameAsExpected(msgs []git.CommitMessage, exp []ggen.Expected) bool {
	if len(msgs) != len(exp) {
		return false
	}
	for i, e := range exp {
		m := msgs[i]
		if m.Rev != e.Rev || m.Author != e.Author || m.Date != e.Date || m.Message != e.Subject || len(m.Changes) != len(e.Changes) {
			return false
		}
		var a, b []string
		for _, ch := range m.Changes {
			a = append(a, fmt.Sprintf("%q %d %d %s", ch.File, ch.Added, ch.Deleted, ch.Mode))
		}
		for _, ch := range e.Changes {
			b = append(b, fmt.Sprintf("%q %d %d %s", ch.File, ch.Added, ch.Deleted, ch.Mode))
		}
		sort.Strings(a)
		sort.Strings(b)
		if strings.Join(a, "\n") != strings.Join(b, "\n") {
			return false
		}
	}
	return true
}

func init() {
	pbt.SetProperty("C15")
	pbt.Describe("operation lists drawn by the git-history generator of C14 (add / modify / delete / rename to another name, directory, the root, one directory up or down, replaced or prepended directory components; re-creation of deleted paths; conventional-commit subjects with and without scope; non-decreasing dates with ties; imports of 9-24 files in one commit, so that more than 20 files are left and a change-log type touches more than 10; mode-only changes = revisions without a line change; names that are a prefix or suffix of another name; author names with inner punctuation), linear histories. Scale, added on top of that generator in all four routes: one history in two is handed, commit by commit, to a team of 2-48 further authors (sizes straddle 8, 16 and 32; names `Dev n`, given + family name, one-word handles, names outside ASCII, near twins of another name: other case, first word alone, with a digit or ' Jr'; all names are ones git prints with %aN), so that there are more than 8 / 16 / 32 distinct authors, authors who commit again after many others have appeared, histories in which every commit has another author, files with more than 8 authors; with a team of more than 8 the history may have up to 40 ('syn'; 70 with a team of more than 32), 24 ('parsed'), 20 ('cli'), 16 ('seq') commits. 'syn' only: one list in eight has up to 70 commits; in one list in four a hot file (followed through its renames, replaced when deleted) is modified once more by three of four commits that do not touch it anyway, which gives files with more than 8 / 16 / 32 revisions. 'syn': 0-30 commits (see above: up to 70) by 1-8 authors (with a team: up to 48) over up to 8 live files (plus imports), turned directly into []CommitMessage with free added/deleted numbers, now and then a commit without any file change, path components that begin with a blank, the order of changes inside a commit shuffled, renames written in git's notation (dir/{a => b}/f, { => sub}/f, {sub => }/f, a => b) or forced to the full-path form; 'parsed': 1-12 commits, up to 5 files, printed in the exact git log layout by the format emulator (validated against real git at start-up) and parsed by BuildMessageByInput; 'seq': two short 'syn' lists (now and then with the same hashes) summarised one after the other in one process, both judged; 'cli': 1-8 commits (with a team of more than 8: up to 20) built with real git (validated like C14's cases), `coca git -b -t -a -o -m` (or, one time in three, a subset of the five flags) run inside the repository, the change-log sections and the rows of the last table read from stdout (4 statistics, files of the team summary, files of the code age, authors - in the order of the flags) and compared with the same reference; code age in the table is months before now, so only the order (oldest first) and the difference of every row to the first row (fixed by the two first-commit dates, +-0.02) are asserted; a case whose commits.json is not the history, or with a cell wider than 70 columns (the table writer folds at 80), is skipped and counted. Added by the checklist audit. 'syn' and 'seq' (laid over the generator's output, the operation list stays what it is): path components that end with blanks, consist of blanks or hold a run of blanks, commits without a message, subjects as git and the hosting services write them (Merge .., Revert \"..\", fixup! .., Merged PR n: ..; none of them conventional unless it cites a conventional subject at its front); in one list in three, two of three subjects are drawn at the border of the conventional form - of the form: unusual type words (feature, fixup, fi, f, v2, _, x1, FEAT, feat_, 9, a long word), scopes outside ASCII or with punctuation, two blanks after the colon, a description that begins with / contains another `word: ` or ends with a colon, the breaking-change mark `type!: ` and `type(scope)!: `; not of the form: `type:text`, `type:`, `type : text`, `type (scope): text`, `type(scope) : text`, `type(scope):text`, `type; text`, two words before the colon, and no word at all before the colon or the scope (`: text`, `(scope): text`); in one list in three, 1-6 path components (those of renamed paths first) are respelled everywhere they occur, distinct from all others: with braces (f{1}.txt, ${f.txt}, {{f.txt}}, f{.txt, f}.txt, {f.txt}), with $ _ or a digit at the edges, outside ASCII (é.., ..漢字, a no-break space inside, upper case), as a word of the log format or of the notation (delete, create, mode, rename, change, =>, ->, =), with 200 more bytes; in one list in twelve one commit imports 25-90 further files (commits with more than 32 / 64 changes, more than 64 files left) of which later commits modify, rename or delete one now and then; in one list in two the six summaries (the five and the printed change-log) are computed twice each on ONE shared commit list in a drawn order, every result compared with the one computed on a list of its own (without a drawn order: team, age, change map, top authors, team, basic). 'syn', 'seq' and 'parsed': in one list in four some hashes differ from an earlier hash of the list in the last digit only (same first seven digits), have 12 / 16 / 40 digits, or consist of digits only / letters only. 'cli': one time in two the flags are spelled otherwise: long names, one group (-btaom), `--name=true` with the flags left out as `--name=false`, reverse order. Oracle: a reference fold over the operation list (old path / new path, not the notation): per live file the set of commits, the set of authors and the date of the first commit; a rename moves the record, a delete drops it. Compared: team summary as a set of (file, revisions, authors) and non-increasing in revisions; code age as a set of (file, first date) and non-decreasing; top authors as a set of (author, commits, added-deleted) with commit counts summing to the number of commits; basic summary commits / authors / distinct paths (with renames only: paths >= files existing at the end); changelog map = per conventional type and file name (the new name for a rename) the number of commits; printed change-log summary (ShowChangeLogSummary / -m) = one section per type with min(10, files) lines, each naming a file of that type with its count, none twice (which ten of more, and the order, are free); all summaries once more in CLI order on one shared commit list must equal the first results. Non-trivial = the history has a rename or a delete and at least 2 authors; distinct = hash of the commit list.",
		"a file re-created at a path that was deleted or renamed away earlier starts a new record",
		"inside one commit every path is touched at most once (what a git tree diff can express), so the order of a commit's changes is immaterial",
		"dates never decrease along the log, so 'first commit' and 'oldest commit' of a file coincide",
		"an author is the exact name string (names that differ in case, or by a prefix, are different authors, as for git without a mailmap)",
		"the order of the top-author list is not asserted (the statement promises none); 'Changes' of the basic summary is not asserted",
		"conventional type = the word before ': ', '(scope): ', '!: ' or '(scope)!: ' at the very start of the subject (the `!` is the breaking-change mark of Conventional Commits 1.0.0), compared as written (feat, FEAT and feature are three types); a subject without such a prefix is not conventional: it starts with a plain word followed by a blank, or it lacks the blank after the colon, has a blank in front of the colon or of the scope, or has no word in front of them",
		"abbreviated hashes are distinct and none is a prefix of another one (as git prints them)",
		"a path component may contain { and }, never ` => `. With such names git's rename notation can in general be read in more than one way; a rename that involves such a name is kept only when the printed text has exactly one pair of braces around the arrow that stands at component boundaries (`{` at the start or behind a slash, `}` at the end or before a slash) and that pair is the true one, or no such pair and the full-path form; otherwise the spelling with the brace is taken back",
		"the 'parsed' route uses linear histories and leaves out the subject and path shapes on which the pinned parser is wrong (C14's findings); a case whose parser output differs from the history is skipped and counted, not judged")
	pbt.Register("syn", 2000, 30000, genSyn, checkSyn)
	pbt.Register("parsed", 1500, 10000, genParsed, checkParsed)
	pbt.Register("seq", 300, 3000, genSeq, checkSeq)
	pbt.Register("cli", 30, 100, genCli, checkCli)
}

func selfTest(t *testing.T, n int) {
	base := cli.Scratch("c15-self-")
	defer os.RemoveAll(base)
	if err := ggen.SelfTest(base, n); err != nil {
		fmt.Printf("HARNESS-ERROR (not a violation): %v\n", err)
		t.Fatalf("HARNESS-ERROR: the git history generator disagrees with real git")
	}
}

func TestProp(t *testing.T) {
	selfTest(t, 8)
	pbt.Main(t)
}

func TestReplay(t *testing.T) {
	if os.Getenv("VERIF_REPLAY") != "" {
		selfTest(t, 0)
	}
	pbt.Replay(t)
}
