// C15, scale of a history: larger teams than the history generator draws by itself (its author pool
// gives at most 8 distinct names), a file that nearly every commit touches, longer histories. Built
// here on top of the history generator: the author of a commit is a label the operation list does not
// depend on, and a further modification of a file that exists before and after a commit, and that the
// commit does not touch otherwise, leaves the operation list a valid history.
package c15

import (
	"fmt"
	"strings"

	"pgregory.net/rapid"

	"verif/internal/ggen"
)

var (
	givenPool  = []string{"Ada", "Ben", "Chloé", "Dmitri", "Eve", "Farid", "Grace", "Hiro", "Ines", "Jamal", "Kim", "Lars"}
	familyPool = []string{"Adams", "Brown", "de la Cruz", "Dvořák", "Eriksson", "Fong", "García", "Haddad", "Ito", "Jones", "Kim", "O'Brien"}
	widePool   = []string{"Łukasz Żak", "Даша Иванова", "山田 太郎", "José Ñuñez", "Åse Ørsted", "Σοφία", "Nguyễn Văn A", "Ōno 2"}
	handleSeps = []string{"-", "_", ".", ""}
)

// drawTeamSize: 0 = the authors the history generator drew (the plain variant); else the size of a team
// whose members take over commits. The size classes straddle 8, 16 and 32.
func drawTeamSize(t *rapid.T) int {
	if rapid.IntRange(0, 1).Draw(t, "team") == 0 {
		return 0
	}
	switch rapid.IntRange(0, 3).Draw(t, "teamSizeClass") {
	case 0:
		return rapid.IntRange(2, 8).Draw(t, "teamSize")
	case 1:
		return rapid.IntRange(9, 16).Draw(t, "teamSize")
	case 2:
		return rapid.IntRange(17, 32).Draw(t, "teamSize")
	}
	return rapid.IntRange(33, 48).Draw(t, "teamSize")
}

// gitClean is what git leaves of an author name: blanks and . , : ; < > " \ ' are cut off both ends.
func gitClean(s string) string {
	return strings.TrimFunc(s, func(r rune) bool { return r <= 32 || strings.ContainsRune(`.,:;<>"\'`, r) })
}

// genTeamNames draws n author names, every one a name `git log --pretty=%aN` can print. Plain variant:
// "Dev <i>". Others: given + family name, a one-word handle, a name outside ASCII, and a near twin of a
// name drawn before or of one of the history's own authors (upper case, lower case, with " Jr", the first
// word alone - that is a proper prefix -, with a digit). Two members may draw the same name: they are one
// author then (the reference goes by the string).
func genTeamNames(t *rapid.T, n int, own []string) []string {
	var names []string
	for i := 0; i < n; i++ {
		plain := fmt.Sprintf("Dev %d", i+1)
		name := plain
		switch rapid.IntRange(0, 6).Draw(t, "nameStyle") {
		case 2, 3:
			name = rapid.SampledFrom(givenPool).Draw(t, "given") + " " + rapid.SampledFrom(familyPool).Draw(t, "family")
		case 4:
			name = strings.ToLower(rapid.SampledFrom(givenPool).Draw(t, "given")) + rapid.SampledFrom(handleSeps).Draw(t, "sep") + fmt.Sprint(rapid.IntRange(0, 99).Draw(t, "number"))
		case 5:
			name = rapid.SampledFrom(widePool).Draw(t, "wideName")
		case 6:
			earlier := append(append([]string{}, own...), names...)
			if len(earlier) == 0 {
				break
			}
			base := earlier[rapid.IntRange(0, len(earlier)-1).Draw(t, "twinOf")]
			twin := base
			switch rapid.IntRange(0, 4).Draw(t, "twin") {
			case 0:
				twin = base + "2"
			case 1:
				twin = strings.ToUpper(base)
			case 2:
				twin = strings.ToLower(base)
			case 3:
				twin = base + " Jr"
			case 4:
				twin = strings.SplitN(base, " ", 2)[0]
			}
			twin = gitClean(twin)
			if twin == "" || twin == base {
				twin = base + "2"
			}
			if len(twin) <= 40 {
				name = twin
			}
		}
		names = append(names, name)
	}
	return names
}

// applyTeam hands commits to team members: per commit member 0 keeps the generator's author. A name that
// happens to stand in the commit's subject is not given to that commit (the routes through the parser keep
// the author's name out of the subject).
func applyTeam(t *rapid.T, h *ggen.History, names []string) {
	if len(names) == 0 {
		return
	}
	for i := range h.Commits {
		m := rapid.IntRange(0, len(names)).Draw(t, "member")
		if m == 0 || strings.Contains(h.Commits[i].Subject, names[m-1]) {
			continue
		}
		h.Commits[i].Author = names[m-1]
	}
}

func ownAuthors(h ggen.History) []string {
	seen := map[string]bool{}
	var out []string
	for _, c := range h.Commits {
		if !seen[c.Author] {
			seen[c.Author] = true
			out = append(out, c.Author)
		}
	}
	return out
}

// genHistory draws a history and, one time in two, a team for it. With a team of more than 8 the history
// may be as long as teamCommits (0 = leave the bound alone), so that members can come back after many others.
func genHistory(t *rapid.T, o ggen.Options, teamCommits int) ggen.History {
	size := drawTeamSize(t)
	if size > 32 && teamCommits >= 40 {
		teamCommits = 70 // the direct route only: room for members of a team of 33-48 to come back
	}
	if size > 8 && teamCommits > o.MaxCommits {
		o.MaxCommits = teamCommits
	}
	h := ggen.Gen(t, o)
	if size > 0 {
		applyTeam(t, &h, genTeamNames(t, size, ownAuthors(h)))
	}
	return h
}

// teamClasses: labels for the author side of a commit list.
func teamClasses(c SynCase) []string {
	var out []string
	add := func(cond bool, label string) {
		if cond {
			out = append(out, label)
		}
	}
	seen := map[string]int{} // author -> rank of first appearance (1-based)
	back := map[int]bool{}
	names := []string{}
	for _, sc := range c.Commits {
		if r, ok := seen[sc.Author]; ok {
			// an author first seen before the 9th / 17th / 33rd distinct author commits again after it
			for _, k := range []int{9, 17, 33} {
				if r < k && len(seen) >= k {
					back[k] = true
				}
			}
			continue
		}
		seen[sc.Author] = len(seen) + 1
		names = append(names, sc.Author)
	}
	add(len(seen) > 8, "authors>8")
	add(len(seen) > 16, "authors>16")
	add(len(seen) > 32, "authors>32")
	add(back[9], "author_back_after_9th_author")
	add(back[17], "author_back_after_17th_author")
	add(back[33], "author_back_after_33rd_author")
	add(len(c.Commits) > 30, "commits>30")
	add(len(c.Commits) > 64, "commits>64")
	add(len(seen) >= 9 && len(seen) == len(c.Commits), "authors>8_every_commit_by_another_author")
	caseTwin, prefixTwin := false, false
	lower := map[string]bool{}
	for _, n := range names {
		if lower[strings.ToLower(n)] {
			caseTwin = true
		}
		lower[strings.ToLower(n)] = true
		for _, m := range names {
			if m != n && strings.HasPrefix(m, n) {
				prefixTwin = true
			}
		}
	}
	add(caseTwin, "author_names_differ_in_case_only")
	add(prefixTwin, "author_name_is_prefix_of_another")
	return out
}
