// C13 — architecture graph edges are exactly the type dependencies in the model; merging by
// package is the quotient graph without self-loops; the emitted DOT is well-formed, shows each
// included type once under its package path and draws edges only between displayed nodes.
package c13

import (
	"encoding/json"
	"fmt"
	"os"
	"path/filepath"
	"sort"
	"strings"
	"testing"

	"github.com/awalterschulze/gographviz"
	"github.com/modernizing/coca/pkg/application/arch"
	"github.com/modernizing/coca/pkg/application/arch/tequila"
	"github.com/modernizing/coca/pkg/domain/core_domain"
	"pgregory.net/rapid"

	"verif/internal/cli"
	"verif/internal/mgen"
	"verif/internal/pbt"
)

// Case is one generated input: a code model, the identifier map (as a list of full type
// names), and the configuration of `coca arch` (-x filter, -H, -P).
type Case struct {
	Model        mgen.Model `json:"model"`
	Identifiers  []string   `json:"identifiers"`
	Filter       string     `json:"filter"` // the -x argument, split at commas as cmd/arch.go does
	MergeHeader  bool       `json:"mergeHeader"`
	MergePackage bool       `json:"mergePackage"`
	// a second -x argument: the same graph is laid out again with it, and then once more with
	// the first one ("" = everything, which is also what older replay files get)
	Filter2 string `json:"filter2,omitempty"`
	// cli sub-check only: leave -x out when the filter is empty (the flag's default);
	// put deps.json somewhere else and name it with -d
	OmitX    bool   `json:"omitX,omitempty"`
	DepsPath string `json:"depsPath,omitempty"`
	// another input that the same process (cli sub-check: the same directory) handles first:
	// it is analysed, merged both ways and laid out, and judged on its own; then the case itself
	Before *Earlier `json:"before,omitempty"`
	// cli sub-check only: how the options are spelled (zero value: -x v -d v -H -P) and how the
	// two JSON files are laid out
	Cli CliForm `json:"cli,omitempty"`
}

type Earlier struct {
	Model       mgen.Model `json:"model"`
	Identifiers []string   `json:"identifiers"`
	Filter      string     `json:"filter"`
}

type CliForm struct {
	Long       bool `json:"long,omitempty"`       // --filter --dependence --mergeHeader --mergePackage
	Equals     bool `json:"equals,omitempty"`     // --filter=v / -x=v instead of two arguments
	FlagsFirst bool `json:"flagsFirst,omitempty"` // -H / -P before -x and -d
	Combined   bool `json:"combined,omitempty"`   // -HP as one argument (short form, both set)
	Visual     bool `json:"visual,omitempty"`     // -v: also writes visual.json, arch.dot unchanged
	JSON       int  `json:"json,omitempty"`       // 0 compact, 1 tab-indented (as coca writes it), 2 the same with CRLF, 3 two blanks, blank lines around
}

// ---- generator ---------------------------------------------------------------------------

// small alphabets: concatenations such as "a"+"bc" == "ab"+"c" are reachable
var segs = []string{"a", "ab", "bc", "c", "b", "abc"}
var classNames = []string{"A", "B", "C", "D", "E", "Main", "MainFrame", "Domain", "AB", "AppMain", "main"}
var methodNames = []string{"run", "m1", "m2", "main", "mainLoop", "remain", "domain", "main", "Main", "MAIN", "main_", "_main"}

// how coca's full pass tags a call (CodeCall.Type); the statement counts a call whatever its tag
var callTags = []string{"", "", "", "", "chain", "lambda", "same package", "same package 2", "super", "CreatorClass"}
var extTypes = []string{"java.util.List", "java.util.ArrayList", "org.ext.Base", "org.ext.api.Port", "java.io.Serializable"}
var bareTypes = []string{"Base", "Runnable", "T"}

// The wide naming (two models in five): everything a Java identifier may consist of. Package
// segments and type names with '_' and '$', in either letter case, with digits, with letters
// outside ASCII (two- and three-byte runes), names that read like the ids and keywords of the
// DOT language, and a long name. The plain alphabets come first, so shrinking moves to them.
// The point of these names: two different qualified names that become equal when '.', '_', '$'
// or letter case or non-ASCII letters are not told apart, or when only a prefix is looked at.
var wideSegs = []string{"a_b", "ab_c", "a$b", "_a", "A", "Ab", "aB", "a1", "b1c", "ä", "ö", "äb", "包", "node1", "cluster1", "node", "graph", "subgraph", "G", "edge", "main", "Main"}
var wideClassNames = []string{"a", "b_A", "A_B", "A$B", "B$C", "B_C", "c_A", "_A", "A1", "Ä", "Ö", "Äb", "Öb", "订单", "注文", "node1", "node2", "cluster1", "Node", "Edge", "Graph", "digraph", "strict", "G", longStem + "1", "MAIN", "Main1", "Main_", "_Main", "Main$1"}

// 44 characters: longer than any width an id or label could sensibly be cut to
const longStem = "OrderFulfilmentSettlementReconciliationFacade"

func alphabets(wide bool) (segAlphabet, nameAlphabet []string) {
	if !wide {
		return segs, classNames
	}
	return append(append([]string{}, segs...), wideSegs...), append(append([]string{}, classNames...), wideClassNames...)
}

func pkgGen(maxDepth int, segAlphabet []string) *rapid.Generator[string] {
	return rapid.Custom(func(t *rapid.T) string {
		depth := rapid.SampledFrom([]int{1, 1, 1, 1, 2, 2, 2, 3, 4, 7, 1, 2, 3, 12}).Draw(t, "depth")
		if depth > maxDepth {
			depth = maxDepth
		}
		return strings.Join(rapid.SliceOfN(rapid.SampledFrom(segAlphabet), depth, depth).Draw(t, "segs"), ".")
	})
}

// The generator is built from rapid.Custom / rapid.SliceOfN so that the shrinker can delete
// whole types, methods and references. A reference to a project type is drawn as an index
// and resolved modulo the number of types, so it stays valid when types are deleted.
type refDraw struct{ kind, target, aux int }

func refGen(maxTarget int) *rapid.Generator[refDraw] {
	return rapid.Custom(func(t *rapid.T) refDraw {
		return refDraw{kind: rapid.IntRange(0, 11).Draw(t, "kind"), target: rapid.IntRange(0, maxTarget).Draw(t, "target"), aux: rapid.IntRange(0, 11).Draw(t, "aux")}
	})
}

type callDraw struct {
	ref    refDraw
	callee string
	tag    string
}

type methodDraw struct {
	name  string
	calls []callDraw
}

type classDraw struct {
	pkg, name string
	kind      string    // "" (a class), "Interface"
	spread    bool      // take the i-th package of the pool while there are unused ones
	extend    []refDraw // 0 or 1
	impls     []refDraw
	fields    []refDraw
	methods   []methodDraw
	// wide naming only: this type is renamed to a near-twin of another type (see makeTwin);
	// twin == 0: no. twinOf picks the other type, twinAux the dot / the rune pair
	twin, twinOf, twinAux int
}

func callGen(maxTarget int) *rapid.Generator[callDraw] {
	return rapid.Custom(func(t *rapid.T) callDraw {
		return callDraw{ref: refGen(maxTarget).Draw(t, "ref"), callee: rapid.SampledFrom([]string{"f", "g", "main"}).Draw(t, "callee"),
			tag: rapid.SampledFrom(callTags).Draw(t, "tag")}
	})
}

func methodGen(maxTarget int) *rapid.Generator[methodDraw] {
	return rapid.Custom(func(t *rapid.T) methodDraw {
		return methodDraw{name: rapid.SampledFrom(methodNames).Draw(t, "mname"), calls: rapid.SliceOfN(callGen(maxTarget), 0, 3).Draw(t, "calls")}
	})
}

// maxTarget: references to project types are drawn from 0..maxTarget (and taken modulo the
// number of types): 6 for the usual models of up to 7 types, n-1 for a large model of n
func classGen(pool []string, nameAlphabet []string, wide bool, maxTarget int) *rapid.Generator[classDraw] {
	refGen, methodGen := refGen(maxTarget), methodGen(maxTarget)
	return rapid.Custom(func(t *rapid.T) classDraw {
		c := classDraw{pkg: rapid.SampledFrom(pool).Draw(t, "pkg"), name: rapid.SampledFrom(nameAlphabet).Draw(t, "name")}
		if wide && rapid.IntRange(0, 2).Draw(t, "hasTwin") == 2 {
			c.twin = rapid.IntRange(1, twinKinds).Draw(t, "twinKind")
			c.twinOf = rapid.IntRange(1, 6).Draw(t, "twinOf")
			c.twinAux = rapid.IntRange(0, 7).Draw(t, "twinAux")
		}
		c.spread = rapid.IntRange(0, 3).Draw(t, "anyPkg") < 3
		c.kind = rapid.SampledFrom([]string{"", "", "", "Interface"}).Draw(t, "kind")
		if rapid.IntRange(0, 3).Draw(t, "hasExtend") == 3 {
			c.extend = []refDraw{refGen.Draw(t, "extend")}
		}
		c.impls = rapid.SliceOfN(refGen, 0, 2).Draw(t, "impls")
		c.fields = rapid.SliceOfN(refGen, 0, 3).Draw(t, "fields")
		c.methods = rapid.SliceOfN(methodGen, 0, 3).Draw(t, "methods")
		return c
	})
}

const twinKinds = 8

func swapCase(s string, from int) (string, bool) {
	for i := from; i < len(s); i++ {
		switch ch := s[i]; {
		case ch >= 'a' && ch <= 'z':
			return s[:i] + string(ch-'a'+'A') + s[i+1:], true
		case ch >= 'A' && ch <= 'Z':
			return s[:i] + string(ch-'A'+'a') + s[i+1:], true
		}
	}
	return s, false
}

// same number of runes each; the pairs differ in byte length, too
var runePairs = [][2]string{{"Ä", "Ö"}, {"订", "注"}, {"é", "注"}, {"Ä", "_"}}

// makeTwin gives a type (pkg, name) that is a near-twin of the type (op, on): a different
// qualified name that equals the other one once some distinction is dropped. Some kinds rename
// the other type as well (returned as op, on). ok == false: this kind cannot be applied here.
//
//	1, 2  one dot of the qualified name becomes '_' / '$'   legacy.order.Dao | legacy.order_Dao | legacy_order.Dao
//	3     inner-class style                                  a.B$In | a.B_In
//	4     letter case of the type name                       a.Order | a.order
//	5     letter case of a package segment                   ab.c.A | Ab.c.A
//	6     letters outside ASCII, equally many runes          a.ÄB | a.ÖB   (also 订/注, é/注, Ä/_)
//	7     a common prefix of 45 and more characters          a.B<long>1 | a.B<long>2
//	8     one dot dropped                                    a.b.C | ab.C | a.bC
func makeTwin(kind, aux int, op, on string, segAlphabet []string) (pkg, name, op2, on2 string, ok bool) {
	switch kind {
	case 1, 2, 8:
		if op == "" {
			// the other type is in the default package: put it into a package of one segment; the
			// twin then is a type of the default package (seg.On | .seg_On)
			op = segAlphabet[aux%len(segAlphabet)]
		} else if !strings.Contains(op, ".") {
			// a package of one segment: the only dot is the one before the type name, and a type
			// needs a package. Put the other type one package further down first.
			op = op + "." + segAlphabet[aux%len(segAlphabet)]
		}
		sep := map[int]string{1: "_", 2: "$", 8: ""}[kind]
		parts := strings.Split(op+"."+on, ".")
		k := 1 + aux%(len(parts)-1) // the dot before parts[k]
		merged := append(append(append([]string{}, parts[:k-1]...), parts[k-1]+sep+parts[k]), parts[k+1:]...)
		return strings.Join(merged[:len(merged)-1], "."), merged[len(merged)-1], op, on, true
	case 3:
		return op, on + "_In", op, on + "$In", true
	case 4:
		n, ok := swapCase(on, 0)
		return op, n, op, on, ok
	case 5:
		segStart := []int{0}
		for i := 0; i < len(op); i++ {
			if op[i] == '.' {
				segStart = append(segStart, i+1)
			}
		}
		p, ok := swapCase(op, segStart[aux%len(segStart)])
		return p, on, op, on, ok
	case 6:
		rp := runePairs[aux%len(runePairs)]
		return op, rp[1] + on, op, rp[0] + on, true
	case 7:
		return op, on + longStem + "2", op, on + longStem + "1", true
	}
	return "", "", op, on, false
}

func isPackageOf(name string, classes []mgen.Class) bool {
	for _, o := range classes {
		if o.Pkg == name || strings.HasPrefix(o.Pkg, name+".") {
			return true
		}
	}
	return false
}

func gen(t *rapid.T) Case    { return genFor(t, false) }
func genCLI(t *rapid.T) Case { return genFor(t, true) }

func genFor(t *rapid.T, forCLI bool) Case {
	var pool []string
	// naming: 0-5 plain (the small colliding alphabets), 6-9 wide (see wideSegs, makeTwin)
	wide := rapid.IntRange(0, 9).Draw(t, "naming") >= 6
	segAlphabet, nameAlphabet := alphabets(wide)
	template := rapid.IntRange(0, 5).Draw(t, "template")
	if template == 5 {
		// packages below a common stem of 5-6 segments: full type names of 7-9 segments, the
		// lengths around MergePackageFunc's cut at 7
		stem := strings.Join(rapid.SliceOfN(rapid.SampledFrom(segAlphabet), 5, 6).Draw(t, "stem"), ".")
		pool = []string{stem + ".a", stem + ".ab", stem + ".a.c", stem + ".ab.c", stem}
	} else if template >= 3 {
		// packages P.a, P.ab, bc.Q, c.Q: the shapes whose merged names concatenate alike
		p, q := "", ""
		if rapid.Bool().Draw(t, "prefix") {
			p = pkgGen(3, segAlphabet).Draw(t, "prefixPkg") + "."
		}
		if rapid.Bool().Draw(t, "suffix") {
			q = "." + pkgGen(3, segAlphabet).Draw(t, "suffixPkg")
		}
		pool = []string{p + "a", p + "ab", "bc" + q, "c" + q}
	} else {
		pool = rapid.SliceOfN(pkgGen(12, segAlphabet), rapid.IntRange(1, 3).Draw(t, "minPkgs"), 4).Draw(t, "pkgs")
	}
	// eighth seed batch: package names that collide under the 32-bit hashes a table may be keyed by (FNV-1a:
	// altarage / zinke, costarring / liquid, declinate / macallums; CRC-32: plumless / buckeroo, codding / gnu);
	// as whole packages and below a common stem
	if rapid.IntRange(0, 9).Draw(t, "hashTwinPackages") == 9 {
		twins := []string{"altarage", "zinke", "costarring", "liquid", "declinate", "macallums", "plumless", "buckeroo", "codding", "gnu"}
		if rapid.Bool().Draw(t, "hashTwinStem") {
			for i := range twins {
				twins[i] = "com.acme." + twins[i]
			}
		}
		pool = twins[:rapid.SampledFrom([]int{2, 4, 6, 10}).Draw(t, "hashTwinCount")]
	}
	// size: 0-10 the usual model of 0-7 types; 11 a large one of 8-70 types over up to 8 more
	// packages (DOT ids node10, node64, cluster100; maps and slices past 8, 16, 32, 64 entries)
	minClasses, maxClasses, maxTarget := rapid.IntRange(0, 5).Draw(t, "minClasses"), 7, 6
	large := rapid.IntRange(0, 11).Draw(t, "size") == 11
	if large {
		minClasses = rapid.SampledFrom([]int{8, 9, 10, 11, 12, 16, 17, 31, 33, 64, 70}).Draw(t, "types")
		maxClasses, maxTarget = minClasses+3, minClasses+2
		pool = append(pool, rapid.SliceOfN(pkgGen(8, segAlphabet), 2, 8).Draw(t, "morePkgs")...)
	}
	// one model in ten has types in the default package (Package "", node name ".A"); such a
	// model is judged on Analysis and the merges, its DOT is not (see the assumptions), so the
	// cli sub-check, which sees the DOT only, does not draw them
	defPkg := !forCLI && rapid.IntRange(0, 9).Draw(t, "defaultPackage") == 9
	if defPkg {
		at := rapid.IntRange(0, len(pool)).Draw(t, "defaultPackageAt")
		pool = append(pool[:at:at], append([]string{""}, pool[at:]...)...)
	}
	var m mgen.Model
	var draws []classDraw
	seen := map[string]bool{}
	for i, d := range rapid.SliceOfN(classGen(pool, nameAlphabet, wide, maxTarget), minClasses, maxClasses).Draw(t, "classes") {
		if d.spread && i < len(pool) {
			d.pkg = pool[i]
		}
		if large {
			// the name alphabets are small: a taken name gets a number
			for k, stem := 2, d.name; seen[d.pkg+"."+d.name]; k++ {
				d.name = stem + fmt.Sprint(k)
			}
		}
		if seen[d.pkg+"."+d.name] {
			continue
		}
		seen[d.pkg+"."+d.name] = true
		draws = append(draws, d)
		m.Classes = append(m.Classes, mgen.Class{Pkg: d.pkg, Name: d.name, Type: d.kind})
	}
	// wide naming: some types become near-twins of another type; qualified names stay distinct
	for i, d := range draws {
		if d.twin == 0 || len(m.Classes) < 2 {
			continue
		}
		j := (i + d.twinOf) % len(m.Classes)
		if j == i {
			j = (i + 1) % len(m.Classes)
		}
		me, other := &m.Classes[i], &m.Classes[j]
		np, nn, op, on, ok := makeTwin(d.twin, d.twinAux, other.Pkg, other.Name, segAlphabet)
		if !ok {
			continue
		}
		oldMe, oldOther := me.Full(), other.Full()
		delete(seen, oldMe)
		delete(seen, oldOther)
		if np+"."+nn == op+"."+on || seen[np+"."+nn] || seen[op+"."+on] {
			seen[oldMe], seen[oldOther] = true, true
			continue
		}
		me.Pkg, me.Name, other.Pkg, other.Name = np, nn, op, on
		seen[me.Full()], seen[other.Full()] = true, true
	}
	// A package cannot hold a type and a subpackage of the same name (JLS 7.1: a compile-time
	// error), so no type's qualified name is a package, or an enclosing package, of another type.
	// With a type name alphabet that shares words with the segment alphabet (a, aB, node1, G) this
	// can come about; such a type gets underscores appended until its name is free.
	for i := range m.Classes {
		c := &m.Classes[i]
		for isPackageOf(c.Full(), m.Classes) {
			delete(seen, c.Full())
			for c.Name += "_"; seen[c.Full()]; c.Name += "_" {
			}
			seen[c.Full()] = true
		}
	}
	// one model in six: two relations whose texts concatenate alike (a.A -> Bc.D and a.AB -> c.D
	// both read "a.ABc.D" without a separator). A type F2 named like another type F1 plus a
	// suffix joins the model, before or after F1; F2 gets a relation to a project type T, F1
	// one to the type whose name is the suffix followed by T's name (added once the relations
	// of the other types are there, see below)
	keyF1, keyF2, keyT, keySuffix, keyHow := "", "", "", "", 0
	if n := len(m.Classes); n > 0 && rapid.IntRange(0, 5).Draw(t, "alikeRelations") == 5 {
		f1 := m.Classes[rapid.IntRange(0, n-1).Draw(t, "alikeOf")]
		tgt := m.Classes[rapid.IntRange(0, n-1).Draw(t, "alikeTarget")]
		keySuffix = rapid.SampledFrom([]string{"B", "1", "_X", "Frame", "$In", "ä"}).Draw(t, "alikeSuffix")
		keyHow = rapid.IntRange(0, 3).Draw(t, "alikeRelation")
		at := rapid.IntRange(0, n).Draw(t, "alikeAt")
		f2 := mgen.Class{Pkg: f1.Pkg, Name: f1.Name + keySuffix, Type: f1.Type}
		if tgt.Pkg != "" && !seen[f2.Full()] && !isPackageOf(f2.Full(), m.Classes) {
			seen[f2.Full()] = true
			keyF1, keyF2, keyT = f1.Full(), f2.Full(), tgt.Full()
			m.Classes = append(m.Classes[:at:at], append([]mgen.Class{f2}, m.Classes[at:]...)...)
			draws = append(draws[:at:at], append([]classDraw{{}}, draws[at:]...)...)
		}
	}
	var all []string
	for _, c := range m.Classes {
		all = append(all, c.Full())
	}
	// identifier map: all project types, or a strict subset
	ids := all
	if rapid.IntRange(0, 2).Draw(t, "idSubset") == 2 {
		ids = nil
		for _, n := range all {
			if !rapid.Bool().Draw(t, "notInIds") {
				ids = append(ids, n)
			}
		}
		if len(ids) == len(all) && len(ids) > 0 {
			ids = ids[:len(ids)-1]
		}
	}
	// a type reference: project type (mostly), own type, external, missing type in a project
	// package, bare name
	defaultPkgName := map[string]bool{}
	for _, c := range m.Classes {
		if c.Pkg == "" {
			defaultPkgName[c.Name] = true
		}
	}
	// project: the reference names a type of the model (which may be in the default package)
	resolve := func(r refDraw, self mgen.Class) (pkg, node string, project bool) {
		switch {
		case r.kind < 7:
			c := m.Classes[r.target%len(m.Classes)]
			return c.Pkg, c.Name, true
		case r.kind < 8:
			return self.Pkg, self.Name, true
		case r.kind < 10:
			x := extTypes[r.aux%len(extTypes)]
			i := strings.LastIndex(x, ".")
			return x[:i], x[i+1:], false
		case r.kind < 11:
			return pool[r.aux%len(pool)], "Missing", false
		case r.aux < 6 || defaultPkgName[m.Classes[r.target%len(m.Classes)].Name]:
			return "", bareTypes[r.aux%len(bareTypes)], false
		default:
			// an unresolved name that reads like a project type: the simple name of one (not of a
			// type of the default package: whether the bare text B names the type .B is left open)
			return "", m.Classes[r.target%len(m.Classes)].Name, false
		}
	}
	join3 := func(pkg, node string, _ bool) string {
		if pkg == "" {
			return node
		}
		return pkg + "." + node
	}
	for ci := range m.Classes {
		c, d := &m.Classes[ci], draws[ci]
		// a supertype is a text in the model. A supertype in the default package is left out:
		// whether it is written B or .B, and whether B names the type .B, is left open
		for _, r := range d.extend {
			if pkg, _, project := resolve(r, *c); project && pkg == "" {
				continue
			}
			c.Extend = join3(resolve(r, *c))
			if c.Extend == c.Full() {
				c.Extend = "" // a class extending itself is not a model of any program
			}
		}
		for _, r := range d.impls {
			if pkg, _, project := resolve(r, *c); project && pkg == "" {
				continue
			}
			if s := join3(resolve(r, *c)); s != c.Full() {
				c.Implements = append(c.Implements, s)
			}
		}
		for _, r := range d.fields {
			pkg, node, project := resolve(r, *c)
			if pkg == "" && !project {
				continue // a field call is recorded only when the field type resolves
			}
			c.FieldCalls = append(c.FieldCalls, mgen.Call{Pkg: pkg, Node: node, Type: "field"})
		}
		for _, md := range d.methods {
			mm := mgen.Method{Name: md.name}
			for _, cd := range md.calls {
				pkg, node, project := resolve(cd.ref, *c)
				if pkg == "" && !project && cd.ref.aux%2 == 0 {
					node = "" // unresolved receiver (otherwise a receiver type without package)
				}
				tag := cd.tag
				if tag != "" && pkg == c.Pkg && node == c.Name {
					tag = "self"
				}
				mm.Calls = append(mm.Calls, mgen.Call{Pkg: pkg, Node: node, Func: cd.callee, Type: tag})
			}
			c.Methods = append(c.Methods, mm)
		}
	}
	if keyF2 != "" {
		inIds := false
		for _, id := range ids {
			inIds = inIds || id == keyT
		}
		for ci := range m.Classes {
			c := &m.Classes[ci]
			switch c.Full() {
			case keyF1:
				c.Implements = append(c.Implements, keySuffix+keyT)
			case keyF2:
				i := strings.LastIndex(keyT, ".")
				switch {
				case keyHow == 0:
					c.Extend = keyT
				case keyHow == 1:
					c.Implements = append(c.Implements, keyT)
				case keyHow == 2 || !inIds:
					c.FieldCalls = append(c.FieldCalls, mgen.Call{Pkg: keyT[:i], Node: keyT[i+1:], Type: "field"})
				default:
					c.Methods = append(c.Methods, mgen.Method{Name: "run", Calls: []mgen.Call{{Pkg: keyT[:i], Node: keyT[i+1:], Func: "f"}}})
				}
			}
		}
	}
	mode := rapid.IntRange(0, 7).Draw(t, "mode") // 0-2 type graph, 3-4 -H, 5-6 -P, 7 both
	mergeHeader, mergePackage := mode == 3 || mode == 4 || mode == 7, mode >= 5
	// include filter: texts taken from the names the chosen mode displays
	shownSet := map[string]bool{}
	var shown []string
	for _, c := range m.Classes {
		n := c.Full()
		if mergeHeader {
			n = c.Pkg
		}
		if mergePackage {
			n = strings.SplitN(n, ".", 2)[0]
		}
		if !shownSet[n] && n != "" { // "": the unnamed package as a merged node
			shownSet[n] = true
			shown = append(shown, n)
		}
	}
	if len(shown) == 0 {
		shown = []string{"a.A"} // a model without types: filters are drawn as for one type
	}
	var filter string
	pick := func(label string) string {
		k := rapid.IntRange(0, 15).Draw(t, label)
		name := rapid.SampledFrom(shown).Draw(t, label+"Name")
		switch {
		case k < 1:
			return ""
		case k < 3:
			return rapid.SampledFrom(segAlphabet).Draw(t, label+"Seg")
		case k < 4:
			return "." + rapid.SampledFrom(nameAlphabet).Draw(t, label+"Cls")
		case k < 8:
			return name
		case k < 11: // a dotted prefix of a displayed name
			parts := strings.Split(name, ".")
			n := rapid.IntRange(1, len(parts)).Draw(t, label+"PrefixLen")
			return strings.Join(parts[:n], ".") + "."
		case k < 15: // any substring of a displayed name (cut between runes: -x is a text)
			rs := []rune(name)
			i := rapid.IntRange(0, len(rs)-1).Draw(t, label+"From")
			j := rapid.IntRange(i+1, len(rs)).Draw(t, label+"To")
			return string(rs[i:j])
		default:
			return "zzz"
		}
	}
	switch rapid.IntRange(0, 6).Draw(t, "filterShape") {
	case 0, 1:
		filter = ""
	case 2, 3:
		filter = pick("f1")
	case 4, 5:
		filter = pick("f1") + "," + pick("f2")
	default:
		filter = pick("f1") + "," + pick("f2") + "," + pick("f3")
	}
	// seventh seed batch: a type declared by two records (the same class in two source roots or modules, as the
	// front end lists it): the relations of the type are those of all its records. One record is split in two:
	// the copy, put somewhere behind it, takes over a part of the relations.
	if n := len(m.Classes); n > 0 && rapid.IntRange(0, 7).Draw(t, "typeInTwoRecords") == 7 {
		i := rapid.IntRange(0, n-1).Draw(t, "splitRecord")
		orig := &m.Classes[i]
		dup := mgen.Class{Pkg: orig.Pkg, Name: orig.Name, Type: orig.Type}
		how := rapid.IntRange(0, 3).Draw(t, "splitHow")
		if how == 0 || how == 3 {
			dup.Extend, orig.Extend = orig.Extend, ""
		}
		if how == 1 || how == 3 {
			dup.Implements, orig.Implements = orig.Implements, nil
			dup.FieldCalls, orig.FieldCalls = orig.FieldCalls, nil
		}
		if how >= 2 && len(orig.Methods) > 0 {
			k := rapid.IntRange(0, len(orig.Methods)-1).Draw(t, "splitMethodsAt")
			dup.Methods = append([]mgen.Method{}, orig.Methods[k:]...)
			orig.Methods = orig.Methods[:k:k]
		}
		at := rapid.IntRange(i+1, n).Draw(t, "splitCopyAt")
		m.Classes = append(m.Classes[:at:at], append([]mgen.Class{dup}, m.Classes[at:]...)...)
	}
	c := Case{Model: m, Identifiers: ids, Filter: filter, MergeHeader: mergeHeader, MergePackage: mergePackage}
	if rapid.IntRange(0, 2).Draw(t, "secondFilter") > 0 {
		c.Filter2 = pick("g1")
		if rapid.Bool().Draw(t, "secondFilterList") {
			c.Filter2 += "," + pick("g2")
		}
	}
	c.OmitX = filter == "" && rapid.Bool().Draw(t, "omitX")
	if rapid.IntRange(0, 3).Draw(t, "depsElsewhere") == 3 {
		c.DepsPath = rapid.SampledFrom([]string{"deps.json", "out/model.json", "coca_reporter/other.json", "./coca_reporter/deps.json", "deps", "out dir/my deps.json"}).Draw(t, "depsPath")
	}
	// one case in four: the process has handled another input before. It is made from the case's
	// own model, so the names are the same but what holds for them is not: every type takes the
	// relations of the type k places on, the last d types are missing, the identifier map is
	// the complement (or everything, or empty), and it is laid out with a filter of its own.
	if rapid.IntRange(0, 3).Draw(t, "earlierInput") == 3 && len(m.Classes) > 0 {
		k := rapid.IntRange(0, 3).Draw(t, "earlierShift")
		d := rapid.IntRange(0, 2).Draw(t, "earlierDrop")
		idMode := rapid.IntRange(0, 2).Draw(t, "earlierIds")
		n := len(m.Classes)
		if d > n-1 {
			d = n - 1
		}
		e := &Earlier{Filter: pick("e1")}
		for i := 0; i < n-d; i++ {
			src, cl := m.Classes[(i+k)%n], m.Classes[i]
			cl.Extend, cl.Implements, cl.FieldCalls, cl.Methods = src.Extend, nil, src.FieldCalls, src.Methods
			if cl.Extend == cl.Full() {
				cl.Extend = ""
			}
			for _, s := range src.Implements {
				if s != cl.Full() {
					cl.Implements = append(cl.Implements, s)
				}
			}
			e.Model.Classes = append(e.Model.Classes, cl)
		}
		inIds := map[string]bool{}
		for _, id := range ids {
			inIds[id] = true
		}
		for _, cl := range e.Model.Classes {
			if idMode == 0 || idMode == 1 && !inIds[cl.Full()] {
				e.Identifiers = append(e.Identifiers, cl.Full())
			}
		}
		c.Before = e
	}
	// spelling of the command line and layout of the JSON files (cli sub-check)
	if rapid.IntRange(0, 2).Draw(t, "cliSpelling") == 2 {
		c.Cli.Long = rapid.Bool().Draw(t, "longOptions")
		c.Cli.Equals = rapid.Bool().Draw(t, "equalsForm")
		c.Cli.FlagsFirst = rapid.Bool().Draw(t, "flagsFirst")
		c.Cli.Visual = rapid.Bool().Draw(t, "visual")
	}
	if mergeHeader && mergePackage && !c.Cli.Long {
		c.Cli.Combined = rapid.Bool().Draw(t, "combinedFlags")
	}
	if rapid.IntRange(0, 2).Draw(t, "jsonLayout") == 2 {
		c.Cli.JSON = rapid.IntRange(1, 3).Draw(t, "jsonStyle")
	}
	return c
}

// ---- reference model -----------------------------------------------------------------------

type pair struct{ From, To string }

type reference struct {
	nodes map[string]bool // N: project types, classes named Main excluded
	all   map[pair]bool   // every dependency of a node, whatever its target
	edges map[pair]bool   // all restricted to N x N
}

func buildRef(c Case) reference {
	r := reference{nodes: map[string]bool{}, all: map[pair]bool{}, edges: map[pair]bool{}}
	ids := map[string]bool{}
	for _, n := range c.Identifiers {
		ids[n] = true
	}
	for _, cl := range c.Model.Classes {
		if cl.Name != "Main" {
			r.nodes[cl.Full()] = true
		}
	}
	for _, cl := range c.Model.Classes {
		if cl.Name == "Main" {
			continue
		}
		a := cl.Full()
		for _, i := range cl.Implements {
			r.all[pair{a, i}] = true
		}
		if cl.Extend != "" {
			r.all[pair{a, cl.Extend}] = true
		}
		for _, f := range cl.FieldCalls {
			r.all[pair{a, f.Pkg + "." + f.Node}] = true
		}
		for _, m := range cl.Methods {
			if m.Name == "main" {
				continue
			}
			for _, call := range m.Calls {
				b := call.Pkg + "." + call.Node
				if b != a && ids[b] {
					r.all[pair{a, b}] = true
				}
			}
		}
	}
	for p := range r.all {
		if r.nodes[p.From] && r.nodes[p.To] {
			r.edges[p] = true
		}
	}
	return r
}

func stripLast(s string) string {
	if i := strings.LastIndex(s, "."); i >= 0 {
		return s[:i]
	}
	return s
}

// quotient of the reference by f: nodes f(N); required = images of edges between nodes;
// allowed = images of all dependencies (a dependency on a type outside N may land on a
// merged node; the statement neither demands nor forbids showing it).
func (r reference) quotient(f func(string) string) (nodes map[string]bool, required, allowed map[pair]bool) {
	nodes, required, allowed = map[string]bool{}, map[pair]bool{}, map[pair]bool{}
	for n := range r.nodes {
		nodes[f(n)] = true
	}
	for p := range r.all {
		q := pair{f(p.From), f(p.To)}
		if q.From == q.To {
			continue
		}
		allowed[q] = true
		if r.edges[p] {
			required[q] = true
		}
	}
	return
}

func sortedPairs(m map[pair]bool) []string {
	var out []string
	for p := range m {
		out = append(out, p.From+" -> "+p.To)
	}
	sort.Strings(out)
	return out
}

func sortedKeys(m map[string]bool) []string {
	var out []string
	for k := range m {
		out = append(out, k)
	}
	sort.Strings(out)
	return out
}

// ---- strict reader for the nested-cluster DOT that gographviz writes -------------------------

type token struct {
	kind string // id, str, sym, eof
	text string
}

func lex(text string) ([]token, error) {
	var out []token
	i := 0
	for i < len(text) {
		ch := text[i]
		switch {
		case ch == ' ' || ch == '\t' || ch == '\n':
			i++
		case ch == '"':
			j := i + 1
			var sb strings.Builder
			for {
				if j >= len(text) {
					return nil, fmt.Errorf("unterminated string at offset %d", i)
				}
				if text[j] == '\\' && j+1 < len(text) {
					sb.WriteByte(text[j+1])
					j += 2
					continue
				}
				if text[j] == '"' {
					break
				}
				if text[j] == '\n' {
					return nil, fmt.Errorf("newline inside string at offset %d", j)
				}
				sb.WriteByte(text[j])
				j++
			}
			out = append(out, token{"str", sb.String()})
			i = j + 1
		case ch == '-' && i+1 < len(text) && text[i+1] == '>':
			out = append(out, token{"sym", "->"})
			i += 2
		case strings.ContainsRune("{}[];,=", rune(ch)):
			out = append(out, token{"sym", string(ch)})
			i++
		case ch == '_' || ch >= '0' && ch <= '9' || ch >= 'a' && ch <= 'z' || ch >= 'A' && ch <= 'Z':
			j := i
			for j < len(text) && (text[j] == '_' || text[j] >= '0' && text[j] <= '9' || text[j] >= 'a' && text[j] <= 'z' || text[j] >= 'A' && text[j] <= 'Z') {
				j++
			}
			out = append(out, token{"id", text[i:j]})
			i = j
		default:
			return nil, fmt.Errorf("unexpected character %q at offset %d", ch, i)
		}
	}
	return append(out, token{"eof", ""}), nil
}

type leaf struct {
	id    string
	label string
	chain []string // labels of the enclosing clusters, outermost first
}

func (l leaf) full() string {
	return strings.Join(append(append([]string{}, l.chain...), l.label), ".")
}

type layout struct {
	leaves   []leaf
	edges    []pair // node ids
	clusters int
}

type dotParser struct {
	toks []token
	pos  int
	out  layout
	ids  map[string]bool
}

func (p *dotParser) peek() token { return p.toks[p.pos] }
func (p *dotParser) next() token { t := p.toks[p.pos]; p.pos++; return t }
func (p *dotParser) expect(kind, text string) error {
	t := p.next()
	if t.kind != kind || (text != "" && t.text != text) {
		return fmt.Errorf("token %d: got %s %q, want %s %q", p.pos-1, t.kind, t.text, kind, text)
	}
	return nil
}

func (p *dotParser) attrs() (map[string]string, error) {
	out := map[string]string{}
	if err := p.expect("sym", "["); err != nil {
		return nil, err
	}
	for !(p.peek().kind == "sym" && p.peek().text == "]") {
		k := p.next()
		if k.kind != "id" {
			return nil, fmt.Errorf("attribute name expected, got %q", k.text)
		}
		if err := p.expect("sym", "="); err != nil {
			return nil, err
		}
		v := p.next()
		if v.kind != "id" && v.kind != "str" {
			return nil, fmt.Errorf("attribute value expected, got %q", v.text)
		}
		if _, dup := out[k.text]; dup {
			return nil, fmt.Errorf("attribute %s given twice", k.text)
		}
		out[k.text] = v.text
		if p.peek().kind == "sym" && p.peek().text == "," {
			p.next()
		}
	}
	p.next()
	return out, nil
}

// stmts parses statements up to the closing brace; chain holds the labels of the enclosing
// clusters. It returns the label statement found at this level ("" and false if none).
func (p *dotParser) stmts(chain []string, top bool) (string, bool, error) {
	label, hasLabel := "", false
	for {
		t := p.peek()
		if t.kind == "sym" && t.text == "}" {
			break
		}
		if t.kind == "sym" && t.text == ";" { // gographviz writes "}\n;" after a subgraph
			p.next()
			continue
		}
		if t.kind != "id" {
			return "", false, fmt.Errorf("statement expected, got %s %q", t.kind, t.text)
		}
		p.next()
		if t.text == "subgraph" {
			id := p.next()
			if id.kind != "id" || !strings.HasPrefix(id.text, "cluster") {
				return "", false, fmt.Errorf("subgraph name %q is not a cluster name", id.text)
			}
			if p.ids[id.text] {
				return "", false, fmt.Errorf("name %q used twice", id.text)
			}
			p.ids[id.text] = true
			p.out.clusters++
			if err := p.expect("sym", "{"); err != nil {
				return "", false, err
			}
			// the label of the cluster is a statement inside it; children need it in their chain,
			// so parse with a placeholder and patch afterwards
			start := len(p.out.leaves)
			sub, ok, err := p.stmts(append(append([]string{}, chain...), "\x00"), false)
			if err != nil {
				return "", false, err
			}
			if !ok {
				return "", false, fmt.Errorf("cluster %s has no label", id.text)
			}
			for i := start; i < len(p.out.leaves); i++ {
				p.out.leaves[i].chain[len(chain)] = sub
			}
			if err := p.expect("sym", "}"); err != nil {
				return "", false, err
			}
			continue
		}
		nx := p.peek()
		switch {
		case nx.kind == "sym" && nx.text == "=":
			p.next()
			v := p.next()
			if v.kind != "id" && v.kind != "str" {
				return "", false, fmt.Errorf("value expected after %s=", t.text)
			}
			if t.text != "label" || top {
				return "", false, fmt.Errorf("unexpected attribute statement %s=%q", t.text, v.text)
			}
			if hasLabel {
				return "", false, fmt.Errorf("two labels in one cluster")
			}
			label, hasLabel = v.text, true
			if err := p.expect("sym", ";"); err != nil {
				return "", false, err
			}
		case nx.kind == "sym" && nx.text == "->":
			p.next()
			to := p.next()
			if to.kind != "id" {
				return "", false, fmt.Errorf("edge target expected after %s ->, got %s %q", t.text, to.kind, to.text)
			}
			if p.peek().kind == "sym" && p.peek().text == "[" {
				if _, err := p.attrs(); err != nil {
					return "", false, err
				}
			}
			if err := p.expect("sym", ";"); err != nil {
				return "", false, err
			}
			p.out.edges = append(p.out.edges, pair{t.text, to.text})
		case nx.kind == "sym" && nx.text == "[":
			a, err := p.attrs()
			if err != nil {
				return "", false, err
			}
			if err := p.expect("sym", ";"); err != nil {
				return "", false, err
			}
			if p.ids[t.text] {
				return "", false, fmt.Errorf("name %q used twice", t.text)
			}
			p.ids[t.text] = true
			lb, ok := a["label"]
			if !ok {
				return "", false, fmt.Errorf("node %s has no label", t.text)
			}
			p.out.leaves = append(p.out.leaves, leaf{id: t.text, label: lb, chain: append([]string{}, chain...)})
		default:
			return "", false, fmt.Errorf("cannot read statement starting with %q %q", t.text, nx.text)
		}
	}
	return label, hasLabel, nil
}

func parseLayout(text string) (layout, error) {
	toks, err := lex(text)
	if err != nil {
		return layout{}, err
	}
	p := &dotParser{toks: toks, ids: map[string]bool{}}
	if err := p.expect("id", "digraph"); err != nil {
		return layout{}, err
	}
	if err := p.expect("id", ""); err != nil {
		return layout{}, err
	}
	if err := p.expect("sym", "{"); err != nil {
		return layout{}, err
	}
	if _, _, err := p.stmts(nil, true); err != nil {
		return layout{}, err
	}
	if err := p.expect("sym", "}"); err != nil {
		return layout{}, err
	}
	if err := p.expect("eof", ""); err != nil {
		return layout{}, err
	}
	return p.out, nil
}

// second opinion: the DOT library coca itself depends on
func libraryCounts(text string) (nodes, edges, subgraphs int, err error) {
	defer func() {
		if r := recover(); r != nil {
			err = fmt.Errorf("gographviz panic: %v", r)
		}
	}()
	ast, err := gographviz.ParseString(text)
	if err != nil {
		return 0, 0, 0, err
	}
	g := gographviz.NewGraph()
	if err = gographviz.Analyse(ast, g); err != nil {
		return 0, 0, 0, err
	}
	return len(g.Nodes.Nodes), len(g.Edges.Edges), len(g.SubGraphs.SubGraphs), nil
}

// checkDot judges the DOT text of a graph with node set nodes. required/allowed are the
// reference relations over these nodes; exactNodes says whether every included node must be
// shown (type graph) or only those that are not a dotted prefix of another included node
// (merged graph: the statement's display clause speaks of types).
func checkDot(text string, nodes map[string]bool, required, allowed map[pair]bool, filters []string, exactNodes bool) string {
	lay, err := parseLayout(text)
	if err != nil {
		return fmt.Sprintf("DOT is not well-formed: %v", err)
	}
	ln, le, ls, err := libraryCounts(text)
	if err != nil {
		return fmt.Sprintf("DOT rejected by the DOT library: %v", err)
	}
	if ln != len(lay.leaves) || ls != lay.clusters {
		return fmt.Sprintf("DOT readers disagree: library sees %d nodes, %d clusters; structural reader %d nodes, %d clusters", ln, ls, len(lay.leaves), lay.clusters)
	}
	if le != len(lay.edges) {
		return fmt.Sprintf("DOT readers disagree: library sees %d edges, structural reader %d", le, len(lay.edges))
	}
	// judge in a fixed order: the text's own order follows map iteration inside the tool
	sort.Slice(lay.leaves, func(i, j int) bool {
		return lay.leaves[i].full()+"\x00"+lay.leaves[i].id < lay.leaves[j].full()+"\x00"+lay.leaves[j].id
	})
	idName := map[string]string{}
	for _, l := range lay.leaves {
		idName[l.id] = l.full()
	}
	edgeKey := func(e pair) string { return idName[e.From] + "\x00" + idName[e.To] + "\x00" + e.From + "\x00" + e.To }
	sort.Slice(lay.edges, func(i, j int) bool { return edgeKey(lay.edges[i]) < edgeKey(lay.edges[j]) })
	included := map[string]bool{}
	for n := range nodes {
		for _, f := range filters {
			if strings.Contains(n, f) {
				included[n] = true
			}
		}
	}
	byID := map[string]string{}
	shown := map[string]bool{}
	for _, l := range lay.leaves {
		name := l.full()
		// "under its package path": one cluster per package segment, the leaf labelled with the
		// last segment (no name of the domain holds a dot, so no label does)
		for _, part := range append(append([]string{}, l.chain...), l.label) {
			if strings.Contains(part, ".") || part == "" {
				return fmt.Sprintf("DOT shows %q as label %q under clusters %q: not one cluster per package segment", name, l.label, l.chain)
			}
		}
		if !nodes[name] {
			return fmt.Sprintf("DOT shows %q (label %q under clusters %v) which is not a node of the graph", name, l.label, l.chain)
		}
		if !included[name] {
			return fmt.Sprintf("DOT shows %q which the filter %q excludes", name, filters)
		}
		if shown[name] {
			return fmt.Sprintf("DOT shows %q twice", name)
		}
		shown[name] = true
		byID[l.id] = name
	}
	for _, n := range sortedKeys(included) {
		if shown[n] {
			continue
		}
		if !exactNodes {
			prefix := false
			for o := range included {
				if strings.HasPrefix(o, n+".") {
					prefix = true
				}
			}
			if prefix {
				continue
			}
		}
		return fmt.Sprintf("included node %q is not shown in the DOT", n)
	}
	drawn := map[pair]bool{}
	for _, e := range lay.edges {
		a, okA := byID[e.From]
		b, okB := byID[e.To]
		if !okA || !okB {
			return fmt.Sprintf("DOT edge from %q to %q: an end point is not a displayed node", a, b)
		}
		if !allowed[pair{a, b}] {
			return fmt.Sprintf("DOT edge %q -> %q corresponds to no dependency of the model", a, b)
		}
		drawn[pair{a, b}] = true
	}
	for _, p := range sortedPairs(required) {
		ft := strings.SplitN(p, " -> ", 2)
		if shown[ft[0]] && shown[ft[1]] && !drawn[pair{ft[0], ft[1]}] {
			return fmt.Sprintf("relation %s joins two displayed nodes but is not drawn", p)
		}
	}
	return ""
}

// showDot renders a DOT text for a failure message in an order that does not depend on the
// tool's map iteration (sorted leaves with their cluster chains, sorted edges by name); the
// raw text is used only when it cannot be read.
func showDot(text string) string {
	lay, err := parseLayout(text)
	if err != nil {
		// unreadable: the lines of the text, sorted (their order follows the tool's map iteration,
		// and so do the numbers in the ids: the message has to be the same on every run)
		lines := strings.Split(text, "\n")
		sort.Strings(lines)
		if len(lines) > 60 {
			lines = append(lines[:60], fmt.Sprintf("... %d more lines", len(lines)-60))
		}
		return "DOT text, lines sorted:\n" + strings.Join(lines, "\n")
	}
	idName := map[string]string{}
	var leaves, edges []string
	for _, l := range lay.leaves {
		idName[l.id] = l.full()
		leaves = append(leaves, fmt.Sprintf("%q under clusters %q", l.label, l.chain))
	}
	for _, e := range lay.edges {
		edges = append(edges, fmt.Sprintf("%q -> %q", idName[e.From], idName[e.To]))
	}
	sort.Strings(leaves)
	sort.Strings(edges)
	return fmt.Sprintf("DOT as read: %d clusters; leaves: %s; edges: %s", lay.clusters, strings.Join(leaves, ", "), strings.Join(edges, ", "))
}

// ---- the checks ----------------------------------------------------------------------------

func idMap(c Case) map[string]core_domain.CodeDataStruct {
	out := map[string]core_domain.CodeDataStruct{}
	byName := map[string]mgen.Class{}
	for _, cl := range c.Model.Classes {
		byName[cl.Full()] = cl
	}
	for _, n := range c.Identifiers {
		cl := byName[n]
		out[n] = core_domain.CodeDataStruct{NodeName: cl.Name, Package: cl.Pkg, Type: "Class"}
	}
	return out
}

func identifierList(c Case) []core_domain.CodeDataStruct {
	var out []core_domain.CodeDataStruct
	m := idMap(c)
	for _, n := range c.Identifiers {
		out = append(out, m[n])
	}
	return out
}

// compareGraph checks a FullGraph against node set and required/allowed relations.
func compareGraph(what string, g *tequila.FullGraph, nodes map[string]bool, required, allowed map[pair]bool) string {
	got := map[string]bool{}
	for k := range g.NodeList {
		got[k] = true
	}
	if a, b := strings.Join(sortedKeys(got), " "), strings.Join(sortedKeys(nodes), " "); a != b {
		return fmt.Sprintf("%s: nodes are [%s], the model gives [%s]", what, a, b)
	}
	rel := map[pair]bool{}
	for _, r := range g.RelationList {
		if r == nil {
			return fmt.Sprintf("%s: nil relation in RelationList", what)
		}
		if nodes[r.From] && nodes[r.To] {
			rel[pair{r.From, r.To}] = true
		}
	}
	// The verdict text must not depend on map iteration order inside the code under test
	// (which of two colliding relations survives), or rapid cannot shrink the case: report
	// sets and counts, not the first casualty.
	var extra, missing []string
	for _, p := range sortedPairs(rel) {
		ft := strings.SplitN(p, " -> ", 2)
		if !allowed[pair{ft[0], ft[1]}] {
			extra = append(extra, p)
		}
	}
	for _, p := range sortedPairs(required) {
		ft := strings.SplitN(p, " -> ", 2)
		if !rel[pair{ft[0], ft[1]}] {
			missing = append(missing, p)
		}
	}
	if len(extra) > 0 {
		return fmt.Sprintf("%s: relations %v between two nodes have no counterpart in the model (expected relations: %v)", what, extra, sortedPairs(required))
	}
	if len(missing) > 0 {
		return fmt.Sprintf("%s: %d of the %d expected relations %v are missing", what, len(missing), len(required), sortedPairs(required))
	}
	return ""
}

func restrict(all map[pair]bool, nodes map[string]bool) map[pair]bool {
	out := map[pair]bool{}
	for p := range all {
		if nodes[p.From] && nodes[p.To] {
			out[p] = true
		}
	}
	return out
}

// cliMerge is the function the CLI's flags compose: -H then -P.
func cliMerge(c Case) func(string) string {
	return func(s string) string {
		if c.MergeHeader {
			s = tequila.MergeHeaderFunc(s)
		}
		if c.MergePackage {
			s = tequila.MergePackageFunc(s)
		}
		return s
	}
}

func hasDefaultPackage(m mgen.Model) bool {
	for _, cl := range m.Classes {
		if cl.Pkg == "" {
			return true
		}
	}
	return false
}

func splitFilter(f string) ([]string, func(string) bool) {
	fl := strings.Split(f, ",")
	return fl, func(key string) bool {
		for _, x := range fl {
			if strings.Contains(key, x) {
				return true
			}
		}
		return false
	}
}

// earlier handles the input the process sees before the case itself: analysed, merged both
// ways, laid out, each judged like the case's own results.
func earlier(e *Earlier) string {
	c := Case{Model: e.Model, Identifiers: e.Identifiers, Filter: e.Filter}
	ref := buildRef(c)
	var g *tequila.FullGraph
	if p := pbt.Call(func() { g = arch.NewArchApp().Analysis(c.Model.ToCoca(), idMap(c)) }); p != "" {
		return "Analysis panicked: " + p
	}
	if g == nil {
		return "Analysis returned nil"
	}
	if msg := compareGraph("Analysis", g, ref.nodes, ref.edges, ref.edges); msg != "" {
		return msg
	}
	for _, mf := range []struct {
		name string
		f    func(string) string
	}{{"MergeHeaderFunc", tequila.MergeHeaderFunc}, {"MergePackageFunc", tequila.MergePackageFunc}} {
		var mg *tequila.FullGraph
		if p := pbt.Call(func() { mg = g.MergeHeaderFile(mf.f) }); p != "" {
			return fmt.Sprintf("MergeHeaderFile(%s) panicked: %s", mf.name, p)
		}
		qn, req, alw := ref.quotient(mf.f)
		if msg := compareGraph("MergeHeaderFile("+mf.name+")", mg, qn, req, restrict(alw, qn)); msg != "" {
			return msg
		}
	}
	if hasDefaultPackage(c.Model) {
		return ""
	}
	filters, include := splitFilter(c.Filter)
	var text string
	if p := pbt.Call(func() { text = "di" + g.ToMapDot(include).String() }); p != "" {
		return "ToMapDot panicked: " + p
	}
	if msg := checkDot(text, ref.nodes, ref.edges, ref.edges, filters, true); msg != "" {
		return fmt.Sprintf("%s\nfilter %q\n%s", msg, c.Filter, showDot(text))
	}
	return ""
}

func check(c Case) pbt.Verdict {
	if c.Before != nil {
		if msg := earlier(c.Before); msg != "" {
			return pbt.Fail("the input handled first in the same process: %s", msg)
		}
	}
	ref := buildRef(c)
	deps := c.Model.ToCoca()
	ids := idMap(c)
	var g *tequila.FullGraph
	if p := pbt.Call(func() { g = arch.NewArchApp().Analysis(deps, ids) }); p != "" {
		return pbt.Fail("Analysis panicked: %s", p)
	}
	if g == nil {
		return pbt.Fail("Analysis returned nil")
	}
	// 1. the type graph
	if msg := compareGraph("Analysis", g, ref.nodes, ref.edges, ref.edges); msg != "" {
		return pbt.Fail("%s", msg)
	}
	// 1b. a second analysis of the same model in the same process gives the same graph
	var g2 *tequila.FullGraph
	if p := pbt.Call(func() { g2 = arch.NewArchApp().Analysis(deps, ids) }); p != "" {
		return pbt.Fail("second Analysis of the same model panicked: %s", p)
	}
	if msg := compareGraph("second Analysis of the same model", g2, ref.nodes, ref.edges, ref.edges); msg != "" {
		return pbt.Fail("%s", msg)
	}
	// 2. MergeHeaderFunc is "strip the last dotted segment"
	var probe []string
	for n := range ref.nodes {
		probe = append(probe, n, stripLast(n))
	}
	for p := range ref.all {
		probe = append(probe, p.To)
	}
	sort.Strings(probe)
	for _, s := range probe {
		var got string
		if p := pbt.Call(func() { got = tequila.MergeHeaderFunc(s) }); p != "" {
			return pbt.Fail("MergeHeaderFunc(%q) panicked: %s", s, p)
		}
		if got != stripLast(s) {
			return pbt.Fail("MergeHeaderFunc(%q) = %q, want %q (last dotted segment stripped)", s, got, stripLast(s))
		}
		// MergePackageFunc is taken as given, but it has to be a function of the name (the same
		// answer when asked again) that maps a dotted name to a package above it
		var p1, p2 string
		if p := pbt.Call(func() { p1 = tequila.MergePackageFunc(s); p2 = tequila.MergePackageFunc(s) }); p != "" {
			return pbt.Fail("MergePackageFunc(%q) panicked: %s", s, p)
		}
		if p1 != p2 {
			return pbt.Fail("MergePackageFunc(%q) = %q, and %q when asked again", s, p1, p2)
		}
		if strings.Contains(s, ".") && !strings.HasPrefix(s, ".") && (p1 == "" || !strings.HasPrefix(s, p1+".")) {
			return pbt.Fail("MergePackageFunc(%q) = %q, which is not a package that contains it", s, p1)
		}
	}
	// 3. both merges are the quotient without self-loops
	for _, mf := range []struct {
		name string
		f    func(string) string
	}{{"MergeHeaderFunc", tequila.MergeHeaderFunc}, {"MergePackageFunc", tequila.MergePackageFunc}} {
		var mg *tequila.FullGraph
		if p := pbt.Call(func() { mg = g.MergeHeaderFile(mf.f) }); p != "" {
			return pbt.Fail("MergeHeaderFile(%s) panicked: %s", mf.name, p)
		}
		qn, req, alw := ref.quotient(mf.f)
		if msg := compareGraph("MergeHeaderFile("+mf.name+")", mg, qn, req, restrict(alw, qn)); msg != "" {
			return pbt.Fail("%s", msg)
		}
	}
	// 4. what the CLI does with this configuration, and the DOT it writes
	result := g
	if p := pbt.Call(func() {
		if c.MergeHeader {
			result = result.MergeHeaderFile(tequila.MergeHeaderFunc)
		}
		if c.MergePackage {
			result = result.MergeHeaderFile(tequila.MergePackageFunc)
		}
	}); p != "" {
		return pbt.Fail("MergeHeaderFile panicked: %s", p)
	}
	filters, include := splitFilter(c.Filter)
	nodes, req, alw := ref.nodes, ref.edges, ref.edges
	merged := c.MergeHeader || c.MergePackage
	if merged {
		nodes, req, alw = ref.quotient(cliMerge(c))
		alw = restrict(alw, nodes)
		if msg := compareGraph("merged graph (-H/-P as configured)", result, nodes, req, alw); msg != "" {
			return pbt.Fail("%s", msg)
		}
	}
	if hasDefaultPackage(c.Model) {
		// how a type of the default package and its relations are drawn is left open
		return classify(c, ref, nodes, req, filters)
	}
	var text string
	if p := pbt.Call(func() { text = "di" + result.ToMapDot(include).String() }); p != "" {
		return pbt.Fail("ToMapDot panicked: %s", p)
	}
	if msg := checkDot(text, nodes, req, alw, filters, !merged); msg != "" {
		return pbt.Fail("%s\nfilter %q, merged=%v\n%s", msg, c.Filter, merged, showDot(text))
	}
	// 5. the same graph laid out again: with another filter, then with the first one once more
	for i, f := range []string{c.Filter2, c.Filter} {
		fl, inc := splitFilter(f)
		var again string
		if p := pbt.Call(func() { again = "di" + result.ToMapDot(inc).String() }); p != "" {
			return pbt.Fail("ToMapDot (layout %d of the same graph) panicked: %s", i+2, p)
		}
		if msg := checkDot(again, nodes, req, alw, fl, !merged); msg != "" {
			return pbt.Fail("layout %d of the same graph (filters %q, then %q, then %q): %s\nmerged=%v\n%s", i+2, c.Filter, c.Filter2, c.Filter, msg, merged, showDot(again))
		}
	}
	return classify(c, ref, nodes, req, filters)
}

func classify(c Case, ref reference, shownNodes map[string]bool, shownReq map[pair]bool, filters []string) pbt.Verdict {
	v := pbt.Verdict{}
	pkgs := map[string]bool{}
	for n := range ref.nodes {
		pkgs[stripLast(n)] = true
	}
	external := 0
	for p := range ref.all {
		if !ref.nodes[p.To] {
			external++
		}
	}
	v.NonTrivial = external >= 1 && len(ref.edges) >= 1 && len(pkgs) >= 2
	add := func(s string) { v.Classes = append(v.Classes, s) }
	if len(pkgs) >= 2 {
		add("packages>=2")
	}
	if external >= 1 {
		add("relation_to_non_project_type")
	}
	if len(ref.edges) >= 1 {
		add("relation_between_project_types")
	}
	if len(ref.edges) >= 3 {
		add("relations>=3")
	}
	depth := 0
	for p := range pkgs {
		if d := strings.Count(p, ".") + 1; d > depth {
			depth = d
		}
	}
	if depth >= 10 {
		add("max_package_depth>=10")
	}
	if depth > 4 {
		add("max_package_depth>=5")
	} else {
		add(fmt.Sprintf("max_package_depth=%d", depth))
	}
	cut := false
	for n := range ref.nodes {
		if strings.Count(n, ".") >= 7 {
			cut = true
		}
	}
	if cut {
		add("type_name_of_more_than_7_segments")
	}
	if c.Filter2 != "" {
		add("second_layout_with_another_filter")
	}
	if c.OmitX && c.Filter == "" {
		add("cli_without_-x")
	}
	if c.DepsPath != "" {
		add("cli_with_-d")
	}
	if c.Cli.Long {
		add("cli_long_option_names")
	}
	if c.Cli.Equals {
		add("cli_option=value")
	}
	if c.Cli.FlagsFirst {
		add("cli_switches_before_-x")
	}
	if c.Cli.Combined && !c.Cli.Long && c.MergeHeader && c.MergePackage {
		add("cli_-HP_as_one_argument")
	}
	if c.Cli.Visual {
		add("cli_with_-v")
	}
	if c.Cli.JSON != 0 {
		add(fmt.Sprintf("cli_json_layout=%d", c.Cli.JSON))
	}
	if c.Before != nil {
		add("another_input_handled_first")
	}
	// sizes: the DOT ids are node<k> and cluster<k>
	for _, n := range []int{8, 10, 16, 32, 64} {
		if len(ref.nodes) >= n {
			add(fmt.Sprintf("types>=%d", n))
		}
	}
	if len(c.Model.Classes) == 0 {
		add("model_without_types")
	}
	if len(ref.edges) >= 32 {
		add("relations>=32")
	}
	alike := map[string]int{}
	for p := range ref.all {
		alike[p.From+p.To]++
	}
	for _, n := range alike {
		if n > 1 {
			add("two_relations_concatenate_alike")
			break
		}
	}
	defPkgType, defPkgEdge, tagged, bareProject, mainVariantClass, mainVariantMethod, mainSeg := false, false, false, false, false, false, false
	simple := map[string]bool{}
	for _, cl := range c.Model.Classes {
		simple[cl.Name] = true
	}
	for n := range ref.nodes {
		if strings.HasPrefix(n, ".") {
			defPkgType = true
		}
		segs := strings.Split(n, ".")
		for _, seg := range segs[:len(segs)-1] {
			if seg == "main" || seg == "Main" {
				mainSeg = true
			}
		}
	}
	for p := range ref.edges {
		if p.From != p.To && (strings.HasPrefix(p.From, ".") || strings.HasPrefix(p.To, ".")) {
			defPkgEdge = true
		}
	}
	for _, cl := range c.Model.Classes {
		switch cl.Name {
		case "MAIN", "Main1", "Main_", "_Main", "Main$1":
			mainVariantClass = true
		}
		bare := append(append([]string{}, cl.Implements...), cl.Extend)
		for _, b := range bare {
			if b != "" && !strings.Contains(b, ".") && simple[b] {
				bareProject = true
			}
		}
		for _, m := range cl.Methods {
			for _, call := range m.Calls {
				if call.Type != "" {
					tagged = true
				}
				if call.Pkg == "" && simple[call.Node] && !ref.nodes["."+call.Node] {
					bareProject = true
				}
				switch m.Name {
				case "Main", "MAIN", "main_", "_main":
					mainVariantMethod = true
				}
			}
		}
	}
	if defPkgType {
		add("type_in_default_package")
	}
	if defPkgEdge {
		add("relation_with_type_in_default_package")
	}
	if tagged {
		add("call_with_a_type_tag")
	}
	if bareProject {
		add("unresolved_name_equal_to_a_project_type_name")
	}
	if mainVariantClass {
		add("class_named_MAIN_Main1_Main__or_alike")
	}
	if mainVariantMethod {
		add("method_named_Main_MAIN_main__with_calls")
	}
	if mainSeg {
		add("package_segment_main_or_Main")
	}
	if len(c.Identifiers) < len(c.Model.Classes) {
		add("identifier_map_strict_subset")
	}
	self, hasMain, mainMethod, sub, iface := false, false, false, false, false
	for p := range ref.edges {
		if p.From == p.To {
			self = true
		}
	}
	for _, cl := range c.Model.Classes {
		if cl.Name == "Main" {
			hasMain = true
		} else if strings.Contains(cl.Name, "Main") || cl.Name == "main" {
			sub = true
		}
		if cl.Type == "Interface" {
			iface = true
		}
		for _, m := range cl.Methods {
			if m.Name == "main" && len(m.Calls) > 0 {
				mainMethod = true
			}
		}
	}
	if self {
		add("self_relation_by_field")
	}
	if hasMain {
		add("class_named_Main")
	}
	if sub {
		add("class_name_contains_Main")
	}
	if mainMethod {
		add("main_method_with_calls")
	}
	if iface {
		add("interface_type")
	}
	// quotient facts
	_, hreq, _ := ref.quotient(tequila.MergeHeaderFunc)
	if len(hreq) >= 1 {
		add("package_level_relation")
	}
	if len(hreq) < len(ref.edges) {
		add("merge_collapses_relations")
	}
	concat := map[string]int{}
	for p := range hreq {
		concat[p.From+p.To]++
	}
	for _, n := range concat {
		if n > 1 {
			add("two_package_pairs_concatenate_alike")
			break
		}
	}
	switch {
	case c.MergeHeader && c.MergePackage:
		add("mode=-H -P")
	case c.MergeHeader:
		add("mode=-H")
	case c.MergePackage:
		add("mode=-P")
	default:
		add("mode=types")
	}
	inc := 0
	for n := range shownNodes {
		for _, f := range filters {
			if strings.Contains(n, f) {
				inc++
				break
			}
		}
	}
	switch {
	case inc == 0:
		add("filter_matches_nothing")
	case inc < len(shownNodes):
		add("filter_partial")
	default:
		add("filter_matches_all")
	}
	// names: what the wide naming adds, and whether two names the layout has to keep apart are
	// near-twins (judged on the nodes of the configured mode that pass the filter)
	var displayed []string
	for _, n := range sortedKeys(shownNodes) {
		for _, f := range filters {
			if strings.Contains(n, f) {
				displayed = append(displayed, n)
				break
			}
		}
	}
	punct, nonASCII, dotWord := false, false, false
	for n := range ref.nodes {
		if strings.ContainsAny(n, "_$") {
			punct = true
		}
		for _, r := range n {
			if r > 127 {
				nonASCII = true
			}
		}
		for _, seg := range strings.Split(n, ".") {
			switch strings.TrimRight(seg, "0123456789") {
			case "node", "cluster", "graph", "subgraph", "digraph", "strict", "G", "Node", "Edge", "Graph":
				dotWord = true
			}
		}
	}
	if punct {
		add("name_with_underscore_or_dollar")
	}
	if nonASCII {
		add("name_with_letter_outside_ascii")
	}
	if dotWord {
		add("name_like_a_dot_keyword_or_id")
	}
	twins := func(label string, norm func(string) string) {
		seenNorm := map[string]bool{}
		for _, n := range displayed {
			k := norm(n)
			if k == "" {
				continue
			}
			if seenNorm[k] {
				add(label)
				return
			}
			seenNorm[k] = true
		}
	}
	twins("displayed_names_equal_when_non_alphanumerics_read_alike", func(n string) string {
		return strings.Map(func(r rune) rune {
			if r == '_' || r >= '0' && r <= '9' || r >= 'a' && r <= 'z' || r >= 'A' && r <= 'Z' {
				return r
			}
			return '_'
		}, n)
	})
	twins("displayed_names_differ_only_in_letter_case", strings.ToLower)
	twins("displayed_names_equal_without_dots", func(n string) string { return strings.ReplaceAll(n, ".", "") })
	twins("displayed_names_share_40_leading_characters", func(n string) string {
		if len(n) < 40 {
			return ""
		}
		return n[:40]
	})
	hidden := false
	for p := range shownReq {
		in := func(n string) bool {
			for _, f := range filters {
				if strings.Contains(n, f) {
					return true
				}
			}
			return false
		}
		if in(p.From) != in(p.To) {
			hidden = true
		}
	}
	if hidden {
		add("relation_with_one_end_filtered_out")
	}
	v.Canon = fmt.Sprintf("%v|%v|%q|%v%v", sortedKeys(ref.nodes), sortedPairs(ref.all), c.Filter, c.MergeHeader, c.MergePackage)
	return v
}

// checkCLI runs the real `coca arch` on deps.json / identify.json written from the case and
// judges coca_reporter/arch.dot with the same DOT oracle.
func checkCLI(c Case) pbt.Verdict {
	dir := cli.Scratch("c13-")
	defer os.RemoveAll(dir)
	if c.Before != nil && !hasDefaultPackage(c.Before.Model) {
		// the same directory has seen another input: its reports are lying around
		b := Case{Model: c.Before.Model, Identifiers: c.Before.Identifiers, Filter: c.Before.Filter, Cli: CliForm{Visual: true}}
		if v := runCLI(dir, b); v.Violation != "" || v.Skip {
			if v.Violation != "" {
				v.Violation = "the input handled first in the same directory: " + v.Violation
			}
			return v
		}
		if c.DepsPath != "" {
			_ = os.Remove(filepath.Join(dir, "coca_reporter", "deps.json"))
		}
	}
	return runCLI(dir, c)
}

func layoutJSON(v interface{}, style int) string {
	var raw []byte
	switch style {
	case 1, 2:
		raw, _ = json.MarshalIndent(v, "", "\t")
	case 3:
		raw, _ = json.MarshalIndent(v, "", "  ")
	default:
		raw, _ = json.Marshal(v)
	}
	text := string(raw)
	switch style {
	case 2:
		text = strings.ReplaceAll(text, "\n", "\r\n") + "\r\n"
	case 3:
		text = "\n\n" + text + "\n\n"
	}
	return text
}

func cliArgs(c Case) []string {
	name := map[string]string{"-x": "-x", "-d": "-d", "-H": "-H", "-P": "-P", "-v": "-v"}
	if c.Cli.Long {
		name = map[string]string{"-x": "--filter", "-d": "--dependence", "-H": "--mergeHeader", "-P": "--mergePackage", "-v": "--showVisual"}
	}
	var values, switches []string
	value := func(opt, v string) {
		// "-x=" is not the empty value for pflag (it reads the value "="): two arguments then
		if c.Cli.Equals && (c.Cli.Long || v != "") {
			values = append(values, name[opt]+"="+v)
		} else {
			values = append(values, name[opt], v)
		}
	}
	if !(c.OmitX && c.Filter == "") {
		value("-x", c.Filter)
	}
	if c.DepsPath != "" {
		value("-d", c.DepsPath)
	}
	if c.MergeHeader && c.MergePackage && c.Cli.Combined && !c.Cli.Long {
		switches = append(switches, "-HP")
	} else {
		if c.MergeHeader {
			switches = append(switches, name["-H"])
		}
		if c.MergePackage {
			switches = append(switches, name["-P"])
		}
	}
	if c.Cli.Visual {
		switches = append(switches, name["-v"])
	}
	if c.Cli.FlagsFirst {
		return append(append([]string{"arch"}, switches...), values...)
	}
	return append(append([]string{"arch"}, values...), switches...)
}

// stableText keeps of the tool's stderr what is the same on every run: no scratch directory, no
// lines of the standard logger (date, time, the profiler's temporary file)
func stableText(stderr, dir string) string {
	var keep []string
	for _, line := range strings.Split(strings.ReplaceAll(stderr, dir, "<dir>"), "\n") {
		if len(line) > 20 && line[4] == '/' && line[7] == '/' && line[10] == ' ' && line[13] == ':' {
			continue
		}
		keep = append(keep, line)
	}
	return strings.Join(keep, "\n")
}

func runCLI(dir string, c Case) pbt.Verdict {
	ref := buildRef(c)
	var deps interface{} = c.Model.ToCoca()
	if len(c.Model.Classes) == 0 {
		deps = []core_domain.CodeDataStruct{}
	}
	idl := identifierList(c)
	if idl == nil {
		idl = []core_domain.CodeDataStruct{}
	}
	depsPath := "coca_reporter/deps.json"
	if c.DepsPath != "" {
		depsPath = c.DepsPath
	}
	cli.WriteTree(dir, map[string]string{depsPath: layoutJSON(deps, c.Cli.JSON), "coca_reporter/identify.json": layoutJSON(idl, c.Cli.JSON)})
	args := cliArgs(c)
	shown := fmt.Sprintf("%q", args)
	res, err := cli.Run("coca", dir, nil, args...)
	if err != nil {
		panic("cannot run coca: " + err.Error())
	}
	if res.TimedOut {
		return pbt.Verdict{Skip: true}
	}
	if res.ExitCode != 0 {
		return pbt.Fail("coca %s exited with %d\n%s", shown, res.ExitCode, stableText(res.Stderr, dir))
	}
	raw, err := os.ReadFile(filepath.Join(dir, "coca_reporter", "arch.dot"))
	if err != nil {
		return pbt.Fail("coca %s wrote no coca_reporter/arch.dot\n%s", shown, stableText(res.Stderr, dir))
	}
	filters := strings.Split(c.Filter, ",")
	nodes, req, alw := ref.nodes, ref.edges, ref.edges
	merged := c.MergeHeader || c.MergePackage
	if merged {
		nodes, req, alw = ref.quotient(cliMerge(c))
		alw = restrict(alw, nodes)
	}
	if msg := checkDot(string(raw), nodes, req, alw, filters, !merged); msg != "" {
		return pbt.Fail("coca %s: %s\n%s", shown, msg, showDot(string(raw)))
	}
	v := classify(c, ref, nodes, req, filters)
	v.Canon = "cli|" + v.Canon
	return v
}

func init() {
	pbt.SetProperty("C13")
	pbt.Describe("rapid-generated code models: 0-7 types (classes and interfaces; one model in twelve is large: 8-74 types over up to 8 more packages, so that the DOT ids pass node9/cluster99 and the graph's maps pass 8, 16, 32, 64 entries) over 1-5 packages of depth 1-13 whose segments come from {a, ab, bc, c, b, abc} (so that different package pairs concatenate to the same string; one model in six puts its packages below a common stem of 5-6 segments, so that full type names have 7-9 segments, the lengths around MergePackageFunc's cut at 7), type names incl. Main, MainFrame, AppMain, main, Domain; two models in five use the wide naming, everything a Java identifier may consist of: package segments and type names with '_' and '$' (a_b, b_A, B$C), in either letter case (Ab, aB, a), with digits, with letters outside ASCII of two and three bytes (\u00e4, \u00c4b, \u8ba2\u5355), names that read like DOT ids and keywords (node1, cluster1, graph, subgraph, digraph, strict, G) and a name of 45 characters, package segments main / Main / edge, types MAIN, Main1, Main_, _Main, Main$1, and in these models every third type is renamed to a near-twin of another type, i.e. a different qualified name that becomes equal to the other once a distinction is dropped: one dot read as '_' or '$' or dropped (legacy.order.Dao | legacy.order_Dao | legacy_order.Dao | legacy.orderDao, which under -H are the packages app.batch.jobs | app.batch_jobs), inner-class style B$In | B_In, letter case of the type name or of one package segment, equally many non-ASCII runes (\u00c4B | \u00d6B, also 3-byte and mixed-width pairs and \u00c4B | _B), a common prefix of 45+ characters; per type an optional Extend, 0-2 Implements, 0-3 field calls (Type \"field\") and 0-3 methods (names incl. main, mainLoop, remain, Main, MAIN, main_, _main) with 0-3 calls, each call with one of the tags coca's full pass gives (none, chain, lambda, same package, same package 2, super, CreatorClass, self for the own type); every reference targets a project type, the own type, an external type (java.util.List ...), an undeclared type in a project package, or a bare name (Base, Runnable, T, or the simple name of a project type; as a call receiver: empty, or a type name without package); one model in ten has types in the default package (Package \"\", node .A; referenced by calls and field calls with Package \"\"); one model in six gets two relations whose texts concatenate alike (a.A -> Bc.D next to a.AB -> c.D, the longer-named type before or after the other); identifier map = all project types or a strict subset; -x filter (empty, segment, 'seg.', '.Name', full type name, package, no match, two-element lists); merge mode none / -H / -P / -H -P. Oracle: reference node set N (types not named Main) and edge set E computed from the abstract model as the statement defines it (calls count only for methods not named main, callee type in the identifier map and different from the caller's type); Analysis: NodeList == N and RelationList restricted to NxN == E; MergeHeaderFile with MergeHeaderFunc and with MergePackageFunc on every case: nodes == f(N), relations between result nodes contain {(fA,fB) | (A,B) in E, fA != fB} and nothing outside the image of the model's dependencies; MergeHeaderFunc == strip last dotted segment; MergePackageFunc (otherwise taken as given) gives the same answer when asked again and maps a dotted name to a dotted prefix of it; a second Analysis of the same model gives the same graph; the graph the CLI would lay out is laid out three times (-x filter, a second drawn filter, the first filter again) and each DOT is judged on its own; in one case of four the process first handles another input made from the case's own model (every type takes the relations of the type 0-3 places on, the last 0-2 types missing, identifier map everything / the complement / empty, a filter of its own): it is analysed, merged both ways and laid out, and judged like the case itself; DOT (\"di\"+ToMapDot(filter).String(), and coca_reporter/arch.dot of the real `coca arch` in the cli sub-check): accepted by a strict structural reader and by gographviz with equal node/cluster counts, every leaf is an included node shown once with its cluster-label chain == package path (one cluster per segment: no label holds a dot or is empty), every included type shown, every edge joins two declared leaves and is a reference relation, every reference relation between two shown nodes is drawn. the cli sub-check passes -x, or leaves it out when the filter is empty, and in one case of four puts deps.json elsewhere and names it with -d (also ./coca_reporter/deps.json, a name without extension, a path with blanks); one case in three spells the options differently (--filter/--dependence/--mergeHeader/--mergePackage, option=value, switches first, -HP as one argument, -v/--showVisual added) and one in three lays deps.json and identify.json out differently (tab-indented as coca writes them, the same with CRLF, two blanks with blank lines around); where the case has an earlier input, `coca arch -v` is first run on it in the same directory. Non-trivial = at least one relation to a non-project type and one between project types and >= 2 packages; distinct = hash of (N, all dependencies, filter, mode).",
		"'project type' for a call is membership in the identifier map, as the code and DESIGN.md define it; when the identifier map is a strict subset, calls to types outside it are expected to give no edge",
		"a dependency on a type outside N whose merged name equals a merged node (e.g. an undeclared type in a project package) may or may not appear as a relation of the merged graph: allowed, not required",
		"for merged graphs (-H/-P) a node that is a dotted prefix of another included node (package a next to a.b) is not required to be displayed: the display clause of the statement speaks of types; observed: such a package is drawn as a cluster only and its relations are not drawn",
		"names are Java identifiers (ASCII letters, digits, '_', '$', letters outside ASCII): no quote, backslash, slash, blank, '-' or '->'; -x texts are cut between runes",
		"types of the default package: the node is named Package+\".\"+NodeName = .A, as coca's identifier map and call keys name it; a model that has one is judged on Analysis and on the merges only, its DOT and the cli sub-check are left out: how such a type and its relations are to be drawn is open (observed: drawn at top level, its relations keyed .A are not drawn, a supertype text A is); supertypes in the default package, and bare names equal to the name of a default-package type, are not generated (whether the text B names the type .B is open)",
		"an unresolved bare name equal to the simple name of a packaged project type is a text like any other: no edge",
		"the identifier map never holds more than the model's types (with more, 'one node per project type' and 'project type = in the identifier map' would disagree)",
		"constructors and calls without a function name (creation) are not generated: whether they are methods / method calls in the statement's sense is open",
		"no type's qualified name is the package, or an enclosing package, of another type (a package cannot hold a type and a subpackage of the same name, JLS 7.1); the generator appends '_' to such a type name. Observed otherwise: the type is drawn as a cluster only, like the dotted-prefix package of the merged graphs")
	pbt.Register("graph", 3000, 30000, gen, check)
	pbt.Register("cli", 120, 600, genCLI, checkCLI)
}

func TestProp(t *testing.T)   { pbt.Main(t) }
func TestReplay(t *testing.T) { pbt.Replay(t) }
